import Tickit.Proof.RectSet
import Tickit.Proof.RectSetInv
import Tickit.Proof.RectSetTerm
import Tickit.Gen.Leaf
/-
  C05 — A rectangle set is exactly the union of what was added minus what was subtracted.

  `RectSet.add`, `subtract`, `contains` take a `fuel` (the C loops restart and recurse on data they
  rewrite); every correctness theorem holds for *every* fuel: "whenever the function returns, …", and the
  termination theorems at the end show that on arrays that have the invariant they do return.  Cells range
  over all of `Int × Int`; histories over all finite lists of operations.

  Clauses of the property and where they are proved:
    exact region after any history ............ `history_exact_full` (with `history_terminates`)
    non-empty, pairwise disjoint, sorted ...... `Inv` in `history_exact_full` (`inv_def` spells it out)
    contains / intersects exact ............... `contains_iff_full`, `intersects_iff`, `history_queries`
    single operations ......................... `add_spec`+`add_inv`, `subtract_spec`, `translate_spec`+`translate_inv`, `clear_spec`
-/
namespace Tickit.Props.C05
open Tickit Tickit.Rect Tickit.RectSet

/-- Every rectangle mentioned by an operation is non-empty (the property's "arbitrary non-empty rectangles"). -/
def Op.Valid : Op → Prop
  | .add r => r.Nonempty
  | .sub r => r.Nonempty
  | _ => True

/-! ### single operations -/

/-- `add` covers exactly the old region plus the new rectangle, and stores only non-empty rectangles. -/
theorem add_spec (fuel : Nat) (s s' : List Rect) (r : Rect)
    (h : RectSet.add fuel s r = some s') (hr : r.Nonempty) (hs : ∀ x ∈ s, x.Nonempty) :
    (∀ x ∈ s', x.Nonempty) ∧ ∀ l c, Covered s' l c ↔ (Covered s l c ∨ r.Mem l c) :=
  add_region h hr hs

/-- `subtract`, whatever the shape of the array: nothing outside the hole is lost, nothing is invented,
    stored rectangles stay non-empty.  (No cell of the hole stays covered: `subtract_removes` below, which
    needs the invariant.) -/
theorem subtract_bounds (fuel : Nat) (s s' : List Rect) (r : Rect)
    (h : RectSet.subtract fuel s r = some s') (hr : r.Nonempty) (hs : ∀ x ∈ s, x.Nonempty) :
    (∀ x ∈ s', x.Nonempty) ∧
    (∀ l c, Covered s' l c → Covered s l c) ∧
    (∀ l c, Covered s l c → ¬ r.Mem l c → Covered s' l c) := by
  rw [subtract_of_nonempty fuel s r hr] at h
  exact subtractFrom_bounds fuel s r 0 s' h hr hs

theorem translate_spec (s : List Rect) (d k : Int) (hs : ∀ x ∈ s, x.Nonempty) :
    (∀ x ∈ RectSet.translate s d k, x.Nonempty) ∧
    ∀ l c, Covered (RectSet.translate s d k) l c ↔ Covered s (l - d) (c - k) :=
  ⟨nonempty_translate s d k hs, fun l c => covered_translate s d k l c⟩

theorem clear_spec (s : List Rect) : ∀ l c, ¬ Covered (RectSet.clear s) l c :=
  fun l c => covered_nil l c

/-! ### queries -/

/-- `intersects` answers exactly "some cell of the query is covered". -/
theorem intersects_iff (s : List Rect) (q : Rect) (hq : q.Nonempty) (hs : ∀ x ∈ s, x.Nonempty) :
    RectSet.intersects s q = true ↔ ∃ l c, q.Mem l c ∧ Covered s l c :=
  RectSet.intersects_iff s q hq hs

/-- `contains` answering "yes" is always right: every cell of the query is covered. -/
theorem contains_sound (fuel : Nat) (s : List Rect) (q : Rect) (hq : q.Nonempty)
    (h : RectSet.contains fuel s q = some true) : ∀ l c, q.Mem l c → Covered s l c :=
  RectSet.contains_sound fuel s q h hq

/-- `contains` terminates: fuel proportional to the height of the query suffices. -/
theorem contains_terminates (s : List Rect) (q : Rect) :
    ∀ fuel : Nat, 0 < fuel → q.lines < (fuel : Int) → RectSet.contains fuel s q ≠ none := by
  intro fuel
  induction fuel generalizing q with
  | zero => intro h; omega
  | succ n ih =>
    intro _ hlt
    unfold RectSet.contains
    split
    · simp
    · rename_i r _
      split
      · simp
      · split
        · rename_i hcut
          have h1 : (Rect.initBounded r.bottom q.left q.bottom q.right).lines < (n : Int) := by
            unfold Rect.initBounded Rect.bottom at *; simp only; omega
          have h0 : 0 < n := by
            unfold Rect.initBounded Rect.bottom at *; simp only at h1; omega
          have := ih (Rect.initBounded r.bottom q.left q.bottom q.right) h0 h1
          simp only
          split
          · contradiction
          · simp
          · simp
        · simp

/-! ### histories -/

/-- All operations of a history are valid. -/
def Valid (ops : List Op) : Prop := ∀ o ∈ ops, Op.Valid o

/-- Generalised history statement: running `ops` from a state that covers a superset of `reg` ends in a
    state covering a superset of the region `ops` makes out of `reg` — **no cell is ever lost**. -/
theorem run_nothing_lost (fuel : Nat) : ∀ (ops : List Op) (s s' : List Rect) (reg : Int → Int → Prop),
    runOps fuel s ops = some s' → Valid ops → (∀ x ∈ s, x.Nonempty) →
    (∀ l c, reg l c → Covered s l c) →
    (∀ x ∈ s', x.Nonempty) ∧ ∀ l c, ops.foldl Op.apply reg l c → Covered s' l c := by
  intro ops
  induction ops with
  | nil =>
    intro s s' reg h _ hs hreg
    simp [runOps] at h; subst h
    exact ⟨hs, hreg⟩
  | cons o ops ih =>
    intro s s' reg h hv hs hreg
    have hvo : Op.Valid o := hv o (by simp)
    have hvr : Valid ops := fun x hx => hv x (by simp [hx])
    cases o with
    | add r =>
      simp only [runOps, Option.bind_eq_some_iff] at h
      obtain ⟨s1, h1, h2⟩ := h
      obtain ⟨a1, a2⟩ := add_region h1 hvo hs
      refine ih s1 s' _ h2 hvr a1 ?_
      intro l c hh
      simp only [Op.apply] at hh
      rw [a2 l c]
      rcases hh with hh | hh
      · exact Or.inl (hreg l c hh)
      · exact Or.inr hh
    | sub r =>
      simp only [runOps, Option.bind_eq_some_iff] at h
      obtain ⟨s1, h1, h2⟩ := h
      rw [subtract_of_nonempty fuel s r hvo] at h1
      obtain ⟨a1, _, a3⟩ := subtractFrom_bounds fuel s r 0 s1 h1 hvo hs
      refine ih s1 s' _ h2 hvr a1 ?_
      intro l c hh
      simp only [Op.apply] at hh
      exact a3 l c (hreg l c hh.1) hh.2
    | xl d k =>
      simp only [runOps] at h
      refine ih _ s' _ h hvr (nonempty_translate s d k hs) ?_
      intro l c hh
      simp only [Op.apply] at hh
      exact (covered_translate s d k l c).2 (hreg _ _ hh)
    | clear =>
      simp only [runOps] at h
      refine ih _ s' _ h hvr (by simp [RectSet.clear]) ?_
      intro l c hh
      simp only [Op.apply] at hh

/-- **Nothing is lost**: after any history of add/subtract/translate/clear from the empty set, every
    cell of the reference region is covered by the stored rectangles, which are all non-empty. -/
theorem history_nothing_lost (fuel : Nat) (ops : List Op) (s : List Rect)
    (h : runOps fuel [] ops = some s) (hv : Valid ops) :
    (∀ x ∈ s, x.Nonempty) ∧ ∀ l c, refRegion ops l c → Covered s l c :=
  run_nothing_lost fuel ops [] s (fun _ _ => False) h hv (by simp) (by intro l c h; exact h.elim)

/-- A history without subtraction. -/
def NoSub (ops : List Op) : Prop := ∀ o ∈ ops, ∀ r, o ≠ .sub r

theorem run_exact_noSub (fuel : Nat) : ∀ (ops : List Op) (s s' : List Rect) (reg : Int → Int → Prop),
    runOps fuel s ops = some s' → Valid ops → NoSub ops → (∀ x ∈ s, x.Nonempty) →
    (∀ l c, Covered s l c ↔ reg l c) →
    ∀ l c, Covered s' l c ↔ ops.foldl Op.apply reg l c := by
  intro ops
  induction ops with
  | nil =>
    intro s s' reg h _ _ _ hreg
    simp [runOps] at h; subst h
    exact hreg
  | cons o ops ih =>
    intro s s' reg h hv hn hs hreg
    have hvo : Op.Valid o := hv o (by simp)
    have hvr : Valid ops := fun x hx => hv x (by simp [hx])
    have hnr : NoSub ops := fun x hx => hn x (by simp [hx])
    cases o with
    | add r =>
      simp only [runOps, Option.bind_eq_some_iff] at h
      obtain ⟨s1, h1, h2⟩ := h
      obtain ⟨a1, a2⟩ := add_region h1 hvo hs
      refine ih s1 s' _ h2 hvr hnr a1 ?_
      intro l c
      simp only [Op.apply]
      rw [a2 l c, hreg l c]
    | sub r => exact absurd rfl (hn (.sub r) (by simp) r)
    | xl d k =>
      simp only [runOps] at h
      refine ih _ s' _ h hvr hnr (nonempty_translate s d k hs) ?_
      intro l c
      simp only [Op.apply]
      rw [covered_translate, hreg]
    | clear =>
      simp only [runOps] at h
      refine ih _ s' _ h hvr hnr (by simp [RectSet.clear]) ?_
      intro l c
      simp only [Op.apply, RectSet.clear]
      exact ⟨fun h => (covered_nil l c h).elim, fun h => h.elim⟩

/-- **Exactness without subtract** (does not need the invariant): for histories of add/translate/clear the
    covered cells are exactly the reference region.  The full statement is `history_exact_full` below. -/
theorem history_exact_partial (fuel : Nat) (ops : List Op) (s : List Rect)
    (h : runOps fuel [] ops = some s) (hv : Valid ops) (hn : NoSub ops) :
    ∀ l c, Covered s l c ↔ refRegion ops l c :=
  run_exact_noSub fuel ops [] s (fun _ _ => False) h hv hn (by simp)
    (fun l c => ⟨fun h => (covered_nil l c h).elim, fun h => h.elim⟩)

/-! ### the invariant of the stored array

`RectSet.Inv s` (defined in `Proof/RectSetInv.lean`, restated by `inv_def`): members non-empty, pairwise
disjoint, strictly sorted by (top, left), no two members share a vertical edge segment of positive length
(`NoVEdge`), and no two members with equal columns are vertically adjacent (`NoStack`).  The last clause
is needed: without it `subtract` is wrong (`subtract_needs_noStack`), and `add` maintains it. -/

theorem inv_def (s : List Rect) :
    Inv s ↔ ((∀ x ∈ s, x.Nonempty) ∧ s.Pairwise Rect.Disjoint ∧
      s.Pairwise (fun a b => a.top < b.top ∨ (a.top = b.top ∧ a.left < b.left)) ∧
      (∀ a ∈ s, ∀ b ∈ s, a ≠ b →
        ¬ ((a.right = b.left ∨ b.right = a.left) ∧ a.top < b.bottom ∧ b.top < a.bottom)) ∧
      (∀ a ∈ s, ∀ b ∈ s, ¬ (a.left = b.left ∧ a.right = b.right ∧ a.bottom = b.top))) := Iff.rfl

/-- `add` preserves the invariant, for every fuel. -/
theorem add_inv (fuel : Nat) (s s' : List Rect) (r : Rect)
    (h : RectSet.add fuel s r = some s') (hr : r.Nonempty) (hs : Inv s) : Inv s' :=
  (inv_iff s').2 (add_invS h hr ((inv_iff s).1 hs))

theorem addMany_inv (fuel : Nat) (s ps s' : List Rect)
    (h : RectSet.addMany fuel s ps = some s') (hps : ∀ p ∈ ps, p.Nonempty) (hs : Inv s) : Inv s' :=
  (inv_iff s').2 (addMany_invS h hps ((inv_iff s).1 hs))

theorem translate_inv (s : List Rect) (d k : Int) (hs : Inv s) : Inv (RectSet.translate s d k) :=
  (inv_iff _).2 (invS_translate ((inv_iff s).1 hs) d k)

theorem clear_inv (s : List Rect) : Inv (RectSet.clear s) := (inv_iff _).2 invS_nil

/-- **`contains` is exact**: it answers "yes" exactly when every cell of the query is covered. -/
theorem contains_iff_full (fuel : Nat) (s : List Rect) (q : Rect) (b : Bool) (hs : Inv s) (hq : q.Nonempty)
    (h : RectSet.contains fuel s q = some b) : (b = true ↔ ∀ l c, q.Mem l c → Covered s l c) := by
  cases b with
  | true => exact ⟨fun _ => RectSet.contains_sound fuel s q h hq, fun _ => rfl⟩
  | false =>
    obtain ⟨l, c, h1, h2⟩ := contains_complete fuel s q h ((inv_iff s).1 hs) hq
    exact ⟨fun hh => Bool.noConfusion hh, fun hh => absurd (hh l c h1) h2⟩

/-- Without `NoVEdge` the shortcut of `contains` is wrong (DESIGN §7): this array is disjoint, sorted and
    non-empty and covers the query, yet the answer is "no". -/
theorem contains_needs_noVEdge :
    RectSet.contains 10 [⟨0, 5, 6, 5⟩, ⟨2, 0, 4, 5⟩] ⟨2, 0, 2, 10⟩ = some false := by decide +kernel

/-- Without `NoStack` the index loop of `subtract` skips a member: this array is disjoint, sorted,
    non-empty and has no shared vertical edge, yet `(3,3,1,1)` survives the subtraction of `(2,2,2,2)`.
    (Not reachable through the API: `add` never leaves two stackable members, see `add_inv`.) -/
theorem subtract_needs_noStack :
    RectSet.subtract 100 [⟨0, 0, 1, 2⟩, ⟨1, 0, 1, 2⟩, ⟨2, 0, 1, 4⟩, ⟨3, 3, 1, 1⟩] ⟨2, 2, 2, 2⟩ =
      some [⟨0, 0, 3, 2⟩, ⟨3, 3, 1, 1⟩] := by decide +kernel

/-! ### subtract, and the full history statement -/

/-- **`subtract` is exact and preserves the invariant**: the index loop of `tickit_rectset_subtract` visits
    every member that meets the hole, although re-adding the remains rearranges the array under it. -/
theorem subtract_removes (fuel : Nat) (s s' : List Rect) (r : Rect) (hs : Inv s) (hr : r.Nonempty)
    (h : RectSet.subtract fuel s r = some s') : Inv s' ∧ ∀ l c, Covered s' l c → ¬ r.Mem l c := by
  rw [subtract_of_nonempty fuel s r hr] at h
  obtain ⟨h1, h2⟩ := subtractFrom_clean fuel s r 0 s' h ((inv_iff s).1 hs) hr
    (by intro j m hj; omega)
  refine ⟨(inv_iff s').2 h1, ?_⟩
  rintro l c ⟨m, hm, hmem⟩ hrm
  have := h2 m hm
  rs_omega

theorem subtract_spec (fuel : Nat) (s s' : List Rect) (r : Rect) (hs : Inv s) (hr : r.Nonempty)
    (h : RectSet.subtract fuel s r = some s') :
    Inv s' ∧ ∀ l c, Covered s' l c ↔ (Covered s l c ∧ ¬ r.Mem l c) := by
  obtain ⟨h1, h2⟩ := subtract_removes fuel s s' r hs hr h
  obtain ⟨_, h3, h4⟩ := subtract_bounds fuel s s' r h hr hs.1
  exact ⟨h1, fun l c => ⟨fun hc => ⟨h3 l c hc, h2 l c hc⟩, fun hc => h4 l c hc.1 hc.2⟩⟩

theorem run_exact (fuel : Nat) : ∀ (ops : List Op) (s s' : List Rect) (reg : Int → Int → Prop),
    runOps fuel s ops = some s' → Valid ops → Inv s → (∀ l c, Covered s l c ↔ reg l c) →
    Inv s' ∧ ∀ l c, Covered s' l c ↔ ops.foldl Op.apply reg l c := by
  intro ops
  induction ops with
  | nil =>
    intro s s' reg h _ hs hreg
    simp [runOps] at h; subst h
    exact ⟨hs, hreg⟩
  | cons o ops ih =>
    intro s s' reg h hv hs hreg
    have hvo : Op.Valid o := hv o (by simp)
    have hvr : Valid ops := fun x hx => hv x (by simp [hx])
    cases o with
    | add r =>
      simp only [runOps, Option.bind_eq_some_iff] at h
      obtain ⟨s1, h1, h2⟩ := h
      obtain ⟨_, a2⟩ := add_region h1 hvo hs.1
      refine ih s1 s' _ h2 hvr (add_inv fuel s s1 r h1 hvo hs) ?_
      intro l c
      simp only [Op.apply]
      rw [a2 l c, hreg l c]
    | sub r =>
      simp only [runOps, Option.bind_eq_some_iff] at h
      obtain ⟨s1, h1, h2⟩ := h
      obtain ⟨a1, a2⟩ := subtract_spec fuel s s1 r hs hvo h1
      refine ih s1 s' _ h2 hvr a1 ?_
      intro l c
      simp only [Op.apply]
      rw [a2 l c, hreg l c]
    | xl d k =>
      simp only [runOps] at h
      refine ih _ s' _ h hvr (translate_inv s d k hs) ?_
      intro l c
      simp only [Op.apply]
      rw [covered_translate, hreg]
    | clear =>
      simp only [runOps] at h
      refine ih _ s' _ h hvr (clear_inv s) ?_
      intro l c
      simp only [Op.apply, RectSet.clear]
      exact ⟨fun h => (covered_nil l c h).elim, fun h => h.elim⟩

/-- **The property**: after any history of add/subtract/translate/clear from the empty set, the stored
    rectangles are non-empty, pairwise disjoint, sorted by top then left (`Inv`), and cover exactly the
    reference region. -/
theorem history_exact_full (fuel : Nat) (ops : List Op) (s : List Rect)
    (h : runOps fuel [] ops = some s) (hv : Valid ops) :
    Inv s ∧ ∀ l c, Covered s l c ↔ refRegion ops l c :=
  run_exact fuel ops [] s (fun _ _ => False) h hv (clear_inv [])
    (fun l c => ⟨fun h => (covered_nil l c h).elim, fun h => h.elim⟩)

/-- The queries after any history: exact answers. -/
theorem history_queries (fuel : Nat) (ops : List Op) (s : List Rect) (q : Rect)
    (h : runOps fuel [] ops = some s) (hv : Valid ops) (hq : q.Nonempty) :
    (RectSet.intersects s q = true ↔ ∃ l c, q.Mem l c ∧ refRegion ops l c) ∧
    ∀ fuel' b, RectSet.contains fuel' s q = some b → (b = true ↔ ∀ l c, q.Mem l c → refRegion ops l c) := by
  obtain ⟨hinv, hreg⟩ := history_exact_full fuel ops s h hv
  refine ⟨?_, ?_⟩
  · rw [intersects_iff s q hq hinv.1]
    constructor
    · rintro ⟨l, c, h1, h2⟩; exact ⟨l, c, h1, (hreg l c).1 h2⟩
    · rintro ⟨l, c, h1, h2⟩; exact ⟨l, c, h1, (hreg l c).2 h2⟩
  · intro fuel' b hb
    rw [contains_iff_full fuel' s q b hinv hq hb]
    constructor
    · intro hh l c hm; exact (hreg l c).1 (hh l c hm)
    · intro hh l c hm; exact (hreg l c).2 (hh l c hm)

/-! ### termination: the fuel is only a proof device

On arrays that have the invariant, `add` and `subtract` return for every sufficiently large fuel (and, by
`add_mono`/`subtractFrom_mono`, with the same result for every larger fuel); so does every valid history.
The measure of a call of `add` is (cells of the rectangle already covered, unit vertical edges of the
rectangle with a covered cell on the outside, length of the array), lexicographically. -/

theorem add_terminates (s : List Rect) (r : Rect) (hs : Inv s) (hr : r.Nonempty) :
    ∃ N, ∀ fuel, N ≤ fuel → RectSet.add fuel s r ≠ none := by
  obtain ⟨N, hN⟩ := RectSet.add_terminates ((inv_iff s).1 hs) hr
  exact ⟨N, fun fuel hf => by obtain ⟨s', h⟩ := hN fuel hf; simp [h]⟩

theorem subtract_terminates (s : List Rect) (r : Rect) (hs : Inv s) (hr : r.Nonempty) :
    ∃ N, ∀ fuel, N ≤ fuel → RectSet.subtract fuel s r ≠ none := by
  obtain ⟨N, hN⟩ := RectSet.subtract_terminates ((inv_iff s).1 hs) hr
  exact ⟨N, fun fuel hf => by obtain ⟨s', h⟩ := hN fuel hf; simp [h]⟩

theorem run_terminates : ∀ (ops : List Op) (s : List Rect), Inv s → Valid ops →
    ∃ N, ∀ fuel, N ≤ fuel → ∃ s', runOps fuel s ops = some s' := by
  intro ops
  induction ops with
  | nil => intro s _ _; exact ⟨0, fun _ _ => ⟨s, rfl⟩⟩
  | cons o ops ih =>
    intro s hs hv
    have hvo : Op.Valid o := hv o (by simp)
    have hvr : Valid ops := fun x hx => hv x (by simp [hx])
    cases o with
    | add r =>
      obtain ⟨N1, hN1⟩ := RectSet.add_terminates ((inv_iff s).1 hs) hvo
      obtain ⟨s1, h1⟩ := hN1 N1 (Nat.le_refl _)
      obtain ⟨N2, hN2⟩ := ih s1 (add_inv N1 s s1 r h1 hvo hs) hvr
      refine ⟨max N1 N2, fun fuel hf => ?_⟩
      obtain ⟨s', hs'⟩ := hN2 fuel (by omega)
      exact ⟨s', by simp only [runOps, add_mono h1 (by omega : N1 ≤ fuel), Option.bind_some]; exact hs'⟩
    | sub r =>
      obtain ⟨N1, hN1⟩ := RectSet.subtract_terminates ((inv_iff s).1 hs) hvo
      obtain ⟨s1, h1⟩ := hN1 N1 (Nat.le_refl _)
      obtain ⟨N2, hN2⟩ := ih s1 (subtract_removes N1 s s1 r hs hvo h1).1 hvr
      refine ⟨max N1 N2, fun fuel hf => ?_⟩
      obtain ⟨s', hs'⟩ := hN2 fuel (by omega)
      have h1' : RectSet.subtract fuel s r = some s1 := by
        rw [subtract_of_nonempty _ _ _ hvo] at h1 ⊢
        exact subtractFrom_mono h1 (by omega)
      exact ⟨s', by simp only [runOps, h1', Option.bind_some]; exact hs'⟩
    | xl d k =>
      obtain ⟨N, hN⟩ := ih _ (translate_inv s d k hs) hvr
      exact ⟨N, fun fuel hf => by simpa only [runOps] using hN fuel hf⟩
    | clear =>
      obtain ⟨N, hN⟩ := ih _ (clear_inv s) hvr
      exact ⟨N, fun fuel hf => by simpa only [runOps] using hN fuel hf⟩

/-- **Every valid history runs to completion** (for every sufficiently large fuel), and then
    `history_exact_full` and `history_queries` apply to its result. -/
theorem history_terminates (ops : List Op) (hv : Valid ops) :
    ∃ N, ∀ fuel, N ≤ fuel → ∃ s, runOps fuel [] ops = some s ∧
      Inv s ∧ ∀ l c, Covered s l c ↔ refRegion ops l c := by
  obtain ⟨N, hN⟩ := run_terminates ops [] (clear_inv []) hv
  refine ⟨N, fun fuel hf => ?_⟩
  obtain ⟨s, hs⟩ := hN fuel hf
  exact ⟨s, hs, history_exact_full fuel ops s hs hv⟩

/-! ### the generated leaf function is the model's -/

theorem leaf_cmprect : Gen.Leaf.cmprect = RectSet.cmprect := by
  funext a b
  unfold Gen.Leaf.cmprect RectSet.cmprect
  simp only [decide_eq_true_eq]

/-! ### non-vacuity -/

/-- The history that lost cells before the repair (fix: commit in /repo): the model, like the repaired
    code, now keeps every cell; all hypotheses of the theorems above are met by it. -/
example :
    runOps 100 [] [.add ⟨0, 0, 1, 2⟩, .add ⟨0, 4, 3, 2⟩, .add ⟨0, 2, 1, 2⟩] =
      some [⟨0, 0, 1, 6⟩, ⟨1, 4, 2, 2⟩] := by decide +kernel

example : Valid [.add ⟨0, 0, 1, 2⟩, .add ⟨0, 4, 3, 2⟩, .sub ⟨0, 1, 2, 4⟩, .xl 1 1] := by
  intro o ho; simp at ho; rcases ho with rfl | rfl | rfl | rfl <;> simp [Op.Valid, Rect.Nonempty]

example : runOps 100 [] [.add ⟨0, 0, 3, 3⟩, .sub ⟨1, 1, 1, 1⟩, .xl 1 1] =
    some [⟨1, 1, 1, 3⟩, ⟨2, 1, 1, 1⟩, ⟨2, 3, 1, 1⟩, ⟨3, 1, 1, 3⟩] := by decide +kernel

example : RectSet.contains 10 [⟨0, 0, 1, 6⟩, ⟨1, 4, 2, 2⟩] ⟨0, 4, 3, 2⟩ = some true := by decide +kernel

/-- `subtract` on an array that has the invariant, in a case where the remains of the split member merge
    with the member before it (the array is rearranged under the loop index). -/
example : Inv [⟨0, 0, 1, 2⟩, ⟨1, 0, 1, 4⟩, ⟨2, 3, 1, 1⟩] ∧
    RectSet.subtract 100 [⟨0, 0, 1, 2⟩, ⟨1, 0, 1, 4⟩, ⟨2, 3, 1, 1⟩] ⟨1, 2, 2, 2⟩ = some [⟨0, 0, 2, 2⟩] :=
  ⟨(inv_iff _).2 (by decide +kernel), by decide +kernel⟩

/-- Fuel matters and a small amount suffices: the overlapping add below splits into three bands and needs
    five levels of nesting (hypotheses of `add_terminates` met: the array has the invariant). -/
example : Inv [⟨0, 0, 2, 2⟩] ∧ RectSet.add 4 [⟨0, 0, 2, 2⟩] ⟨1, 1, 2, 2⟩ = none ∧
    RectSet.add 5 [⟨0, 0, 2, 2⟩] ⟨1, 1, 2, 2⟩ = some [⟨0, 0, 1, 2⟩, ⟨1, 0, 1, 3⟩, ⟨2, 1, 1, 2⟩] :=
  ⟨(inv_iff _).2 (by decide +kernel), by decide +kernel, by decide +kernel⟩

/-- The invariant holds of a concrete array with touching members, and `contains` answers "no" on it. -/
example : Inv [⟨0, 0, 1, 6⟩, ⟨1, 4, 2, 2⟩] ∧
    RectSet.contains 10 [⟨0, 0, 1, 6⟩, ⟨1, 4, 2, 2⟩] ⟨0, 3, 2, 2⟩ = some false :=
  ⟨(inv_iff _).2 (by decide +kernel), by decide +kernel⟩

end Tickit.Props.C05
