import Tickit.Model.RectSet
namespace Tickit.Props.C05
end Tickit.Props.C05
