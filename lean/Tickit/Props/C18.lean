import Tickit.Model.EvLoop
namespace Tickit.Props.C18
end Tickit.Props.C18
