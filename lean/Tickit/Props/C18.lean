import Tickit.Proof.EvLoopPoll
import Tickit.Proof.EvLoopMulti
import Tickit.Gen.EvLoop
import Tickit.Model.EvLoopFb
import Tickit.Proof.EvLoopFbEnd
import Tickit.Proof.EvLoopTerm
/-
  C18 — A delivered signal or ready descriptor always reaches its watchers.   (claimed: partial)

  Hypothesis `OsPpoll` (trusted base, not proved): the kernel keeps a blocked signal pending; `ppoll`
  reports ready descriptors before it looks at signals; otherwise it delivers every pending signal
  under the mask it is given and fails with EINTR; `raise` on an unblocked signal runs the handler or
  the default action.  In the model this is `raiseSig` and `ppoll`; in the harness it is the real
  kernel (raise(), sigprocmask, a zero-timeout ppoll with the loop's mask) plus scripted readiness.

  Proved (all states, all behaviour tables of the callbacks, all fuel):
    `wait_interrupted_records_signals`   an interrupted wait leaves errno = EINTR and every pending signal recorded;
    `signal_dispatch_not_suppressed`     repaired evloop_run: an interrupted wait is followed by dispatch_signals
                                          whatever the timer / deferred callbacks did (to errno or otherwise);
    `signal_dispatch_depends_on_errno`   shipped: it is followed by dispatch iff the callbacks left errno = EINTR;
    `signal_reaches_watchers`            the walk of tickit_evloop_invoke_sigwatches skips nobody: every watch in the
                                          list at its start and not cancelled meanwhile is visited, whatever callbacks
                                          register or cancel; `signal_watchers_in_order`: in list (registration) order;
    `io_exact_conditions_*`              the entry's revents are translated bit for bit, the kernel's report is
                                          stored exactly, a slot handed out by the repaired evloop_io reports nothing;
    `cancelled_not_invoked`              a cancelled entry is skipped.
    `signal_reaches_watchers_end_to_end` one repaired iteration, from the wait to the callback log (uses
                                          `signal_bookkeeping_invariant`, `dispatch_reaches_watchers`).
    `io_exact_conditions`                one repaired iteration, from the wait to the io callbacks.
    Several toplevel instances in one process (Model/EvLoopMulti.lean; `signal_observer` of evloop-default.c):
    `observer_invariant`, `observer_moves_only_on_build_and_destroy`, `destroying_another_instance_keeps_observer`,
    `destroying_the_observer_clears_it`, `instance_built_observes_iff_nobody_does`, `observer_instance_records_signals`
    (the end-to-end theorem applies to every iteration of the observer instance, whatever was done to the others).
  Defects of the tree as first shipped: the `*_counterexample` theorems (corpus/C18); all are repaired in /repo.
  No statement of the property is left open; `OsPpoll` is assumed.  The default loop serves ONE toplevel instance with signals (its own
  TODO): `second_instance_*_counterexample` (known findings).

  The self-pipe configuration (event hooks without signal members: tickit.c's sigaction + self-pipe fallback;
  Model/EvLoopFb.lean), for every history of one instance, all behaviour tables, any variant of the rest of the source:
    `fb_signal_bookkeeping_invariant`     the pipe watch and its poll entry are intact in every reachable state, nothing a
                                          callback can reach names it, a recorded signal has its wake-up byte in the pipe;
    `fb_signal_reaches_watchers`          end to end: a signal recorded by the handler while a watch is linked leads to that
                                          watch's callback in the very next iteration, unless the watch is cancelled meanwhile
                                          (`fb_signal_reaches_watchers_iteration`: the same for one `evloop_run` iteration);
    `fb_handler_records_and_wakes`, `fb_dispatch_starts_from_empty_pending` (all states), the defect
    `fb_self_cancel_counterexample` / `fb_self_cancel_repaired`, evaluated schedules `fb_arrival_during_dispatch_*`.
  The walk of the repaired `tickit_evloop_invoke_sigwatches` is one loop for both configurations (`sigSnapLoopG`); its
  theorems (`sigsnapG_*`, Proof/EvLoopSig.lean, Proof/EvLoopLog.lean) are proved once.
-/
namespace Tickit.Props.C18
open Tickit Tickit.EvLoop

/-! ### ties to the source (regenerated on every run) -/

theorem gen_io_conditions : Gen.EvLoop.TICKIT_IO_IN = IO_IN ∧ Gen.EvLoop.TICKIT_IO_OUT = IO_OUT ∧
    Gen.EvLoop.TICKIT_IO_HUP = IO_HUP ∧ Gen.EvLoop.TICKIT_IO_ERR = IO_ERR ∧ Gen.EvLoop.TICKIT_IO_INVAL = IO_INVAL := by decide

/-- `if(revents & POLLx) cond |= TICKIT_IO_y;` — the five lines of evloop_run, as the model has them. -/
theorem gen_revents_table : Gen.EvLoop.reventsToCond =
    [(POLLIN, IO_IN), (POLLOUT, IO_OUT), (POLLHUP, IO_HUP), (POLLERR, IO_ERR), (POLLNVAL, IO_INVAL)] := by decide

/-- `if(cond & TICKIT_IO_y) events |= POLLx;` — the three lines of evloop_io. -/
theorem gen_events_table : Gen.EvLoop.condToEvents = [(IO_IN, POLLIN), (IO_OUT, POLLOUT), (IO_HUP, POLLHUP)] := by decide

theorem gen_signal_call_flags : Gen.EvLoop.sigCallFlags = EV_FIRE := by decide

theorem gen_run_flags : Gen.EvLoop.TICKIT_RUN_ONCE = 1 ∧ Gen.EvLoop.TICKIT_RUN_NOHANG = 2 ∧ Gen.EvLoop.TICKIT_RUN_NOSETUP = 4 := by decide

/-! ### signals -/

/-- `raise` while the loop keeps the signal blocked: it stays pending in the kernel (hypothesis OsPpoll, as modelled). -/
theorem raise_while_blocked_stays_pending (st : St) (s : Int) (hok : st.isOk = true) (hb : st.blocked.contains s = true) :
    s ∈ (raiseSig st s).kpending ∧ (raiseSig st s).pendingSig = st.pendingSig := by
  unfold raiseSig
  simp only [hok, Bool.not_true, Bool.false_eq_true, if_false, hb, if_true, and_true]
  unfold setInsert
  split
  · rename_i h; simpa using h
  · exact List.mem_cons_self

/-- An interrupted wait: `errno` is EINTR, nothing stays pending in the kernel, and every signal that was
    pending — raised before the iteration, from a callback of an earlier one, or inside the wait — has
    been recorded by the loop's handler. -/
theorem wait_interrupted_records_signals (st : St) (t : Option Int) (ho : st.observer = .self) (h : (ppoll st t).2 = none) :
    (ppoll st t).1.errno = EINTR ∧ (ppoll st t).1.kpending = [] ∧
    ∀ s ∈ (pollRaise (pollScan st)).kpending, s ∈ (ppoll st t).1.pendingSig :=
  ppoll_eintr st t ho h

example : (ppoll (runOps .shipped [.act (.signal 0 23 0), .act (.raise 23)]) (some 0)).2 = none := by decide +kernel

/-- Repaired `evloop_run` (errno read right after the wait): an interrupted wait is always followed by
    `dispatch_signals`, whatever the timer and deferred callbacks of the iteration did. -/
theorem signal_dispatch_not_suppressed (fuel : Nat) (st : St) (nohang : Bool) (hs : st.cfg.errnoSaved = true)
    (hok0 : st.isOk = true) (hok1 : (nextTimerMsec st).1.isOk = true)
    (hok2 : (ppoll (nextTimerMsec st).1 (tickTimeout nohang (nextTimerMsec st).2)).1.isOk = true)
    (hint : (ppoll (nextTimerMsec st).1 (tickTimeout nohang (nextTimerMsec st).2)).2 = none)
    (hok3 : (invokeTimers fuel (ppoll (nextTimerMsec st).1 (tickTimeout nohang (nextTimerMsec st).2)).1).isOk = true) :
    tick fuel st nohang =
      dispatchSignals fuel (invokeTimers fuel (ppoll (nextTimerMsec st).1 (tickTimeout nohang (nextTimerMsec st).2)).1) :=
  tick_eintr_dispatches fuel st nohang hs hok0 hok1 hok2 hint hok3

/-- As shipped the decision is taken on whatever the callbacks left in `errno`. -/
theorem signal_dispatch_depends_on_errno (fuel : Nat) (st : St) (hs : st.cfg.errnoSaved = false)
    (hok : (invokeTimers fuel st).isOk = true) :
    tickAfterPoll fuel st none =
      if (invokeTimers fuel st).errno = EINTR then dispatchSignals fuel (invokeTimers fuel st) else invokeTimers fuel st :=
  tickAfterPoll_eintr_shipped fuel st hs hok

/-! ### every watcher, in list order -/

/-- In every reachable state, under any variant of the source, the list of signal watches holds
    distinct allocated watches. -/
theorem signal_watch_list_invariant (cfg : Config) (ops : List Op) : SInv (runOps cfg ops) := sinv_runOps cfg ops

/-- Whatever a signal callback does (register, cancel, raise, set errno, …; `on_sigchld` included), only
    fresh watches enter the list, a watch leaves it only by being freed, and the others keep their order. -/
theorem signal_callback_respects_list (fuel : Nat) (st : St) (a : Nat) (s : Int) : SigStep st (sigCb fuel st a s) :=
  step_sigCb fuel st a s

/-- `tickit_evloop_invoke_sigwatches` skips nobody: a walk from the head of the list that returns normally
    has visited — i.e. has evaluated `if(this->signal.signum == signum) (*this->fn)(…)` for — every watch
    that was in the list when it started and is still in the list when it returns (was not cancelled
    meanwhile), whatever the callbacks it ran registered or cancelled. -/
theorem signal_reaches_watchers (fuel : Nat) (st : St) (s : Int) (i : SInv st)
    (hok : (sigwatchLoopT fuel st s st.signals.head?).1.status = .ok) :
    ∀ b ∈ st.signals, b ∈ (sigwatchLoopT fuel st s st.signals.head?).1.signals →
      b ∈ (sigwatchLoopT fuel st s st.signals.head?).2 := by
  intro b hb hfin
  apply sigwalk_complete fuel st s st.signals.head? i hok b hfin
  cases hl : st.signals with
  | nil => rw [hl] at hb; cases hb
  | cons h t =>
    refine ⟨h, rfl, List.mem_cons_self, ?_⟩
    rw [hl] at hb
    simp only [List.mem_cons] at hb
    rw [aft_cons_self]
    exact hb

/-- … and in list order (registration order, BIND_FIRST registrations first): of two watches of the
    original list the one visited first is the one that stood first. -/
theorem signal_watchers_in_order (fuel : Nat) (st : St) (s : Int) (i : SInv st) :
    (sigwatchLoopT fuel st s st.signals.head?).2.Pairwise
      (fun x y => x ∈ st.signals → y ∈ st.signals → y ∈ aft x st.signals) :=
  (sigwalk_ordered fuel st s st.signals.head? i (fun a ha => List.mem_of_mem_head? ha)).2.2

example : (sigwatchLoopT 100 (runOps .repaired [.beh ⟨0, 0, [.cancel 1, .signal 3 23 0]⟩, .act (.signal 0 23 0),
      .act (.signal 1 23 0), .act (.signal 2 23 1)]) 23 (some 4)).2 = [4, 1, 2, 5] := by decide +kernel

/-- The repaired walk (a snapshot of the list, entries checked with `watch_is_linked`): every watch of the
    snapshot that is still in the list when the walk returns normally has been visited … -/
theorem signal_reaches_watchers_repaired (fuel : Nat) (st : St) (s : Int) (i : SInv st)
    (hok : (sigSnapLoopT fuel st s st.signals).1.status = .ok) :
    ∀ b ∈ st.signals, b ∈ (sigSnapLoopT fuel st s st.signals).1.signals → b ∈ (sigSnapLoopT fuel st s st.signals).2 :=
  fun b hb hfin => sigsnap_complete fuel s st.signals st i hok b hb (i.alloc b hb) hfin

/-- … and the visited watches are a sub-sequence of the list as it was when the walk began (registration
    order, BIND_FIRST registrations first). -/
theorem signal_watchers_in_order_repaired (fuel : Nat) (st : St) (s : Int) :
    (sigSnapLoopT fuel st s st.signals).2.Sublist st.signals := sigsnap_sublist fuel s st.signals st

/-- On the callback log: every harness watch of signal `s` that was in the list when the walk (as shipped)
    started and is still in the list when it returns normally has its FIRE entry in the log, whatever the
    callbacks did in between. -/
theorem signal_reaches_watchers_logged (fuel : Nat) (st : St) (s : Int) (i : SInv st)
    (hok : (sigwatchLoopT fuel st s st.signals.head?).1.status = .ok) :
    ∀ b ∈ st.signals, b ∈ (sigwatchLoopT fuel st s st.signals.head?).1.signals →
      (st.getW b).signum = s → (st.getW b).slot ≥ 0 →
      Ev.cb (st.getW b).slot EV_FIRE .none ∈ (sigwatchLoopT fuel st s st.signals.head?).1.log := by
  intro b hb hfin hsig hslot
  apply sigwalk_logged fuel st s st.signals.head? i hok b hfin _ hsig hslot
  cases hl : st.signals with
  | nil => rw [hl] at hb; cases hb
  | cons h t =>
    refine ⟨h, rfl, List.mem_cons_self, ?_⟩
    rw [hl] at hb
    simp only [List.mem_cons] at hb
    rw [aft_cons_self]
    exact hb

/-- The same for the repaired walk. -/
theorem signal_reaches_watchers_logged_repaired (fuel : Nat) (st : St) (s : Int) (i : SInv st)
    (hok : (sigSnapLoopT fuel st s st.signals).1.status = .ok) :
    ∀ b ∈ st.signals, b ∈ (sigSnapLoopT fuel st s st.signals).1.signals →
      (st.getW b).signum = s → (st.getW b).slot ≥ 0 →
      Ev.cb (st.getW b).slot EV_FIRE .none ∈ (sigSnapLoopT fuel st s st.signals).1.log :=
  fun b hb hfin hsig hslot => sigsnap_logged fuel s st.signals st i hok b hb (i.alloc b hb) hfin hsig hslot

/-! ### end to end: from the wait to the callback log -/

/-- In every reachable state whose status is ok, under any variant of the source, the loop's `watched_signals`
    and `signums[]` agree with the list of signal watches (every listed watch's number is watched, sits in
    its own slot, and slots are not shared). -/
theorem signal_bookkeeping_invariant (cfg : Config) (ops : List Op) (hok : (runOps cfg ops).status = .ok) :
    KInv (runOps cfg ops) := kinv_runOps cfg ops hok

/-- `dispatch_signals`: for every recorded signal, every harness watch of it that is in the list when the
    dispatch starts and still there when it ends has its FIRE entry in the log — whatever the callbacks of
    this and of the other signals did (either variant of the walk). -/
theorem dispatch_reaches_watchers (fuel : Nat) (st : St) (k : KInv st) (hok : (dispatchSignals fuel st).status = .ok) :
    ∀ s ∈ signalRange, s ∈ st.pendingSig → ∀ b ∈ st.signals, b ∈ (dispatchSignals fuel st).signals →
      (st.getW b).signum = s → (st.getW b).slot ≥ 0 →
      Ev.cb (st.getW b).slot EV_FIRE .none ∈ (dispatchSignals fuel st).log :=
  dispatchSignals_logged fuel st k hok

/-- One iteration under the repaired `evloop_run`, from the wait to the log: every signal that was pending in
    the kernel when the wait looked at signals — raised before the iteration, from a callback of an earlier
    one, or inside the wait — reaches every harness watch of it that is listed after the timers and deferred
    callbacks have run and is not cancelled before the iteration ends: its FIRE entry is in the log of this
    iteration, whatever timers, deferred callbacks and the other signal callbacks did (errno included). -/
theorem signal_reaches_watchers_end_to_end (fuel : Nat) (st : St) (nohang : Bool) (k : KInv st) (hs : st.cfg.errnoSaved = true)
    (ho : st.observer = .self) (hok0 : st.isOk = true) (hok1 : (nextTimerMsec st).1.isOk = true)
    (hok2 : (ppoll (nextTimerMsec st).1 (tickTimeout nohang (nextTimerMsec st).2)).1.isOk = true)
    (hint : (ppoll (nextTimerMsec st).1 (tickTimeout nohang (nextTimerMsec st).2)).2 = none)
    (hok3 : (invokeTimers fuel (ppoll (nextTimerMsec st).1 (tickTimeout nohang (nextTimerMsec st).2)).1).isOk = true)
    (hok : (tick fuel st nohang).status = .ok) :
    ∀ s ∈ signalRange, s ∈ (pollRaise (pollScan (nextTimerMsec st).1)).kpending →
      ∀ b ∈ (invokeTimers fuel (ppoll (nextTimerMsec st).1 (tickTimeout nohang (nextTimerMsec st).2)).1).signals,
        b ∈ (tick fuel st nohang).signals →
        ((invokeTimers fuel (ppoll (nextTimerMsec st).1 (tickTimeout nohang (nextTimerMsec st).2)).1).getW b).signum = s →
        ((invokeTimers fuel (ppoll (nextTimerMsec st).1 (tickTimeout nohang (nextTimerMsec st).2)).1).getW b).slot ≥ 0 →
        Ev.cb ((invokeTimers fuel (ppoll (nextTimerMsec st).1 (tickTimeout nohang (nextTimerMsec st).2)).1).getW b).slot EV_FIRE .none
          ∈ (tick fuel st nohang).log :=
  tick_signal_reaches_logged fuel st nohang k hs ho hok0 hok1 hok2 hint hok3 hok

example : Ev.cb 1 EV_FIRE .none ∈ (runOps .repaired [.beh ⟨0, 0, [.errno 11, .stop]⟩, .act (.signal 1 23 0), .act (.signal 2 10 0),
    .act (.timer 0 0 0), .act (.raise 23), .act (.raise 10), .tick]).log := by decide +kernel

/-! ### several toplevel instances: who observes signals -/

/-- In every reachable world the state operated on sees `signal_observer` as the world has it. -/
theorem observer_invariant (cfg : Config) (ops : List WOp) : (World.run cfg ops).Consistent :=
  World.consistent_run cfg ops

/-- Nothing but building and destroying an instance moves `signal_observer`: switching instances and every
    operation other than `destroy` — iterations and `tickit_run` with whatever their callbacks do — leave it. -/
theorem observer_moves_only_on_build_and_destroy (cfg : Config) (ops : List WOp) (op : WOp)
    (hop : (∃ i, op = .use i) ∨ (∃ o, op = .op o ∧ o ≠ .destroy)) :
    ((World.run cfg ops).step op).observer = (World.run cfg ops).observer :=
  World.observer_step_other (World.consistent_run cfg ops) op hop

/-- Destroying an instance that is not the signal observer leaves the observer in place: the first instance
    keeps receiving its signals when a second, short-lived one goes away. -/
theorem destroying_another_instance_keeps_observer (cfg : Config) (ops : List WOp) (o : Nat)
    (ho : (World.run cfg ops).observer = some o) (hne : o ≠ (World.run cfg ops).cur) :
    ((World.run cfg ops).step (.op .destroy)).observer = some o :=
  World.observer_destroy_other (World.consistent_run cfg ops) o ho hne

/-- Destroying the observer itself clears the pointer (`if(signal_observer == evdata) signal_observer = NULL;`). -/
theorem destroying_the_observer_clears_it (cfg : Config) (ops : List WOp)
    (ho : (World.run cfg ops).observer = some (World.run cfg ops).cur) (ha : (World.run cfg ops).st.alive = true)
    (hok : (destroy { (World.run cfg ops).st with log := [] }).isOk = true) :
    ((World.run cfg ops).step (.op .destroy)).observer = none :=
  World.observer_destroy_self (World.consistent_run cfg ops) ho ha hok

/-- `evloop_init`: an instance built while nobody observes becomes the observer; otherwise the observer stays. -/
theorem instance_built_observes_iff_nobody_does (w : World) (i : Nat) (hok : w.st.isOk = true) (hi : i < NINST)
    (hna : (w.load i).st.alive = false) :
    (w.step (.inst i)).observer = match w.observer with | none => some i | some o => some o :=
  World.observer_build i hok hi hna

/-- Whenever the instance operated on is the observer, the state is one `wait_interrupted_records_signals`
    and `signal_reaches_watchers_end_to_end` speak about (`observer = .self`). -/
theorem observer_instance_records_signals (cfg : Config) (ops : List WOp)
    (ho : (World.run cfg ops).observer = some (World.run cfg ops).cur) : (World.run cfg ops).st.observer = .self := by
  have h := World.consistent_run cfg ops
  unfold World.Consistent at h
  rw [h, ho]; unfold relObserver; simp only [if_true]

def wact (a : Act) : WOp := .op (.act a)

/-- A second instance is built and destroyed; the first one's watcher still gets its signal. -/
example : (World.run .repaired [wact (.signal 0 10 0), .inst 1, .op .destroy, .use 0]).observer = some 0 ∧
    Ev.cb 0 EV_FIRE .none ∈ (World.run .repaired [wact (.signal 0 10 0), .inst 1, .op .destroy, .use 0,
      wact (.raise 10), .op .tick]).st.log := by decide +kernel

/-- The observer is destroyed while another instance lives on; the next instance built takes over. -/
example : (World.run .repaired [.inst 1, .use 0, .op .destroy]).observer = none ∧
    (World.run .repaired [.inst 1, .use 0, .op .destroy, .inst 2]).observer = some 2 := by decide +kernel

/-! ### the default loop serves one toplevel instance with signals (known findings `multi_*`) -/

def wcbLog (w : World) : List Ev := w.st.log.reverse.filter fun e => match e with | .cb .. => true | _ => false

def probeSecondInstance : List WOp := [.inst 1, wact (.signal 0 23 0), wact (.raise 23), .op .tick]

/-- A watcher on an instance that is not the observer: the wait of its own loop is interrupted, the handler
    records the signal in the *observer's* `pending_signals`, nothing is dispatched — now or later. -/
theorem second_instance_watcher_counterexample :
    wcbLog (World.run .repaired probeSecondInstance) = [] ∧
    ((World.run .repaired probeSecondInstance).saved.getD 0 {}).pendingSig.contains 23 = true ∧
    wcbLog (World.run .repaired (probeSecondInstance ++ [.op .tick, .op .tickhang])) = [] := by decide +kernel

def probeForeignWait : List WOp := [wact (.signal 0 23 0), wact (.raise 23), .inst 1, .op .tick, .use 0, .op .tick]

/-- The signal is delivered inside the wait of another instance: it is recorded for the observer, whose next
    wait is not interrupted, so `dispatch_signals` does not run — the watcher waits for a further signal. -/
theorem second_instance_foreign_wait_counterexample :
    wcbLog (World.run .repaired probeForeignWait) = [] ∧
    (World.run .repaired probeForeignWait).st.pendingSig.contains 23 = true := by decide +kernel

def probeSharedMask : List WOp := [wact (.signal 0 23 0), .inst 1, wact (.signal 1 23 0), wact (.cancel 1), .use 0]

/-- The signal mask and dispositions are process wide but kept per loop: the second instance drops its last
    watcher of the signal and restores the default action although the first instance still watches it. -/
theorem second_instance_shared_mask_counterexample :
    (World.run .repaired probeSharedMask).st.watched.contains 23 = true ∧
    (World.run .repaired probeSharedMask).st.blocked.contains 23 = false ∧
    (World.run .repaired probeSharedMask).st.handled.contains 23 = false := by decide +kernel

/-! ### descriptors -/

/-- The translation `revents → cond` is exact, bit for bit. -/
theorem io_exact_conditions_bits (r : Nat) :
    (condOfRevents r &&& IO_IN ≠ 0 ↔ r &&& POLLIN ≠ 0) ∧ (condOfRevents r &&& IO_OUT ≠ 0 ↔ r &&& POLLOUT ≠ 0) ∧
    (condOfRevents r &&& IO_HUP ≠ 0 ↔ r &&& POLLHUP ≠ 0) ∧ (condOfRevents r &&& IO_ERR ≠ 0 ↔ r &&& POLLERR ≠ 0) ∧
    (condOfRevents r &&& IO_INVAL ≠ 0 ↔ r &&& POLLNVAL ≠ 0) := by
  unfold condOfRevents
  by_cases h1 : r &&& POLLIN ≠ 0 <;> by_cases h2 : r &&& POLLOUT ≠ 0 <;> by_cases h3 : r &&& POLLHUP ≠ 0 <;>
    by_cases h4 : r &&& POLLERR ≠ 0 <;> by_cases h5 : r &&& POLLNVAL ≠ 0 <;>
    simp only [h1, h2, h3, h4, h5, if_true, if_false, ne_eq, not_false_eq_true, iff_true, iff_false] <;>
    decide

/-- The kernel's report is stored exactly (hypothesis OsPpoll, as modelled). -/
theorem io_exact_conditions_report (st : St) (idx : Nat) (h : idx < st.pfd.length) :
    ((pollScan st).pfd.getD idx default).revents = some (pollRevents st (st.pfd.getD idx default)) :=
  pollScan_exact st idx h

/-- The descriptor loop invokes the watch of an entry with exactly the translation of the entry's revents. -/
theorem io_exact_conditions_dispatch (fuel : Nat) (st : St) (idx : Nat) (a : Nat) (hok : st.isOk = true)
    (hlt : idx < st.pfd.length) (hfd : (st.pfd.getD idx default).fd ≠ -1)
    (hr : slotRevents (st.pfd.getD idx default) ≠ 0) (hw : (st.pfd.getD idx default).watch = some a) (hl : st.live a = true) :
    ioLoop (fuel + 1) st idx =
      ioLoop fuel (invokeWatch st a EV_FIRE (.io (st.getW a).fd (condOfRevents (slotRevents (st.pfd.getD idx default))))) (idx + 1) :=
  ioLoop_invokes fuel st idx a hok hlt hfd hr hw hl

/-- Repaired `evloop_io`: the entry handed to a new watch reports nothing until the next wait, so a watch
    registered by a callback of the running iteration is not invoked with somebody else's conditions. -/
theorem io_exact_conditions_new_slot (st : St) (fd : Int) (cond : Nat) (w : Nat) (h : st.cfg.reventsCleared = true) :
    ((evloopIo st fd cond w).1.pfd.getD (evloopIo st fd cond w).2 default).revents = some 0 :=
  evloopIo_clears st fd cond w h

theorem io_quiet_entry_skipped (fuel : Nat) (st : St) (idx : Nat) (hok : st.isOk = true) (hlt : idx < st.pfd.length)
    (hfd : (st.pfd.getD idx default).fd ≠ -1) (hr : (st.pfd.getD idx default).revents = some 0) :
    ioLoop (fuel + 1) st idx = ioLoop fuel st (idx + 1) :=
  ioLoop_skips_quiet fuel st idx hok hlt hfd hr

/-- A watch cancelled by another callback of the same iteration is not invoked afterwards: its entry
    has `fd == -1` and the loop skips it. -/
theorem cancelled_not_invoked (fuel : Nat) (st : St) (idx : Nat) (hok : st.isOk = true) (hlt : idx < st.pfd.length)
    (hfd : (st.pfd.getD idx default).fd = -1) : ioLoop (fuel + 1) st idx = ioLoop fuel st (idx + 1) :=
  ioLoop_skips_cancelled fuel st idx hok hlt hfd

example : ((evloopCancelIo (runOps .shipped [.act (.io 0 100 1 0)]) 0).pfd.getD 0 default).fd = -1 := by decide +kernel

/-- One iteration under the repaired `evloop_io`, from the wait to the callbacks: every io watch the iteration
    invokes is the watch of an entry the wait scanned, is invoked at most once (entries are taken in index
    order), and with exactly `condOfRevents (pollRevents …)` of *that* entry — whatever timers, deferred
    callbacks and the io callbacks before it registered or cancelled. -/
theorem io_exact_conditions (fuel : Nat) (st : St) (t : Option Int) (hc : st.cfg.reventsCleared = true) :
    (∀ e ∈ (ioLoopT fuel (invokeTimers fuel (ppoll st t).1) 0).2,
        e.1 < st.pfd.length ∧ (st.pfd.getD e.1 default).fd ≠ -1 ∧ e.2.1 = (st.pfd.getD e.1 default).watch ∧
        e.2.2 = condOfRevents (pollRevents st (st.pfd.getD e.1 default))) ∧
    (ioLoopT fuel (invokeTimers fuel (ppoll st t).1) 0).2.Pairwise (fun x y => x.1 < y.1) :=
  io_exact_end_to_end fuel st t hc

example : (ioLoopT 100 (invokeTimers 100 (ppoll (runOps .repaired [.beh ⟨0, 0, [.cancel 1, .io 2 102 1 0]⟩, .act (.io 0 100 1 0),
    .act (.io 1 101 1 0), .ready 100 1, .ready 101 1, .ready 102 1]) (some 0)).1) 0).2 = [(0, some 2, 1)] := by decide +kernel

/-! ### defects of the tree as shipped (corpus/C18/*.ops), and the same histories repaired -/

def cbLog (st : St) : List Ev := st.log.reverse.filter fun e => match e with | .cb .. => true | _ => false

def probeErrno : List Op :=
  [.beh ⟨1, 0, [.errno 11]⟩, .act (.signal 0 23 0), .act (.timer 1 0 0), .act (.raise 23), .tick]

/-- The signal is delivered during the wait; the timer callback sets errno; the watcher is not invoked
    and the signal stays recorded, waiting for an unrelated interruption. -/
theorem errno_after_callbacks_counterexample :
    cbLog (runOps .shipped probeErrno) = [.cb 1 3 .none] ∧ (runOps .shipped probeErrno).pendingSig.contains 23 = true := by
  decide +kernel
theorem errno_after_callbacks_repaired : cbLog (runOps .repaired probeErrno) = [.cb 1 3 .none, .cb 0 1 .none] := by
  decide +kernel

def probePendingUninit : List Op :=
  [.act (.signal 0 10 0), .act (.signal 1 23 0), .act (.raise 23), .tick]

/-- `pending_signals` is never initialised (0xbe… in the sanitizer build): the watcher of signal 10 is
    invoked although only 23 was raised. -/
theorem pending_uninit_counterexample : cbLog (runOps .shipped probePendingUninit) = [.cb 0 1 .none, .cb 1 1 .none] := by
  decide +kernel
theorem pending_uninit_repaired : cbLog (runOps .repaired probePendingUninit) = [.cb 1 1 .none] := by decide +kernel

def probeReventsStale : List Op :=
  [.beh ⟨0, 0, [.io 1 101 1 0]⟩, .act (.io 0 100 1 0), .ready 100 1, .tick]

/-- An io watch registered from a callback of the running iteration is invoked with uninitialised revents. -/
theorem revents_stale_counterexample :
    cbLog (runOps .shipped probeReventsStale) = [.cb 0 1 (.io 100 1), .cb 1 1 (.io 101 30)] := by decide +kernel
theorem revents_stale_repaired : cbLog (runOps .repaired probeReventsStale) = [.cb 0 1 (.io 100 1)] := by decide +kernel

def probeIoSelfCancel : List Op := [.beh ⟨0, 0, [.cancel 0]⟩, .act (.io 0 100 1 0), .ready 100 1, .tick]
def probeSigSelfCancel : List Op := [.beh ⟨0, 0, [.cancel 0]⟩, .act (.signal 0 23 0), .act (.raise 23), .tick]

/-- An io watch that cancels itself from its own callback: `invoke_watch` reads it afterwards. -/
theorem io_self_cancel_counterexample : (runOps .shipped probeIoSelfCancel).status = .ub .invokeWatchType := by
  decide +kernel
theorem io_self_cancel_repaired : (runOps .repaired probeIoSelfCancel).status = .ok ∧
    cbLog (runOps .repaired probeIoSelfCancel) = [.cb 0 1 (.io 100 1)] := by decide +kernel

/-- A signal watch that cancels itself: `tickit_evloop_invoke_sigwatches` reads `this->next` afterwards. -/
theorem signal_self_cancel_counterexample : (runOps .shipped probeSigSelfCancel).status = .ub .sigLoopThis := by
  decide +kernel
theorem signal_self_cancel_repaired : (runOps .repaired probeSigSelfCancel).status = .ok ∧
    cbLog (runOps .repaired probeSigSelfCancel) = [.cb 0 1 .none] := by decide +kernel

/-! ### the self-pipe configuration (event hooks without `.signal` / `.cancel_signal`; Model/EvLoopFb.lean) -/

/-- `sighandler` of tickit.c: a watched signal that reaches the process of the observing instance is recorded in
    `t->signal.pending` *and* leaves a wake-up byte in the pipe — whenever it arrives (nothing is blocked). -/
theorem fb_handler_records_and_wakes (st : St) (s : Int) (hok : st.isOk = true) (hh : st.handled.contains s = true)
    (ho : st.observer = .self) :
    (Fb.raiseSig st s).pendingSig.contains s = true ∧ (Fb.raiseSig st s).pipeBytes = st.pipeBytes + 1 ∧
    (Fb.raiseSig st s).isOk = true := by
  have hok' : st.status = .ok := by simpa [St.isOk] using hok
  unfold Fb.raiseSig Fb.sigRecord
  simp only [hok, hh, ho, Bool.not_true, Bool.false_eq_true, if_false, if_true]
  refine ⟨?_, trivial, ?_⟩
  · unfold setInsert
    by_cases h : s ∈ st.pendingSig
    · simp [h]
    · simp [h]
  · simp [St.isOk, hok']

example : (Fb.raiseSig (Fb.runOps .repaired [.act (.signal 0 10 0)]) 10).pipeBytes = 1 := by decide +kernel

/-- `on_sigpipe_readable` consumes one byte and empties `t->signal.pending` together with taking the snapshot,
    *before* any watcher runs: what a callback's `raise` records afterwards is kept for the next iteration. -/
theorem fb_dispatch_starts_from_empty_pending (fuel : Nat) (st : St) (h : st.cfg.sigpipeViaInvoke = true) :
    Fb.onSigpipeReadable fuel st =
      Fb.sigpipeInvoke fuel { st with pipeBytes := st.pipeBytes - 1, pendingSig := [] } st.pendingSig signalRange := by
  unfold Fb.onSigpipeReadable
  simp [h]

def fbProbeSelfCancel : List Op := [.beh ⟨0, 0, [.cancel 0]⟩, .act (.signal 0 10 0), .act (.raise 10), .tick]

/-- Defect (repaired in /repo: fixes/C18_sigpipe_dispatch.patch): as found,
    `on_sigpipe_readable` reads `this->next` of a signal watch that cancelled itself from its own callback. -/
theorem fb_self_cancel_counterexample :
    (Fb.runOps { Config.repaired with sigpipeViaInvoke := false } fbProbeSelfCancel).status = .ub .sigLoopThis := by
  decide +kernel
theorem fb_self_cancel_repaired : (Fb.runOps .repaired fbProbeSelfCancel).status = .ok ∧
    cbLog (Fb.runOps .repaired fbProbeSelfCancel) = [.cb 0 1 .none] := by decide +kernel

/-- Arrival while signal callbacks run: watcher 0 (signal 10) raises signal 12 — resp. signal 10 again — from its
    callback; the watchers of the new arrival run in the next iteration, without a further signal (both texts). -/
theorem fb_arrival_during_dispatch_other :
    cbLog (Fb.runOps .repaired [.beh ⟨0, 0, [.raise 12]⟩, .act (.signal 0 10 0), .act (.signal 1 12 0), .act (.raise 10), .tick, .tick])
      = [.cb 1 1 .none] ∧
    cbLog (Fb.runOps { Config.repaired with sigpipeViaInvoke := false }
      [.beh ⟨0, 0, [.raise 12]⟩, .act (.signal 0 10 0), .act (.signal 1 12 0), .act (.raise 10), .tick, .tick]) = [.cb 1 1 .none] := by
  decide +kernel
theorem fb_arrival_during_dispatch_same :
    cbLog (Fb.runOps .repaired [.beh ⟨0, 0, [.raise 10]⟩, .act (.signal 0 10 0), .act (.signal 1 10 0), .act (.raise 10), .tick, .tick])
      = [.cb 0 1 .none, .cb 1 1 .none] := by
  decide +kernel

/-! #### the self-pipe configuration, end to end (all histories, all behaviour tables, any variant of the rest of the source) -/

/-- The bookkeeping of tickit.c's signal fallback in every state a history reaches (instance alive, behaviour
    defined), the analogue of `signal_bookkeeping_invariant`: `t->signal.pipewatch` is the third watch `tickit_build`
    made; it is live, its callback is `on_sigpipe_readable`, its poll entry names the read end of the pipe with POLLIN;
    nothing a callback can reach names one of the three watches of `tickit_build`; a recorded signal has its wake-up
    byte in the pipe. -/
theorem fb_signal_bookkeeping_invariant (cfg : Config) (ops : List Op) (hok : (Fb.runOps cfg ops).isOk = true)
    (hal : (Fb.runOps cfg ops).alive = true) : Fb.FInv 3 2 (Fb.runOps cfg ops) :=
  (Fb.freach_runOps cfg ops hok hal).1

/-- … in particular: a signal is never left recorded without a byte in the pipe to wake the loop. -/
theorem fb_recorded_signal_has_wakeup_byte (cfg : Config) (ops : List Op) (hok : (Fb.runOps cfg ops).isOk = true)
    (hal : (Fb.runOps cfg ops).alive = true) (h : (Fb.runOps cfg ops).pendingSig ≠ []) : (Fb.runOps cfg ops).pipeBytes > 0 :=
  (fb_signal_bookkeeping_invariant cfg ops hok hal).bytes h

example : (Fb.runOps .repaired [.act (.signal 0 10 0), .act (.raise 10)]).pendingSig = [10] ∧
    (Fb.runOps .repaired [.act (.signal 0 10 0), .act (.raise 10)]).pipeBytes = 1 := by decide +kernel

/-- One iteration of `evloop_run` begun in a reachable state (repaired `on_sigpipe_readable` and
    `tickit_evloop_invoke_sigwatches`; any variant of the rest): every signal the handler has recorded reaches every
    harness watch of it that is linked when the iteration begins and is still linked when it ends — its FIRE entry is in
    the log of this iteration, whatever timers, deferred callbacks, io callbacks and the other signal callbacks did.
    The wait cannot time out or be passed over: the recorded signal's byte makes the pipe readable. -/
theorem fb_signal_reaches_watchers_iteration (cfg : Config) (ops : List Op) (fuel : Nat) (nohang run : Bool)
    (hv : cfg.sigpipeViaInvoke = true) (hsn : cfg.sigSnapshot = true)
    (hok0 : (Fb.runOps cfg ops).isOk = true) (hal : (Fb.runOps cfg ops).alive = true)
    (hok : (Fb.tick fuel { Fb.runOps cfg ops with stillRunning := run, log := [] } nohang).status = .ok) :
    ∀ s ∈ signalRange, s ∈ (Fb.runOps cfg ops).pendingSig → ∀ b ∈ (Fb.runOps cfg ops).signals,
      b ∈ (Fb.tick fuel { Fb.runOps cfg ops with stillRunning := run, log := [] } nohang).signals →
      ((Fb.runOps cfg ops).getW b).signum = s → ((Fb.runOps cfg ops).getW b).slot ≥ 0 →
      Ev.cb ((Fb.runOps cfg ops).getW b).slot EV_FIRE .none ∈
        (Fb.tick fuel { Fb.runOps cfg ops with stillRunning := run, log := [] } nohang).log := by
  obtain ⟨fi, hc⟩ := Fb.freach_runOps cfg ops hok0 hal
  have sv := Fb.sinv_runOps cfg ops
  intro s hs hp b hb hfin hsig hslot
  exact Fb.tick_reaches fuel { Fb.runOps cfg ops with stillRunning := run, log := [] } nohang
    (fi.of_same (by exact ⟨rfl, rfl, rfl, rfl, rfl, rfl, rfl, rfl, rfl, rfl, rfl, rfl⟩)) (SInv.of_same (st := Fb.runOps cfg ops) rfl rfl sv)
    (by show (Fb.runOps cfg ops).cfg.sigpipeViaInvoke = true; rw [hc]; exact hv)
    (by show (Fb.runOps cfg ops).cfg.sigSnapshot = true; rw [hc]; exact hsn) s hs hp hok b hb hfin hsig hslot

/-- On histories: a signal recorded by tickit.c's handler while watch `b` is linked leads to `b`'s callback in the
    very next iteration (`tickit_tick`, blocking or not) — without a further signal — unless `b` is cancelled meanwhile
    (a cancelled watch is freed: it is not live when the iteration ends). -/
theorem fb_signal_reaches_watchers (cfg : Config) (ops : List Op) (op : Op) (hop : op = .tick ∨ op = .tickhang)
    (hv : cfg.sigpipeViaInvoke = true) (hsn : cfg.sigSnapshot = true)
    (hok0 : (Fb.runOps cfg ops).isOk = true) (hal : (Fb.runOps cfg ops).alive = true)
    (hok : (Fb.runOps cfg (ops ++ [op])).status = .ok) :
    ∀ s ∈ signalRange, s ∈ (Fb.runOps cfg ops).pendingSig → ∀ b ∈ (Fb.runOps cfg ops).signals,
      (Fb.runOps cfg (ops ++ [op])).live b = true →
      ((Fb.runOps cfg ops).getW b).signum = s → ((Fb.runOps cfg ops).getW b).slot ≥ 0 →
      Ev.cb ((Fb.runOps cfg ops).getW b).slot EV_FIRE .none ∈ (Fb.runOps cfg (ops ++ [op])).log := by
  have hstep : ∃ nohang, Fb.runOps cfg (ops ++ [op]) =
      Fb.tick defaultFuel { Fb.runOps cfg ops with stillRunning := true, log := [] } nohang := by
    have h1 : Fb.runOps cfg (ops ++ [op]) = Fb.applyOp (Fb.runOps cfg ops) op := by
      unfold Fb.runOps; rw [List.foldl_append]; rfl
    have hok1 : (!({ Fb.runOps cfg ops with log := [] } : St).isOk) ≠ true := by
      show (!(Fb.runOps cfg ops).isOk) ≠ true
      rw [hok0]; decide
    have hal1 : (!({ Fb.runOps cfg ops with log := [] } : St).alive) ≠ true := by
      show (!(Fb.runOps cfg ops).alive) ≠ true
      rw [hal]; decide
    cases hop with
    | inl h =>
      subst h
      refine ⟨true, ?_⟩
      rw [h1]; unfold Fb.applyOp Fb.applyOp'
      rw [if_neg hok1]; simp only []; rw [if_neg hal1]
    | inr h =>
      subst h
      refine ⟨false, ?_⟩
      rw [h1]; unfold Fb.applyOp Fb.applyOp'
      rw [if_neg hok1]; simp only []; rw [if_neg hal1]
  obtain ⟨nohang, he⟩ := hstep
  rw [he] at hok ⊢
  intro s hs hp b hb hlive hsig hslot
  have sv := Fb.sinv_runOps cfg ops
  have sv0 : SInv ({ Fb.runOps cfg ops with stillRunning := true, log := [] } : St) := SInv.of_same (st := Fb.runOps cfg ops) rfl rfl sv
  have f := Fb.step_tick defaultFuel { Fb.runOps cfg ops with stillRunning := true, log := [] } nohang sv0
  have hfin : b ∈ (Fb.tick defaultFuel { Fb.runOps cfg ops with stillRunning := true, log := [] } nohang).signals := by
    cases f.leave b hb with
    | inl h => exact h
    | inr h => rw [h] at hlive; cases hlive
  exact fb_signal_reaches_watchers_iteration cfg ops defaultFuel nohang true hv hsn hok0 hal hok s hs hp b hb hfin hsig hslot

/-- The hypotheses are met and the conclusion is not vacuous: watch 0 is linked, signal 10 has been recorded, the next
    iteration is defined, leaves the watch live, and logs its callback. -/
example : (10 : Int) ∈ signalRange ∧ (10 : Int) ∈ (Fb.runOps .repaired [.act (.signal 0 10 0), .act (.raise 10)]).pendingSig ∧
    3 ∈ (Fb.runOps .repaired [.act (.signal 0 10 0), .act (.raise 10)]).signals ∧
    ((Fb.runOps .repaired [.act (.signal 0 10 0), .act (.raise 10)]).getW 3).signum = 10 ∧
    ((Fb.runOps .repaired [.act (.signal 0 10 0), .act (.raise 10)]).getW 3).slot = 0 ∧
    (Fb.runOps .repaired ([.act (.signal 0 10 0), .act (.raise 10)] ++ [.tick])).status = .ok ∧
    (Fb.runOps .repaired ([.act (.signal 0 10 0), .act (.raise 10)] ++ [.tick])).live 3 = true ∧
    Ev.cb 0 EV_FIRE .none ∈ (Fb.runOps .repaired ([.act (.signal 0 10 0), .act (.raise 10)] ++ [.tick])).log := by decide +kernel

/-- … also when a timer callback of the same iteration raised another watched signal and cancelled a second watcher
    of the first: the theorem speaks about that iteration too (watchers 0 and 3 are reached, 4 was cancelled). -/
example : cbLog (Fb.runOps .repaired [.beh ⟨1, 0, [.raise 12, .cancel 4]⟩, .act (.signal 0 10 0), .act (.timer 1 0 0),
    .act (.io 2 100 1 0), .act (.signal 3 12 0), .act (.signal 4 10 0), .ready 100 1, .act (.raise 10), .tick]) =
    [.cb 1 3 .none, .cb 0 1 .none, .cb 3 1 .none, .cb 2 1 (.io 100 1)] := by decide +kernel

/-! ### stand-alone terminals observing SIGWINCH next to the loop (Model/EvLoopTerm.lean) -/

/-- `tickit_term_observe_sigwinch` leaves the signal mask as it found it, whatever the observer list, the terminal
    and the direction: a signal the loop keeps blocked outside its wait stays blocked. -/
theorem term_observe_keeps_watched_signals_blocked (obs : List Nat) (st : St) (tt : Nat) (observe : Bool) :
    (termObserve obs st tt observe).2.blocked = st.blocked := termObserve_restores_mask obs st tt observe

/-- While the loop watches SIGWINCH (keeps it blocked) and the observer list stays non-empty, a terminal joining or
    leaving the observers changes nothing: the next iteration is the iteration it would have been, so a SIGWINCH
    raised afterwards stays pending (raise_while_blocked_stays_pending) and reaches its watchers
    (signal_reaches_watchers_end_to_end) exactly as without the call. -/
theorem term_observe_then_iteration_unchanged (fuel : Nat) (obs : List Nat) (st : St) (tt : Nat) (observe nohang : Bool) (s : Int)
    (hb : st.blocked.contains SIGWINCH = true) (hp : ∀ s ∈ st.kpending, st.blocked.contains s = true)
    (h1 : obs.isEmpty = false) (h2 : (obs.erase tt).isEmpty = false) :
    tick fuel (raiseSig (termObserve obs st tt observe).2 s) nohang = tick fuel (raiseSig st s) nohang := by
  rw [termObserve_transparent obs st tt observe hb hp h1 h2]

/-- Non-vacuity: the instance as built blocks SIGWINCH; a second terminal joins the first one's list. -/
theorem term_observe_example :
    (termObserve [0] (build .repaired) 1 true).1 = [0, 1] ∧
    (termObserve [0] (build .repaired) 1 true).2.blocked = [28] ∧
    (raiseSig (termObserve [0] (build .repaired) 1 true).2 28).kpending = [28] := by decide +kernel

/-! ### signals the application had blocked when the instance was built (round 7) -/

/-- `evloop_init` starts the mask it hands to `ppoll` empty (`sigemptyset(&evdata->defmask)`) and nothing adds to it:
    whatever the process-wide mask holds - signals the loop blocked for its watchers, signals the application had
    blocked itself before it built the instance - a wait that finds no descriptor ready is interrupted by every signal
    pending in the kernel; it fails with EINTR, the handler has recorded the signal in this loop's pending set and
    nothing stays pending.  No hypothesis about `st.blocked`. -/
theorem ppoll_delivers_whatever_is_blocked (st : St) (t : Option Int)
    (hok : st.isOk = true) (hin : st.inpoll = []) (hc : pollCount st = 0) (ho : st.observer = .self)
    (s : Int) (hs : s ∈ st.kpending) :
    (ppoll st t).2 = none ∧ (ppoll st t).1.errno = EINTR ∧ s ∈ (ppoll st t).1.pendingSig ∧ (ppoll st t).1.kpending = [] := by
  have hr : pollRaise (pollScan st) = { pollScan st with inpoll := [] } := by
    unfold pollRaise
    have : (pollScan st).inpoll = [] := hin
    rw [this]; rfl
  have hk : (pollRaise (pollScan st)).kpending = st.kpending := by rw [hr]; rfl
  have hok' : (pollRaise (pollScan st)).isOk = true := by rw [hr]; exact hok
  have hne : (pollRaise (pollScan st)).kpending.isEmpty = false := by
    rw [hk]; cases hl : st.kpending with
    | nil => rw [hl] at hs; cases hs
    | cons a l => rfl
  have h2 : (ppoll st t).2 = none := by
    unfold ppoll
    rw [if_neg (by simp [hok']), if_neg (by omega), if_pos (by simp [hne])]
  have h := ppoll_eintr st t ho h2
  exact ⟨h2, h.1, h.2.2 s (by rw [hk]; exact hs), h.2.1⟩

/-- Non-vacuity: the application had SIGUSR1 (10) blocked when the instance was built, then watches it; a delivery
    before the iteration stays pending, meets the hypotheses above and reaches the watcher in that iteration. -/
theorem blocked_by_application_example :
    let st0 : St := { build .repaired with blocked := [10, 28] }
    let st := applyOp (applyOp st0 (.act (.signal 0 10 0))) (.act (.raise 10))
    st.blocked = [10, 28] ∧ st.kpending = [10] ∧ st.inpoll = [] ∧ pollCount st = 0 ∧ st.observer = .self ∧ st.isOk = true ∧
    cbLog (applyOp st .tick) = [.cb 0 1 .none] := by decide +kernel

end Tickit.Props.C18
