import Tickit.Proof.WinInput
import Tickit.Gen.WinInputCfg
/-
  C14 — Input reaches the front-most eligible window first, in its own coordinates.

  Model: `Model/WinInput.lean` (`_handle_key`, `_handle_mouse`, `on_term_key`, `on_term_mouse` of src/window.c on the
  shared window store), in the variant the extractor finds in the working tree (`Gen.WinInputCfg.cfg`;
  `code_is_repaired` below pins it to the repaired code).  Handlers are behaviour tables; `Static` tables only claim
  or decline, tables with actions mutate the tree from inside the handler.

  Clauses of the property and where they are proved:
    key: stealing front-most child, focus chain innermost first, own handlers, other children; stop at the first
         claim; first occurrences ................................ `key_order`, `key_order_reference`
    mouse: front-most visible window under the pointer (or stealing) before anything behind or around it
         ........................................................... `mouse_target`, `mouse_target_reference`
    position relative to the receiving window ...................... `mouse_relative`, `mouse_relative_absGeometry`
    hidden windows and their descendants never receive input ....... `hidden_never` (every handler behaviour, every
         outcome), `reference_orders_visible`
    drag start / outside / drop / stop consistent with the press ... `press_recorded`, `drag_start_event`,
         `drag_start_first`, `drag_release_events`, `drag_drop_stop_order`, `drag_outside_iff`
    closing / unreferencing inside a handler neither derails delivery nor crashes
         the unrepaired code does both ............................. `next_closed_derails_counterexample`,
                                                                     `next_freed_ub_counterexample`, `claim_withdrawn_counterexample`,
                                                                     `hidden_descendant_counterexample`
         the repaired code on the same histories ................... `repaired_*` below
         the general statement ..................................... `mutation_safe_full` (def, open: see engines.d/C14.json)
-/
namespace Tickit.Props.C14
open Tickit Tickit.WinTree Tickit.WinInput

/-! ### the tie to the source: which code is modelled -/

/-- The working tree contains the three repairs (sibling snapshot, counted claim, whole-chain visibility). -/
theorem code_is_repaired : Tickit.Gen.WinInputCfg.cfg = Cfg.repaired := by decide

/-- The event-type constants the drag synthesis uses are the header's. -/
theorem event_constants : Tickit.Gen.WinInputCfg.mouseevPress = evPress ∧
    Tickit.Gen.WinInputCfg.mouseevDragStart = evDragStart := by decide

/-! ### keys -/

/-- **key_order.**  With handlers that only claim or decline, a key event is offered exactly to the windows of the
    reference visiting order `keyVisits` (stealing front-most child, focus chain innermost first, the window itself,
    the other children), in that order, up to and including the first window that claims (`offerAll`); nothing
    else is offered it, the invocation counters advance accordingly, and the event counts as handled iff a window
    claimed.  For every tree, every behaviour table, every fuel for which model and reference return. -/
theorem key_order (fuel F : Nat) (st st' : St) (ev : Ev) (claimed : Bool) (ws : List WinTree.Id)
    (hs : Static st.binds) (hwf : WF st.tree)
    (h : onTermKey Cfg.repaired fuel st ev = Out.ok (st', claimed))
    (hv : keyVisits st.tree F 0 = some ws) :
    offers st'.log = offers st.log ++
        ((offerAll st.binds .key (ws.map (·, ev))).2.1).map (fun p => (Kind.key, p.1, p.2)) ∧
      st'.binds = (offerAll st.binds .key (ws.map (·, ev))).1 ∧
      claimed = (offerAll st.binds .key (ws.map (·, ev))).2.2.isSome := by
  obtain ⟨_, sp⟩ := handleKey_static fuel st 0 ev st' claimed hs hwf h
  have sg := sp F ws hv
  exact ⟨sg.log, sg.binds, sg.ret⟩

/-- The same in the property's words: the windows offered the key are a prefix of the visiting order; their first
    occurrences are a prefix of the reference order `keyOrder` (so a stealing first child that is visited twice is
    no alarm); all of it is offered when nobody claims; and when somebody claims, it is the last window offered. -/
theorem key_order_reference (fuel F : Nat) (st st' : St) (ev : Ev) (claimed : Bool) (ws : List WinTree.Id)
    (hs : Static st.binds) (hwf : WF st.tree)
    (h : onTermKey Cfg.repaired fuel st ev = Out.ok (st', claimed))
    (hv : keyVisits st.tree F 0 = some ws) :
    ∃ offered : List WinTree.Id,
      offers st'.log = offers st.log ++ offered.map (fun w => (Kind.key, w, ev)) ∧
      offered <+: ws ∧ firstOcc offered <+: firstOcc ws ∧ keyOrder st.tree F 0 = some (firstOcc ws) ∧
      (claimed = false → offered = ws) ∧
      (claimed = true → ∃ pre w post, ws = pre ++ w :: post ∧ offered = pre ++ [w]) := by
  obtain ⟨hl, _, hc⟩ := key_order fuel F st st' ev claimed ws hs hwf h hv
  have hp := offerAll_prefix .key (ws.map (·, ev)) st.binds
  have htake := List.prefix_iff_eq_take.1 hp
  rw [← List.map_take] at htake
  refine ⟨ws.take (offerAll st.binds .key (ws.map (·, ev))).2.1.length, ?_, List.take_prefix _ _,
    firstOcc_prefix (List.take_prefix _ _), by simp [keyOrder, hv], ?_, ?_⟩
  · rw [hl]; congr 1
    conv => lhs; rw [htake]
    simp [List.map_map, Function.comp_def]
  · intro hcl
    have hn : (offerAll st.binds .key (ws.map (·, ev))).2.2 = none := by
      rw [hcl] at hc
      cases hq : (offerAll st.binds .key (ws.map (·, ev))).2.2 with
      | none => rfl
      | some x => rw [hq] at hc; simp at hc
    have := offerAll_none .key _ _ hn
    rw [this]; simp
  · intro hcl
    rw [hcl] at hc
    cases hq : (offerAll st.binds .key (ws.map (·, ev))).2.2 with
    | none => rw [hq] at hc; simp at hc
    | some w =>
      obtain ⟨pre, e, post, h1, h2, _, _⟩ := offerAll_some .key _ _ w hq
      have hlen : (offerAll st.binds .key (ws.map (·, ev))).2.1.length = pre.length + 1 := by rw [h2]; simp
      have hws : ws = pre.map (·.1) ++ w :: post.map (·.1) := by
        have := congrArg (List.map Prod.fst) h1
        simpa [List.map_map, Function.comp_def] using this
      refine ⟨pre.map (·.1), w, post.map (·.1), hws, ?_⟩
      rw [hlen]
      conv => lhs; rw [hws]
      have : pre.length + 1 = (pre.map (·.1) ++ [w]).length := by simp
      rw [this, show pre.map (·.1) ++ w :: post.map (·.1) = (pre.map (·.1) ++ [w]) ++ post.map (·.1) by simp]
      exact List.take_left'  rfl

/-! ### mouse -/

/-- **mouse_target.**  With handlers that only claim or decline, a mouse event dispatched to `win` (the root for the
    event itself, the drag source for DRAG_STOP / DRAG_OUTSIDE) is offered exactly to the windows of `mouseVisits`:
    the children under the pointer or stealing input, front-most first and depth first — so the front-most visible
    window under the pointer comes before anything behind or around it — then the window itself; each with the event
    as `mouseVisits` says it sees it; up to and including the first claim.  The result is the window that claimed. -/
theorem mouse_target (fuel F : Nat) (st st' : St) (win : WinTree.Id) (ev : Ev) (r : Option WinTree.Id)
    (ws : List (WinTree.Id × Ev)) (hs : Static st.binds) (hwf : WF st.tree)
    (h : handleMouse Cfg.repaired fuel st win ev = Out.ok (st', r))
    (hv : mouseVisits st.tree F win ev = some ws) :
    offers st'.log = offers st.log ++ ((offerAll st.binds .mouse ws).2.1).map (fun p => (Kind.mouse, p.1, p.2)) ∧
      st'.binds = (offerAll st.binds .mouse ws).1 ∧ r = (offerAll st.binds .mouse ws).2.2 := by
  obtain ⟨_, sp⟩ := handleMouse_static fuel st win ev st' r hs hwf h
  have sg := sp F ws hv
  exact ⟨sg.log, sg.binds, sg.ret⟩

/-- In the property's words: what is offered is a prefix of the reference order; the whole of it when nobody claims;
    and the window that handled the event is the last one offered. -/
theorem mouse_target_reference (fuel F : Nat) (st st' : St) (win : WinTree.Id) (ev : Ev) (r : Option WinTree.Id)
    (ws : List (WinTree.Id × Ev)) (hs : Static st.binds) (hwf : WF st.tree)
    (h : handleMouse Cfg.repaired fuel st win ev = Out.ok (st', r))
    (hv : mouseVisits st.tree F win ev = some ws) :
    ∃ offered : List (WinTree.Id × Ev),
      offers st'.log = offers st.log ++ offered.map (fun p => (Kind.mouse, p.1, p.2)) ∧ offered <+: ws ∧
      (r = none → offered = ws) ∧
      (∀ w, r = some w → ∃ pre e post, ws = pre ++ (w, e) :: post ∧ offered = pre ++ [(w, e)]) := by
  obtain ⟨hl, _, hr⟩ := mouse_target fuel F st st' win ev r ws hs hwf h hv
  refine ⟨_, hl, offerAll_prefix .mouse ws st.binds, ?_, ?_⟩
  · intro hn; rw [hn] at hr; exact offerAll_none .mouse _ _ hr.symm
  · intro w hw
    rw [hw] at hr
    obtain ⟨pre, e, post, h1, h2, _, _⟩ := offerAll_some .mouse _ _ w hr.symm
    exact ⟨pre, e, post, h1, h2⟩

/-- **mouse_relative.**  Every window that is offered the event gets it with the kind (type, button, modifiers) of
    the event dispatched and with the position made relative to itself: the position dispatched to `win` minus the
    receiver's absolute origin relative to `win`'s (`OriginSum` adds up the offsets along the parent chain). -/
theorem mouse_relative (fuel F : Nat) (st st' : St) (win : WinTree.Id) (ev : Ev) (r : Option WinTree.Id)
    (ws : List (WinTree.Id × Ev)) (a b : Int) (hs : Static st.binds) (hwf : WF st.tree)
    (h : handleMouse Cfg.repaired fuel st win ev = Out.ok (st', r))
    (hv : mouseVisits st.tree F win ev = some ws) (ho : OriginSum st.tree (some win) a b) :
    ∃ offered : List (WinTree.Id × Ev),
      offers st'.log = offers st.log ++ offered.map (fun p => (Kind.mouse, p.1, p.2)) ∧
      ∀ x e, (x, e) ∈ offered → e.type = ev.type ∧ e.button = ev.button ∧ e.mod = ev.mod ∧
        ∃ a' b', OriginSum st.tree (some x) a' b' ∧ e.line = ev.line - (a' - a) ∧ e.col = ev.col - (b' - b) := by
  obtain ⟨offered, hl, hp, _, _⟩ := mouse_target_reference fuel F st st' win ev r ws hs hwf h hv
  refine ⟨offered, hl, ?_⟩
  intro x e hx
  obtain ⟨_, hk, hrel⟩ := mouseVisits_relative hwf F win ev ws a b hv ho x e (hp.subset hx)
  exact ⟨hk.1, hk.2.1, hk.2.2, hrel⟩

/-- The origin used above is what `tickit_window_get_abs_geometry` returns: a window `x` that is offered the event
    dispatched to the root at terminal cell `(ev.line, ev.col)` sees it at that cell minus its absolute geometry. -/
theorem mouse_relative_absGeometry (t : Tree) (hwf : WF t) (F f f0 : Nat) (ev : Ev) (ws : List (WinTree.Id × Ev))
    (g0 g : Rect) (x : WinTree.Id) (e : Ev) (hv : mouseVisits t F 0 ev = some ws) (hx : (x, e) ∈ ws)
    (h0 : absGeometry t f0 0 = Res.ok g0) (hg : absGeometry t f x = Res.ok g) :
    e.line = ev.line - (g.top - g0.top) ∧ e.col = ev.col - (g.left - g0.left) := by
  obtain ⟨_, _, a', b', ho, h1, h2⟩ :=
    mouseVisits_relative hwf F 0 ev ws g0.top g0.left hv (absGeometry_origin h0) x e hx
  obtain ⟨e1, e2⟩ := OriginSum.unique ho (absGeometry_origin hg)
  rw [h1, h2, e1, e2]; exact ⟨rfl, rfl⟩

/-! ### hidden windows -/

/-- An offer was made while the window and all its ancestors were visible (the ghost bit of the log item). -/
def ShownOffer : LogItem → Prop
  | .offer _ _ _ b => b = true
  | _ => True

theorem shownOffer_routed (cfg : Cfg) (hc : cfg.shown = true) (kind : Kind) (ev : Ev) : Routed cfg kind ev ShownOffer :=
  { destroyed := fun _ => trivial, refused := fun _ => trivial, call := fun _ _ _ _ _ _ => trivial,
    offer := fun _ _ _ _ h => h hc }

/-- The reference orders contain only windows that are visible together with all their ancestors. -/
theorem reference_orders_visible (t : Tree) (hwf : WF t) (F : Nat) (win : WinTree.Id) :
    (∀ ws, keyVisits t F win = some ws → ∀ x ∈ ws, visibleChain t (treeFuel t) x = true) ∧
    (∀ ev ws a b, mouseVisits t F win ev = some ws → OriginSum t (some win) a b →
      ∀ x e, (x, e) ∈ ws → visibleChain t (treeFuel t) x = true) :=
  ⟨keyVisits_visible t F win, fun ev ws a b hv ho x e hx => (mouseVisits_relative hwf F win ev ws a b hv ho x e hx).1⟩

/-! ### drag synthesis -/

/-- What a log item carries, if it is an offer or a handler call. -/
def evOf : LogItem → Option Ev
  | .offer _ _ e _ => some e
  | .call _ _ _ _ _ e => some e
  | _ => none

/-- Every event the item carries satisfies `Q`. -/
def Carries (Q : Ev → Prop) (i : LogItem) : Prop := ∀ e, evOf i = some e → Q e

theorem carries_routed (cfg : Cfg) (ev : Ev) (Q : Ev → Prop) (hQ : ∀ e, sameKind ev e → Q e) :
    Routed cfg .mouse ev (Carries Q) :=
  { destroyed := fun _ e h => by simp [evOf] at h,
    refused := fun _ e h => by simp [evOf] at h,
    call := fun _ _ _ _ e hk e' h => by simp only [evOf, Option.some.injEq] at h; subst h; exact hQ e hk,
    offer := fun _ e _ hk _ e' h => by simp only [evOf, Option.some.injEq] at h; subst h; exact hQ e hk }

/-- A PRESS is remembered: button and cell go into the root's press memory, nothing is dispatched for it. -/
theorem press_recorded (cfg : Cfg) (fuel : Nat) (st : St) (ev : Ev) (hp : ev.type = evPress) :
    dragPrelude cfg fuel st ev = Out.ok { st with tree := { st.tree with root := { st.tree.root with
      mouseLastButton := ev.button, mouseLastLine := ev.line, mouseLastCol := ev.col } } } := by
  unfold dragPrelude; simp [hp]

/-- The first DRAG after a press: DRAG_START is dispatched from the root with the button and the cell of the press,
    before the DRAG itself; the window that claims it becomes the drag source (`dragSourceSet`: if it is still in
    the tree), and the root is dragging from then on. -/
theorem drag_start_event (cfg : Cfg) (fuel : Nat) (st : St) (ev : Ev) (hd : ev.type = evDrag)
    (hnd : st.tree.root.mouseDragging = false) :
    dragPrelude cfg fuel st ev = (do
      let (st1, src) ← handleMouse cfg fuel st 0
        { type := evDragStart, button := st.tree.root.mouseLastButton, line := st.tree.root.mouseLastLine,
          col := st.tree.root.mouseLastCol }
      let st2 ← dragSourceSet cfg st1 src
      pure { st2 with tree := { st2.tree with root := { st2.tree.root with mouseDragging := true } } }) := by
  unfold dragPrelude
  have h1 : ¬ (ev.type = evPress) := by rw [hd]; decide
  rw [if_neg h1]
  simp [hd, hnd]

/-- The RELEASE that ends a drag: DRAG_DROP is dispatched from the root at the release cell, then DRAG_STOP to the
    drag source (position relative to it), then dragging ends — all before the RELEASE itself. -/
theorem drag_release_events (cfg : Cfg) (fuel : Nat) (st : St) (ev : Ev) (hr : ev.type = evRelease)
    (hdr : st.tree.root.mouseDragging = true) :
    dragPrelude cfg fuel st ev = (do
      let (st1, dropped) ← handleMouse cfg fuel st 0 { type := evDragDrop, button := ev.button, line := ev.line, col := ev.col }
      let st2 ← dropResult cfg st1 dropped
      let st3 ← dragStop cfg fuel st2 ev
      pure { st3 with tree := { st3.tree with root := { st3.tree.root with mouseDragging := false } } }) := by
  unfold dragPrelude
  have h1 : ¬ (ev.type = evPress) := by rw [hr]; decide
  have h2 : ¬ ((ev.type = evDrag && !st.tree.root.mouseDragging) = true) := by rw [hr]; simp; intro h; exact absurd h (by decide)
  rw [if_neg h1, if_neg h2]
  simp [hr, hdr]

/-- DRAG_STOP goes to the drag source if there is one. -/
theorem drag_stop_target (cfg : Cfg) (fuel : Nat) (st : St) (ev : Ev) :
    dragStop cfg fuel st ev =
      match st.tree.root.dragSource with
      | none => pure st
      | some src => toDragSource cfg fuel st src evDragStop ev := rfl

/-- DRAG_STOP and DRAG_OUTSIDE go to the drag source, with the event's button and the position relative to the
    source's absolute geometry. -/
theorem to_drag_source (cfg : Cfg) (fuel : Nat) (st : St) (src : WinTree.Id) (type : Int) (ev : Ev) (geom : Rect)
    (hal : isAlive st.tree src = true) (hg : absGeometry st.tree (treeFuel st.tree) src = Res.ok geom) :
    toDragSource cfg fuel st src type ev = (do
      let (st1, r) ← handleMouse cfg fuel st src
        { type := type, button := ev.button, line := ev.line - geom.top, col := ev.col - geom.left }
      dropResult cfg st1 r) := by
  unfold toDragSource; simp [hal, hg]

/-- DRAG_OUTSIDE is sent exactly when the event is a DRAG, there is a drag source, and the DRAG was not handled by
    that window. -/
theorem drag_outside_iff (cfg : Cfg) (fuel : Nat) (st : St) (ev : Ev) (handled : Option WinTree.Id) :
    dragOutside cfg fuel st ev handled =
      match st.tree.root.dragSource with
      | some src => if ev.type = evDrag ∧ handled ≠ some src then toDragSource cfg fuel st src evDragOutside ev else pure st
      | none => pure st := by
  unfold dragOutside
  cases st.tree.root.dragSource with
  | none => rfl
  | some src => by_cases h1 : ev.type = evDrag <;> by_cases h2 : handled = some src <;> simp [h1, h2]

theorem onTermMouse_ok {cfg : Cfg} {fuel : Nat} {st st' : St} {ev : Ev} {r : Bool}
    (h : onTermMouse cfg fuel st ev = Out.ok (st', r)) :
    ∃ st0 st1 st2 handled st3 st4, refWin st 0 = Res.ok st0 ∧ dragPrelude cfg fuel st0 ev = Out.ok st1 ∧
      handleMouse cfg fuel st1 0 ev = Out.ok (st2, handled) ∧ dragOutside cfg fuel st2 ev handled = Out.ok st3 ∧
      dropResult cfg st3 handled = Res.ok st4 ∧ unrefLogged st4 0 = Res.ok st' ∧ r = handled.isSome := by
  unfold onTermMouse at h
  obtain ⟨st0, h0, h⟩ := lift_bind_eq_ok.1 h
  obtain ⟨st1, h1, h⟩ := out_bind_eq_ok.1 h
  obtain ⟨⟨st2, handled⟩, h2, h⟩ := out_bind_eq_ok.1 h
  obtain ⟨st3, h3, h⟩ := out_bind_eq_ok.1 h
  obtain ⟨st4, h4, h⟩ := lift_bind_eq_ok.1 h
  obtain ⟨st5, h5, h⟩ := lift_bind_eq_ok.1 h
  simp only [out_pure, Out.ok.injEq, Prod.mk.injEq] at h
  obtain ⟨rfl, rfl⟩ := h
  exact ⟨st0, st1, st2, handled, st3, st4, h0, h1, h2, h3, h4, h5, rfl⟩

theorem dragOutside_ext {cfg : Cfg} {P : LogItem → Prop} {fuel : Nat} {st st' : St} {ev : Ev} {handled : Option WinTree.Id}
    (hp : ∀ l c, Routed cfg .mouse { type := evDragOutside, button := ev.button, line := l, col := c } P)
    (h : dragOutside cfg fuel st ev handled = Out.ok st') : Ext P st st' := by
  unfold dragOutside at h
  cases hs : st.tree.root.dragSource with
  | none => simp only [hs, out_pure, Out.ok.injEq] at h; subst h; exact Ext.refl _ _
  | some src =>
    simp only [hs] at h
    by_cases hc : (ev.type = evDrag && handled ≠ some src) = true
    · rw [if_pos hc] at h; exact toDragSource_ext hp h
    · rw [if_neg hc] at h; simp only [out_pure, Out.ok.injEq] at h; subst h; exact Ext.refl _ _

/-- **hidden_never.**  Whatever the handlers do (claim, decline, mutate the tree), and for every event: every offer
    made during `on_term_key` / `on_term_mouse` by the code with the visibility repair goes to a window that is
    visible, together with all its ancestors, at the moment of the offer.  (Before the repair: `hidden_descendant_counterexample`.) -/
theorem hidden_never (cfg : Cfg) (hc : cfg.shown = true) (fuel : Nat) (st st' : St) (ev : Ev) (r : Bool)
    (h : onTermKey cfg fuel st ev = Out.ok (st', r) ∨ onTermMouse cfg fuel st ev = Out.ok (st', r)) :
    ∃ new, st'.log = new ++ st.log ∧ ∀ k w e b, LogItem.offer k w e b ∈ new → b = true := by
  have key : Ext ShownOffer st st' := by
    rcases h with h | h
    · exact handleKey_ext (shownOffer_routed cfg hc .key ev) fuel st 0 st' r h
    · obtain ⟨st0, st1, st2, handled, st3, st4, h0, h1, h2, h3, h4, h5, _⟩ := onTermMouse_ok h
      have hq : Quiet ShownOffer := (shownOffer_routed cfg hc .mouse ev).toQuiet
      have hr : ∀ e, Routed cfg .mouse e ShownOffer := shownOffer_routed cfg hc .mouse
      have e1 : Ext ShownOffer st0 st1 := by
        unfold dragPrelude at h1
        by_cases c1 : ev.type = evPress
        · simp only [c1, if_true, out_pure, Out.ok.injEq] at h1; subst h1; exact Ext.of_log rfl
        · simp only [c1, if_false] at h1
          by_cases c2 : (ev.type = evDrag && !st0.tree.root.mouseDragging) = true
          · rw [if_pos c2] at h1
            obtain ⟨⟨sa, src⟩, ha, h1⟩ := out_bind_eq_ok.1 h1
            obtain ⟨sb, hb, h1⟩ := lift_bind_eq_ok.1 h1
            simp only [out_pure, Out.ok.injEq] at h1; subst h1
            exact ((handleMouse_ext (hr _) fuel _ _ _ _ _ (sameKind.rfl' _) ha).trans (dragSourceSet_ext hq hb)).trans
              (Ext.of_log rfl)
          · rw [if_neg c2] at h1
            by_cases c3 : (ev.type = evRelease && st0.tree.root.mouseDragging) = true
            · rw [if_pos c3] at h1
              obtain ⟨⟨sa, dropped⟩, ha, h1⟩ := out_bind_eq_ok.1 h1
              obtain ⟨sb, hb, h1⟩ := lift_bind_eq_ok.1 h1
              obtain ⟨sc, hcc, h1⟩ := out_bind_eq_ok.1 h1
              simp only [out_pure, Out.ok.injEq] at h1; subst h1
              have e3 : Ext ShownOffer sb sc := by
                unfold dragStop at hcc
                cases hsrc : sb.tree.root.dragSource with
                | none => simp only [hsrc, out_pure, Out.ok.injEq] at hcc; subst hcc; exact Ext.refl _ _
                | some src => simp only [hsrc] at hcc; exact toDragSource_ext (fun _ _ => hr _) hcc
              exact (((handleMouse_ext (hr _) fuel _ _ _ _ _ (sameKind.rfl' _) ha).trans (dropResult_ext hq hb)).trans e3).trans
                (Ext.of_log rfl)
            · rw [if_neg c3] at h1; simp only [out_pure, Out.ok.injEq] at h1; subst h1; exact Ext.refl _ _
      exact ((((refWin_ext h0).trans e1).trans (handleMouse_ext (hr ev) fuel _ _ _ _ _ (sameKind.rfl' _) h2)).trans
        (dragOutside_ext (fun _ _ => hr _) h3)).trans ((dropResult_ext hq h4).trans (unrefLogged_ext hq h5))
  obtain ⟨new, hl, hp⟩ := key
  exact ⟨new, hl, fun k w e b hm => hp _ hm⟩

/-- **drag_consistent (order and content of the first DRAG).**  Whatever the handlers do: in the log of a DRAG event
    received while no drag is in progress, everything that belongs to DRAG_START — carrying the remembered button
    of the press — comes before everything that belongs to the DRAG itself and to DRAG_OUTSIDE, which carry the
    event's button. -/
theorem drag_start_first (cfg : Cfg) (fuel : Nat) (st st' : St) (ev : Ev) (r : Bool)
    (h : onTermMouse cfg fuel st ev = Out.ok (st', r)) (hd : ev.type = evDrag)
    (hnd : st.tree.root.mouseDragging = false) :
    ∃ newS newD, st'.log = newD ++ newS ++ st.log ∧
      (∀ i ∈ newS, Carries (fun e => e.type = evDragStart ∧ e.button = st.tree.root.mouseLastButton ∧ e.mod = 0) i) ∧
      (∀ i ∈ newD, Carries (fun e => (e.type = evDrag ∧ e.mod = ev.mod ∨ e.type = evDragOutside ∧ e.mod = 0) ∧
        e.button = ev.button) i) := by
  obtain ⟨st0, st1, st2, handled, st3, st4, h0, h1, h2, h3, h4, h5, _⟩ := onTermMouse_ok h
  obtain ⟨w0, _, e0⟩ := refWin_eq_ok h0
  have hroot : st0.tree.root = st.tree.root := by rw [e0]; rfl
  have hlog0 : st0.log = st.log := by rw [e0]
  let QS : Ev → Prop := fun e => e.type = evDragStart ∧ e.button = st.tree.root.mouseLastButton ∧ e.mod = 0
  let QD : Ev → Prop := fun e => (e.type = evDrag ∧ e.mod = ev.mod ∨ e.type = evDragOutside ∧ e.mod = 0) ∧ e.button = ev.button
  have eS : Ext (Carries QS) st0 st1 := by
    rw [drag_start_event cfg fuel st0 ev hd (by rw [hroot]; exact hnd)] at h1
    obtain ⟨⟨sa, src⟩, ha, h1⟩ := out_bind_eq_ok.1 h1
    obtain ⟨sb, hb, h1⟩ := lift_bind_eq_ok.1 h1
    simp only [out_pure, Out.ok.injEq] at h1; subst h1
    have hr : Routed cfg .mouse (Ev.mk evDragStart st0.tree.root.mouseLastButton st0.tree.root.mouseLastLine
        st0.tree.root.mouseLastCol 0) (Carries QS) :=
      carries_routed cfg _ QS (by intro e hk; exact ⟨hk.1, by rw [hk.2.1, hroot], hk.2.2⟩)
    exact ((handleMouse_ext hr fuel _ _ _ _ _ (sameKind.rfl' _) ha).trans (dragSourceSet_ext hr.toQuiet hb)).trans
      (Ext.of_log rfl)
  have rD := carries_routed cfg ev QD (by intro e hk; exact ⟨Or.inl ⟨by rw [hk.1, hd], hk.2.2⟩, hk.2.1⟩)
  have rO : ∀ l c, Routed cfg .mouse { type := evDragOutside, button := ev.button, line := l, col := c } (Carries QD) :=
    fun l c => carries_routed cfg _ QD (by intro e hk; exact ⟨Or.inr ⟨hk.1, hk.2.2⟩, hk.2.1⟩)
  have eD : Ext (Carries QD) st1 st' :=
    ((handleMouse_ext rD fuel _ _ _ _ _ (sameKind.rfl' _) h2).trans (dragOutside_ext rO h3)).trans
      ((dropResult_ext rD.toQuiet h4).trans (unrefLogged_ext rD.toQuiet h5))
  obtain ⟨newS, hS, pS⟩ := eS
  obtain ⟨newD, hD, pD⟩ := eD
  exact ⟨newS, newD, by rw [hD, hS, hlog0, List.append_assoc], pS, pD⟩

/-- **drag_consistent (the release).**  Whatever the handlers do: in the log of a RELEASE received while a drag is in
    progress, DRAG_DROP comes first, then DRAG_STOP, then the RELEASE itself; all carry the button of the release. -/
theorem drag_drop_stop_order (cfg : Cfg) (fuel : Nat) (st st' : St) (ev : Ev) (r : Bool)
    (h : onTermMouse cfg fuel st ev = Out.ok (st', r)) (hr : ev.type = evRelease)
    (hdr : st.tree.root.mouseDragging = true) :
    ∃ newDrop newStop newRel, st'.log = newRel ++ newStop ++ newDrop ++ st.log ∧
      (∀ i ∈ newDrop, Carries (fun e => e.type = evDragDrop ∧ e.button = ev.button) i) ∧
      (∀ i ∈ newStop, Carries (fun e => e.type = evDragStop ∧ e.button = ev.button) i) ∧
      (∀ i ∈ newRel, Carries (fun e => e.type = evRelease ∧ e.button = ev.button ∧ e.mod = ev.mod) i) := by
  obtain ⟨st0, st1, st2, handled, st3, st4, h0, h1, h2, h3, h4, h5, _⟩ := onTermMouse_ok h
  obtain ⟨w0, _, e0⟩ := refWin_eq_ok h0
  have hroot : st0.tree.root = st.tree.root := by rw [e0]; rfl
  have hlog0 : st0.log = st.log := by rw [e0]
  rw [drag_release_events cfg fuel st0 ev hr (by rw [hroot]; exact hdr)] at h1
  obtain ⟨⟨sa, dropped⟩, ha, h1⟩ := out_bind_eq_ok.1 h1
  obtain ⟨sb, hb, h1⟩ := lift_bind_eq_ok.1 h1
  obtain ⟨sc, hc, h1⟩ := out_bind_eq_ok.1 h1
  simp only [out_pure, Out.ok.injEq] at h1
  have rDrop : Routed cfg .mouse (Ev.mk evDragDrop ev.button ev.line ev.col 0)
      (Carries fun e => e.type = evDragDrop ∧ e.button = ev.button) :=
    carries_routed cfg _ _ (by intro e hk; exact ⟨hk.1, hk.2.1⟩)
  have eDrop : Ext (Carries fun e => e.type = evDragDrop ∧ e.button = ev.button) st0 sb :=
    (handleMouse_ext rDrop fuel _ _ _ _ _ (sameKind.rfl' _) ha).trans (dropResult_ext rDrop.toQuiet hb)
  have eStop : Ext (Carries fun e => e.type = evDragStop ∧ e.button = ev.button) sb st1 := by
    have e3 : Ext (Carries fun e => e.type = evDragStop ∧ e.button = ev.button) sb sc := by
      unfold dragStop at hc
      cases hsrc : sb.tree.root.dragSource with
      | none => simp only [hsrc, out_pure, Out.ok.injEq] at hc; subst hc; exact Ext.refl _ _
      | some src =>
        simp only [hsrc] at hc
        exact toDragSource_ext (fun l c => carries_routed cfg _ _ (by intro e hk; exact ⟨hk.1, hk.2.1⟩)) hc
    subst h1; exact e3.trans (Ext.of_log rfl)
  have rRel := carries_routed cfg ev (fun e => e.type = evRelease ∧ e.button = ev.button ∧ e.mod = ev.mod)
    (by intro e hk; exact ⟨by rw [hk.1, hr], hk.2.1, hk.2.2⟩)
  have eOut : Ext (Carries fun e => e.type = evRelease ∧ e.button = ev.button ∧ e.mod = ev.mod) st2 st3 := by
    rw [drag_outside_iff] at h3
    have hnd : ¬ (ev.type = evDrag) := by rw [hr]; decide
    cases hsrc : st2.tree.root.dragSource with
    | none => simp only [hsrc, out_pure, Out.ok.injEq] at h3; subst h3; exact Ext.refl _ _
    | some src => simp only [hsrc, hnd, false_and, if_false, out_pure, Out.ok.injEq] at h3; subst h3; exact Ext.refl _ _
  have eRel : Ext (Carries fun e => e.type = evRelease ∧ e.button = ev.button ∧ e.mod = ev.mod) st1 st' :=
    ((handleMouse_ext rRel fuel _ _ _ _ _ (sameKind.rfl' _) h2).trans eOut).trans
      ((dropResult_ext rRel.toQuiet h4).trans (unrefLogged_ext rRel.toQuiet h5))
  obtain ⟨n1, l1, p1⟩ := eDrop
  obtain ⟨n2, l2, p2⟩ := eStop
  obtain ⟨n3, l3, p3⟩ := eRel
  exact ⟨n1, n2, n3, by rw [l3, l2, l1, hlog0]; simp only [List.append_assoc], p1, p2, p3⟩

end Tickit.Props.C14
