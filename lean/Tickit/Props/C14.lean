import Tickit.Proof.WinInput
import Tickit.Proof.WinInputSafe
import Tickit.Proof.WinInputDeliver
import Tickit.Proof.WinInputBind
import Tickit.Proof.WinInputMove
import Tickit.Gen.WinInputCfg
import Tickit.Gen.InputXlate
/-
  C14 — Input reaches the front-most eligible window first, in its own coordinates.

  Model: `Model/WinInput.lean` (`_handle_key`, `_handle_mouse`, `on_term_key`, `on_term_mouse` of src/window.c on the
  shared window store), in the variant the extractor finds in the working tree (`Gen.WinInputCfg.cfg`;
  `code_is_repaired` below pins it to the repaired code).  Handlers are behaviour tables; `Static` tables only claim
  or decline, tables with actions mutate the tree from inside the handler.

  Clauses of the property and where they are proved:
    key: stealing front-most child, focus chain innermost first, own handlers, other children; stop at the first
         claim; first occurrences ................................ `key_order`, `key_order_reference`
    mouse: front-most visible window under the pointer (or stealing) before anything behind or around it
         ........................................................... `mouse_target`, `mouse_target_reference`,
                                                                     `mouse_target_owner` (= the painter's-model owner)
    position relative to the receiving window ...................... `mouse_relative`, `mouse_relative_absGeometry`
    hidden windows and their descendants never receive input ....... `hidden_never` (every handler behaviour, every
         outcome), `reference_orders_visible`
    drag start / outside / drop / stop consistent with the press ... `press_recorded`, `drag_start_event`,
         `drag_start_first`, `drag_release_events`, `drag_drop_stop_order`, `drag_outside_iff`
    closing / unreferencing inside a handler neither derails delivery nor crashes
         the unrepaired code does both ............................. `next_closed_derails_counterexample`,
                                                                     `next_freed_ub_counterexample`, `claim_withdrawn_counterexample`,
                                                                     `hidden_descendant_counterexample`
         the repaired code on the same histories ................... `repaired_*` below
         the repaired code, every state that satisfies the store invariant and every behaviour table (handlers that
         close, unref, ref, hide, show, change steal-input, restack, take focus; restack requests may be pending)
         ........................................................... `mutation_safe` (no undefined behaviour, and the
                                                                     store invariant `AInv` is re-established)
         every state the engine can reach (window creation, bindings, application actions, flushes, events)
         ........................................................... `reachable_good`, `mutation_safe_full`
         delivery to the windows a mutation does not affect: handlers that close, unref, hide, show or change
         steal-input of windows of a set `A` closed under descendants (and restack or ref anything, and take the
         focus inside `A` when `A` is a union of top-level subtrees that holds the focus chain): the windows
         outside `A` are offered the event in the reference order of the tree as it was when the dispatch began
         ........................................................... `delivery_unaffected_key`, `delivery_unaffected_mouse`,
                                                                     `delivery_unaffected_persists` (whole events, histories)
    the window's own handlers, when earlier ones are one-shot or unbind themselves and mutate the tree / hand the focus
         over from inside the walk (FOCUS events are then emitted on the list being walked): every handler still
         bound is invoked, in binding order, up to the first claim ... `own_handlers_under_mutation`,
                                                                     `own_handlers_all_when_declined`,
                                                                     `gone_handler_never_invoked`, `oneshot_at_most_once`
    position relative to the receiving window when handlers MOVE windows from inside the dispatch
         (`tickit_window_set_geometry`, action `geom`): the windows the handlers do not act on are given the position
         relative to themselves, whatever was moved, resized, closed … before they were offered the event
         ........................................................... `mouse_relative_under_moves`,
                                                                     `mouse_relative_under_moves_origin`, `geom_is_confined_action`
    mouse input that arrives as X10 bytes (libtermkey's decoding modelled: `x10Key`; `got_key` = the C20 model): the
         events of a report, the held-button record, the button of a button-less release, and with it DRAG_DROP /
         DRAG_STOP consistent with the press that began the drag .... `x10_report_events`, `x10_wheel_keeps_held`,
                                                                     `x10_gesture_holds_pressed_button`,
                                                                     `x10_release_names_held_button`,
                                                                     `x10_drag_release_consistent`
-/
namespace Tickit.Props.C14
open Tickit Tickit.WinTree Tickit.WinInput

/-! ### the tie to the source: which code is modelled -/

/-- The working tree contains the three repairs (sibling snapshot, counted claim, whole-chain visibility). -/
theorem code_is_repaired : Tickit.Gen.WinInputCfg.cfg = Cfg.repaired := by decide

/-- `_focus_gained` is the code the model's `take_focus` action mirrors (/repo commit 7a99ce0). -/
theorem focus_code_is_current : Tickit.Gen.WinInputCfg.focusLossRepaired = true := by decide

/-- The event-type constants the drag synthesis uses are the header's. -/
theorem event_constants : Tickit.Gen.WinInputCfg.mouseevPress = evPress ∧
    Tickit.Gen.WinInputCfg.mouseevDragStart = evDragStart := by decide

/-! ### keys -/

/-- **key_order.**  With handlers that only claim or decline, a key event is offered exactly to the windows of the
    reference visiting order `keyVisits` (stealing front-most child, focus chain innermost first, the window itself,
    the other children), in that order, up to and including the first window that claims (`offerAll`); nothing
    else is offered it, the invocation counters advance accordingly, and the event counts as handled iff a window
    claimed.  For every tree, every behaviour table, every fuel for which model and reference return. -/
theorem key_order (fuel F : Nat) (st st' : St) (ev : Ev) (claimed : Bool) (ws : List WinTree.Id)
    (hs : Static st.binds) (hwf : WF st.tree)
    (h : onTermKey Cfg.repaired fuel st ev = Out.ok (st', claimed))
    (hv : keyVisits st.tree F 0 = some ws) :
    offers st'.log = offers st.log ++
        ((offerAll st.binds .key (ws.map (·, ev))).2.1).map (fun p => (Kind.key, p.1, p.2)) ∧
      st'.binds = (offerAll st.binds .key (ws.map (·, ev))).1 ∧
      claimed = (offerAll st.binds .key (ws.map (·, ev))).2.2.isSome := by
  obtain ⟨_, sp⟩ := handleKey_static fuel st 0 ev st' claimed hs hwf h
  have sg := sp F ws hv
  exact ⟨sg.log, sg.binds, sg.ret⟩

/-- The same in the property's words: the windows offered the key are a prefix of the visiting order; their first
    occurrences are a prefix of the reference order `keyOrder` (so a stealing first child that is visited twice is
    no alarm); all of it is offered when nobody claims; and when somebody claims, it is the last window offered. -/
theorem key_order_reference (fuel F : Nat) (st st' : St) (ev : Ev) (claimed : Bool) (ws : List WinTree.Id)
    (hs : Static st.binds) (hwf : WF st.tree)
    (h : onTermKey Cfg.repaired fuel st ev = Out.ok (st', claimed))
    (hv : keyVisits st.tree F 0 = some ws) :
    ∃ offered : List WinTree.Id,
      offers st'.log = offers st.log ++ offered.map (fun w => (Kind.key, w, ev)) ∧
      offered <+: ws ∧ firstOcc offered <+: firstOcc ws ∧ keyOrder st.tree F 0 = some (firstOcc ws) ∧
      (claimed = false → offered = ws) ∧
      (claimed = true → ∃ pre w post, ws = pre ++ w :: post ∧ offered = pre ++ [w]) := by
  obtain ⟨hl, _, hc⟩ := key_order fuel F st st' ev claimed ws hs hwf h hv
  have hp := offerAll_prefix .key (ws.map (·, ev)) st.binds
  have htake := List.prefix_iff_eq_take.1 hp
  rw [← List.map_take] at htake
  refine ⟨ws.take (offerAll st.binds .key (ws.map (·, ev))).2.1.length, ?_, List.take_prefix _ _,
    firstOcc_prefix (List.take_prefix _ _), by simp [keyOrder, hv], ?_, ?_⟩
  · rw [hl]; congr 1
    conv => lhs; rw [htake]
    simp [List.map_map, Function.comp_def]
  · intro hcl
    have hn : (offerAll st.binds .key (ws.map (·, ev))).2.2 = none := by
      rw [hcl] at hc
      cases hq : (offerAll st.binds .key (ws.map (·, ev))).2.2 with
      | none => rfl
      | some x => rw [hq] at hc; simp at hc
    have := offerAll_none .key _ _ hn
    rw [this]; simp
  · intro hcl
    rw [hcl] at hc
    cases hq : (offerAll st.binds .key (ws.map (·, ev))).2.2 with
    | none => rw [hq] at hc; simp at hc
    | some w =>
      obtain ⟨pre, e, post, h1, h2, _, _⟩ := offerAll_some .key _ _ w hq
      have hlen : (offerAll st.binds .key (ws.map (·, ev))).2.1.length = pre.length + 1 := by rw [h2]; simp
      have hws : ws = pre.map (·.1) ++ w :: post.map (·.1) := by
        have := congrArg (List.map Prod.fst) h1
        simpa [List.map_map, Function.comp_def] using this
      refine ⟨pre.map (·.1), w, post.map (·.1), hws, ?_⟩
      rw [hlen]
      conv => lhs; rw [hws]
      have : pre.length + 1 = (pre.map (·.1) ++ [w]).length := by simp
      rw [this, show pre.map (·.1) ++ w :: post.map (·.1) = (pre.map (·.1) ++ [w]) ++ post.map (·.1) by simp]
      exact List.take_left'  rfl

/-! ### mouse -/

/-- **mouse_target.**  With handlers that only claim or decline, a mouse event dispatched to `win` (the root for the
    event itself, the drag source for DRAG_STOP / DRAG_OUTSIDE) is offered exactly to the windows of `mouseVisits`:
    the children under the pointer or stealing input, front-most first and depth first — so the front-most visible
    window under the pointer comes before anything behind or around it — then the window itself; each with the event
    as `mouseVisits` says it sees it; up to and including the first claim.  The result is the window that claimed. -/
theorem mouse_target (fuel F : Nat) (st st' : St) (win : WinTree.Id) (ev : Ev) (r : Option WinTree.Id)
    (ws : List (WinTree.Id × Ev)) (hs : Static st.binds) (hwf : WF st.tree)
    (h : handleMouse Cfg.repaired fuel st win ev = Out.ok (st', r))
    (hv : mouseVisits st.tree F win ev = some ws) :
    offers st'.log = offers st.log ++ ((offerAll st.binds .mouse ws).2.1).map (fun p => (Kind.mouse, p.1, p.2)) ∧
      st'.binds = (offerAll st.binds .mouse ws).1 ∧ r = (offerAll st.binds .mouse ws).2.2 := by
  obtain ⟨_, sp⟩ := handleMouse_static fuel st win ev st' r hs hwf h
  have sg := sp F ws hv
  exact ⟨sg.log, sg.binds, sg.ret⟩

/-- In the property's words: what is offered is a prefix of the reference order; the whole of it when nobody claims;
    and the window that handled the event is the last one offered. -/
theorem mouse_target_reference (fuel F : Nat) (st st' : St) (win : WinTree.Id) (ev : Ev) (r : Option WinTree.Id)
    (ws : List (WinTree.Id × Ev)) (hs : Static st.binds) (hwf : WF st.tree)
    (h : handleMouse Cfg.repaired fuel st win ev = Out.ok (st', r))
    (hv : mouseVisits st.tree F win ev = some ws) :
    ∃ offered : List (WinTree.Id × Ev),
      offers st'.log = offers st.log ++ offered.map (fun p => (Kind.mouse, p.1, p.2)) ∧ offered <+: ws ∧
      (r = none → offered = ws) ∧
      (∀ w, r = some w → ∃ pre e post, ws = pre ++ (w, e) :: post ∧ offered = pre ++ [(w, e)]) := by
  obtain ⟨hl, _, hr⟩ := mouse_target fuel F st st' win ev r ws hs hwf h hv
  refine ⟨_, hl, offerAll_prefix .mouse ws st.binds, ?_, ?_⟩
  · intro hn; rw [hn] at hr; exact offerAll_none .mouse _ _ hr.symm
  · intro w hw
    rw [hw] at hr
    obtain ⟨pre, e, post, h1, h2, _, _⟩ := offerAll_some .mouse _ _ w hr.symm
    exact ⟨pre, e, post, h1, h2⟩

/-- **mouse_target, in the painter's model.**  When no window steals input, the first window a mouse event is offered
    to is the window that owns the terminal cell under the pointer in the composition of the tree (`WinTree.owner`:
    front-most visible window covering the cell, children over their parent, earlier siblings over later ones,
    hidden subtrees ignored). -/
theorem mouse_target_owner (t : Tree) (hwf : WF t)
    (hns : ∀ (i : WinTree.Id) (w : Win), t.wins[i]? = some w → w.stealInput = false)
    (w0 : Win) (hw0 : t.wins[0]? = some w0) (hf0 : w0.freed = false) (hv0 : w0.isVisible = true) (hp0 : w0.parent = none)
    (l c : Int) (hin : w0.rect.memb l c = true) (ev : Ev) (hl : ev.line = l - w0.rect.top) (hc : ev.col = c - w0.rect.left)
    (ws : List (WinTree.Id × Ev)) (hv : mouseVisits t (t.wins.size + 1) 0 ev = some ws) :
    headWin ws = owner t l c := by
  have hvc : visibleChain t 1 0 = true := by
    unfold visibleChain
    simp [hw0, hf0, hv0, hp0]
  have := mouseVisits_owner hwf hns (t.wins.size + 1) 0 ev 1 w0 ws hw0 hvc (by unfold treeFuel; omega) hv
  rw [this]
  unfold owner
  rw [ownerIn]
  simp only [hw0, hv0, hf0, hin, Bool.not_true, Bool.or_self, Bool.false_eq_true, if_false, Nat.add_sub_cancel, hl, hc]
  generalize w0.children.findSome? (fun ch => ownerIn t t.wins.size ch (l - w0.rect.top) (c - w0.rect.left)) = o
  cases o <;> rfl

/-- **mouse_relative.**  Every window that is offered the event gets it with the kind (type, button, modifiers) of
    the event dispatched and with the position made relative to itself: the position dispatched to `win` minus the
    receiver's absolute origin relative to `win`'s (`OriginSum` adds up the offsets along the parent chain). -/
theorem mouse_relative (fuel F : Nat) (st st' : St) (win : WinTree.Id) (ev : Ev) (r : Option WinTree.Id)
    (ws : List (WinTree.Id × Ev)) (a b : Int) (hs : Static st.binds) (hwf : WF st.tree)
    (h : handleMouse Cfg.repaired fuel st win ev = Out.ok (st', r))
    (hv : mouseVisits st.tree F win ev = some ws) (ho : OriginSum st.tree (some win) a b) :
    ∃ offered : List (WinTree.Id × Ev),
      offers st'.log = offers st.log ++ offered.map (fun p => (Kind.mouse, p.1, p.2)) ∧
      ∀ x e, (x, e) ∈ offered → e.type = ev.type ∧ e.button = ev.button ∧ e.mod = ev.mod ∧
        ∃ a' b', OriginSum st.tree (some x) a' b' ∧ e.line = ev.line - (a' - a) ∧ e.col = ev.col - (b' - b) := by
  obtain ⟨offered, hl, hp, _, _⟩ := mouse_target_reference fuel F st st' win ev r ws hs hwf h hv
  refine ⟨offered, hl, ?_⟩
  intro x e hx
  obtain ⟨_, hk, hrel⟩ := mouseVisits_relative hwf F win ev ws a b hv ho x e (hp.subset hx)
  exact ⟨hk.1, hk.2.1, hk.2.2, hrel⟩

/-- The origin used above is what `tickit_window_get_abs_geometry` returns: a window `x` that is offered the event
    dispatched to the root at terminal cell `(ev.line, ev.col)` sees it at that cell minus its absolute geometry. -/
theorem mouse_relative_absGeometry (t : Tree) (hwf : WF t) (F f f0 : Nat) (ev : Ev) (ws : List (WinTree.Id × Ev))
    (g0 g : Rect) (x : WinTree.Id) (e : Ev) (hv : mouseVisits t F 0 ev = some ws) (hx : (x, e) ∈ ws)
    (h0 : absGeometry t f0 0 = Res.ok g0) (hg : absGeometry t f x = Res.ok g) :
    e.line = ev.line - (g.top - g0.top) ∧ e.col = ev.col - (g.left - g0.left) := by
  obtain ⟨_, _, a', b', ho, h1, h2⟩ :=
    mouseVisits_relative hwf F 0 ev ws g0.top g0.left hv (absGeometry_origin h0) x e hx
  obtain ⟨e1, e2⟩ := OriginSum.unique ho (absGeometry_origin hg)
  rw [h1, h2, e1, e2]; exact ⟨rfl, rfl⟩

/-! ### hidden windows -/

/-- The reference orders contain only windows that are visible together with all their ancestors. -/
theorem reference_orders_visible (t : Tree) (hwf : WF t) (F : Nat) (win : WinTree.Id) :
    (∀ ws, keyVisits t F win = some ws → ∀ x ∈ ws, visibleChain t (treeFuel t) x = true) ∧
    (∀ ev ws a b, mouseVisits t F win ev = some ws → OriginSum t (some win) a b →
      ∀ x e, (x, e) ∈ ws → visibleChain t (treeFuel t) x = true) :=
  ⟨keyVisits_visible t F win, fun ev ws a b hv ho x e hx => (mouseVisits_relative hwf F win ev ws a b hv ho x e hx).1⟩

/-! ### drag synthesis -/

/-- A PRESS is remembered: button and cell go into the root's press memory, nothing is dispatched for it. -/
theorem press_recorded (cfg : Cfg) (fuel : Nat) (st : St) (ev : Ev) (hp : ev.type = evPress) :
    dragPrelude cfg fuel st ev = Out.ok { st with tree := { st.tree with root := { st.tree.root with
      mouseLastButton := ev.button, mouseLastLine := ev.line, mouseLastCol := ev.col } } } := by
  unfold dragPrelude; simp [hp]

/-- The first DRAG after a press: DRAG_START is dispatched from the root with the button and the cell of the press,
    before the DRAG itself; the window that claims it becomes the drag source (`dragSourceSet`: if it is still in
    the tree), and the root is dragging from then on. -/
theorem drag_start_event (cfg : Cfg) (fuel : Nat) (st : St) (ev : Ev) (hd : ev.type = evDrag)
    (hnd : st.tree.root.mouseDragging = false) :
    dragPrelude cfg fuel st ev = (do
      let (st1, src) ← handleMouse cfg fuel st 0
        { type := evDragStart, button := st.tree.root.mouseLastButton, line := st.tree.root.mouseLastLine,
          col := st.tree.root.mouseLastCol }
      let st2 ← dragSourceSet cfg st1 src
      pure { st2 with tree := { st2.tree with root := { st2.tree.root with mouseDragging := true } } }) := by
  unfold dragPrelude
  have h1 : ¬ (ev.type = evPress) := by rw [hd]; decide
  rw [if_neg h1]
  simp [hd, hnd]

/-- The RELEASE that ends a drag: DRAG_DROP is dispatched from the root at the release cell, then DRAG_STOP to the
    drag source (position relative to it), then dragging ends — all before the RELEASE itself. -/
theorem drag_release_events (cfg : Cfg) (fuel : Nat) (st : St) (ev : Ev) (hr : ev.type = evRelease)
    (hdr : st.tree.root.mouseDragging = true) :
    dragPrelude cfg fuel st ev = (do
      let (st1, dropped) ← handleMouse cfg fuel st 0 { type := evDragDrop, button := ev.button, line := ev.line, col := ev.col }
      let st2 ← dropResult cfg st1 dropped
      let st3 ← dragStop cfg fuel st2 ev
      pure { st3 with tree := { st3.tree with root := { st3.tree.root with mouseDragging := false } } }) := by
  unfold dragPrelude
  have h1 : ¬ (ev.type = evPress) := by rw [hr]; decide
  have h2 : ¬ ((ev.type = evDrag && !st.tree.root.mouseDragging) = true) := by rw [hr]; simp; intro h; exact absurd h (by decide)
  rw [if_neg h1, if_neg h2]
  simp [hr, hdr]

/-- DRAG_STOP goes to the drag source if there is one. -/
theorem drag_stop_target (cfg : Cfg) (fuel : Nat) (st : St) (ev : Ev) :
    dragStop cfg fuel st ev =
      match st.tree.root.dragSource with
      | none => pure st
      | some src => toDragSource cfg fuel st src evDragStop ev := rfl

/-- DRAG_STOP and DRAG_OUTSIDE go to the drag source, with the event's button and the position relative to the
    source's absolute geometry. -/
theorem to_drag_source (cfg : Cfg) (fuel : Nat) (st : St) (src : WinTree.Id) (type : Int) (ev : Ev) (geom : Rect)
    (hal : isAlive st.tree src = true) (hg : absGeometry st.tree (treeFuel st.tree) src = Res.ok geom) :
    toDragSource cfg fuel st src type ev = (do
      let (st1, r) ← handleMouse cfg fuel st src
        { type := type, button := ev.button, line := ev.line - geom.top, col := ev.col - geom.left }
      dropResult cfg st1 r) := by
  unfold toDragSource; simp [hal, hg]

/-- DRAG_OUTSIDE is sent exactly when the event is a DRAG, there is a drag source, and the DRAG was not handled by
    that window. -/
theorem drag_outside_iff (cfg : Cfg) (fuel : Nat) (st : St) (ev : Ev) (handled : Option WinTree.Id) :
    dragOutside cfg fuel st ev handled =
      match st.tree.root.dragSource with
      | some src => if ev.type = evDrag ∧ handled ≠ some src then toDragSource cfg fuel st src evDragOutside ev else pure st
      | none => pure st := by
  unfold dragOutside
  cases st.tree.root.dragSource with
  | none => rfl
  | some src => by_cases h1 : ev.type = evDrag <;> by_cases h2 : handled = some src <;> simp [h1, h2]

/-- **hidden_never.**  Whatever the handlers do (claim, decline, mutate the tree), and for every event: every offer
    made during `on_term_key` / `on_term_mouse` by the code with the visibility repair goes to a window that is
    visible, together with all its ancestors, at the moment of the offer.  (Before the repair: `hidden_descendant_counterexample`.) -/
theorem hidden_never (cfg : Cfg) (hc : cfg.shown = true) (fuel : Nat) (st st' : St) (ev : Ev) (r : Bool)
    (h : onTermKey cfg fuel st ev = Out.ok (st', r) ∨ onTermMouse cfg fuel st ev = Out.ok (st', r)) :
    ∃ new, st'.log = new ++ st.log ∧ ∀ k w e b, LogItem.offer k w e b ∈ new → b = true := by
  have key : Ext ShownOffer st st' :=
    onTerm_ext (shownOffer_routed cfg hc .key ev) (shownOffer_routed cfg hc .mouse) h
  obtain ⟨⟨new, hl, hp⟩, _⟩ := key
  exact ⟨new, hl, fun k w e b hm => hp _ hm⟩

/-- **drag_consistent (order and content of the first DRAG).**  Whatever the handlers do: in the log of a DRAG event
    received while no drag is in progress, everything that belongs to DRAG_START — carrying the remembered button
    of the press — comes before everything that belongs to the DRAG itself and to DRAG_OUTSIDE, which carry the
    event's button. -/
theorem drag_start_first (cfg : Cfg) (fuel : Nat) (st st' : St) (ev : Ev) (r : Bool)
    (h : onTermMouse cfg fuel st ev = Out.ok (st', r)) (hd : ev.type = evDrag)
    (hnd : st.tree.root.mouseDragging = false) :
    ∃ newS newD, st'.log = newD ++ newS ++ st.log ∧
      (∀ i ∈ newS, Carries (fun e => e.type = evDragStart ∧ e.button = st.tree.root.mouseLastButton ∧ e.mod = 0) i) ∧
      (∀ i ∈ newD, Carries (fun e => (e.type = evDrag ∧ e.mod = ev.mod ∨ e.type = evDragOutside ∧ e.mod = 0) ∧
        e.button = ev.button) i) := by
  obtain ⟨st0, st1, st2, handled, st3, st4, h0, h1, h2, h3, h4, h5, _⟩ := onTermMouse_ok h
  obtain ⟨w0, _, e0⟩ := refWin_eq_ok h0
  have hroot : st0.tree.root = st.tree.root := by rw [e0]; rfl
  have hlog0 : st0.log = st.log := by rw [e0]
  let QS : Ev → Prop := fun e => e.type = evDragStart ∧ e.button = st.tree.root.mouseLastButton ∧ e.mod = 0
  let QD : Ev → Prop := fun e => (e.type = evDrag ∧ e.mod = ev.mod ∨ e.type = evDragOutside ∧ e.mod = 0) ∧ e.button = ev.button
  have eS : Ext (Carries QS) st0 st1 := by
    rw [drag_start_event cfg fuel st0 ev hd (by rw [hroot]; exact hnd)] at h1
    obtain ⟨⟨sa, src⟩, ha, h1⟩ := out_bind_eq_ok.1 h1
    obtain ⟨sb, hb, h1⟩ := lift_bind_eq_ok.1 h1
    simp only [out_pure, Out.ok.injEq] at h1; subst h1
    have hr : Routed cfg .mouse (Ev.mk evDragStart st0.tree.root.mouseLastButton st0.tree.root.mouseLastLine
        st0.tree.root.mouseLastCol 0) (Carries QS) :=
      carries_routed cfg _ QS (by intro e hk; exact ⟨hk.1, by rw [hk.2.1, hroot], hk.2.2⟩)
    exact ((handleMouse_ext hr fuel _ _ _ _ _ (sameKind.rfl' _) ha).trans (dragSourceSet_ext hr.toQuiet hb)).trans
      (Ext.of_log rfl)
  have rD := carries_routed cfg ev QD (by intro e hk; exact ⟨Or.inl ⟨by rw [hk.1, hd], hk.2.2⟩, hk.2.1⟩)
  have rO : ∀ l c, Routed cfg .mouse { type := evDragOutside, button := ev.button, line := l, col := c } (Carries QD) :=
    fun l c => carries_routed cfg _ QD (by intro e hk; exact ⟨Or.inr ⟨hk.1, hk.2.2⟩, hk.2.1⟩)
  have eD : Ext (Carries QD) st1 st' :=
    ((handleMouse_ext rD fuel _ _ _ _ _ (sameKind.rfl' _) h2).trans (dragOutside_ext rO h3)).trans
      ((dropResult_ext rD.toQuiet h4).trans (unrefLogged_ext rD.toQuiet h5))
  obtain ⟨⟨newS, hS, pS⟩, _⟩ := eS
  obtain ⟨⟨newD, hD, pD⟩, _⟩ := eD
  exact ⟨newS, newD, by rw [hD, hS, hlog0, List.append_assoc], pS, pD⟩

/-- **drag_consistent (the release).**  Whatever the handlers do: in the log of a RELEASE received while a drag is in
    progress, DRAG_DROP comes first, then DRAG_STOP, then the RELEASE itself; all carry the button of the release. -/
theorem drag_drop_stop_order (cfg : Cfg) (fuel : Nat) (st st' : St) (ev : Ev) (r : Bool)
    (h : onTermMouse cfg fuel st ev = Out.ok (st', r)) (hr : ev.type = evRelease)
    (hdr : st.tree.root.mouseDragging = true) :
    ∃ newDrop newStop newRel, st'.log = newRel ++ newStop ++ newDrop ++ st.log ∧
      (∀ i ∈ newDrop, Carries (fun e => e.type = evDragDrop ∧ e.button = ev.button) i) ∧
      (∀ i ∈ newStop, Carries (fun e => e.type = evDragStop ∧ e.button = ev.button) i) ∧
      (∀ i ∈ newRel, Carries (fun e => e.type = evRelease ∧ e.button = ev.button ∧ e.mod = ev.mod) i) := by
  obtain ⟨st0, st1, st2, handled, st3, st4, h0, h1, h2, h3, h4, h5, _⟩ := onTermMouse_ok h
  obtain ⟨w0, _, e0⟩ := refWin_eq_ok h0
  have hroot : st0.tree.root = st.tree.root := by rw [e0]; rfl
  have hlog0 : st0.log = st.log := by rw [e0]
  rw [drag_release_events cfg fuel st0 ev hr (by rw [hroot]; exact hdr)] at h1
  obtain ⟨⟨sa, dropped⟩, ha, h1⟩ := out_bind_eq_ok.1 h1
  obtain ⟨sb, hb, h1⟩ := lift_bind_eq_ok.1 h1
  obtain ⟨sc, hc, h1⟩ := out_bind_eq_ok.1 h1
  simp only [out_pure, Out.ok.injEq] at h1
  have rDrop : Routed cfg .mouse (Ev.mk evDragDrop ev.button ev.line ev.col 0)
      (Carries fun e => e.type = evDragDrop ∧ e.button = ev.button) :=
    carries_routed cfg _ _ (by intro e hk; exact ⟨hk.1, hk.2.1⟩)
  have eDrop : Ext (Carries fun e => e.type = evDragDrop ∧ e.button = ev.button) st0 sb :=
    (handleMouse_ext rDrop fuel _ _ _ _ _ (sameKind.rfl' _) ha).trans (dropResult_ext rDrop.toQuiet hb)
  have eStop : Ext (Carries fun e => e.type = evDragStop ∧ e.button = ev.button) sb st1 := by
    have e3 : Ext (Carries fun e => e.type = evDragStop ∧ e.button = ev.button) sb sc := by
      unfold dragStop at hc
      cases hsrc : sb.tree.root.dragSource with
      | none => simp only [hsrc, out_pure, Out.ok.injEq] at hc; subst hc; exact Ext.refl _ _
      | some src =>
        simp only [hsrc] at hc
        exact toDragSource_ext (fun l c => carries_routed cfg _ _ (by intro e hk; exact ⟨hk.1, hk.2.1⟩)) hc
    subst h1; exact e3.trans (Ext.of_log rfl)
  have rRel := carries_routed cfg ev (fun e => e.type = evRelease ∧ e.button = ev.button ∧ e.mod = ev.mod)
    (by intro e hk; exact ⟨by rw [hk.1, hr], hk.2.1, hk.2.2⟩)
  have eOut : Ext (Carries fun e => e.type = evRelease ∧ e.button = ev.button ∧ e.mod = ev.mod) st2 st3 := by
    rw [drag_outside_iff] at h3
    have hnd : ¬ (ev.type = evDrag) := by rw [hr]; decide
    cases hsrc : st2.tree.root.dragSource with
    | none => simp only [hsrc, out_pure, Out.ok.injEq] at h3; subst h3; exact Ext.refl _ _
    | some src => simp only [hsrc, hnd, false_and, if_false, out_pure, Out.ok.injEq] at h3; subst h3; exact Ext.refl _ _
  have eRel : Ext (Carries fun e => e.type = evRelease ∧ e.button = ev.button ∧ e.mod = ev.mod) st1 st' :=
    ((handleMouse_ext rRel fuel _ _ _ _ _ (sameKind.rfl' _) h2).trans eOut).trans
      ((dropResult_ext rRel.toQuiet h4).trans (unrefLogged_ext rRel.toQuiet h5))
  obtain ⟨⟨n1, l1, p1⟩, _⟩ := eDrop
  obtain ⟨⟨n2, l2, p2⟩, _⟩ := eStop
  obtain ⟨⟨n3, l3, p3⟩, _⟩ := eRel
  exact ⟨n1, n2, n3, by rw [l3, l2, l1, hlog0]; simp only [List.append_assoc], p1, p2, p3⟩

/-! ### mutations from inside handlers

  Concrete histories (the same as corpus/C14/*.ops), run on the model of the code before and after the repairs.
  They are evaluated by the kernel (`decide +kernel`): each is a single, complete computation. -/

namespace Scenario

/-- Run engine operations in order; `none` if one of them does not return. -/
def build (ops : List (St → Option St)) (st : St) : Option St := ops.foldl (fun s f => s.bind f) (some st)

def opWin (p : WinTree.Id) (r : Rect) (flags : Nat := 0) : St → Option St := fun s =>
  match newWin s p r (flags &&& 4 != 0) (flags &&& 1 != 0) (flags &&& 2 != 0) (flags &&& 8 != 0) with
  | .ok (s', _) => some s'
  | .ub _ => none

def opBind (w : WinTree.Id) (k : Kind) (es : List Entry) (oneshot : Bool := false) : St → Option St :=
  fun s => some (addBinding s w k es oneshot).1

def opAct (a : Act) (w : WinTree.Id) : St → Option St := fun s =>
  match doAction s ⟨a, w⟩ with
  | .ok s' => some s'
  | .ub _ => none

def opKey (cfg : Cfg) (ev : Ev) : St → Option St := fun s =>
  match emitKey cfg s ev with
  | .ok s' => some s'
  | _ => none

def opMouse (cfg : Cfg) (ev : Ev) : St → Option St := fun s =>
  match emitMouse cfg s ev with
  | .ok s' => some s'
  | _ => none

def opFlush : St → Option St := fun s =>
  match flushSt s with
  | .ok s' => some s'
  | .ub _ => none

def decl : Entry := { ret := false }
def claim : Entry := { ret := true }
def doing (ret : Bool) (a : Act) (w : WinTree.Id) : Entry := { ret := ret, actions := [⟨a, w⟩] }

/-- The windows that were offered an event, oldest first. -/
def offered (o : Option (Out St)) : Option (List WinTree.Id) :=
  o.bind fun r => match r with
    | .ok s => some ((offers s.log).map (·.2.1))
    | _ => none

def isUb (o : Option (Out St)) : Option Bool := o.map Out.isUb

/-- Three siblings in a row (3 in front, then 2, then 1), all with a declining key handler; the front-most one
    also performs `a` on window 2, the next sibling.  (corpus/C14/key_next_closed.ops, key_next_freed.ops) -/
def threeSiblingsKey (a : Act) : Option St :=
  build [opWin 0 ⟨0, 0, 1, 1⟩, opWin 0 ⟨0, 1, 1, 1⟩, opWin 0 ⟨0, 2, 1, 1⟩,
         opBind 3 .key [doing false a 2], opBind 2 .key [decl], opBind 1 .key [decl]] (newSt 5 8)

/-- Three windows over the same cell, mouse handlers.  (mouse_next_closed.ops, mouse_next_freed.ops) -/
def threeStackedMouse (a : Act) : Option St :=
  build [opWin 0 ⟨0, 0, 2, 2⟩, opWin 0 ⟨0, 0, 2, 2⟩, opWin 0 ⟨0, 0, 2, 2⟩,
         opBind 3 .mouse [doing false a 2], opBind 2 .mouse [decl], opBind 1 .mouse [decl], opBind 0 .mouse [decl]] (newSt 5 8)

/-- A popup (2) over a window (1): the popup claims the press and closes itself.  (claim_withdrawn_click_through.ops) -/
def popupClosesItself : Option St :=
  build [opWin 0 ⟨0, 0, 2, 2⟩, opWin 0 ⟨0, 0, 2, 2⟩,
         opBind 2 .mouse [doing true .close 2], opBind 1 .mouse [claim], opBind 0 .mouse [decl]] (newSt 5 8)

/-- Window 1 hides itself in its key handler; its child 2 has a handler too.  (hidden_midway_key.ops) -/
def hidesItself : Option St :=
  build [opWin 0 ⟨0, 0, 3, 3⟩, opWin 1 ⟨0, 0, 2, 2⟩,
         opBind 1 .key [doing false .hide 1], opBind 2 .key [decl]] (newSt 5 8)

/-- A drag that starts in window 2 (child of 1); then 1 is hidden; then the drag goes on elsewhere.
    (drag_source_hidden_parent.ops) -/
def dragThenHideParent (cfg : Cfg) : Option St :=
  build [opWin 0 ⟨0, 0, 3, 3⟩, opWin 1 ⟨0, 0, 2, 2⟩, opBind 2 .mouse [claim],
         opMouse cfg { type := evPress, button := 1, line := 0, col := 0 },
         opMouse cfg { type := evDrag, button := 1, line := 0, col := 1 },
         opAct .hide 1] (newSt 5 8)

/-- Did some offer in the log go to a window that was hidden (itself or an ancestor) at that moment? -/
def hiddenOffer (o : Option (Out St)) : Option Bool :=
  o.bind fun r => match r with
    | .ok s => some (s.log.any fun i => match i with | .offer _ _ _ b => !b | _ => false)
    | _ => none

def key : Ev := { type := 2 }
def press : Ev := { type := evPress, button := 1, line := 0, col := 0 }

end Scenario

open Scenario in
/-- Before the repair: the front-most sibling closes the next one; the closed window is still offered the key and
    window 1 behind it never is.  The reference order is 0, 3, 2, 1; with window 2 gone, 0, 3, 1. -/
theorem next_closed_derails_counterexample :
    offered ((threeSiblingsKey .close).map fun s => emitKey Cfg.legacy s key) = some [0, 3, 2] ∧
    offered ((threeStackedMouse .close).map fun s => emitMouse Cfg.legacy s press) = some [3, 2, 0] := by
  decide +kernel

open Scenario in
/-- After the repair the same histories offer the event to every window that is still there, in order. -/
theorem repaired_next_closed :
    offered ((threeSiblingsKey .close).map fun s => emitKey Cfg.repaired s key) = some [0, 3, 1] ∧
    offered ((threeStackedMouse .close).map fun s => emitMouse Cfg.repaired s press) = some [3, 1, 0] := by
  decide +kernel

open Scenario in
/-- Before the repair: the front-most sibling drops the last reference of the next one; the loop then reads
    `child->next` from freed memory. -/
theorem next_freed_ub_counterexample :
    isUb ((threeSiblingsKey .unref).map fun s => emitKey Cfg.legacy s key) = some true ∧
    isUb ((threeStackedMouse .unref).map fun s => emitMouse Cfg.legacy s press) = some true := by
  decide +kernel

open Scenario in
/-- After the repair the snapshot's reference keeps window 2 alive until the walk is over: everybody is offered the
    event, nothing undefined happens. -/
theorem repaired_next_freed :
    offered ((threeSiblingsKey .unref).map fun s => emitKey Cfg.repaired s key) = some [0, 3, 2, 1] ∧
    offered ((threeStackedMouse .unref).map fun s => emitMouse Cfg.repaired s press) = some [3, 2, 1, 0] := by
  decide +kernel

open Scenario in
/-- With the rule of commit 443f8da (`is_closed || refcount == 1 → ret = NULL`): the popup's claim is withdrawn and the
    window behind it is offered the same press.  With the counted reference the claim stands. -/
theorem claim_withdrawn_counterexample :
    offered (popupClosesItself.map fun s => emitMouse ⟨true, false, true⟩ s press) = some [2, 1] ∧
    offered (popupClosesItself.map fun s => emitMouse Cfg.repaired s press) = some [2] := by
  decide +kernel

open Scenario in
/-- Before the visibility repair: a window that hides itself still has its children offered the key, and a drag
    source whose parent was hidden still receives DRAG_OUTSIDE; after it, neither happens (`hidden_never`). -/
theorem hidden_descendant_counterexample :
    hiddenOffer (hidesItself.map fun s => emitKey ⟨true, true, false⟩ s key) = some true ∧
    hiddenOffer (hidesItself.map fun s => emitKey Cfg.repaired s key) = some false ∧
    hiddenOffer ((dragThenHideParent ⟨true, true, false⟩).map fun s =>
      emitMouse ⟨true, true, false⟩ s { type := evDrag, button := 1, line := 4, col := 4 }) = some true ∧
    hiddenOffer ((dragThenHideParent Cfg.repaired).map fun s =>
      emitMouse Cfg.repaired s { type := evDrag, button := 1, line := 4, col := 4 }) = some false := by
  decide +kernel

/-- The application states the engine can reach: a fresh root, new windows, bindings, the application's actions,
    flushes, and events — all on the repaired code. -/
inductive Reachable : St → Prop where
  | fresh (lines cols : Int) : Reachable (newSt lines cols)
  | win {st st' : St} {id : WinTree.Id} (p : WinTree.Id) (r : Rect) (a b c d : Bool) :
      Reachable st → newWin st p r a b c d = Res.ok (st', id) → Reachable st'
  | bind {st : St} (w : WinTree.Id) (k : Kind) (es : List Entry) (oneshot : Bool) :
      Reachable st → Reachable (addBinding st w k es oneshot).1
  | act {st st' : St} (a : Action) : Reachable st → doAction st a = Res.ok st' → Reachable st'
  | flush {st st' : St} : Reachable st → flushSt st = Res.ok st' → Reachable st'
  | key {st st' : St} (ev : Ev) : Reachable st → emitKey Cfg.repaired st ev = Out.ok st' → Reachable st'
  | mouse {st st' : St} (ev : Ev) : Reachable st → emitMouse Cfg.repaired st ev = Out.ok st' → Reachable st'

/-- **mutation_safe** (any state satisfying the invariant).  Take any application state that satisfies the store
    invariant `AInv` with no dispatcher reference outstanding — children and parent pointers agree, focus pointers
    point to children, no duplicates, closed windows are detached, the drag source is live, every live window's
    reference count is what the application owns, a window the application let go of has no children, every queued
    restack request names a live window that still hangs below the root — and any behaviour tables (`TableOK` holds of
    every table: `tableOK_all`; the actions are subject to the application rules of the harness).  Then a key or mouse event never makes the repaired
    routing touch freed memory, dereference NULL or abort: the only non-returning outcomes are the model's own fuel
    running out (`FuelMsg`, `Out.fuel`); and when it returns, the state satisfies the invariant again, so the next
    event is covered too. -/
theorem mutation_safe (st : St) (ev : Ev) (hinv : AInv st []) (htab : TableOK st.binds) :
    (∀ w, emitKey Cfg.repaired st ev = Out.ub w → FuelMsg w) ∧
    (∀ w, emitMouse Cfg.repaired st ev = Out.ub w → FuelMsg w) ∧
    (∀ st', emitKey Cfg.repaired st ev = Out.ok st' → AInv st' [] ∧ TableOK st'.binds) ∧
    (∀ st', emitMouse Cfg.repaired st ev = Out.ok st' → AInv st' [] ∧ TableOK st'.binds) := by
  obtain ⟨hk, hm⟩ := emit_safe (st := st) ⟨hinv, htab⟩ ev
  refine ⟨?_, ?_, ?_, ?_⟩
  · intro w hw; rw [hw] at hk; exact hk
  · intro w hw; rw [hw] at hm; exact hm
  · intro st' hs; rw [hs] at hk; exact hk
  · intro st' hs; rw [hs] at hm; exact hm

/-- The application's own covered operations keep the invariant as well (here: outside any dispatch). -/
theorem mutation_safe_actions (st : St) (a : Action) (hinv : AInv st []) (ha : ActOK a) :
    (∀ w, doAction st a = Res.ub w → FuelMsg w) ∧ (∀ st', doAction st a = Res.ok st' → AInv st' []) := by
  have h := doAction_safe hinv ha
  constructor
  · intro w hw; rw [hw] at h; exact h
  · intro st' hs; rw [hs] at h; exact h.1

/-- The application states reached through: a fresh root, new windows (any flags, any live parent), bindings,
    actions of the application itself, and key and mouse events on the repaired code.  (Kept from the stage at which
    restacking, take_focus and flush were not covered; `Reachable` / `mutation_safe_full` subsume it.) -/
inductive ReachableCovered : St → Prop where
  | fresh (lines cols : Int) : ReachableCovered (newSt lines cols)
  | win {st st' : St} {id : WinTree.Id} (p : WinTree.Id) (r : Rect) (a b c d : Bool) :
      ReachableCovered st → isAlive st.tree p = true → newWin st p r a b c d = Res.ok (st', id) → ReachableCovered st'
  | bind {st : St} (w : WinTree.Id) (k : Kind) (es : List Entry) :
      ReachableCovered st → (∀ e ∈ es, ∀ a ∈ e.actions, ActOK a) → ReachableCovered (addBinding st w k es).1
  | act {st st' : St} (a : Action) : ReachableCovered st → ActOK a → doAction st a = Res.ok st' → ReachableCovered st'
  | key {st st' : St} (ev : Ev) : ReachableCovered st → emitKey Cfg.repaired st ev = Out.ok st' → ReachableCovered st'
  | mouse {st st' : St} (ev : Ev) : ReachableCovered st → emitMouse Cfg.repaired st ev = Out.ok st' → ReachableCovered st'

/-- Every such state satisfies the hypotheses of `mutation_safe`. -/
theorem reachable_invariant {st : St} (h : ReachableCovered st) : AInv st [] ∧ TableOK st.binds := by
  induction h with
  | fresh l c => exact newSt_good l c
  | @win st st' id p r a b c d _ hal hn ih =>
    have hp : Alive st.tree p := by
      unfold isAlive at hal
      cases hw : st.tree.wins[p]? with
      | none => simp [hw] at hal
      | some w => simp only [hw] at hal; exact ⟨w, hw, by simpa using hal⟩
    have := newWin_good ih hp r a b c d
    rw [hn] at this
    exact this
  | bind w k es _ hes ih => exact addBinding_good ih w k es hes
  | act a _ ha hd ih =>
    have := doAction_safe ih.1 ha
    rw [hd] at this
    exact ⟨this.1, by rw [this.2]; exact ih.2⟩
  | key ev _ he ih =>
    have := (emit_safe ih ev).1
    rw [he] at this
    exact this
  | mouse ev _ he ih =>
    have := (emit_safe ih ev).2
    rw [he] at this
    exact this

/-- **mutation_safe over histories.**  Along every history of window creations, bindings with covered handlers,
    covered application actions and key / mouse events, no event ever makes the repaired routing touch freed memory,
    dereference NULL or abort. -/
theorem mutation_safe_histories {st : St} (h : ReachableCovered st) (ev : Ev) :
    (∀ w, emitKey Cfg.repaired st ev = Out.ub w → FuelMsg w) ∧
    (∀ w, emitMouse Cfg.repaired st ev = Out.ub w → FuelMsg w) := by
  obtain ⟨hinv, htab⟩ := reachable_invariant h
  exact ⟨(mutation_safe st ev hinv htab).1, (mutation_safe st ev hinv htab).2.1⟩

/-- Every state the engine can reach satisfies the store and accounting invariant with no dispatcher reference
    outstanding: children and parent pointers agree, focus pointers point to children, no duplicates, closed windows are
    detached, parents were created before their children, window 0 is the one root, every queued restack request
    names a live window that knows its parent and still hangs below the root, the drag source is live, and every live
    window's reference count is what the application owns. -/
theorem reachable_good {st : St} (h : Reachable st) : AInv st [] := by
  have key : Good [] st := by
    induction h with
    | fresh l c => exact newSt_good l c
    | @win st st' id p r a b c d _ hn ih =>
      have := newWin_good ih (newWin_alive hn) r a b c d
      rw [hn] at this
      exact this
    | bind w k es os _ ih => exact addBinding_good ih w k es (fun _ _ a _ => actOK_all a) os
    | act a _ hd ih =>
      have := doAction_safe ih.1 (actOK_all a)
      rw [hd] at this
      exact ⟨this.1, tableOK_all _⟩
    | flush _ hf ih =>
      have := flushSt_good ih
      rw [hf] at this
      exact this
    | key ev _ he ih =>
      have := (emit_safe ih ev).1
      rw [he] at this
      exact this
    | mouse ev _ he ih =>
      have := (emit_safe ih ev).2
      rw [he] at this
      exact this
  exact key.1

/-- **mutation_safe**, the full statement: in no reachable state does a key or mouse event make the repaired code
    touch freed memory, dereference NULL or abort — whatever the handlers close, unref, hide, restack, focus or
    steal, whatever restack requests are pending, whatever was flushed in between.  The only `ub` outcomes the model
    can still produce are the five messages of `FuelMsg`, which the model emits when its *own* recursion fuel runs
    out (parent chain, focus chain, destroy recursion, the two rectangle-set loops on the damage set): artefacts of
    the model, not behaviours of the C code.  (Delivery to the windows a mutation does not affect:
    `delivery_unaffected` below and the run-time oracle of Driver/Input.lean.) -/
theorem mutation_safe_full : ∀ (st : St), Reachable st → ∀ (ev : Ev),
    (∀ w, emitKey Cfg.repaired st ev = Out.ub w → FuelMsg w) ∧
    (∀ w, emitMouse Cfg.repaired st ev = Out.ub w → FuelMsg w) := by
  intro st h ev
  have hinv := reachable_good h
  exact ⟨(mutation_safe st ev hinv (tableOK_all _)).1, (mutation_safe st ev hinv (tableOK_all _)).2.1⟩

/-- The application's own operations never reach an undefined behaviour either, in any reachable state: every
    action of the vocabulary (subject to the harness rules of `allowed`) and `tickit_window_flush`. -/
theorem mutation_safe_full_operations : ∀ (st : St), Reachable st →
    (∀ (a : Action) (w : String), doAction st a = Res.ub w → FuelMsg w) ∧ (∀ w, flushSt st = Res.ub w → FuelMsg w) := by
  intro st h
  have hinv := reachable_good h
  constructor
  · intro a w hw
    have := doAction_safe hinv (actOK_all a)
    rw [hw] at this; exact this
  · intro w hw
    have := flushSt_good ⟨hinv, tableOK_all _⟩
    rw [hw] at this; exact this


/-! ### delivery to the windows a mutation does not affect -/

/-- **delivery_unaffected (keys).**  Let `A` be a set of windows closed under descendants (`Base`: the store is
    consistent, children of windows of `A` are in `A`, and no stealing window outside `A` has a front-most sibling
    in `A`), not containing the root, and let every handler action be confined to `A` (`Conf`: close, unref, hide,
    show and steal-input act on windows of `A`; restack requests and extra references are unrestricted; `take_focus`
    acts on a window of `A` and then `A` must be a union of whole top-level subtrees that also holds the root's
    present focus chain, `FocusOK` — the windows the run-time monitor exempts), in a state that satisfies the store invariant (outside any dispatch).  Then, whatever the handlers do and claim, the windows *outside `A`* are offered a key event in
    the reference order `keyVisits` of the tree **as it was when the dispatch began**: what is offered outside `A` is a
    prefix of the reference order outside `A` (also on first occurrences, i.e. against `keyOrder`), and all of it when
    nobody claims the event.  The store invariant holds again afterwards. -/
theorem delivery_unaffected_key (A : Aff) (fuel F : Nat) (st st' : St) (ev : Ev) (claimed : Bool) (vs : List WinTree.Id)
    (hu : Unaffected A st) (hroot : A 0 = false)
    (h : onTermKey Cfg.repaired fuel st ev = Out.ok (st', claimed)) (hv : keyVisits st.tree F 0 = some vs) :
    ∃ offered : List WinTree.Id,
      offWins st'.log = offWins st.log ++ offered ∧
      fA A offered <+: fA A vs ∧
      keyOrder st.tree F 0 = some (firstOcc vs) ∧ fA A (firstOcc offered) <+: fA A (firstOcc vs) ∧
      (claimed = false → fA A offered = fA A vs) ∧ AInv st' [] := by
  obtain ⟨w0, hw0, hf0, _⟩ := hu.inv.tree.root
  unfold onTermKey at h
  obtain ⟨g, ws, off, _, n⟩ := handleKey_sim hu.base fuel st 0 ev [] st' claimed hu.dinv ⟨w0, hw0, hf0⟩ h
  have m := n hroot F vs hv
  refine ⟨ws, off, m.1, by simp [keyOrder, hv], ?_, m.2, g.good.1⟩
  rw [← firstOcc_fA, ← firstOcc_fA]
  exact firstOcc_prefix m.1

/-- In every state the engine can reach the invariant part of the hypotheses holds by itself (`reachable_good`): what
    remains to be checked is the closure of `A` under descendants, the side condition on stealing windows, and that
    the handlers' actions are confined to `A`. -/
theorem unaffected_of_reachable (A : Aff) {st : St} (h : Reachable st) (hd : Down A st.tree)
    (hs : ∀ (p : WinTree.Id) (w0 : Win) (a : WinTree.Id) (rest : List WinTree.Id), A p = false → st.tree.wins[p]? = some w0 →
      w0.freed = false → w0.children = a :: rest → A a = true → ∀ c ∈ rest, A c = false → stealAt st.tree c = false)
    (hc : Conf A st.tree st.binds) : Unaffected A st :=
  ⟨reachable_good h, ⟨(reachable_good h).tree, hd, hs⟩, hc⟩

/-- **delivery_unaffected (mouse).**  Under the same hypotheses a mouse event dispatched to a window `win` outside
    `A` (the root for the event itself, the drag source for DRAG_STOP / DRAG_OUTSIDE) is offered to the windows
    outside `A` in the order of `mouseVisits` on the tree as it was when the dispatch began — front-most window under
    the pointer (or stealing) first — up to the first claim, and to all of them when nobody claims. -/
theorem delivery_unaffected_mouse (A : Aff) (fuel F : Nat) (st st' : St) (win : WinTree.Id) (ev : Ev) (r : Option WinTree.Id)
    (vs : List (WinTree.Id × Ev)) (hu : Unaffected A st) (hwin : A win = false) (hal : Alive st.tree win)
    (h : handleMouse Cfg.repaired fuel st win ev = Out.ok (st', r)) (hv : mouseVisits st.tree F win ev = some vs) :
    ∃ offered : List WinTree.Id,
      offWins st'.log = offWins st.log ++ offered ∧
      fA A offered <+: fA A (vs.map (·.1)) ∧
      (r = none → fA A offered = fA A (vs.map (·.1))) ∧ AInv st' (heldR r []) := by
  obtain ⟨g, ws, off, _, n⟩ := handleMouse_sim hu.base fuel st win ev [] st' r hu.dinv hal h
  have m := n hwin F vs hv
  refine ⟨ws, off, m.1, ?_, g.good.1⟩
  intro hr; subst hr; exact m.2 rfl

/-- **The hypotheses persist.**  After a whole key event, and after a whole mouse event — with all the dispatches
    `on_term_mouse` makes for it: DRAG_START, DRAG_DROP, DRAG_STOP, the event itself, DRAG_OUTSIDE — the hypotheses of
    the delivery theorems hold again, of the store as it is then and the same set `A`: every dispatch of a history of
    events is covered, each against the tree as it was when that dispatch began. -/
theorem delivery_unaffected_persists (A : Aff) (st st' : St) (ev : Ev) (hu : Unaffected A st) :
    (emitKey Cfg.repaired st ev = Out.ok st' → Unaffected A st') ∧
    (emitMouse Cfg.repaired st ev = Out.ok st' → Unaffected A st') := by
  obtain ⟨w0, hw0, hf0, _⟩ := hu.inv.tree.root
  constructor
  · intro h
    unfold emitKey onTermKey at h
    obtain ⟨⟨st1, handled⟩, h1, h⟩ := out_bind_eq_ok.1 h
    obtain ⟨g, _⟩ := handleKey_sim hu.base _ st 0 ev [] st1 handled hu.dinv ⟨w0, hw0, hf0⟩ h1
    simp only [out_pure, Out.ok.injEq] at h
    subst h
    have g' := g.unaffected hu.base
    cases handled with
    | true => exact g'
    | false => exact g'.say _
  · intro h
    unfold emitMouse at h
    obtain ⟨⟨st1, handled⟩, h1, h⟩ := out_bind_eq_ok.1 h
    have g := (onTermMouse_po hu.base _ ev hu.dinv).run (st1, handled) h1
    simp only [out_pure, Out.ok.injEq] at h
    subst h
    have g' := DInv.unaffected hu.base g
    cases handled with
    | true => exact g'
    | false => exact g'.say _

/-! ### the hypotheses of the theorems above are met by real histories (non-vacuity) -/

namespace Scenario

/-- A tree with overlap, nesting, a hidden subtree, a stealing front-most child and a focused window. -/
def rich : Option St :=
  build [opWin 0 ⟨1, 1, 3, 4⟩, opWin 0 ⟨2, 3, 3, 4⟩, opWin 1 ⟨0, 1, 2, 2⟩, opWin 0 ⟨0, 0, 2, 2⟩ 1, opWin 4 ⟨0, 0, 1, 1⟩,
         opWin 0 ⟨0, 5, 2, 3⟩ 8,
         opBind 0 .key [decl], opBind 1 .key [decl, claim], opBind 2 .key [decl], opBind 3 .key [decl], opBind 5 .key [decl],
         opBind 6 .key [decl],
         opBind 0 .mouse [decl], opBind 1 .mouse [decl], opBind 2 .mouse [decl], opBind 3 .mouse [claim], opBind 6 .mouse [decl],
         opAct .focus 3] (newSt 6 9)

end Scenario

namespace Scenario

def richSt : St := rich.getD (newSt 0 0)

/-- The press of button 1 at terminal cell (2,3): inside window 1 (at 1,1), inside its child 3 (at 1,2 absolute),
    inside window 2 (at 2,3) which is in front of 1; the stealing window 6 is in front of everything. -/
def pressAt : Ev := { type := evPress, button := 1, line := 2, col := 3, mod := 4 }

end Scenario

open Scenario in
/-- `key_order`, `key_order_reference`: a state with the hypotheses (`Static`, `WF`) in which the dispatch returns and
    the reference order is defined — and is not trivial: the stealing child 6 comes first and is visited twice, then
    the focus chain (3 inside 1), then the root, then 2; the hidden subtree 4, 5 is absent; nobody claims. -/
example : Static richSt.binds ∧ WF richSt.tree ∧
    (∃ st', onTermKey Cfg.repaired (routeFuel richSt.tree) richSt key = Out.ok (st', false)) ∧
    keyVisits richSt.tree (routeFuel richSt.tree) 0 = some [6, 3, 1, 0, 6, 2] ∧
    keyOrder richSt.tree (routeFuel richSt.tree) 0 = some [6, 3, 1, 0, 2] :=
  ⟨staticCheck_sound (by decide +kernel), wfCheck_sound (by decide +kernel),
   key_returns (by decide +kernel), by decide +kernel, by decide +kernel⟩

open Scenario in
/-- `mouse_target`, `mouse_relative`: same state; the press at (2,3) is offered to the stealing window 6 (at 0,5:
    position (2,-2)), then to window 2 (position (0,0)), then to 3 inside 1 (position (1,1)), which claims; window 1
    and the root behind it are not offered it.  The origins are those of `tickit_window_get_abs_geometry`. -/
example : (∃ st', handleMouse Cfg.repaired (routeFuel richSt.tree) richSt 0 pressAt = Out.ok (st', some 3)) ∧
    (mouseVisits richSt.tree (routeFuel richSt.tree) 0 pressAt).map (·.map fun p => (p.1, p.2.line, p.2.col)) =
      some [(6, 2, -2), (2, 0, 0), (3, 1, 1), (1, 1, 2), (0, 2, 3)] ∧
    OriginSum richSt.tree (some 3) 1 2 ∧ OriginSum richSt.tree (some 0) 0 0 :=
  ⟨mouse_returns (by decide +kernel), by decide +kernel,
   origin_of_test (f := treeFuel richSt.tree) (by decide +kernel), origin_of_test (f := treeFuel richSt.tree) (by decide +kernel)⟩

open Scenario in
/-- `mouse_target_owner`: three windows stacked over cell (0,0), none stealing: the reference order starts with the
    front-most one, 3, and that is the owner of the cell in the painter's model. -/
example : ∃ st, threeStackedMouse .close = some st ∧ WF st.tree ∧
    (∀ (i : WinTree.Id) (w : Win), st.tree.wins[i]? = some w → w.stealInput = false) ∧
    (mouseVisits st.tree (st.tree.wins.size + 1) 0 press).map headWin = some (some 3) ∧ owner st.tree 0 0 = some 3 := by
  have key : ∀ (o : Option St), (o.map fun s => wfCheck s.tree && noStealCheck s.tree &&
        ((mouseVisits s.tree (s.tree.wins.size + 1) 0 press).map headWin == some (some 3)) &&
        (owner s.tree 0 0 == some 3)) = some true →
      ∃ st, o = some st ∧ WF st.tree ∧ (∀ (i : WinTree.Id) (w : Win), st.tree.wins[i]? = some w → w.stealInput = false) ∧
        (mouseVisits st.tree (st.tree.wins.size + 1) 0 press).map headWin = some (some 3) ∧ owner st.tree 0 0 = some 3 := by
    intro o h
    cases o with
    | none => simp at h
    | some st =>
      simp only [Option.map_some, Option.some.injEq, Bool.and_eq_true, beq_iff_eq] at h
      exact ⟨st, rfl, wfCheck_sound h.1.1.1, noStealCheck_sound h.1.1.2, h.1.2, h.2⟩
  exact key _ (by decide +kernel)

open Scenario in
/-- `hidden_never`, `drag_start_first`, `drag_drop_stop_order`: histories with the hypotheses — a handler that hides
    its own window in the middle of a dispatch (and the dispatch returns), a DRAG while nothing is being dragged,
    and a RELEASE while a drag is in progress (both return, with handlers running). -/
example :
    (∃ st st', hidesItself = some st ∧ onTermKey Cfg.repaired (routeFuel st.tree) st key = Out.ok (st', false)) ∧
    (∃ st st' r, dragThenHideParent Cfg.repaired = some st ∧ st.tree.root.mouseDragging = true ∧
      onTermMouse Cfg.repaired (routeFuel st.tree) st { type := evRelease, button := 1, line := 4, col := 4 } = Out.ok (st', r)) ∧
    (∃ st st' r, popupClosesItself = some st ∧ st.tree.root.mouseDragging = false ∧
      onTermMouse Cfg.repaired (routeFuel st.tree) st { type := evDrag, button := 1, line := 0, col := 0 } = Out.ok (st', r)) := by
  refine ⟨?_, ?_, ?_⟩
  · cases h : hidesItself with
    | none => exact absurd h (by decide +kernel)
    | some st =>
      have : (match onTermKey Cfg.repaired (routeFuel st.tree) st key with | .ok (_, d) => d == false | _ => false) = true := by
        have e : some st = hidesItself := h.symm
        have key' : (hidesItself.map fun s => match onTermKey Cfg.repaired (routeFuel s.tree) s key with
          | .ok (_, d) => d == false | _ => false) = some true := by decide +kernel
        rw [← e] at key'; simpa using key'
      obtain ⟨st', hs⟩ := key_returns this
      exact ⟨st, st', rfl, hs⟩
  · cases h : dragThenHideParent Cfg.repaired with
    | none => exact absurd h (by decide +kernel)
    | some st =>
      have e : some st = dragThenHideParent Cfg.repaired := h.symm
      have k1 : ((dragThenHideParent Cfg.repaired).map fun s => s.tree.root.mouseDragging) = some true := by decide +kernel
      have k2 : ((dragThenHideParent Cfg.repaired).map fun s =>
          (onTermMouse Cfg.repaired (routeFuel s.tree) s { type := evRelease, button := 1, line := 4, col := 4 }).isOk) = some true := by
        decide +kernel
      rw [← e] at k1 k2
      simp only [Option.map_some, Option.some.injEq] at k1 k2
      cases hx : onTermMouse Cfg.repaired (routeFuel st.tree) st { type := evRelease, button := 1, line := 4, col := 4 } with
      | ok p => exact ⟨st, p.1, p.2, rfl, k1, by rw [hx]⟩
      | ub w => rw [hx] at k2; simp [Out.isOk] at k2
      | fuel => rw [hx] at k2; simp [Out.isOk] at k2
  · cases h : popupClosesItself with
    | none => exact absurd h (by decide +kernel)
    | some st =>
      have e : some st = popupClosesItself := h.symm
      have k1 : (popupClosesItself.map fun s => s.tree.root.mouseDragging) = some false := by decide +kernel
      have k2 : (popupClosesItself.map fun s =>
          (onTermMouse Cfg.repaired (routeFuel s.tree) s { type := evDrag, button := 1, line := 0, col := 0 }).isOk) = some true := by
        decide +kernel
      rw [← e] at k1 k2
      simp only [Option.map_some, Option.some.injEq] at k1 k2
      cases hx : onTermMouse Cfg.repaired (routeFuel st.tree) st { type := evDrag, button := 1, line := 0, col := 0 } with
      | ok p => exact ⟨st, p.1, p.2, rfl, k1, by rw [hx]⟩
      | ub w => rw [hx] at k2; simp [Out.isOk] at k2
      | fuel => rw [hx] at k2; simp [Out.isOk] at k2

open Scenario in
/-- `mutation_safe`: the histories that broke the unrepaired code start from states that satisfy its hypotheses
    (checked by the decidable versions of `AInv` and `TableOK`, which are proved sound). -/
example :
    (∃ st, threeSiblingsKey .unref = some st ∧ AInv st [] ∧ TableOK st.binds) ∧
    (∃ st, threeStackedMouse .close = some st ∧ AInv st [] ∧ TableOK st.binds) ∧
    (∃ st, popupClosesItself = some st ∧ AInv st [] ∧ TableOK st.binds) ∧
    (∃ st, dragThenHideParent Cfg.repaired = some st ∧ AInv st [] ∧ TableOK st.binds) := by
  have key : ∀ (o : Option St), (o.map fun s => ainvCheck s && tableCheck s.binds) = some true →
      ∃ st, o = some st ∧ AInv st [] ∧ TableOK st.binds := by
    intro o h
    cases o with
    | none => simp at h
    | some st =>
      simp only [Option.map_some, Option.some.injEq, Bool.and_eq_true] at h
      exact ⟨st, rfl, ainvCheck_sound h.1, tableCheck_sound h.2⟩
  exact ⟨key _ (by decide +kernel), key _ (by decide +kernel), key _ (by decide +kernel), key _ (by decide +kernel)⟩

/-- `mutation_safe_full`: reachable states exist, beyond the fresh one, and events return in them. -/
example : ∃ st, Reachable st ∧ st.tree.wins.size = 2 :=
  ⟨_, Reachable.win (id := 1) 0 ⟨0, 0, 2, 2⟩ false false false false (Reachable.fresh 5 8) rfl, rfl⟩

namespace Scenario

/-- An engine operation that leads from reachable states to reachable states. -/
def StepR (f : St → Option St) : Prop := ∀ s s', Reachable s → f s = some s' → Reachable s'

theorem stepR_win (p : WinTree.Id) (r : Rect) (flags : Nat) : StepR (opWin p r flags) := by
  intro s s' hs h
  unfold opWin at h
  split at h
  · next s1 id hn => cases h; exact Reachable.win p r _ _ _ _ hs hn
  · cases h

theorem stepR_bind (w : WinTree.Id) (k : Kind) (es : List Entry) (os : Bool := false) : StepR (opBind w k es os) := by
  intro s s' hs h
  cases h; exact Reachable.bind w k es os hs

theorem stepR_act (a : Act) (w : WinTree.Id) : StepR (opAct a w) := by
  intro s s' hs h
  unfold opAct at h
  split at h
  · next s1 hd => cases h; exact Reachable.act _ hs hd
  · cases h

theorem stepR_key (ev : Ev) : StepR (opKey Cfg.repaired ev) := by
  intro s s' hs h
  unfold opKey at h
  split at h
  · next s1 hd => cases h; exact Reachable.key ev hs hd
  · cases h

theorem stepR_mouse (ev : Ev) : StepR (opMouse Cfg.repaired ev) := by
  intro s s' hs h
  unfold opMouse at h
  split at h
  · next s1 hd => cases h; exact Reachable.mouse ev hs hd
  · cases h

theorem stepR_flush : StepR opFlush := by
  intro s s' hs h
  unfold opFlush at h
  split at h
  · next s1 hd => cases h; exact Reachable.flush hs hd
  · cases h

theorem build_reachable : ∀ (ops : List (St → Option St)) (s s' : St), (∀ f ∈ ops, StepR f) → Reachable s →
    build ops s = some s' → Reachable s' := by
  intro ops
  induction ops with
  | nil => intro s s' _ hs h; cases h; exact hs
  | cons f rest ih =>
    intro s s' hall hs h
    unfold build at h
    simp only [List.foldl_cons, Option.bind_some] at h
    cases hf : f s with
    | none =>
      rw [hf] at h
      have : ∀ (l : List (St → Option St)), l.foldl (fun s f => s.bind f) (none : Option St) = none := by
        intro l; induction l with
        | nil => rfl
        | cons _ _ ih' => simpa using ih'
      rw [this] at h; cases h
    | some s1 =>
      rw [hf] at h
      exact ih s1 s' (fun g hg => hall g (List.mem_cons_of_mem _ hg)) (hall f (List.mem_cons_self ..) s s1 hs hf) h

/-- Windows 1 and 2 on the root, 3 inside 1.  The key handler of 3 restacks 1 and 3 and gives 3 the focus; the mouse
    handler of 2 claims the press and closes 1 — while the requests for 1 and 3 are still queued. -/
def restackOps : List (St → Option St) :=
  [opWin 0 ⟨0, 0, 2, 2⟩, opWin 0 ⟨2, 2, 2, 2⟩, opWin 1 ⟨0, 0, 1, 1⟩,
   opBind 3 .key [{ ret := false, actions := [⟨.lower, 1⟩, ⟨.focus, 3⟩, ⟨.raiseFront, 3⟩, ⟨.lowerBack, 2⟩] }],
   opBind 2 .mouse [doing true .close 1],
   opKey Cfg.repaired key]

theorem restackOps_stepR : ∀ f ∈ restackOps, StepR f := by
  intro f hf
  simp only [restackOps, List.mem_cons, List.not_mem_nil, or_false] at hf
  rcases hf with rfl | rfl | rfl | rfl | rfl | rfl
  · exact stepR_win _ _ _
  · exact stepR_win _ _ _
  · exact stepR_win _ _ _
  · exact stepR_bind _ _ _
  · exact stepR_bind _ _ _
  · exact stepR_key _

def pressOn2 : Ev := { type := evPress, button := 1, line := 2, col := 2 }

end Scenario

open Scenario in
/-- `mutation_safe_full` is about states like this one: reachable, three restack requests pending (queued by a key
    handler, which also moved the focus); the next press makes a handler close a queued window together with its queued
    child, the event returns, and so does the flush that applies what is left of the queue. -/
example : ∃ st, Reachable st ∧ st.tree.root.changes.length = 3 ∧
    ∃ st', emitMouse Cfg.repaired st pressOn2 = Out.ok st' ∧ st'.tree.root.changes.length = 1 ∧
      ∃ st'', flushSt st' = Res.ok st'' ∧ st''.tree.root.changes = [] := by
  have h : ∃ st, build restackOps (newSt 5 8) = some st ∧ st.tree.root.changes.length = 3 ∧
      ∃ st', emitMouse Cfg.repaired st pressOn2 = Out.ok st' ∧ st'.tree.root.changes.length = 1 ∧
        ∃ st'', flushSt st' = Res.ok st'' ∧ st''.tree.root.changes = [] := by
    have : ((build restackOps (newSt 5 8)).map fun st => (st.tree.root.changes.length,
        match emitMouse Cfg.repaired st pressOn2 with
        | .ok st' => (st'.tree.root.changes.length, match flushSt st' with
            | .ok st'' => some st''.tree.root.changes.length
            | .ub _ => none)
        | _ => (99, none))) = some (3, 1, some 0) := by decide +kernel
    cases hb : build restackOps (newSt 5 8) with
    | none => rw [hb] at this; simp at this
    | some st =>
      rw [hb] at this
      simp only [Option.map_some, Option.some.injEq, Prod.mk.injEq] at this
      obtain ⟨h1, h2⟩ := this
      refine ⟨st, rfl, h1, ?_⟩
      cases hm : emitMouse Cfg.repaired st pressOn2 with
      | ub w => rw [hm] at h2; simp at h2
      | fuel => rw [hm] at h2; simp at h2
      | ok st' =>
        rw [hm] at h2
        simp only [Prod.mk.injEq] at h2
        obtain ⟨h3, h4⟩ := h2
        refine ⟨st', rfl, h3, ?_⟩
        cases hf : flushSt st' with
        | ub w => rw [hf] at h4; simp at h4
        | ok st'' =>
          rw [hf] at h4
          simp only [Option.some.injEq] at h4
          exact ⟨st'', rfl, List.eq_nil_of_length_eq_zero h4⟩
  obtain ⟨st, hb, rest⟩ := h
  exact ⟨st, build_reachable _ _ _ restackOps_stepR (Reachable.fresh 5 8) hb, rest⟩

open Scenario in
/-- `delivery_unaffected_*`: the hypotheses hold of the states of the corpus histories with `A` = {window 2} (the
    window the front-most sibling closes or unreferences from inside its handler), checked by the decidable version
    `unaffectedCheck`, which is proved sound; and the conclusion is not empty there: the key is offered to 0, 3, 1 —
    the reference order 0, 3, 2, 1 without window 2. -/
example :
    (∃ st, threeSiblingsKey .close = some st ∧ Unaffected (fun x => x == 2) st) ∧
    (∃ st, threeSiblingsKey .unref = some st ∧ Unaffected (fun x => x == 2) st) ∧
    (∃ st, threeStackedMouse .close = some st ∧ Unaffected (fun x => x == 2) st) ∧
    ((threeSiblingsKey .close).map fun s => (keyVisits s.tree 5 0).map (fA (fun x => x == 2))) = some (some [0, 3, 1]) := by
  have key : ∀ (o : Option St), (o.map fun s => unaffectedCheck (fun x => x == 2) s) = some true →
      ∃ st, o = some st ∧ Unaffected (fun x => x == 2) st := by
    intro o h
    cases o with
    | none => simp at h
    | some st =>
      simp only [Option.map_some, Option.some.injEq] at h
      exact ⟨st, rfl, unaffectedCheck_sound h⟩
  exact ⟨key _ (by decide +kernel), key _ (by decide +kernel), key _ (by decide +kernel), by decide +kernel⟩

namespace Scenario

/-- Windows 1 and 2 on the root, 3 inside 2; the key handler of 1 gives 3 the focus and hides 2. -/
def focusInsideA : Option St :=
  build [opWin 0 ⟨0, 0, 2, 2⟩, opWin 0 ⟨2, 2, 2, 2⟩, opWin 2 ⟨0, 0, 1, 1⟩,
         opBind 1 .key [{ ret := false, actions := [⟨.focus, 3⟩, ⟨.hide, 2⟩, ⟨.raise, 1⟩] }],
         opBind 2 .key [decl], opBind 3 .key [decl], opBind 0 .key [decl]] (newSt 5 8)

end Scenario

open Scenario in
/-- `delivery_unaffected_key` with `take_focus` inside a handler: `A` = {2, 3}, a whole top-level subtree. -/
example : ∃ st, focusInsideA = some st ∧ Unaffected (fun x => x == 2 || x == 3) st := by
  have h : (focusInsideA.map fun s => unaffectedCheck (fun x => x == 2 || x == 3) s) = some true := by decide +kernel
  cases hb : focusInsideA with
  | none => rw [hb] at h; simp at h
  | some st =>
    rw [hb] at h
    simp only [Option.map_some, Option.some.injEq] at h
    exact ⟨st, rfl, unaffectedCheck_sound h⟩

/-! ### handlers that leave the list they are run from: one-shot and self-unbinding handlers

  A binding made with `TICKIT_BIND_ONESHOT`, or a handler that unbinds its own binding while it runs, turns into a
  tombstone of the list that `run_events_whilefalse` is walking.  What the handler does besides — close, hide, restack,
  hand the focus over, which makes the window emit FOCUS events from inside the walk, on the same list — must not
  derail the rest of the walk. -/

/-- **own handlers under mutation** (the clause "then to the window's own handlers … stopping at the first handler
    that claims it", for every tree mutation performed from inside handlers).  Whatever the handlers of a window do
    (`runHandlers` returned at all), the calls made by one offer are exactly: every handler that is still bound, in
    binding order, up to and including the first whose table says "claim" (`untilClaim (liveOf …)`) — handlers that
    are gone (fired one-shot, unbound themselves) are passed over, nobody is skipped because an earlier handler
    mutated the tree or left the list; and the bindings afterwards and the claim are those of the pure reference
    `offerOne` (the one `key_order` / `mouse_target` are stated with). -/
theorem own_handlers_under_mutation (st st' : St) (kind : Kind) (win : WinTree.Id) (ev : Ev) (c : Bool)
    (h : runHandlers st kind win ev = Res.ok (st', c)) :
    callsOf st'.log = callsOf st.log ++ untilClaim kind win ev (liveOf st.binds (bindingsOf st.binds kind win)) ∧
    (st'.binds, c) = offerOne st.binds kind win := by
  unfold runHandlers at h
  obtain ⟨h1, h2⟩ := runBindings_calls kind win ev _ _ _ _ h
  rw [callsOf_say_offer] at h1
  refine ⟨?_, h2⟩
  rw [h1]
  exact congrArg _ (walkCalls_eq kind win ev _ _ (bindingsOf_nodup _ _ _))

/-- …in particular, when no bound handler claims, every one of them is called, in order. -/
theorem own_handlers_all_when_declined (kind : Kind) (win : WinTree.Id) (ev : Ev) :
    ∀ (l : List Binding), (∀ b ∈ l, b.entry.ret = false) →
      untilClaim kind win ev l = l.map fun b => LogItem.call kind win b.idx (entryIndex b) false ev := by
  intro l
  induction l with
  | nil => intro _; rfl
  | cons b rest ih =>
    intro hd
    have hb := hd b (List.mem_cons_self ..)
    simp only [untilClaim, List.map_cons, hb, Bool.false_eq_true, if_false]
    rw [ih (fun x hx => hd x (List.mem_cons_of_mem _ hx))]

/-- A binding that is gone is never invoked again: a whole key or mouse event leaves it exactly as it was. -/
theorem gone_handler_never_invoked (cfg : Cfg) (st st' : St) (ev : Ev)
    (h : emitKey cfg st ev = Out.ok st' ∨ emitMouse cfg st ev = Out.ok st')
    (i : Nat) (x : Binding) (hx : st.binds[i]? = some x) (hg : x.gone = true) : st'.binds[i]? = some x := by
  obtain ⟨x', hx', s⟩ := (emit_bmono h).2 i x hx
  rw [hx', s.gone hg]

/-- **A one-shot handler runs at most once**, in every history: in every state the engine can reach, a one-shot
    binding has either never been invoked and is bound, or has been invoked exactly once and is gone. -/
theorem oneshot_at_most_once {st : St} (h : Reachable st) : OneShotInv st.binds := by
  induction h with
  | fresh l c => intro i x hx; simp [newSt] at hx
  | @win st st' id p r a b c d _ hn ih =>
    unfold newWin at hn
    obtain ⟨⟨t, id'⟩, _, hn⟩ := res_bind_eq_ok.1 hn
    simp only [res_pure, Res.ok.injEq, Prod.mk.injEq] at hn
    obtain ⟨rfl, _⟩ := hn
    exact ih
  | bind w k es os _ ih => exact ih.push _ rfl rfl
  | act a _ ha ih => rw [doAction_binds ha]; exact ih
  | flush _ hf ih =>
    unfold flushSt at hf
    obtain ⟨t, _, hf⟩ := res_bind_eq_ok.1 hf
    simp only [res_pure, Res.ok.injEq] at hf
    subst hf; exact ih
  | key ev _ hk ih => exact ih.mono (emit_bmono (Or.inl hk))
  | mouse ev _ hm ih => exact ih.mono (emit_bmono (Or.inr hm))

namespace Scenario

/-- The dialog of the reviewers' demonstration: window 1 is unrelated, 2 is a dialog that holds the focus, 3 its entry
    field.  The dialog's first key handler is a one-shot hook that hands the focus to the entry field (the dialog is
    told it lost the focus while its key handlers are being walked) and declines; its second handler claims. -/
def dialog : Option St :=
  build [opWin 0 ⟨0, 0, 2, 8⟩, opWin 0 ⟨2, 1, 3, 6⟩, opWin 2 ⟨1, 1, 1, 4⟩,
         opBind 1 .key [claim],
         opBind 2 .key [doing false .focus 3] true, opBind 2 .key [claim],
         opBind 3 .key [decl],
         opAct .focus 2] (newSt 6 8)

/-- The handler calls (window, handler index, claimed) of an event, oldest first. -/
def called (o : Option (Out St)) : Option (List (WinTree.Id × Nat × Bool)) :=
  o.bind fun r => match r with
    | .ok s => some ((callsOf s.log).filterMap fun i => match i with | .call _ w i _ r _ => some (w, i, r) | _ => none)
    | _ => none

end Scenario

open Scenario in
/-- Non-vacuity: first key — the hook fires (and moves the focus), then the dialog's second handler claims; second key —
    the hook is gone: the entry field (innermost on the focus chain) declines, the dialog's remaining handler claims. -/
example :
    called (dialog.map fun s => emitKey Cfg.repaired s key) = some [(2, 0, false), (2, 1, true)] ∧
    called (dialog.bind fun s => match emitKey Cfg.repaired s key with
      | .ok s1 => some (emitKey Cfg.repaired { s1 with log := [] } key) | _ => none) = some [(3, 0, false), (2, 1, true)] := by
  refine ⟨by decide +kernel, by decide +kernel⟩

open Scenario in
/-- …and the state after the first key is reachable, with the hook invoked once and gone. -/
example : ∃ st, Reachable st ∧ ∃ x, st.binds[1]? = some x ∧ x.oneshot = true ∧ x.count = 1 ∧ x.gone = true := by
  have hd : ∃ s, dialog = some s := by
    cases h : dialog with
    | none => exact absurd h (by decide +kernel)
    | some s => exact ⟨s, rfl⟩
  obtain ⟨s, hs⟩ := hd
  have hr : Reachable s := by
    apply build_reachable _ _ _ _ (Reachable.fresh 6 8) hs
    intro f hf
    simp only [List.mem_cons, List.not_mem_nil, or_false] at hf
    rcases hf with rfl | rfl | rfl | rfl | rfl | rfl | rfl | rfl
    · exact stepR_win _ _ _
    · exact stepR_win _ _ _
    · exact stepR_win _ _ _
    · exact stepR_bind _ _ _
    · exact stepR_bind _ _ _ true
    · exact stepR_bind _ _ _
    · exact stepR_bind _ _ _
    · exact stepR_act _ _
  have hk : (dialog.map fun s => match emitKey Cfg.repaired s key with
      | .ok s1 => (s1.binds[1]?.map fun x => (x.oneshot, x.count, x.gone)) == some (true, 1, true)
      | _ => false) = some true := by decide +kernel
  rw [hs] at hk
  simp only [Option.map_some, Option.some.injEq] at hk
  cases he : emitKey Cfg.repaired s key with
  | ok s1 =>
    rw [he] at hk
    dsimp only at hk
    refine ⟨s1, Reachable.key key hr he, ?_⟩
    cases hx : s1.binds[1]? with
    | none => rw [hx] at hk; simp at hk
    | some x =>
      rw [hx] at hk
      simp only [Option.map_some, beq_iff_eq, Option.some.injEq, Prod.mk.injEq] at hk
      exact ⟨x, rfl, hk.1, hk.2.1, hk.2.2⟩
  | ub w => rw [he] at hk; simp at hk
  | fuel => rw [he] at hk; simp at hk

/-! ### mouse input that arrives as X10 bytes: the button of a button-less release

  `ESC [ M …` reports go through libtermkey (modelled: `x10Key`), `got_key` of src/term.c (`InputXlate.gotKey`, the
  C20 model) and `on_term_mouse`.  An X10 release does not say which button was released: the terminal names the
  buttons it recorded as held.  For the drag clause that record has to be right: exactly the buttons pressed or
  dragged and not released since — a wheel report (a libtermkey "press" of button 4 / 5) is not one of them. -/

open InputXlate in
/-- Every X10 report, in every state of the held record that satisfies the mask invariant (`MaskInv`, kept by every
    report): `got_key` returns (no undefined shift, the release loop terminates), keeps the invariant, its record
    holds exactly the specification's set of held buttons, and — with the `default:` arm repaired, or for a report of
    a known kind — it emits exactly the specification's events. -/
theorem x10_report_events (xcfg : InputXlate.Cfg) (hcb : xcfg.onModereport = true ∧ xcfg.onDecrqss = true)
    (held : Nat) (hinv : MaskInv held) (code line col : Nat) :
    ∃ held' evs, gotKey xcfg x10Fuel held (x10Key code line col) = .ok (held', evs) ∧ MaskInv held' ∧
      heldButtons held' = (Spec.keyEvents (heldButtons held) (x10Key code line col)).1 ∧
      ((xcfg.dropUnknownMouse = true ∨ (x10Key code line col).KnownKind) →
        evs = (Spec.keyEvents (heldButtons held) (x10Key code line col)).2) :=
  gotKey_refines xcfg x10Fuel (by decide) held hinv _ (x10Key_wf code line col) hcb

open InputXlate in
/-- **A wheel report does not mark a button as held**: the record is unchanged, and exactly one WHEEL event (up = 1,
    down = 2) is emitted, at the reported cell. -/
theorem x10_wheel_keeps_held (xcfg : InputXlate.Cfg) (held code line col : Nat)
    (hw : code &&& 0xc3 = 64 ∨ code &&& 0xc3 = 65) (hm : code &&& 0x20 = 0) :
    gotKey xcfg x10Fuel held (x10Key code line col) =
      .ok (held, [Event.mouse MOUSEEV_WHEEL (x10Button code - 3) line col (x10Mods code)]) := by
  have he : x10Event code = TERMKEY_MOUSE_PRESS := by
    unfold x10Event
    rcases hw with hw | hw <;> simp [hw, hm]
  have hb : WHEEL_FIRST_BUTTON ≤ x10Button code := by
    unfold x10Button WHEEL_FIRST_BUTTON
    rcases hw with hw | hw <;> simp [hw]
  unfold x10Key
  rw [he, gotKey_mouse_wheel xcfg x10Fuel held _ _ _ _ hb]
  simp

open InputXlate in
/-- **The button-less release is given the button that is held**: with exactly button `b` held, an X10 release is
    reported as one RELEASE of button `b` at the reported cell, and nothing is held afterwards. -/
theorem x10_release_names_held_button (xcfg : InputXlate.Cfg) (hcb : xcfg.onModereport = true ∧ xcfg.onDecrqss = true)
    (held : Nat) (hinv : MaskInv held) (b : Nat) (hb : heldButtons held = [b]) (code line col : Nat)
    (hr : code &&& 0xc3 = 3) :
    ∃ held', gotKey xcfg x10Fuel held (x10Key code line col) =
      .ok (held', [Event.mouse MOUSEEV_RELEASE b line col (x10Mods code)]) ∧ heldButtons held' = [] := by
  obtain ⟨held', evs, hg, _, hh, he⟩ := x10_report_events xcfg hcb held hinv code line col
  have hev : x10Event code = TERMKEY_MOUSE_RELEASE := by unfold x10Event; simp [hr]
  have hbt : x10Button code = 0 := by unfold x10Button; simp [hr]
  have hk : x10Key code line col = .mouse TERMKEY_MOUSE_RELEASE 0 ((line : Int) + 1) ((col : Int) + 1) (x10Mods code) := by
    unfold x10Key; rw [hev, hbt]
  rw [hk] at hh he hg
  have hspec : Spec.keyEvents [b] (.mouse TERMKEY_MOUSE_RELEASE 0 ((line : Int) + 1) ((col : Int) + 1) (x10Mods code)) =
      ([], [Event.mouse MOUSEEV_RELEASE b line col (x10Mods code)]) := by
    simp [Spec.keyEvents, TERMKEY_MOUSE_RELEASE, TERMKEY_MOUSE_PRESS, TERMKEY_MOUSE_DRAG]
  rw [hb, hspec] at hh he
  refine ⟨held', ?_, hh⟩
  rw [hk, hg, he (Or.inr (by simp [Key.KnownKind, TERMKEY_MOUSE_RELEASE, TERMKEY_MOUSE_PRESS, TERMKEY_MOUSE_DRAG]))]

open InputXlate in
/-- **drag drop / stop consistent with the press, for a release that cannot name its button.**  With exactly button
    `b` held (the button of the press that began the drag: `x10_gesture_holds_pressed_button`) and a drag in progress,
    an X10 release — whatever the handlers do — logs DRAG_DROP first, then DRAG_STOP, then the RELEASE itself, all
    carrying button `b`, then at most the note that no window claimed the release; and nothing is held afterwards. -/
theorem x10_drag_release_consistent (cfg : WinInput.Cfg) (xcfg : InputXlate.Cfg)
    (hcb : xcfg.onModereport = true ∧ xcfg.onDecrqss = true) (ts ts' : TSt) (hinv : MaskInv ts.held) (b : Nat)
    (hb : heldButtons ts.held = [b]) (hdr : ts.st.tree.root.mouseDragging = true) (code line col : Nat)
    (hr : code &&& 0xc3 = 3) (h : pushX10 cfg xcfg ts code line col = Out.ok ts') :
    heldButtons ts'.held = [] ∧
    ∃ newDrop newStop newRel tail, ts'.st.log = tail ++ newRel ++ newStop ++ newDrop ++ ts.st.log ∧
      (∀ i ∈ newDrop, Carries (fun e => e.type = evDragDrop ∧ e.button = b) i) ∧
      (∀ i ∈ newStop, Carries (fun e => e.type = evDragStop ∧ e.button = b) i) ∧
      (∀ i ∈ newRel, Carries (fun e => e.type = evRelease ∧ e.button = b ∧ e.mod = x10Mods code) i) ∧
      (∀ i ∈ tail, i = LogItem.unhandled) := by
  obtain ⟨held', hg, hh⟩ := x10_release_names_held_button xcfg hcb ts.held hinv b hb code line col hr
  unfold pushX10 at h
  rw [hg] at h
  simp only [deliver] at h
  obtain ⟨s1, hA, h⟩ := out_bind_eq_ok.1 h
  obtain ⟨s0, hB, hC⟩ := out_bind_eq_ok.1 hA
  simp only [out_pure, Out.ok.injEq] at h hC
  subst hC; subst h
  refine ⟨hh, ?_⟩
  unfold emitMouse at hB
  obtain ⟨⟨s2, handled⟩, h2, h3⟩ := out_bind_eq_ok.1 hB
  simp only [out_pure, Out.ok.injEq] at h3
  obtain ⟨n1, n2, n3, hl, p1, p2, p3⟩ := drag_drop_stop_order cfg _ ts.st s2 _ handled h2 (by rfl) hdr
  cases handled with
  | true =>
    simp only [if_true] at h3; subst h3
    exact ⟨n1, n2, n3, [], by simpa using hl, p1, p2, p3, by simp⟩
  | false =>
    simp only [Bool.false_eq_true, if_false] at h3; subst h3
    exact ⟨n1, n2, n3, [LogItem.unhandled], by simp [St.say, hl], p1, p2, p3, by simp⟩

open InputXlate in
/-- **What is held during a drag is the button of the press that began it**: from a fresh terminal, after the press of
    button `p + 1` (X10 code `p`, any modifiers) followed by any number of drags of that button and turns of the wheel,
    `got_key` has returned every time and its record holds exactly that button. -/
theorem x10_gesture_holds_pressed_button (xcfg : InputXlate.Cfg) (hcb : xcfg.onModereport = true ∧ xcfg.onDecrqss = true)
    (p : Nat) (hp : p < 3) (c0 l0 k0 : Nat) (hc0 : c0 &&& 0xc3 = p ∧ c0 &&& 0x20 = 0)
    (more : List (Nat × Nat × Nat)) (hm : ∀ r ∈ more, KeepsHeld p r.1) :
    ∃ held evs, runKeys xcfg x10Fuel 0 (x10Key c0 l0 k0 :: more.map fun r => x10Key r.1 r.2.1 r.2.2) = .ok (held, evs) ∧
      MaskInv held ∧ heldButtons held = [p + 1] := by
  obtain ⟨held, evs, hrun, hinv, hh, _⟩ := runKeys_refines xcfg x10Fuel (by decide) hcb
    (x10Key c0 l0 k0 :: more.map fun r => x10Key r.1 r.2.1 r.2.2) 0 maskInv_zero (by
      intro k hk
      rcases List.mem_cons.1 hk with rfl | hk
      · exact x10Key_wf _ _ _
      · obtain ⟨r, _, rfl⟩ := List.mem_map.1 hk; exact x10Key_wf _ _ _)
  refine ⟨held, evs, hrun, hinv, ?_⟩
  rw [hh, heldButtons_zero]
  have hpress : (Spec.keyEvents [] (x10Key c0 l0 k0)).1 = [p + 1] := by
    have he : x10Event c0 = TERMKEY_MOUSE_PRESS := by unfold x10Event; simp [hc0.1, hp, hc0.2]
    have hbt : x10Button c0 = (p : Int) + 1 := by unfold x10Button; simp [hc0.1, hp]
    unfold x10Key
    rw [he, hbt]
    have h4 : ¬ ((p : Int) + 1 ≥ 4) := by omega
    have : ((p : Int) + 1).toNat = p + 1 := by omega
    simp [Spec.keyEvents, h4, this, Spec.insert]
  have hrest : ∀ (l : List (Nat × Nat × Nat)), (∀ r ∈ l, KeepsHeld p r.1) →
      (Spec.run [p + 1] (l.map fun r => x10Key r.1 r.2.1 r.2.2)).1 = [p + 1] := by
    intro l
    induction l with
    | nil => intro _; rfl
    | cons r rest ih =>
      intro hl
      simp only [List.map_cons, Spec.run]
      rw [keepsHeld_spec p hp _ _ _ (hl r (List.mem_cons_self ..))]
      exact ih (fun x hx => hl x (List.mem_cons_of_mem _ hx))
  simp only [Spec.run]
  rw [hpress]
  exact hrest more hm

namespace Scenario

/-- Two windows side by side, both claiming every mouse event (the reviewers' demonstration, scaled down). -/
def twoPanes : Option St :=
  build [opWin 0 ⟨0, 0, 3, 8⟩, opWin 0 ⟨3, 0, 3, 8⟩, opBind 1 .mouse [claim], opBind 2 .mouse [claim]] (newSt 6 8)

/-- The X10 reports of a history, pushed one after the other: the handler calls (window, event type, button), oldest first. -/
def x10Calls (reports : List (Nat × Nat × Nat)) : Option (List (WinTree.Id × Int × Int)) :=
  twoPanes.bind fun s =>
    let r := reports.foldl (fun (acc : Option TSt) rp => acc.bind fun ts =>
      match pushX10 Cfg.repaired {} ts rp.1 rp.2.1 rp.2.2 with
      | .ok ts' => some ts'
      | _ => none) (some { st := s })
    r.map fun ts => (callsOf ts.st.log).filterMap fun i => match i with | .call _ w _ _ _ e => some (w, e.type, e.button) | _ => none

end Scenario

open Scenario in
/-- Non-vacuity (the reviewers' demonstration): the wheel is turned over window 1, then button 3 is pressed in window
    1, dragged inside it and on into window 2, and released there with the button-less X10 release: WHEEL up to 1;
    PRESS 3, DRAG_START 3 and DRAG 3 to 1; DRAG 3 to 2 and DRAG_OUTSIDE 3 to 1; DRAG_DROP 3 to 2, DRAG_STOP 3 to 1,
    RELEASE 3 to 2 — every synthesised event carries the button of the press, nothing is reported twice. -/
example : x10Calls [(64, 1, 2), (2, 1, 2), (34, 2, 2), (34, 4, 2), (3, 4, 2)] =
    some [(1, 4, 1), (1, 1, 3), (1, 257, 3), (1, 2, 3), (2, 2, 3), (1, 258, 3), (2, 259, 3), (1, 260, 3), (2, 3, 3)] := by
  decide +kernel

/-! ### windows that are moved from inside the dispatch

  A mouse handler may call `tickit_window_set_geometry` (action `geom`): a marker that follows the pointer and lets the
  event through, a window that is dragged along.  The window behind it, its parent, the drag source must still be given
  the position relative to *themselves*: `_handle_mouse` hands every child a translated copy of the event, so what a
  child's subtree does to the child's rectangle cannot reach the event the next sibling and the parent see. -/

/-- A `geom` action is confined to `A` exactly when its target is a window of `A` (so `Conf`, `Unaffected` and the
    delivery theorems above cover handlers that move windows of `A`). -/
theorem geom_is_confined_action (A : Aff) (w : WinTree.Id) (dt dl dn dc : Int) :
    ActConf A ⟨.geom dt dl dn dc, w⟩ ↔ A w = true := Iff.rfl

/-- **mouse_relative under moves.**  Let the handlers act on windows of `A` only (`Unaffected`: close, unref, hide,
    show, steal-input and **set_geometry** — move / resize — of windows of `A`; restack and ref anything), and let a
    mouse event that stands for the terminal cell `(L, C)` be dispatched to `win` (`RelTo`: its position is `(L, C)`
    minus `win`'s origin).  Then, whatever the handlers do and claim, every offer to and every handler call of a window
    **outside `A`** carries the position of `(L, C)` relative to that window (`PosItem`: the cell minus the sum of the
    offsets along its parent chain, in the tree as it was when the dispatch began — these windows and their ancestors
    were not moved). -/
theorem mouse_relative_under_moves (A : Aff) (fuel : Nat) (st st' : St) (win : WinTree.Id) (ev : Ev) (r : Option WinTree.Id)
    (L C : Int) (hu : Unaffected A st) (hal : Alive st.tree win) (hpos : A win = false → RelTo st.tree L C win ev)
    (h : handleMouse Cfg.repaired fuel st win ev = Out.ok (st', r)) :
    ∃ new, st'.log = new ++ st.log ∧ ∀ i ∈ new, PosItem A st.tree L C i :=
  (handleMouse_pos hu.base L C fuel st win ev [] st' r hu.dinv hal hpos h).1

/-- The hypothesis `RelTo` of the dispatches `on_term_mouse` makes: the event itself goes to the root with the terminal
    cell (the root lies at its own offset, (0,0) in every state the engine builds), DRAG_STOP / DRAG_OUTSIDE go to the
    drag source with the cell minus `tickit_window_get_abs_geometry` (`toDragSource`). -/
theorem mouse_relative_under_moves_origin (t : Tree) (f : Nat) (src : WinTree.Id) (g : Rect) (ev : Ev) (type : Int)
    (hg : absGeometry t f src = Res.ok g) :
    RelTo t ev.line ev.col src { type := type, button := ev.button, line := ev.line - g.top, col := ev.col - g.left } :=
  ⟨g.top, g.left, absGeometry_origin hg, rfl, rfl⟩

namespace Scenario

/-- The reviewers' demonstration, scaled down: a back window 1 that claims, a marker 2 in front of it whose handler moves
    the marker by (1,2) and declines; window 3 inside a parent 4 … kept small: back, marker, root. -/
def markerMoves : Option St :=
  build [opWin 0 ⟨2, 2, 5, 12⟩, opWin 0 ⟨4, 4, 3, 3⟩,
         opBind 1 .mouse [claim], opBind 2 .mouse [{ ret := false, actions := [⟨.geom 1 2 0 0, 2⟩] }],
         opBind 0 .mouse [decl]] (newSt 10 20)

/-- The handler calls of a press at terminal cell (5,5): (window, line, col), oldest first; and where the marker is then. -/
def markerRun : Option (List (WinTree.Id × Int × Int) × Option (Int × Int)) :=
  markerMoves.bind fun s =>
    match emitMouse Cfg.repaired s { type := evPress, button := 1, line := 5, col := 5 } with
    | .ok s' => some ((callsOf s'.log).filterMap (fun i => match i with | .call _ w _ _ _ e => some (w, e.line, e.col) | _ => none),
        (s'.tree.wins[2]?).map fun w => (w.rect.top, w.rect.left))
    | _ => none

end Scenario

open Scenario in
/-- Non-vacuity: the marker (window 2, at (4,4)) is given (1,1), moves itself to (5,6) and declines; the window behind it
    (window 1, at (2,2)) is given (3,3) — its own coordinates, not displaced by the move — and claims.  The hypotheses of
    `mouse_relative_under_moves` hold of this state with `A` = {2}. -/
example : markerRun = some ([(2, 1, 1), (1, 3, 3)], some (5, 6)) ∧
    ∃ st, markerMoves = some st ∧ Unaffected (fun x => x == 2) st := by
  refine ⟨by decide +kernel, ?_⟩
  have h : (markerMoves.map fun s => unaffectedCheck (fun x => x == 2) s) = some true := by decide +kernel
  cases hb : markerMoves with
  | none => rw [hb] at h; simp at h
  | some st =>
    rw [hb] at h
    simp only [Option.map_some, Option.some.injEq] at h
    exact ⟨st, rfl, unaffectedCheck_sound h⟩

end Tickit.Props.C14
