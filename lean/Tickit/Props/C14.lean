import Tickit.Model.WinInput
namespace Tickit.Props.C14
end Tickit.Props.C14
