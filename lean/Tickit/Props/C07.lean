import Tickit.Proof.Utf8
namespace Tickit.Props.C07
end Tickit.Props.C07
