import Tickit.Proof.Utf8
/-
  C07 — UTF-8 counting is grapheme-atomic, limit-respecting, resumable and bounded.

  `Tickit.Utf8` is the statement-by-statement model of src/utf8.c, `Tickit.Width` of src/unicode.h; the
  interval tables and three leaf functions are regenerated from the C source (`Tickit.Gen.Width`).
  The counting theorems are stated for `ncountmore` (the other three entry points are instances:
  `count`, `countmore`, `ncount`), for every memory, length/terminator mode, start position, limit and
  fuel.  `scan mem fuel str len = some (cs, t)` names the characters `cs` the loop meets from `str` on
  when no limit stops it, and how they end (`t`); `clusters cs` groups them into graphemes.
-/
namespace Tickit.Props.C07
open Tickit Tickit.Utf8 Tickit.Width

/-! ### width tables (generated) and `bisearch` -/

/-- The generated `combining` table is sorted and non-overlapping (complete table, kernel-checked). -/
theorem combining_sorted : Sorted Gen.Width.combining := by unfold Sorted; decide +kernel

/-- The generated `fullwidth` table is sorted and non-overlapping. -/
theorem fullwidth_sorted : Sorted Gen.Width.fullwidth := by unfold Sorted; decide +kernel

/-- Neither table is empty (an empty table would make the C `bisearch` read `table[-1]`). -/
theorem tables_nonempty : 0 < Gen.Width.combining.size ∧ 0 < Gen.Width.fullwidth.size := by decide +kernel

/-- `bisearch` answers membership: for every sorted non-overlapping table and every code point,
    `bisearch t c = true ↔ ∃ (a, b) ∈ t, a ≤ c ≤ b`. -/
theorem bisearch_iff (t : Table) (hs : Sorted t) (c : Nat) :
    bisearch t c = true ↔ ∃ e ∈ t.toList, e.1 ≤ c ∧ c ≤ e.2 :=
  bisearch_iff_inTable hs c

/-- The fuel of the model's `bisearch` loop never runs out on a sorted table. -/
theorem bisearch_fuel (t : Table) (hs : Sorted t) (h : 0 < t.size) (c : Nat) :
    bisearchLoop t c (t.size + 1) 0 ((t.size : Int) - 1) ≠ none :=
  bisearchLoop_fuel hs c h

example : bisearch Gen.Width.combining 0x301 = true ∧ bisearch Gen.Width.combining 0x41 = false ∧
    bisearch Gen.Width.fullwidth 0x5f61 = true := by decide +kernel

/-- The width the library computes is the search-free reading of its tables (the runtime oracle's width). -/
theorem wcwidth_eq_spec (c : Nat) : wcwidth c = wcwidthSpec c := by
  have hf : bisearch Gen.Width.fullwidth c = inTableLin Gen.Width.fullwidth c := by
    rw [Bool.eq_iff_iff, bisearch_iff_inTable fullwidth_sorted, inTableLin_iff]
  have hc : bisearch Gen.Width.combining c = inTableLin Gen.Width.combining c := by
    rw [Bool.eq_iff_iff, bisearch_iff_inTable combining_sorted, inTableLin_iff]
  unfold wcwidth wcwidthSpec mkWcwidth
  rw [hf, hc]
  repeat' split
  all_goals first | rfl | omega

example : wcwidth 0x5f61 = 2 ∧ wcwidth 0x301 = 0 ∧ wcwidth 0x41 = 1 ∧ wcwidth 0x9b = -1 ∧ wcwidth 0x302a = 2 := by
  decide +kernel

/-! ### leaf functions regenerated from the C source agree with the hand model -/

theorem leaf_seqlen (c : Nat) : Gen.Width.tickit_utf8_seqlen (c : Int) = (seqlen c : Nat) := by
  unfold Gen.Width.tickit_utf8_seqlen seqlen
  simp only [decide_eq_true_eq]
  repeat' split
  all_goals omega

theorem leaf_mk_wcwidth (c : Nat) :
    Gen.Width.mk_wcwidth (fun u => bisearch Gen.Width.combining u.toNat) (c : Int) = mkWcwidth c := by
  unfold Gen.Width.mk_wcwidth mkWcwidth
  simp only [Int.toNat_natCast, Bool.and_eq_true, Bool.or_eq_true, decide_eq_true_eq]
  by_cases h0 : c = 0
  · simp [h0]
  · have h0' : ¬ ((c : Int) = 0) := by omega
    by_cases hc : c < 32 ∨ (c ≥ 0x7f ∧ c < 0xa0)
    · have hc' : ((c : Int) < 32 ∨ (c : Int) ≥ 127 ∧ (c : Int) < 160) := by omega
      simp only [h0, h0', hc, hc', if_true, if_false]
    · have hc' : ¬ ((c : Int) < 32 ∨ (c : Int) ≥ 127 ∧ (c : Int) < 160) := by omega
      by_cases hb : bisearch Gen.Width.combining c = true
      · simp only [h0, h0', hc, hc', hb, if_true, if_false]
      · simp only [h0, h0', hc, hc', hb, Bool.false_eq_true, if_false]
        unfold isWideRange
        simp only [Bool.and_eq_true, Bool.or_eq_true, decide_eq_true_eq]
        split <;> split <;> omega

theorem leaf_wcwidth (c : Nat) :
    Gen.Width.tickit_utf8_wcwidth (fun u => bisearch Gen.Width.fullwidth u.toNat)
      (fun u => bisearch Gen.Width.combining u.toNat) (c : Int) = wcwidth c := by
  unfold Gen.Width.tickit_utf8_wcwidth wcwidth
  simp only [Int.toNat_natCast]
  split
  · rfl
  · exact leaf_mk_wcwidth c


/-! ### counting

`Scans mem fuel len pos cs t`: with no limit, the loop of `tickit_utf8_ncountmore(str, len, pos, _)` meets the
characters `cs` and then the end of the input (`t = eof`) or an error (`t = err`); `fuel` is enough for that.
`scans_sound` says what these characters are; `scan_terminates_*` that enough fuel exists for every
terminated input. -/

def Scans (mem : Mem) (fuel : Nat) (len : Option Nat) (pos : Pos) (cs : List Ch) (t : Tail) : Prop :=
  scan mem fuel pos.bytes (lenSub len pos.bytes) = some (cs, t)

/-- The graphemes of the scanned characters and how many of them a call with limit `L` counts. -/
abbrev graphemes (cs : List Ch) : List (List Ch) := clusters cs
abbrev taken (L : Option Limit) (cs : List Ch) (t : Tail) (pos : Pos) : Nat := specTaken L (clusters cs) t pos

/-- What the scanned characters are: character `c` after the prefix `a` is what the decoder finds at that
    offset — `c.n` bytes, code point `c.cp`, width `c.w = wcwidth c.cp ≥ 0`; and after all of them the loop
    guard fails (`eof`) or one of the `return -1` is taken (`err`). -/
theorem scans_sound (mem : Mem) (fuel : Nat) (len : Option Nat) (pos : Pos) (cs : List Ch) (t : Tail)
    (hs : Scans mem fuel len pos cs t) :
    (∀ a c b, cs = a ++ c :: b →
      ∃ hi, stepAt mem (pos.bytes + bytesOf a) (lenDec (lenSub len pos.bytes) (bytesOf a)) = .ch c.n c.cp c.w hi ∧
        c.w = wcwidth c.cp ∧ 0 ≤ c.w) ∧
    (t = .eof → ∃ hi, stepAt mem (pos.bytes + bytesOf cs) (lenDec (lenSub len pos.bytes) (bytesOf cs)) = .stop hi) ∧
    (t = .err → ∃ hi, stepAt mem (pos.bytes + bytesOf cs) (lenDec (lenSub len pos.bytes) (bytesOf cs)) = .err hi) := by
  refine ⟨?_, scan_end mem fuel _ _ cs t hs⟩
  intro a c b hsplit
  unfold Scans at hs
  rw [hsplit] at hs
  obtain ⟨hi, hst⟩ := scan_head mem fuel _ _ c b t (scan_append mem a fuel _ _ (c :: b) t hs)
  obtain ⟨h1, h2⟩ := stepAt_ch_nonneg hst
  exact ⟨hi, hst, h2, h1⟩

/-- The graphemes: every group is one character of width ≥ 0 followed by zero-width characters, every
    group but the first starts with a spacing character, and together they are exactly the characters. -/
theorem graphemes_wf (mem : Mem) (fuel : Nat) (len : Option Nat) (pos : Pos) (cs : List Ch) (t : Tail)
    (hs : Scans mem fuel len pos cs t) :
    (∀ g ∈ graphemes cs, IsCluster g) ∧ (∀ g ∈ (graphemes cs).tail, Spacing g) ∧ (graphemes cs).flatten = cs :=
  ⟨(clusters_wf cs (scan_nonneg mem _ _ _ _ _ hs)).1, (clusters_wf cs (scan_nonneg mem _ _ _ _ _ hs)).2,
   clusters_flatten cs⟩

/-- **Model = executable specification.**  `tickit_utf8_ncountmore` returns what `specRun` computes
    grapheme by grapheme (this is the function the runtime oracle evaluates). -/
theorem count_spec (mem : Mem) (fuel : Nat) (len : Option Nat) (pos : Pos) (L : Option Limit)
    (cs : List Ch) (t : Tail) (hs : Scans mem fuel len pos cs t) :
    ∃ hi, ncountmore mem fuel len pos L =
      .ret ((specRun L (graphemes cs) t pos).ret pos.bytes) (specRun L (graphemes cs) t pos).pos hi :=
  ncountmore_eq_spec mem fuel len pos L cs t hs

/-- **Grapheme-atomic.**  The returned position is the position after a whole number `j` of graphemes;
    it is the initial position (`j = 0`), the end of the scanned input, or the start of a grapheme that
    begins with a spacing character. -/
theorem count_grapheme_atomic (mem : Mem) (fuel : Nat) (len : Option Nat) (pos : Pos) (L : Option Limit)
    (cs : List Ch) (t : Tail) (hs : Scans mem fuel len pos cs t) (r : Int) (p : Pos) (hi : Nat)
    (h : ncountmore mem fuel len pos L = .ret r p hi) :
    taken L cs t pos ≤ (graphemes cs).length ∧
    p = sumPos pos ((graphemes cs).take (taken L cs t pos)).flatten ∧
    (taken L cs t pos = 0 ∨ taken L cs t pos = (graphemes cs).length ∨
      ∃ g rest, (graphemes cs).drop (taken L cs t pos) = g :: rest ∧ Spacing g) := by
  obtain ⟨_, hp⟩ := ret_inj hs h
  obtain ⟨h1, h2⟩ := specRun_pos L t (clusters cs) pos
  refine ⟨h2, by rw [hp, h1], ?_⟩
  obtain ⟨_, w2⟩ := clusters_wf cs (scan_nonneg mem _ _ _ _ _ hs)
  show specTaken L (clusters cs) t pos = 0 ∨ specTaken L (clusters cs) t pos = (clusters cs).length ∨
    ∃ g rest, (clusters cs).drop (specTaken L (clusters cs) t pos) = g :: rest ∧ Spacing g
  generalize clusters cs = gs at *
  generalize specTaken L gs t pos = j at *
  by_cases hj0 : j = 0
  · exact Or.inl hj0
  · by_cases hjl : j = gs.length
    · exact Or.inr (Or.inl hjl)
    · right; right
      cases hd : gs.drop j with
      | nil => simp at hd; omega
      | cons g rest =>
        refine ⟨g, rest, rfl, w2 g ?_⟩
        have hg : g ∈ gs.drop j := by rw [hd]; simp
        rw [show j = 1 + (j - 1) by omega, ← List.drop_drop] at hg
        have := List.mem_of_mem_drop hg
        rwa [List.drop_one] at this


example : Scans (memOfBytes [0x65, 0xcc, 0x81, 0x62]) 10 none Pos.zero [⟨1, 0x65, 1⟩, ⟨2, 0x301, 0⟩, ⟨1, 0x62, 1⟩] .eof ∧
    graphemes [⟨1, 0x65, 1⟩, ⟨2, 0x301, 0⟩, ⟨1, 0x62, 1⟩] = [[⟨1, 0x65, 1⟩, ⟨2, 0x301, 0⟩], [⟨1, 0x62, 1⟩]] ∧
    -- "e´b" with a limit of 2 code points… and of 1 code point: the combining accent is never split off
    count (memOfBytes [0x65, 0xcc, 0x81, 0x62]) 10 (some ⟨none, 2, -1, -1⟩) = .ret 3 ⟨3, 2, 1, 1⟩ 4 ∧
    count (memOfBytes [0x65, 0xcc, 0x81, 0x62]) 10 (some ⟨none, 1, -1, -1⟩) = .ret 0 ⟨0, 0, 0, 0⟩ 3 := by
  unfold Scans; decide +kernel

/-- **Consistent counters.**  The returned counters are the initial ones plus sums over the counted
    characters (a prefix of the scanned ones): bytes = Σ encoded lengths, codepoints = their number,
    graphemes = number of spacing ones, columns = Σ `wcwidth`. -/
theorem count_consistent (mem : Mem) (fuel : Nat) (len : Option Nat) (pos : Pos) (L : Option Limit)
    (cs : List Ch) (t : Tail) (hs : Scans mem fuel len pos cs t) (r : Int) (p : Pos) (hi : Nat)
    (h : ncountmore mem fuel len pos L = .ret r p hi) :
    ∃ counted rest, cs = counted ++ rest ∧
      counted = ((graphemes cs).take (taken L cs t pos)).flatten ∧
      p.bytes = pos.bytes + (counted.map (·.n)).sum ∧
      p.codepoints = pos.codepoints + counted.length ∧
      p.graphemes = pos.graphemes + (counted.filter (fun c => decide (wcwidth c.cp > 0))).length ∧
      p.columns = pos.columns + (counted.map (fun c => wcwidth c.cp)).sum ∧
      (r ≠ -1 → r = (counted.map (·.n)).sum) := by
  obtain ⟨hr, hp⟩ := ret_inj hs h
  obtain ⟨h1, _⟩ := specRun_pos L t (clusters cs) pos
  have hw : ∀ c ∈ cs, c.w = wcwidth c.cp := by
    intro c hc
    obtain ⟨a, b, hab⟩ := List.append_of_mem hc
    obtain ⟨_, _, hcw, _⟩ := (scans_sound mem fuel len pos cs t hs).1 a c b hab
    exact hcw
  refine ⟨((clusters cs).take (specTaken L (clusters cs) t pos)).flatten,
    ((clusters cs).drop (specTaken L (clusters cs) t pos)).flatten, ?_, rfl, ?_⟩
  · rw [← List.flatten_append, List.take_append_drop, clusters_flatten]
  · generalize hc : ((clusters cs).take (specTaken L (clusters cs) t pos)).flatten = counted at *
    have hsub : ∀ c ∈ counted, c ∈ cs := by
      intro c hcm
      rw [← hc] at hcm
      have : c ∈ (clusters cs).flatten := by
        rw [← List.take_append_drop (specTaken L (clusters cs) t pos) (clusters cs), List.flatten_append]
        exact List.mem_append_left _ hcm
      rwa [clusters_flatten] at this
    have hbytes : bytesOf counted = (counted.map (·.n)).sum := bytesOf_eq_sum counted
    have hmapw : counted.map (·.w) = counted.map (fun c => wcwidth c.cp) :=
      List.map_congr_left (fun c hcm => hw c (hsub c hcm))
    have hfilt : counted.filter (fun c => decide (c.w > 0)) = counted.filter (fun c => decide (wcwidth c.cp > 0)) :=
      List.filter_congr (fun c hcm => by rw [hw c (hsub c hcm)])
    rw [hp, h1]
    refine ⟨by rw [sumPos_bytes, hbytes], sumPos_codepoints _ _, by rw [sumPos_graphemes, hfilt],
      by rw [sumPos_columns, hmapw], ?_⟩
    intro hne
    rw [hr] at hne ⊢
    unfold Res.ret at hne ⊢
    by_cases he : (specRun L (clusters cs) t pos).err = true
    · simp [he] at hne
    · have he' : (specRun L (clusters cs) t pos).err = false := by simpa using he
      simp only [he', Bool.false_eq_true, if_false, h1, sumPos_bytes, hbytes]; omega

/-- **Limits respected.**  Unless nothing was counted, the returned counters are within every limit —
    and so are the counters after each counted grapheme on the way. -/
theorem count_limits (mem : Mem) (fuel : Nat) (len : Option Nat) (pos : Pos) (L : Option Limit)
    (cs : List Ch) (t : Tail) (hs : Scans mem fuel len pos cs t) (r : Int) (p : Pos) (hi : Nat)
    (h : ncountmore mem fuel len pos L = .ret r p hi) :
    (p = pos ∨ Within L p) ∧
    ∀ i, 0 < i → i ≤ taken L cs t pos → Within L (sumPos pos ((graphemes cs).take i).flatten) := by
  obtain ⟨_, hp⟩ := ret_inj hs h
  rw [hp]
  exact ⟨specRun_within L t (clusters cs) pos, specRun_prefix_within L t (clusters cs) pos⟩

/-- **Maximal.**  When the call does not return the error value: if a grapheme remains after the returned
    position, counting it too would put some counter above its limit; if none remains, the input ended at
    the terminator / length. -/
theorem count_maximal (mem : Mem) (fuel : Nat) (len : Option Nat) (pos : Pos) (L : Option Limit)
    (cs : List Ch) (t : Tail) (hs : Scans mem fuel len pos cs t) (r : Int) (p : Pos) (hi : Nat)
    (h : ncountmore mem fuel len pos L = .ret r p hi) (hne : r ≠ -1) :
    (∀ g rest, (graphemes cs).drop (taken L cs t pos) = g :: rest → ¬ Within L (sumPos p g)) ∧
    ((graphemes cs).drop (taken L cs t pos) = [] → t = .eof) := by
  obtain ⟨hr, hp⟩ := ret_inj hs h
  have herr : (specRun L (clusters cs) t pos).err = false := by
    cases he : (specRun L (clusters cs) t pos).err with
    | false => rfl
    | true => exact absurd (by rw [hr]; exact (ret_neg_iff L _ t pos).2 he) hne
  refine ⟨?_, ?_⟩
  · intro g rest hd
    rw [hp]
    exact specRun_maximal L t (clusters cs) pos herr g rest hd
  · intro hd
    have h2 := (specRun_pos L t (clusters cs) pos).2
    have : specTaken L (clusters cs) t pos = (clusters cs).length := by
      have h3 : (clusters cs).length ≤ specTaken L (clusters cs) t pos := List.drop_eq_nil_iff.1 hd
      omega
    exact specRun_all_eof L t (clusters cs) pos herr this

/-- **Error value.**  The call returns `-1` exactly when every scanned grapheme fits (the scan is not stopped
    by a limit before the end of the decodable characters) and what follows them is — declaratively, `ErrAt` —
    a C0 control or DEL, an invalid lead byte, a sequence truncated by the length or the terminator, or a
    sequence encoding a C0/C1 control or DEL. -/
theorem count_error_iff (mem : Mem) (fuel : Nat) (len : Option Nat) (pos : Pos) (L : Option Limit)
    (cs : List Ch) (t : Tail) (hs : Scans mem fuel len pos cs t) (r : Int) (p : Pos) (hi : Nat)
    (h : ncountmore mem fuel len pos L = .ret r p hi) :
    r = -1 ↔ (AllFit L pos (graphemes cs) ∧
      ErrAt mem (pos.bytes + bytesOf cs) (lenDec (lenSub len pos.bytes) (bytesOf cs))) := by
  obtain ⟨hr, _⟩ := ret_inj hs h
  rw [hr, ret_neg_iff, specRun_err_iff, ← stepAt_err_iff]
  obtain ⟨he1, he2⟩ := scan_end mem fuel _ _ cs t hs
  constructor
  · rintro ⟨ht, hf⟩; exact ⟨hf, he2 ht⟩
  · rintro ⟨hf, hi', hst⟩
    refine ⟨?_, hf⟩
    cases t with
    | err => rfl
    | eof =>
      obtain ⟨hi'', hst'⟩ := he1 rfl
      rw [hst'] at hst; cases hst

example : count (memOfBytes [0x61, 0x1b]) 5 none = .ret (-1) ⟨0, 0, 0, 0⟩ 2 ∧
    count (memOfBytes [0x61, 0x1b]) 5 (some ⟨some 1, -1, -1, -1⟩) = .ret (-1) ⟨0, 0, 0, 0⟩ 2 ∧
    count (memOfBytes [0x61, 0x62, 0x1b]) 5 (some ⟨some 1, -1, -1, -1⟩) = .ret 1 ⟨1, 1, 1, 1⟩ 2 ∧
    ncount (memOfBytes [0x61, 0xe5, 0xbd]) 5 (some 3) none = .ret (-1) ⟨0, 0, 0, 0⟩ 2 := by decide +kernel

/-- **Reads are bounded (length-bounded entry points).**  With `pos->bytes ≤ len`, every index read is `< len`. -/
theorem reads_bounded_len (mem : Mem) (fuel l : Nat) (pos : Pos) (L : Option Limit) (hpre : pos.bytes ≤ l)
    (r : Int) (p : Pos) (hi : Nat) (h : ncountmore mem fuel (some l) pos L = .ret r p hi) : hi ≤ l := by
  unfold ncountmore at h
  have hls : lenSub (some l) pos.bytes = some (l - pos.bytes) := by simp [lenSub, hpre]
  rw [hls] at h
  exact loop_bound mem L pos.bytes l fuel pos.bytes _ pos pos 0 r p hi (by simp [ReadBound]; omega) (by omega) h

/-- **Reads are bounded (NUL-terminated entry points).**  If `nul` is the first NUL at or after `pos->bytes`,
    every index read is `≤ nul`. -/
theorem reads_bounded_nul (mem : Mem) (fuel : Nat) (pos : Pos) (L : Option Limit) (nul : Nat)
    (hn : FirstNul mem pos.bytes nul)
    (r : Int) (p : Pos) (hi : Nat) (h : ncountmore mem fuel none pos L = .ret r p hi) : hi ≤ nul + 1 := by
  unfold ncountmore at h
  exact loop_bound mem L pos.bytes (nul + 1) fuel pos.bytes _ pos pos 0 r p hi
    (show ReadBound mem pos.bytes none (nul + 1) from ⟨nul, hn, Nat.le_refl _⟩) (by omega) h

example : FirstNul (memOfBytes [0x61, 0xe5, 0xbd]) 0 3 ∧
    count (memOfBytes [0x61, 0xe5, 0xbd]) 5 none = .ret (-1) ⟨0, 0, 0, 0⟩ 4 := by
  refine ⟨⟨by omega, by decide +kernel, ?_⟩, by decide +kernel⟩
  intro i _ h3
  have : i = 0 ∨ i = 1 ∨ i = 2 := by omega
  rcases this with rfl | rfl | rfl <;> decide +kernel

/-- **Resumable.**  For limits `L₁ ≤ L₂`: counting with `L₁` and then continuing from the returned position
    with `L₂` ends at the same position, with the same error outcome, as counting once with `L₂`.  (The
    length-bounded form needs the documented precondition `pos->bytes ≤ len`.) -/
theorem count_resumable (mem : Mem) (fuel : Nat) (len : Option Nat) (pos : Pos) (L1 L2 : Option Limit)
    (cs : List Ch) (t : Tail) (hs : Scans mem fuel len pos cs t) (hle : LimitLe L1 L2)
    (hpre : ∀ l, len = some l → pos.bytes ≤ l)
    (r1 : Int) (p1 : Pos) (h1 : Nat) (hc1 : ncountmore mem fuel len pos L1 = .ret r1 p1 h1) :
    ∃ r2 r3 p h2 h3,
      ncountmore mem fuel len p1 L2 = .ret r2 p h2 ∧
      ncountmore mem fuel len pos L2 = .ret r3 p h3 ∧
      (r2 = -1 ↔ r3 = -1) ∧ (r3 ≠ -1 → r3 = (p1.bytes - pos.bytes : Int) + r2) := by
  obtain ⟨_, hp1⟩ := ret_inj hs hc1
  obtain ⟨h2, he2⟩ := ncountmore_resume mem fuel len pos L1 L2 cs t hle hpre hs
  obtain ⟨h3, he3⟩ := ncountmore_eq_spec mem fuel len pos L2 cs t hs
  have g1 : pos.bytes ≤ p1.bytes := by rw [hp1]; exact specRun_bytes_ge L1 t _ pos
  have g2 : p1.bytes ≤ (specRun L2 (clusters cs) t pos).pos.bytes := by
    have := specRun_resume L1 L2 hle t (clusters cs) pos
    rw [← this, hp1]; exact specRun_bytes_ge L2 t _ _
  rw [← hp1] at he2
  refine ⟨_, _, _, h2, h3, he2, he3, ?_, ?_⟩
  · unfold Res.ret
    by_cases he : (specRun L2 (clusters cs) t pos).err = true
    · simp [he]
    · have he' : (specRun L2 (clusters cs) t pos).err = false := by simpa using he
      simp only [he', Bool.false_eq_true, if_false]; omega
  · unfold Res.ret
    by_cases he : (specRun L2 (clusters cs) t pos).err = true
    · simp [he]
    · have he' : (specRun L2 (clusters cs) t pos).err = false := by simpa using he
      simp only [he', Bool.false_eq_true, if_false]; omega

example : LimitLe (some ⟨none, -1, -1, 3⟩) (some ⟨none, -1, -1, 4⟩) ∧
    count (memOfBytes [0x63, 0x61, 0x66, 0x65, 0xcc, 0x81]) 9 (some ⟨none, -1, -1, 3⟩) = .ret 3 ⟨3, 3, 3, 3⟩ 4 ∧
    countmore (memOfBytes [0x63, 0x61, 0x66, 0x65, 0xcc, 0x81]) 9 ⟨3, 3, 3, 3⟩ (some ⟨none, -1, -1, 4⟩) = .ret 3 ⟨6, 5, 4, 4⟩ 7 := by
  refine ⟨?_, by decide +kernel, by decide +kernel⟩
  intro p h
  simp [Within, leOpt] at h ⊢
  omega

/-- Enough fuel always exists for a length-bounded input … -/
theorem scan_terminates_len (mem : Mem) (l : Nat) (str : Nat) : ∃ cs t, scan mem (l + 1) str (some l) = some (cs, t) := by
  induction l using Nat.strongRecOn generalizing str with
  | _ l ih =>
    rw [scan]
    have hb := stepAt_bound mem str (some l) (str + l) (by simp [ReadBound])
    cases hst : stepAt mem str (some l) with
    | stop hi => exact ⟨_, _, rfl⟩
    | err hi => exact ⟨_, _, rfl⟩
    | ch n cp w hi =>
      rw [hst] at hb
      have hn := stepAt_ch_len mem str l n cp hi w hst
      obtain ⟨cs, t, h⟩ := ih (l - n) (by omega) (str + n)
      have := scan_mono_le mem (l - n + 1) l (str + n) (some (l - n)) (cs, t) (by omega) h
      simp only [lenDec, Option.map]
      rw [this]; exact ⟨_, _, rfl⟩

/-- … and for a NUL-terminated one. -/
theorem scan_terminates_nul (mem : Mem) (nul : Nat) :
    ∀ (k str : Nat), FirstNul mem str nul → nul - str ≤ k → ∃ cs t, scan mem (k + 1) str none = some (cs, t) := by
  intro k
  induction k with
  | zero =>
    intro str hn hk
    have : str = nul := by have := hn.1; omega
    subst this
    refine ⟨[], .eof, ?_⟩
    rw [scan]; unfold stepAt; simp [hn.2.1]
  | succ k ih =>
    intro str hn hk
    rw [scan]
    have hb := stepAt_bound mem str none (nul + 1) (show ReadBound mem str none (nul + 1) from ⟨nul, hn, Nat.le_refl _⟩)
    cases hst : stepAt mem str none with
    | stop hi => exact ⟨_, _, rfl⟩
    | err hi => exact ⟨_, _, rfl⟩
    | ch n cp w hi =>
      rw [hst] at hb
      obtain ⟨_, ⟨nul', hn', hle⟩, hpos⟩ := hb
      have hnul : nul' = nul := by
        -- both are the first NUL at or after `str + n`
        rcases Nat.lt_trichotomy nul' nul with hlt | heq | hgt
        · exact absurd hn'.2.1 (hn.2.2 nul' (by have := hn'.1; omega) hlt)
        · exact heq
        · omega
      subst hnul
      obtain ⟨cs, t, h⟩ := ih (str + n) hn' (by have := hn'.1; omega)
      simp only [lenDec, Option.map]
      rw [h]; exact ⟨_, _, rfl⟩

/-- **Fuel is irrelevant.**  Whenever a call returns with some fuel, it returns the same with any larger
    fuel — so every theorem above, stated for a fuel that is enough to scan the input, describes the
    result of the call for *every* fuel with which it returns. -/
theorem count_fuel_irrelevant (mem : Mem) (f g : Nat) (len : Option Nat) (pos : Pos) (L : Option Limit)
    (r : Int) (p : Pos) (hi : Nat) (hfg : f ≤ g) (h : ncountmore mem f len pos L = .ret r p hi) :
    ncountmore mem g len pos L = .ret r p hi ∧
    ∀ cs t, Scans mem f len pos cs t → Scans mem g len pos cs t :=
  ⟨ncountmore_mono mem f g len pos L r p hi hfg h, fun cs t hs => scan_mono_le mem f g _ _ (cs, t) hfg hs⟩

/-- Whenever a call returns (any fuel) on an input that can be scanned (any fuel), the result is the
    specification's. -/
theorem count_spec_any_fuel (mem : Mem) (f F : Nat) (len : Option Nat) (pos : Pos) (L : Option Limit)
    (cs : List Ch) (t : Tail) (hs : Scans mem F len pos cs t) (r : Int) (p : Pos) (hi : Nat)
    (h : ncountmore mem f len pos L = .ret r p hi) :
    r = (specRun L (graphemes cs) t pos).ret pos.bytes ∧ p = (specRun L (graphemes cs) t pos).pos := by
  have h' := ncountmore_mono mem f (max f F) len pos L r p hi (Nat.le_max_left _ _) h
  have hs' : Scans mem (max f F) len pos cs t := scan_mono_le mem F (max f F) _ _ (cs, t) (Nat.le_max_right _ _) hs
  exact ret_inj hs' h'

/-! ### encode, then count -/

/-- **Round trip.**  For every code point below `0x200000` that is not a C0/C1 control or DEL:
    `tickit_utf8_put` writes `seqlen cp` bytes; decoding them gives `(seqlen cp, cp)` back; counting them gives
    `bytes = seqlen cp`, `codepoints = 1`, `graphemes = [wcwidth cp > 0]`, `columns = wcwidth cp`, reading
    exactly the bytes and the terminator. -/
theorem put_count_roundtrip (cp : Nat) (h0 : 0x20 ≤ cp) (hc : ¬ (0x7f ≤ cp ∧ cp < 0xa0)) (h1 : cp < 0x200000)
    (buflen : Nat) (hb : seqlen cp ≤ buflen) (fuel : Nat) :
    put false buflen cp = (((seqlen cp : Nat) : Int), putBytes cp) ∧
    (putBytes cp).length = seqlen cp ∧
    nextUtf8 (memOfBytes (putBytes cp)) 0 none = .ok (seqlen cp) cp (seqlen cp) ∧
    count (memOfBytes (putBytes cp)) (fuel + 2) none =
      .ret (seqlen cp) ⟨seqlen cp, 1, if wcwidth cp > 0 then 1 else 0, wcwidth cp⟩ (seqlen cp + 1) ∧
    0 ≤ wcwidth cp := by
  obtain ⟨hd, hl, _, _⟩ := nextUtf8_putBytes cp (by omega) h1
  refine ⟨?_, hl, hd, count_putBytes cp h0 hc h1 fuel, ?_⟩
  · unfold put; simp; omega
  · rcases wcwidth_cases cp with h | h
    · exact absurd h (wcwidth_ne_neg_one cp (by omega) (by omega))
    · exact h

example : put false 4 0x1f3e0 = (4, [0xf0, 0x9f, 0x8f, 0xa0]) ∧ wcwidth 0x1f3e0 = 2 ∧
    count (memOfBytes (putBytes 0x1f3e0)) 2 none = .ret 4 ⟨4, 1, 1, 2⟩ 5 := by decide +kernel

/-- A buffer that is too short is left alone and `-1` is returned; `str == NULL` only measures. -/
theorem put_short (cp buflen : Nat) (h : buflen < seqlen cp) : put false buflen cp = (-1, []) := by
  unfold put; simp [h]

/-! ### the known finding `lax_continuation`

The property lists "a truncated sequence" among the errors.  `next_utf8` notices a sequence cut short by the
length or by the terminator, but accepts *any* non-NUL byte where a continuation byte (`0x80…0xBF`) is
required.  `scanStrict` is the scan under the reading in which such a sequence is truncated. -/

/-- The full statement of the error clause under the strict reading. -/
def C07_error_full : Prop :=
  ∀ (mem : Mem) (fuel : Nat) (len : Option Nat) (pos : Pos) (L : Option Limit) (cs : List Ch) (t : Tail)
    (r : Int) (p : Pos) (hi : Nat),
    scanStrict mem fuel pos.bytes (lenSub len pos.bytes) = some (cs, t) →
    ncountmore mem fuel len pos L = .ret r p hi →
    (r = -1 ↔ (t = .err ∧ AllFit L pos (graphemes cs)))

/-- `C3 41 00`: the strict reading sees a truncated sequence at offset 0; the code returns 2 (it counts
    U+00C1, swallowing the `A`). -/
theorem count_error_counterexample : ¬ C07_error_full := by
  intro h
  have := h (memOfBytes [0xc3, 0x41]) 10 none Pos.zero none [] .err 2 ⟨2, 1, 1, 1⟩ 3
    (by decide +kernel) (by decide +kernel)
  have h2 := this.2 ⟨rfl, trivial⟩
  exact absurd h2 (by decide)

/-- The error clause under the strict reading holds whenever no offset is the trigger
    (`badCont`: a non-NUL, non-continuation byte inside a sequence). -/
theorem count_error_iff_partial (mem : Mem) (hno : ∀ p len, badCont mem p len = false)
    (fuel : Nat) (len : Option Nat) (pos : Pos) (L : Option Limit) (cs : List Ch) (t : Tail)
    (r : Int) (p : Pos) (hi : Nat)
    (hs : scanStrict mem fuel pos.bytes (lenSub len pos.bytes) = some (cs, t))
    (h : ncountmore mem fuel len pos L = .ret r p hi) :
    r = -1 ↔ (t = .err ∧ AllFit L pos (graphemes cs)) := by
  have hsame : ∀ (f s : Nat) (l : Option Nat), scanStrict mem f s l = scan mem f s l := by
    intro f
    induction f with
    | zero => intro s l; rfl
    | succ f ih =>
      intro s l
      rw [scanStrict, scan]
      have : stepStrict mem s l = stepAt mem s l := by unfold stepStrict; simp [hno s l]
      rw [this]
      split <;> simp [ih]
  rw [hsame] at hs
  obtain ⟨hr, _⟩ := ret_inj hs h
  rw [hr, ret_neg_iff, specRun_err_iff]

example : (∀ p len, badCont (memOfBytes [0x61, 0xc3, 0xa9]) p len = false) := by
  intro p len
  unfold badCont
  by_cases hp : p = 1
  · subst hp
    have h1 : (memOfBytes [0x61, 0xc3, 0xa9] 1).toNat = 0xc3 := by decide +kernel
    have h2 : (memOfBytes [0x61, 0xc3, 0xa9] (1 + 1)).toNat = 0xa9 := by decide +kernel
    rw [h1]
    have : leadLen 0xc3 = 2 := by decide
    rw [this]
    simp [List.range, List.range.loop, h2, isContByte]
  · have : leadLen (memOfBytes [0x61, 0xc3, 0xa9] p).toNat = 0 := by
      have : p = 0 ∨ p = 2 ∨ p ≥ 3 := by omega
      rcases this with rfl | rfl | h
      · decide +kernel
      · decide +kernel
      · have : (memOfBytes [0x61, 0xc3, 0xa9] p).toNat = 0 := by
          rw [memOfBytes_toNat _ _ (by intro x hx; simp at hx; omega)]
          simp [List.getD, List.getElem?_eq_none (show [0x61, 0xc3, 0xa9].length ≤ p by simpa using h)]
        rw [this]; decide
    simp [this]


/-! ### the runtime oracle is the specification of the theorems

The `SPEC` verdict of `bin/check` is computed by `Driver/Utf8.lean` as
`specRun limit (clusters (refScan wcwidthSpec _ bs).1) (refScan wcwidthSpec _ bs).2.1 start` on the effective
bytes `bs` of the input, with an independently written list decoder (`refScan`) and search-free widths
(`wcwidthSpec`).  These theorems say that this is the same function the theorems above talk about. -/

/-- The bytes the driver hands to the oracle (`effectiveOf`: the buffer from the start offset, cut at the
    length and at the first NUL; `none` = precondition of the call violated) are the effective input. -/
theorem oracle_input (a : Array UInt8) (len : Option Nat) (start : Nat) (bs : List Nat)
    (h : effectiveOf a len start = some bs) : Effective (memOfArray a) start (lenSub len start) bs :=
  effectiveOf_sound a len start bs h

/-- The oracle's decoder over the effective bytes finds exactly the characters and the ending of the strict
    scan over memory. -/
theorem oracle_decoder (mem : Mem) (fuel str : Nat) (len : Option Nat) (bs : List Nat) (cs : List Ch) (t : Tail)
    (hE : Effective mem str len bs) (hs : scanStrict mem fuel str len = some (cs, t)) :
    (refScan wcwidthSpec (bs.length + 1) bs).1 = cs ∧ (refScan wcwidthSpec (bs.length + 1) bs).2.1 = t := by
  have hw : wcwidthSpec = wcwidth := funext (fun c => (wcwidth_eq_spec c).symm)
  rw [hw]
  exact refScan_eq_scanStrict mem fuel str len bs cs t hE hs (bs.length + 1) (Nat.lt_succ_self _)

/-- Whenever no offset holds the trigger of the known finding, the value the oracle expects is the value
    `tickit_utf8_ncountmore` returns (so a `SPEC fail` on such an input is a disagreement with the model). -/
theorem oracle_expects_model (mem : Mem) (hno : ∀ p len, badCont mem p len = false)
    (fuel : Nat) (len : Option Nat) (pos : Pos) (L : Option Limit) (bs : List Nat) (cs : List Ch) (t : Tail)
    (hE : Effective mem pos.bytes (lenSub len pos.bytes) bs)
    (hs : scanStrict mem fuel pos.bytes (lenSub len pos.bytes) = some (cs, t)) :
    ∃ hi, ncountmore mem fuel len pos L =
      .ret ((specRun L (clusters (refScan wcwidthSpec (bs.length + 1) bs).1)
              (refScan wcwidthSpec (bs.length + 1) bs).2.1 pos).ret pos.bytes)
           (specRun L (clusters (refScan wcwidthSpec (bs.length + 1) bs).1)
              (refScan wcwidthSpec (bs.length + 1) bs).2.1 pos).pos hi := by
  obtain ⟨h1, h2⟩ := oracle_decoder mem fuel _ _ bs cs t hE hs
  rw [h1, h2]
  have hsame : ∀ (f s : Nat) (l : Option Nat), scanStrict mem f s l = scan mem f s l := by
    intro f
    induction f with
    | zero => intro s l; rfl
    | succ f ih =>
      intro s l
      rw [scanStrict, scan]
      have : stepStrict mem s l = stepAt mem s l := by unfold stepStrict; simp [hno s l]
      rw [this]
      split <;> simp [ih]
  rw [hsame] at hs
  exact ncountmore_eq_spec mem fuel len pos L cs t hs

example : Effective (memOfBytes [0x61, 0xc3, 0xa9]) 0 none [0x61, 0xc3, 0xa9] ∧
    refScan wcwidthSpec 4 [0x61, 0xc3, 0xa9] = ([⟨1, 0x61, 1⟩, ⟨2, 0xe9, 1⟩], .eof, "") := by
  refine ⟨⟨?_, Or.inr ⟨by decide +kernel, fun l h => nomatch h⟩⟩, by decide +kernel⟩
  intro i hi
  simp only [List.length_cons, List.length_nil] at hi
  have : i = 0 ∨ i = 1 ∨ i = 2 := by omega
  rcases this with rfl | rfl | rfl <;> decide +kernel

end Tickit.Props.C07
