import Tickit.Proof.Utf8
/-
  C07 — UTF-8 counting is grapheme-atomic, limit-respecting, resumable and bounded.

  `Tickit.Utf8` is the statement-by-statement model of src/utf8.c, `Tickit.Width` of src/unicode.h; the
  interval tables and three leaf functions are regenerated from the C source (`Tickit.Gen.Width`).
  The counting theorems are stated for `ncountmore` (the other three entry points are instances:
  `count`, `countmore`, `ncount`), for every memory, length/terminator mode, start position, limit and
  fuel.  `scan mem fuel str len = some (cs, t)` names the characters `cs` the loop meets from `str` on
  when no limit stops it, and how they end (`t`); `clusters cs` groups them into graphemes.
-/
namespace Tickit.Props.C07
open Tickit Tickit.Utf8 Tickit.Width

/-! ### width tables (generated) and `bisearch` -/

/-- The generated `combining` table is sorted and non-overlapping (complete table, kernel-checked). -/
theorem combining_sorted : Sorted Gen.Width.combining := by unfold Sorted; decide +kernel

/-- The generated `fullwidth` table is sorted and non-overlapping. -/
theorem fullwidth_sorted : Sorted Gen.Width.fullwidth := by unfold Sorted; decide +kernel

/-- Neither table is empty (an empty table would make the C `bisearch` read `table[-1]`). -/
theorem tables_nonempty : 0 < Gen.Width.combining.size ∧ 0 < Gen.Width.fullwidth.size := by decide +kernel

/-- `bisearch` answers membership: for every sorted non-overlapping table and every code point,
    `bisearch t c = true ↔ ∃ (a, b) ∈ t, a ≤ c ≤ b`. -/
theorem bisearch_iff (t : Table) (hs : Sorted t) (c : Nat) :
    bisearch t c = true ↔ ∃ e ∈ t.toList, e.1 ≤ c ∧ c ≤ e.2 :=
  bisearch_iff_inTable hs c

/-- The fuel of the model's `bisearch` loop never runs out on a sorted table. -/
theorem bisearch_fuel (t : Table) (hs : Sorted t) (h : 0 < t.size) (c : Nat) :
    bisearchLoop t c (t.size + 1) 0 ((t.size : Int) - 1) ≠ none :=
  bisearchLoop_fuel hs c h

example : bisearch Gen.Width.combining 0x301 = true ∧ bisearch Gen.Width.combining 0x41 = false ∧
    bisearch Gen.Width.fullwidth 0x5f61 = true := by decide +kernel

/-- The width the library computes is the search-free reading of its tables (the runtime oracle's width). -/
theorem wcwidth_eq_spec (c : Nat) : wcwidth c = wcwidthSpec c := by
  have hf : bisearch Gen.Width.fullwidth c = inTableLin Gen.Width.fullwidth c := by
    rw [Bool.eq_iff_iff, bisearch_iff_inTable fullwidth_sorted, inTableLin_iff]
  have hc : bisearch Gen.Width.combining c = inTableLin Gen.Width.combining c := by
    rw [Bool.eq_iff_iff, bisearch_iff_inTable combining_sorted, inTableLin_iff]
  unfold wcwidth wcwidthSpec mkWcwidth
  rw [hf, hc]
  repeat' split
  all_goals first | rfl | omega

example : wcwidth 0x5f61 = 2 ∧ wcwidth 0x301 = 0 ∧ wcwidth 0x41 = 1 ∧ wcwidth 0x9b = -1 ∧ wcwidth 0x302a = 2 := by
  decide +kernel

/-! ### leaf functions regenerated from the C source agree with the hand model -/

theorem leaf_seqlen (c : Nat) : Gen.Width.tickit_utf8_seqlen (c : Int) = (seqlen c : Nat) := by
  unfold Gen.Width.tickit_utf8_seqlen seqlen
  simp only [decide_eq_true_eq]
  repeat' split
  all_goals omega

theorem leaf_mk_wcwidth (c : Nat) :
    Gen.Width.mk_wcwidth (fun u => bisearch Gen.Width.combining u.toNat) (c : Int) = mkWcwidth c := by
  unfold Gen.Width.mk_wcwidth mkWcwidth
  simp only [Int.toNat_natCast, Bool.and_eq_true, Bool.or_eq_true, decide_eq_true_eq]
  by_cases h0 : c = 0
  · simp [h0]
  · have h0' : ¬ ((c : Int) = 0) := by omega
    by_cases hc : c < 32 ∨ (c ≥ 0x7f ∧ c < 0xa0)
    · have hc' : ((c : Int) < 32 ∨ (c : Int) ≥ 127 ∧ (c : Int) < 160) := by omega
      simp only [h0, h0', hc, hc', if_true, if_false]
    · have hc' : ¬ ((c : Int) < 32 ∨ (c : Int) ≥ 127 ∧ (c : Int) < 160) := by omega
      by_cases hb : bisearch Gen.Width.combining c = true
      · simp only [h0, h0', hc, hc', hb, if_true, if_false]
      · simp only [h0, h0', hc, hc', hb, Bool.false_eq_true, if_false]
        unfold isWideRange
        simp only [Bool.and_eq_true, Bool.or_eq_true, decide_eq_true_eq]
        split <;> split <;> omega

theorem leaf_wcwidth (c : Nat) :
    Gen.Width.tickit_utf8_wcwidth (fun u => bisearch Gen.Width.fullwidth u.toNat)
      (fun u => bisearch Gen.Width.combining u.toNat) (c : Int) = wcwidth c := by
  unfold Gen.Width.tickit_utf8_wcwidth wcwidth
  simp only [Int.toNat_natCast]
  split
  · rfl
  · exact leaf_mk_wcwidth c

end Tickit.Props.C07
