import Tickit.Proof.Rect
import Tickit.Gen.Caps
import Tickit.Gen.Leaf
/-
  C06 — Rectangle intersection, union-split and subtraction are exact for all pairs.

  Every theorem is universally quantified over `Int` coordinates (all relative orderings of the
  edges, at any translation).  Cells are pairs `(l, c) : Int × Int`; `Rect.Mem r l c` is the
  cell-wise definition of membership.
-/
namespace Tickit.Props.C06
open Tickit Tickit.Rect

/-! ### intersection -/

theorem intersect_some (a b r : Rect) (h : intersect a b = some r) :
    r.Nonempty ∧ ∀ l c, r.Mem l c ↔ (a.Mem l c ∧ b.Mem l c) := by
  unfold intersect at h
  simp only at h
  split at h
  · cases h
  · split at h
    · cases h
    · injection h with h
      subst h
      refine ⟨?_, ?_⟩
      · unfold Rect.Nonempty initBounded; simp; omega
      · intro l c
        unfold Mem bottom right initBounded at *
        simp only
        omega

theorem intersect_none (a b : Rect) (h : intersect a b = none) :
    ∀ l c, ¬ (a.Mem l c ∧ b.Mem l c) := by
  unfold intersect at h
  simp only at h
  intro l c
  unfold Mem bottom right at *
  split at h
  · omega
  · split at h
    · omega
    · cases h

/-- `intersect` reports "none" exactly when no cell is shared (for non-empty rectangles, the
    converse direction of `intersect_none`). -/
theorem intersect_none_iff (a b : Rect) (ha : a.Nonempty) (hb : b.Nonempty) :
    intersect a b = none ↔ ∀ l c, ¬ (a.Mem l c ∧ b.Mem l c) := by
  constructor
  · exact intersect_none a b
  · intro h
    cases hi : intersect a b with
    | none => rfl
    | some r =>
      obtain ⟨hne, hm⟩ := intersect_some a b r hi
      exfalso
      apply h r.top r.left
      apply (hm _ _).1
      unfold Rect.Nonempty at hne
      unfold Mem bottom right
      omega

/-! ### predicates -/

theorem contains_iff (large small : Rect) (hs : small.Nonempty) :
    contains large small = true ↔ ∀ l c, small.Mem l c → large.Mem l c := by
  unfold contains Mem bottom right
  unfold Rect.Nonempty at hs
  simp only [Bool.and_eq_true, decide_eq_true_eq]
  constructor
  · intro h l c; omega
  · intro h
    have h1 := h small.top small.left (by omega)
    have h2 := h (small.top + small.lines - 1) (small.left + small.cols - 1) (by omega)
    omega

theorem intersects_iff (a b : Rect) (ha : a.Nonempty) (hb : b.Nonempty) :
    intersects a b = true ↔ ∃ l c, a.Mem l c ∧ b.Mem l c := by
  unfold intersects Mem bottom right
  unfold Rect.Nonempty at ha hb
  simp only [Bool.and_eq_true, decide_eq_true_eq]
  constructor
  · intro h
    refine ⟨max a.top b.top, max a.left b.left, ?_⟩
    omega
  · rintro ⟨l, c, h⟩; omega

/-! ### union-split -/

theorem add_spec (a b : Rect) (ha : a.Nonempty) (hb : b.Nonempty) :
    (add a b).length ≤ 3 ∧
    (∀ p ∈ add a b, p.Nonempty) ∧
    (add a b).Pairwise Disjoint ∧
    ∀ l c, Covered (add a b) l c ↔ (a.Mem l c ∨ b.Mem l c) := by
  unfold add
  split
  · -- too far apart to interact: both returned unchanged
    rename_i hfar
    refine ⟨by simp, ?_, ?_, ?_⟩
    · intro p hp; simp at hp; rcases hp with rfl | rfl <;> assumption
    · simp only [List.pairwise_cons, List.mem_singleton, forall_eq, List.not_mem_nil,
        false_imp_iff, implies_true, List.Pairwise.nil, and_true]
      intro l c
      unfold Mem bottom right at *
      omega
    · intro l c; unfold Covered; simp
  · rename_i hnear
    have hnear' : a.left ≤ b.right ∧ b.left ≤ a.right ∧ a.top ≤ b.bottom ∧ b.top ≤ a.bottom := by omega
    obtain ⟨hn1, hn2, hn3, hn4⟩ := hnear'
    have hna := ha; have hnb := hb
    unfold Rect.Nonempty at hna hnb
    unfold sortRows
    simp only
    generalize hr0 : min a.top b.top = r0
    generalize hr1 : min (max a.top b.top) (min a.bottom b.bottom) = r1
    generalize hr2 : max (max a.top b.top) (min a.bottom b.bottom) = r2
    generalize hr3 : max a.bottom b.bottom = r3
    have hbot : a.bottom = a.top + a.lines ∧ b.bottom = b.top + b.lines := ⟨rfl, rfl⟩
    have h01 : r0 ≤ r1 := by omega
    have h12 : r1 ≤ r2 := by omega
    have h23 : r2 ≤ r3 := by omega
    -- the loop, band by band
    have i0 : BandInv (fun l c => a.Mem l c ∨ b.Mem l c) [] r0 := by
      refine ⟨by simp, by simp, by simp, ?_, by simp⟩
      intro l c
      simp only [List.not_mem_nil, false_and, exists_false, false_iff]
      unfold Mem bottom right at *
      omega
    have i1 := bandInv_step (t' := r1) i0 h01 (by omega) (by omega) (by omega) (by omega) ha hb
      (by intro _; omega) ⟨hn1, hn2⟩
    have i2 := bandInv_step (t' := r2) i1 h12 (by omega) (by omega) (by omega) (by omega) ha hb
      (by intro _; omega) ⟨hn1, hn2⟩
    have i3 := bandInv_step (t' := r3) i2 h23 (by omega) (by omega) (by omega) (by omega) ha hb
      (by intro _; omega) ⟨hn1, hn2⟩
    obtain ⟨hne, _, hdisj, hcover, _⟩ := i3
    refine ⟨?_, ?_, ?_, ?_⟩
    · have l1 := addBand_length a b [] r0 r1
      have l2 := addBand_length a b (addBand a b [] r0 r1) r1 r2
      have l3 := addBand_length a b (addBand a b (addBand a b [] r0 r1) r1 r2) r2 r3
      simp only [List.length_reverse, List.length_nil] at *
      omega
    · intro p hp; exact hne p (by simpa using hp)
    · rw [List.pairwise_reverse]
      exact hdisj.imp (fun h => disjoint_comm.1 h)
    · intro l c
      unfold Covered
      simp only [List.mem_reverse]
      rw [hcover l c]
      constructor
      · exact fun h => h.2
      · intro h
        refine ⟨?_, h⟩
        unfold Mem bottom right at *
        omega

/-! ### subtraction -/

theorem subtract_spec (a b : Rect) (ha : a.Nonempty) (hb : b.Nonempty) :
    (subtract a b).length ≤ 4 ∧
    (∀ p ∈ subtract a b, p.Nonempty) ∧
    (subtract a b).Pairwise Disjoint ∧
    ∀ l c, Covered (subtract a b) l c ↔ (a.Mem l c ∧ ¬ b.Mem l c) := by
  have hna := ha; have hnb := hb
  unfold Rect.Nonempty at hna hnb
  unfold subtract
  split
  · rename_i hc
    refine ⟨by simp, by simp, by simp, ?_⟩
    intro l c
    unfold Covered
    simp only [List.not_mem_nil, false_and, exists_false, false_iff]
    unfold contains at hc
    simp only [Bool.and_eq_true, decide_eq_true_eq] at hc
    unfold Mem bottom right at *
    omega
  · split
    · rename_i hc hi
      refine ⟨by simp, ?_, by simp, ?_⟩
      · intro p hp; simp at hp; subst hp; exact ha
      · intro l c
        unfold Covered
        simp only [List.mem_singleton, exists_eq_left]
        unfold intersects at hi
        simp only [Bool.not_eq_true', Bool.and_eq_false_iff, decide_eq_false_iff_not] at hi
        unfold Mem bottom right at *
        omega
    · rename_i hc hi
      unfold intersects at hi
      simp only [Bool.not_eq_true, Bool.not_eq_false', Bool.and_eq_true, decide_eq_true_eq] at hi
      unfold bottom right at hi
      refine ⟨?_, ?_, ?_, ?_⟩
      · simp only [List.length_append]
        split <;> split <;> split <;> split <;> simp
      · intro p hp
        simp only [List.mem_append] at hp
        unfold Rect.Nonempty
        rcases hp with ((hp | hp) | hp) | hp <;>
          (split at hp
           · simp only [List.mem_singleton] at hp; subst hp
             rect_omega
           · simp at hp)
      · simp only [List.pairwise_append, List.mem_append]
        refine ⟨⟨⟨?_, ?_, ?_⟩, ?_, ?_⟩, ?_, ?_⟩
        · split <;> simp
        · split <;> simp
        · intro p hp q hq
          split at hp <;> split at hq <;> simp at hp hq
          subst hp hq
          intro l c
          rect_omega
        · split <;> simp
        · intro p hp q hq
          split at hq <;> simp at hq
          subst hq
          rcases hp with hp | hp <;> split at hp <;> simp at hp <;> subst hp <;>
            (intro l c; rect_omega)
        · split <;> simp
        · intro p hp q hq
          split at hq <;> simp at hq
          subst hq
          rcases hp with (hp | hp) | hp <;> split at hp <;> simp at hp <;> subst hp <;>
            (intro l c; rect_omega)
      · intro l c
        unfold Covered
        simp only [List.mem_append]
        constructor
        · rintro ⟨p, hp, hm⟩
          rcases hp with ((hp | hp) | hp) | hp <;>
            (split at hp
             · simp only [List.mem_singleton] at hp; subst hp
               rect_omega
             · simp at hp)
        · intro ⟨hma, hmb⟩
          unfold Mem bottom right at hma hmb
          by_cases h1 : l < b.top
          · refine ⟨initBounded a.top a.left b.top a.right, ?_, ?_⟩
            · left; left; left; rw [if_pos (by omega)]; simp
            · rect_omega
          · by_cases h2 : b.top + b.lines ≤ l
            · refine ⟨initBounded b.bottom a.left a.bottom a.right, ?_, ?_⟩
              · right; rw [if_pos (by unfold bottom; omega)]; simp
              · rect_omega
            · by_cases h3 : c < b.left
              · refine ⟨initBounded (max a.top b.top) a.left (min a.bottom b.bottom) b.left, ?_, ?_⟩
                · left; left; right; rw [if_pos (by omega)]; simp
                · rect_omega
              · refine ⟨initBounded (max a.top b.top) b.right (min a.bottom b.bottom) a.right, ?_, ?_⟩
                · left; right; rw [if_pos (by unfold right; omega)]; simp
                · rect_omega

/-! ### "at any translation": every operation commutes with translation -/

theorem mem_translate (r : Rect) (d k l c : Int) :
    (r.translate d k).Mem l c ↔ r.Mem (l - d) (c - k) := by
  unfold translate Mem bottom right; simp only; omega

theorem intersect_translate (a b : Rect) (d k : Int) :
    intersect (a.translate d k) (b.translate d k) = (intersect a b).map (·.translate d k) := by
  unfold intersect translate bottom right initBounded
  simp only
  by_cases h1 : max a.top b.top ≥ min (a.top + a.lines) (b.top + b.lines)
  · rw [if_pos (by omega), if_pos h1]; rfl
  · rw [if_neg (by omega), if_neg h1]
    by_cases h2 : max a.left b.left ≥ min (a.left + a.cols) (b.left + b.cols)
    · rw [if_pos (by omega), if_pos h2]; rfl
    · rw [if_neg (by omega), if_neg h2]
      simp only [Option.map_some, Option.some.injEq, Rect.mk.injEq]
      omega

theorem contains_translate (a b : Rect) (d k : Int) :
    contains (a.translate d k) (b.translate d k) = contains a b := by
  unfold contains translate bottom right
  simp only
  rw [Bool.eq_iff_iff]
  simp only [Bool.and_eq_true, decide_eq_true_eq]
  omega

theorem intersects_translate (a b : Rect) (d k : Int) :
    intersects (a.translate d k) (b.translate d k) = intersects a b := by
  unfold intersects translate bottom right
  simp only
  rw [Bool.eq_iff_iff]
  simp only [Bool.and_eq_true, decide_eq_true_eq]
  omega

/-! ### the callers' fixed arrays are large enough (capacities regenerated from the source) -/

theorem add_fits_caller_array (a b : Rect) (ha : a.Nonempty) (hb : b.Nonempty) :
    (add a b).length ≤ Gen.Caps.rectset_to_add ∧ (add a b).length ≤ Gen.Caps.rect_add_ret :=
  ⟨Nat.le_trans (add_spec a b ha hb).1 (by decide), Nat.le_trans (add_spec a b ha hb).1 (by decide)⟩

theorem subtract_fits_caller_array (a b : Rect) (ha : a.Nonempty) (hb : b.Nonempty) :
    (subtract a b).length ≤ Gen.Caps.rectset_remains ∧ (subtract a b).length ≤ Gen.Caps.rect_subtract_ret :=
  ⟨Nat.le_trans (subtract_spec a b ha hb).1 (by decide), Nat.le_trans (subtract_spec a b ha hb).1 (by decide)⟩

/-! ### the leaf functions regenerated from the C source are the model's -/

theorem leaf_bottom : Gen.Leaf.tickit_rect_bottom = Rect.bottom := by
  funext r; rfl

theorem leaf_right : Gen.Leaf.tickit_rect_right = Rect.right := by
  funext r; rfl

theorem leaf_minint (a b : Int) : Gen.Leaf.minint a b = min a b := by
  unfold Gen.Leaf.minint; simp only [decide_eq_true_eq]; omega

theorem leaf_maxint (a b : Int) : Gen.Leaf.maxint a b = max a b := by
  unfold Gen.Leaf.maxint; simp only [decide_eq_true_eq]; omega

theorem leaf_intersects : Gen.Leaf.tickit_rect_intersects = Rect.intersects := by
  funext a b; rfl

theorem leaf_contains : Gen.Leaf.tickit_rect_contains = Rect.contains := by
  funext a b
  unfold Gen.Leaf.tickit_rect_contains Rect.contains Gen.Leaf.tickit_rect_bottom Gen.Leaf.tickit_rect_right bottom right
  rfl

/-! ### non-vacuity: the hypotheses are met by concrete, interacting rectangles -/

example : (⟨0, 0, 2, 3⟩ : Rect).Nonempty ∧ (⟨1, 2, 3, 3⟩ : Rect).Nonempty ∧
    add ⟨0, 0, 2, 3⟩ ⟨1, 2, 3, 3⟩ = [⟨0, 0, 1, 3⟩, ⟨1, 0, 1, 5⟩, ⟨2, 2, 2, 3⟩] ∧
    subtract ⟨0, 0, 3, 3⟩ ⟨1, 1, 1, 1⟩ = [⟨0, 0, 1, 3⟩, ⟨1, 0, 1, 1⟩, ⟨1, 2, 1, 1⟩, ⟨2, 0, 1, 3⟩] ∧
    intersect ⟨0, 0, 2, 3⟩ ⟨1, 2, 3, 3⟩ = some ⟨1, 2, 1, 1⟩ := by decide

end Tickit.Props.C06
