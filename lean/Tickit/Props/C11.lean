import Tickit.Proof.TermBuf
/-
  C11 — Output buffering is transparent: same bytes, same order, drained by flush.

  Vocabulary (Tickit/Model/TermBuf.lean, Tickit/Proof/TermBuf.lean):
    `State`       output side of a `TickitTerm`: output method(s), `bufLen` = buffer size n (0 = none),
                  `buf` = the bytes accepted but not yet delivered (pending; fill level = `buf.length`),
                  `out` = every chunk handed to the output function / to write(2) so far, in order
    `step`/`run`  the public calls (`Op`), statement-by-statement models of src/term.c and of the xterm driver
    `stream out`  concatenation of the delivered chunks
    `requested m o`, `written m ops`   the bytes a call / a history asks to be output — a function of the
                  driver mode only, never of the buffer: the unbuffered stream
    `WF st`       fill level < n (and nothing pending without a buffer)
    `ChunkOK n d c`  chunk `c` goes to output method `d` and, if n > 0, is neither empty nor longer than n
    `Admissible st ops`  the property's provisos: the buffer size changes only while nothing is pending, and
                  bytes are written only while an output method is attached

  Every theorem is universally quantified over the buffer size, the output method(s), the driver mode,
  the pending bytes and the whole history; nothing is bounded.
-/
namespace Tickit.Props.C11
open Tickit.TermBuf Tickit.Gen.TermBuf

/-! ### 1. nothing lost, duplicated or reordered -/

/-- Transparency, general form.  From any state with fill level < n, along any admissible history of public
    calls (writes of any length, formatted writes, mode changes, flushes, pause/resume/teardown/destroy,
    changes of the buffer size while idle, attaching output methods):
    `delivered ++ pending` grows by exactly the bytes the history requests, in order. -/
theorem transparent (st st' : State) (ops : List Op) (hwf : WF st) (hadm : Admissible st ops)
    (hrun : run st ops = .ok st') :
    stream st'.out ++ st'.buf = stream st.out ++ st.buf ++ written st.mode ops :=
  run_mode_total ops st st' hwf hadm hrun

/-- The calls of the property's core: a write of caller-chosen bytes, or an explicit flush. -/
inductive Call where
  | write (mem : Bytes) (len : Nat)     -- `tickit_term_printn(tt, mem, len)`
  | flush
deriving Repr, DecidableEq

def Call.op : Call → Op
  | .write mem len => .printn mem len
  | .flush => .flush

/-- `concat written`: what the writes ask for (a zero-length `printn` asks for nothing, as in the code). -/
def concatWritten : List Call → Bytes
  | [] => []
  | .write mem len :: r => printnBytes mem len ++ concatWritten r
  | .flush :: r => concatWritten r

/-- A terminal with buffer size `n`, an output function (`func`) and/or an output descriptor number `fd`
    (-1 = none; any other number, 0 included, is a descriptor), nothing delivered and nothing pending. -/
def fresh (n : Nat) (func : Bool) (fd : Int) (m : Mode) : State :=
  { hasFunc := func, outfd := fd, bufLen := n, mode := m }

/-- Non-vacuity: an admissible history with a straddling write, a flush, a change of the buffer size while
    idle, a mode change, a formatted write and a teardown — and something still pending in the middle. -/
example : ∃ st' mid,
    Admissible (fresh 4 true (-1) { started := true })
      [.printn [1, 2, 3, 4, 5, 6, 0] 6, .flush, .setbuf 3, .ctl .altscreen true, .title [65, 66, 0], .teardown] ∧
    run (fresh 4 true (-1) { started := true }) [.printn [1, 2, 3, 4, 5, 6, 0] 6] = .ok mid ∧ mid.buf = [5, 6] ∧
    run (fresh 4 true (-1) { started := true })
      [.printn [1, 2, 3, 4, 5, 6, 0] 6, .flush, .setbuf 3, .ctl .altscreen true, .title [65, 66, 0], .teardown] = .ok st' ∧
    st'.buf = [] ∧ st'.out.length = 11 :=
  ⟨_, _, admissibleB_sound _ _ (by decide), rfl, rfl, rfl, by decide, by decide⟩

/-- The statement of DESIGN.md §7 C11.  For every buffer size `n` (0 = none), either output method, and every
    sequence of writes and flushes: `concat delivered ++ pending = concat written`; every delivered chunk goes
    to the output method and, when `n > 0`, is non-empty and at most `n` bytes; and the fill level is `< n`
    when the sequence is over. -/
theorem write_flush_transparent (n : Nat) (func : Bool) (fd : Int) (hsink : func = true ∨ fd ≠ -1) (m : Mode)
    (calls : List Call) (st' : State) (hrun : run (fresh n func fd m) (calls.map Call.op) = .ok st') :
    stream st'.out ++ st'.buf = concatWritten calls ∧
    (∀ c ∈ st'.out, ChunkOK n (sink (fresh n func fd m)) c) ∧
    (0 < n → st'.buf.length < n) ∧ (n = 0 → st'.buf = []) := by
  have written_calls : ∀ (m : Mode) (calls : List Call), written m (calls.map Call.op) = concatWritten calls := by
    intro m calls
    induction calls with
    | nil => rfl
    | cons c r ih => cases c <;> simp [written, concatWritten, Call.op, requested, nextMode, ih]
  have hwf : WF (fresh n func fd m) := by unfold WF fresh; simp
  have hnc : ∀ o ∈ calls.map Call.op, ¬ IsConfig o := by
    intro o ho
    obtain ⟨c, _, rfl⟩ := List.mem_map.1 ho
    cases c <;> simp [Call.op, IsConfig]
  have hns : NoSetbuf (calls.map Call.op) := by
    intro o ho k hk; subst hk; exact hnc _ ho trivial
  have hnd : NoDetach (calls.map Call.op) := by
    intro o ho h0; subst h0; exact hnc _ ho trivial
  have hadm := admissible_of_noSetbuf _ _ hwf (show Attached (fresh n func fd m) from hsink) hns hnd
  have h1 := run_mode_total _ _ _ hwf hadm hrun
  obtain ⟨hn, _, new, ho, hc⟩ := run_chunks_sink _ _ _ hwf hnc hrun
  have hwf' := run_wf _ _ _ hwf hrun
  refine ⟨?_, ?_, ?_, ?_⟩
  · rw [h1, written_calls]; simp [fresh]
  · intro c hcm
    have : st'.out = new := by simpa [fresh] using ho
    rw [this] at hcm
    exact hc c hcm
  · intro hp; have := hwf'.2 (by rw [hn]; exact hp); rwa [hn] at this
  · intro h0; exact hwf'.1 (by rw [hn]; exact h0)

/-- Non-vacuity: buffer of 4, writes of 3 and 7 bytes (the second straddles the buffer end twice). -/
example : ∃ st', run (fresh 4 true (-1) {}) ([Call.write [1, 2, 3, 0] 3, .write [4, 5, 6, 7, 8, 9, 10, 0] 7].map Call.op) = .ok st' ∧
    st'.out = [.data .func [1, 2, 3, 4], .data .func [5, 6, 7, 8]] ∧ st'.buf = [9, 10] := ⟨_, rfl, rfl, rfl⟩

/-! ### 2. identical to the unbuffered stream -/

/-- The same history run on a buffered and on an unbuffered terminal (same mode, each with an output method;
    no change of buffer size): both streams grow by the same bytes — for the buffered one counting what is
    still pending — and nothing is ever pending on the unbuffered one. -/
theorem same_as_unbuffered (s r s' r' : State) (ops : List Op)
    (hs : WF s) (hr : WF r) (hsa : Attached s) (hra : Attached r) (hmode : s.mode = r.mode) (hr0 : r.bufLen = 0)
    (hns : NoSetbuf ops) (hnd : NoDetach ops) (hsrun : run s ops = .ok s') (hrrun : run r ops = .ok r') :
    ∃ w, stream s'.out ++ s'.buf = stream s.out ++ s.buf ++ w ∧ stream r'.out = stream r.out ++ w ∧ r'.buf = [] := by
  refine ⟨written s.mode ops, ?_, ?_, ?_⟩
  · exact run_mode_total _ _ _ hs (admissible_of_noSetbuf _ _ hs hsa hns hnd) hsrun
  · have h := run_mode_total _ _ _ hr (admissible_of_noSetbuf _ _ hr hra hns hnd) hrrun
    have hb : r.buf = [] := hr.1 hr0
    have hb' : r'.buf = [] := (run_wf _ _ _ hr hrrun).1 (by rw [(run_chunks _ _ _ hr hns hrrun).1]; exact hr0)
    rw [hb, hb', hmode.symm] at h
    simpa using h
  · exact (run_wf _ _ _ hr hrrun).1 (by rw [(run_chunks _ _ _ hr hns hrrun).1]; exact hr0)

/-- … and once the history ends with a flush (or teardown, or destroy — see section 4) the delivered streams
    themselves are equal. -/
theorem flushed_same_as_unbuffered (s r s' r' : State) (ops : List Op)
    (hs : WF s) (hr : WF r) (hsa : Attached s) (hra : Attached r) (hmode : s.mode = r.mode) (hr0 : r.bufLen = 0)
    (hs0 : stream s.out ++ s.buf = stream r.out)
    (hns : NoSetbuf ops) (hnd : NoDetach ops) (hsrun : run s (ops ++ [.flush]) = .ok s')
    (hrrun : run r (ops ++ [.flush]) = .ok r') :
    stream s'.out = stream r'.out := by
  have hns' : NoSetbuf (ops ++ [.flush]) := by
    intro o ho k hk
    rcases List.mem_append.1 ho with h | h
    · exact hns o h k hk
    · simp at h; subst h; cases hk
  have hnd' : NoDetach (ops ++ [.flush]) := by
    intro o ho h0
    rcases List.mem_append.1 ho with h | h
    · exact hnd o h h0
    · simp at h; subst h; cases h0
  obtain ⟨w, h1, h2, _⟩ := same_as_unbuffered s r s' r' _ hs hr hsa hra hmode hr0 hns' hnd' hsrun hrrun
  obtain ⟨s1, _, hf⟩ := run_append.1 hsrun
  have hb : s'.buf = [] := by
    simp only [run, step] at hf
    injection hf with hf; subst hf; exact flush_buf s1
  rw [hb, hs0] at h1
  rw [h2]; simpa using h1

/-- Non-vacuity for both: buffer sizes 3 and 0, same calls. -/
example : ∃ s' r', run (fresh 3 true (-1) {}) [.printn [1, 2, 3, 4, 5, 0] 5, .title [65, 0], .flush] = .ok s' ∧
    run (fresh 0 true (-1) {}) [.printn [1, 2, 3, 4, 5, 0] 5, .title [65, 0], .flush] = .ok r' ∧
    stream s'.out = stream r'.out ∧ s'.out ≠ r'.out := ⟨_, _, rfl, rfl, by decide, by decide⟩

/-- End to end, as the correspondence harness builds its terminals (`new <n> <func|fd|both> <late|early>`,
    i.e. `buildOps`: `tickit_term_build` with the buffer installed after or before the output method):
    for every buffer size, output method(s), construction order and every later history that leaves the
    buffer size alone, `delivered ++ pending` is the driver's start-up strings followed by what the history
    requests. -/
theorem built_terminal_transparent (n : Nat) (f d early : Bool) (fd : Int) (hfd : fd ≠ -1) (hsink : f = true ∨ d = true)
    (ops : List Op) (hns : NoSetbuf ops) (hnd : NoDetach ops) (s' : State)
    (h : run init (buildOps n f d early fd ++ ops) = .ok s') :
    stream s'.out ++ s'.buf = startBytes ++ written { started := true } ops := by
  have hadm : Admissible init (buildOps n f d early fd ++ ops) := by
    apply admissible_append _ _ _ (admissible_build n f d early fd hfd)
    intro s1 h1
    obtain ⟨hwf1, hat1⟩ := build_attached n f d early fd hfd hsink s1 h1
    exact admissible_of_noSetbuf _ _ hwf1 hat1 hns hnd
  have := run_mode_total _ _ _ init_wf hadm h
  have hm : init.mode = {} := rfl
  rw [this, hm, written_build n f d early fd hsink]
  simp [init]

/-- … hence the terminal under test and the never-buffered reference terminal of the harness, given the same
    calls, satisfy `delivered ++ pending = delivered_ref` after every call. -/
theorem built_same_as_unbuffered (n : Nat) (f d early : Bool) (fdm fdr : Int) (hfdm : fdm ≠ -1) (hfdr : fdr ≠ -1)
    (hsink : f = true ∨ d = true) (ops : List Op) (hns : NoSetbuf ops) (hnd : NoDetach ops) (s' r' : State)
    (hs : run init (buildOps n f d early fdm ++ ops) = .ok s')
    (hr : run init (buildOps 0 f d early fdr ++ ops) = .ok r') :
    stream s'.out ++ s'.buf = stream r'.out ∧ r'.buf = [] := by
  have h1 := built_terminal_transparent n f d early fdm hfdm hsink ops hns hnd s' hs
  have h2 := built_terminal_transparent 0 f d early fdr hfdr hsink ops hns hnd r' hr
  obtain ⟨r0, hr0, hr1⟩ := run_append.1 hr
  have hb0 : r0.bufLen = 0 := by
    cases early with
    | true =>
      have e : buildOps 0 f d true fdr = Op.setbuf 0 :: attachOps f d fdr := by simp [buildOps_eq]
      rw [e] at hr0
      obtain ⟨s1, hs1, hs2⟩ := run_cons hr0
      simp only [step] at hs1; injection hs1 with hs1; subst hs1
      have hwfs : WF (setOutputBuffer init 0) := by unfold WF setOutputBuffer; simp
      exact (run_chunks _ _ _ hwfs (attachOps_noSetbuf f d fdr) hs2).1
    | false =>
      have e : buildOps 0 f d false fdr = attachOps f d fdr := by simp [buildOps_eq]
      rw [e] at hr0
      exact (run_chunks _ _ _ init_wf (attachOps_noSetbuf f d fdr) hr0).1
  have hwf0 : WF r0 := run_wf _ _ _ init_wf hr0
  have hb : r'.buf = [] :=
    (run_wf _ _ _ hwf0 hr1).1 (by rw [(run_chunks _ _ _ hwf0 hns hr1).1]; exact hb0)
  rw [hb] at h2
  exact ⟨by rw [h1]; simpa using h2.symm, hb⟩

/-- Non-vacuity: `new 3 func early` and `new 0 func early`, then a 5-byte write. -/
example : ∃ s' r', run init (buildOps 3 true false true ++ [.printn [1, 2, 3, 4, 5, 0] 5]) = .ok s' ∧
    run init (buildOps 0 true false true ++ [.printn [1, 2, 3, 4, 5, 0] 5]) = .ok r' ∧
    s'.buf = [4, 5] ∧ stream s'.out ++ s'.buf = stream r'.out := ⟨_, _, rfl, rfl, by decide, by decide⟩

/-- The `len == 0 ⇒ strlen` convention of `write_str` is still there (the xterm driver uses it for its own
    literals), but since the fix 6b09beb `tickit_term_printn(tt, str, 0)` no longer reaches it: a zero-length
    print requests nothing, whatever is at `str` (`printn_zero_len_returns` is read from the source). -/
theorem printn_len0_prints_nothing (m : Mode) (mem : Bytes) (st : State) :
    requested m (.printn mem 0) = [] ∧ step st (.printn mem 0) = .ok st := by
  simp [requested, printnBytes, step, termPrintn, printn_zero_len_returns]

example : effective [97, 98, 0] 0 = [97, 98] ∧ printnBytes [97, 98, 0] 0 = [] ∧ printnBytes [97, 98, 0] 2 = [97, 98] := by
  decide

/-! ### 3. no delivered chunk is larger than the buffer; the fill level stays below it -/

/-- One call, any call: whatever it delivers goes to the output method in force and — with a buffer of `n`
    bytes in force when the call is made — is neither empty nor longer than `n`. -/
theorem chunk_bound_call (st st' : State) (o : Op) (hwf : WF st) (h : step st o = .ok st') :
    ∃ new, st'.out = st.out ++ new ∧ ∀ c ∈ new, ChunkOK st.bufLen (sink st') c :=
  step_chunks hwf h

/-- Non-vacuity: 2 bytes pending in a buffer of 4, a write of 7: two full chunks go out, 1 byte stays. -/
example : ∃ st', step { (fresh 4 false 0 {}) with buf := [1, 2] } (.printn [3, 4, 5, 6, 7, 8, 9, 0] 7) = .ok st' ∧
    st'.out = [.data .fd [1, 2, 3, 4], .data .fd [5, 6, 7, 8]] ∧ st'.buf = [9] := ⟨_, rfl, rfl, rfl⟩

/-- A whole history with the buffer size fixed. -/
theorem chunk_bound_history (st st' : State) (ops : List Op) (hwf : WF st) (hns : NoSetbuf ops)
    (h : run st ops = .ok st') :
    st'.bufLen = st.bufLen ∧ ∃ new, st'.out = st.out ++ new ∧ ∀ c ∈ new, ChunkFits st.bufLen c :=
  run_chunks ops st st' hwf hns h

/-- "Fill level < n between calls" is an invariant of every call — including a change of the buffer size
    with output pending, which the property excludes. -/
theorem fill_level_invariant (st st' : State) (ops : List Op) (hwf : WF st) (h : run st ops = .ok st') : WF st' :=
  run_wf ops st st' hwf h

example : WF (fresh 4 true (-1) {}) ∧ ¬ WF { (fresh 4 true (-1) {}) with buf := [1, 2, 3, 4] } := by
  unfold WF fresh; decide

/-! ### 4. after a flush nothing remains pending — and where the library flushes by itself -/

theorem flush_drains (st st' : State) (h : step st .flush = .ok st') : st'.buf = [] := by
  simp only [step] at h
  injection h with h; subst h; exact flush_buf st

/-- `tickit_term_teardown` ends with a flush (`term_teardown_flushes` is read from the source). -/
theorem teardown_drains (st st' : State) (hwf : WF st) (h : step st .teardown = .ok st') : st'.buf = [] :=
  (termTeardown_ext hwf h).2 rfl

/-- `tickit_term_destroy` (last `unref`): teardown, then a flush of its own. -/
theorem destroy_drains (st st' : State) (hwf : WF st) (h : step st .destroy = .ok st') : st'.buf = [] :=
  (termDestroy_ext hwf h).2

/-- Attaching the first output method starts the driver, and the xterm driver's `start` ends with a flush
    (`start_ends_with_flush` is read from the source): the probing strings are never left in the buffer. -/
theorem start_drains (st st' : State) (hns : st.mode.started = false)
    (h : step st .setFunc = .ok st' ∨ ∃ fd, step st (.setFd fd) = .ok st') : st'.buf = [] := by
  have key : ∀ s0 : State, s0.mode.started = false → startIfUnstarted s0 = .ok st' → st'.buf = [] := by
    intro s0 h0 hh
    unfold startIfUnstarted at hh
    rw [h0] at hh
    simp only [Bool.false_eq_true, if_false] at hh
    obtain ⟨s1, h1, hh⟩ := bind_eq_ok.1 hh
    injection hh with hh; subst hh
    unfold drvStart at h1
    obtain ⟨s2, _, h1⟩ := bind_eq_ok.1 h1
    injection h1 with h1; subst h1
    exact condFlush_buf
  rcases h with h | ⟨fd, h⟩
  · exact key (preFunc st) (by rw [(preFunc_facts st).2.2.1]; exact hns) h
  · exact key (postFd st fd) hns h

/-- Non-vacuity of the three: something is pending and the mode makes the driver write on the way out. -/
example : ∃ a b, step { (fresh 16 true (-1) { started := true, altscreen := true }) with buf := [1, 2, 3] } .teardown = .ok a ∧
    step { (fresh 16 true (-1) { started := true, altscreen := true }) with buf := [1, 2, 3] } .destroy = .ok b ∧
    a.buf = [] ∧ b.buf = [] ∧ a.out.length = 1 ∧ b.out.length = 2 ∧
    stream a.out = [1, 2, 3] ++ teardown_altscreen ++ teardown_pen_reset :=
  ⟨_, _, rfl, rfl, by decide, by decide, by decide, by decide, by decide⟩

example : ∃ st', step { init with bufLen := 5 } .setFunc = .ok st' ∧ st'.buf = [] ∧ stream st'.out = startBytes ∧
    st'.out.length = 15 := ⟨_, rfl, by decide, by decide, by decide⟩

/-- `tickit_term_pause` ends with a flush (`term_pause_flushes` is read from the source; the fix 41ef6f9 added
    it — before, the mode-reset sequences stayed in the buffer while the caller stopped the process). -/
theorem pause_drains (st st' : State) (h : step st .pause = .ok st') : st'.buf = [] := by
  simp only [step, termPause] at h
  obtain ⟨s1, _, h⟩ := bind_eq_ok.1 h
  injection h with h; subst h
  exact condFlush_buf

example : ∃ st', step { (fresh 64 true (-1) { started := true, cursorvis := false }) with buf := [1, 2] } .pause = .ok st' ∧
    st'.buf = [] ∧ stream st'.out = [1, 2] ++ teardown_cursorvis ++ teardown_pen_reset := ⟨_, rfl, by decide, by decide⟩

example : ∃ st', step { (fresh 8 true (-1) {}) with buf := [1, 2, 3] } .flush = .ok st' ∧
    st'.out = [.data .func [1, 2, 3]] ∧ st'.buf = [] := ⟨_, rfl, rfl, rfl⟩

/-! ### 5. "fixed while output is pending": what the proviso buys -/

/-- Changing the buffer size while nothing is pending is harmless (it is an admissible call: this is the
    `setbuf` case of `transparent`, spelled out). -/
theorem resize_when_idle (st st' : State) (n : Nat) (hidle : st.buf = []) (h : step st (.setbuf n) = .ok st') :
    stream st'.out ++ st'.buf = stream st.out ++ st.buf ∧ st'.bufLen = n ∧ WF st' := by
  simp only [step] at h
  injection h with h; subst h
  refine ⟨by simp [setOutputBuffer, hidle], rfl, ?_⟩
  unfold WF setOutputBuffer; simp

example : ∃ st', step { (fresh 4 true (-1) {}) with out := [.data .func [1, 2, 3, 4]] } (.setbuf 9) = .ok st' ∧
    st'.bufLen = 9 ∧ stream st'.out = [1, 2, 3, 4] := ⟨_, rfl, rfl, by decide⟩

/-- … and the proviso is needed: `tickit_term_set_output_buffer` drops whatever is pending
    (`outbuffer_cur = 0` without a flush).  Two bytes written, buffer resized, flushed: nothing is ever
    delivered. -/
theorem resize_while_pending_loses :
    ∃ st', run (fresh 4 true (-1) {}) [.printn [97, 98, 0] 2, .setbuf 8, .flush] = .ok st' ∧
      stream st'.out ++ st'.buf = [] ∧ written {} [.printn [97, 98, 0] 2, .setbuf 8, .flush] = [97, 98] :=
  ⟨_, rfl, by decide, by decide⟩

/-! ### 6. no undefined behaviour -/

/-- Provided the caller's pointers are good (`OpOK`: `len` bytes readable, NUL-terminated where `strlen` or
    `%s` is applied), no history reads outside its arguments, lets `outbuffer_cur` exceed `outbuffer_len`
    (the `size_t` subtraction in `write_str` never wraps, `memcpy` stays inside the buffer) or fails to
    terminate. -/
theorem no_ub (st : State) (ops : List Op) (hwf : WF st) (hok : ∀ o ∈ ops, OpOK o) : ∃ st', run st ops = .ok st' :=
  run_ok ops st hwf hok

example : OpOK (.printn [1, 2, 0] 0) ∧ ¬ OpOK (.printn [1, 2] 0) ∧ ¬ OpOK (.printn [1, 2] 3) := by
  unfold OpOK ReqOK; decide

/-! ### 7. write_vstrf / tickit_term_vprintf: the two formatting passes and the caller's buffers -/

/-- First pass: `vsnprintf(buffer, sizeof buffer, …)` never stores more than the stack buffer holds. -/
theorem vstrf_stack_buffer_fits (s : Bytes) : (vsnprintfStore strf_stack_buffer s).length ≤ strf_stack_buffer := by
  unfold vsnprintfStore
  split
  · simp
  · simp; omega

/-- Second pass (taken exactly when the result does not fit, `len ≥ sizeof buffer`): the tmpbuffer handed
    out by `get_tmpbuffer(tt, len + 1)` is at least as large as what `vsnprintf(morebuffer, len + 1, …)` stores. -/
theorem vstrf_tmpbuffer_fits (st : State) (s : Bytes) :
    (vsnprintfStore (s.length + 1) s).length ≤ (getTmpbuffer st (s.length + 1)).tmpLen := by
  unfold vsnprintfStore getTmpbuffer
  simp only [Nat.add_eq_zero_iff, Nat.succ_ne_self, and_false, if_false, Nat.add_sub_cancel]
  split <;> simp [List.length_take] <;> omega

/-- Either way exactly the formatted result is written: no truncation at the 63/64-byte edge, no stray NUL,
    and the `len == 0 ⇒ strlen` quirk is harmless here because the buffer holds an empty C string then. -/
theorem vstrf_transparent (st st' : State) (s : Bytes) (hwf : WF st) (hat : Attached st)
    (h : writeVstrf st s = .ok st') :
    stream st'.out ++ st'.buf = stream st.out ++ st.buf ++ s ∧ WF st' :=
  ⟨(writeVstrf_ext hwf h).eqn hat, (writeVstrf_ext hwf h).wf⟩

/-- The same for `tickit_term_vprintf` (size pass with a NULL buffer, then the tmpbuffer). -/
theorem vprintf_transparent (st st' : State) (s : Bytes) (hwf : WF st) (hat : Attached st)
    (h : termVprintf st s = .ok st') :
    stream st'.out ++ st'.buf = stream st.out ++ st.buf ++ s ∧ WF st' :=
  ⟨(termVprintf_ext hwf h).eqn hat, (termVprintf_ext hwf h).wf⟩

/-- Non-vacuity at the edge: a 64-byte result takes the second pass and arrives complete. -/
example : ∃ st', writeVstrf (fresh 0 true (-1) {}) (List.replicate 64 65) = .ok st' ∧
    st'.out = [.data .func (List.replicate 64 65)] ∧ st'.tmpLen = 65 := ⟨_, rfl, by decide, by decide⟩

example : ∃ st', writeVstrf (fresh 0 true (-1) {}) (List.replicate 63 65) = .ok st' ∧
    st'.out = [.data .func (List.replicate 63 65)] ∧ st'.tmpLen = 0 := ⟨_, rfl, by decide, by decide⟩

/-! ### 8. the output descriptor: every number other than -1 is a descriptor, 0 included -/

/-- The test that guards `write(2)` is the same in `tickit_term_flush` (buffered output) and in the unbuffered arm
    of `write_str`, and it is "`tt->outfd` is not -1" (both read from the source): whatever descriptor number the
    unbuffered stream goes to, the buffered stream goes to as well — descriptor 0, which `TICKIT_OPEN_STDTTY` picks
    when stdin is the terminal, is not special. -/
theorem descriptor_test_same_buffered_unbuffered (fd : Int) :
    flush_fd_guard fd = write_str_fd_guard fd ∧ (flush_fd_guard fd = true ↔ fd ≠ -1) :=
  ⟨by rw [fd_guards_agree], flush_fd_guard_iff fd⟩

/-- Without an output function, a flush hands everything pending to the descriptor as one chunk, for every
    descriptor number; the unbuffered write does the same with its argument. -/
theorem flush_writes_every_descriptor (st : State) (b : Bytes) (hnf : st.hasFunc = false) (hfd : st.outfd ≠ -1) :
    deliver st b = { st with out := st.out ++ [.data .fd b] } ∧ deliverWith write_str_fd_guard st b = deliver st b ∧
    (st.buf ≠ [] → (flush st).out = st.out ++ [.data .fd st.buf] ∧ (flush st).buf = []) := by
  have hd : deliver st b = { st with out := st.out ++ [.data .fd b] } := by
    unfold deliver deliverWith
    simp [hnf, (flush_fd_guard_iff _).2 hfd]
  refine ⟨hd, deliverWith_write_str st b, ?_⟩
  intro hp
  have hl : st.buf.length ≠ 0 := fun h => hp (List.eq_nil_of_length_eq_zero h)
  refine ⟨?_, flush_buf st⟩
  unfold flush
  rw [if_neg hl]
  show (deliver st st.buf).out = _
  unfold deliver deliverWith
  simp [hnf, (flush_fd_guard_iff _).2 hfd]

/-- With both an output function and a descriptor the function wins, whatever the descriptor number. -/
theorem function_wins (st : State) (b : Bytes) (hf : st.hasFunc = true) :
    deliver st b = { st with out := st.out ++ [.data .func b] } ∧
    deliverWith write_str_fd_guard st b = { st with out := st.out ++ [.data .func b] } := by
  unfold deliver deliverWith
  simp [hf]

/-- The property on descriptor 0 (an instance of `write_flush_transparent`, spelled out because descriptor 0 is
    what `TICKIT_OPEN_STDTTY` uses): nothing lost, chunks within the buffer, fill level below it. -/
theorem descriptor_zero_transparent (n : Nat) (m : Mode) (calls : List Call) (st' : State)
    (hrun : run (fresh n false 0 m) (calls.map Call.op) = .ok st') :
    stream st'.out ++ st'.buf = concatWritten calls ∧ (∀ c ∈ st'.out, ChunkOK n .fd c) ∧
    (0 < n → st'.buf.length < n) ∧ (n = 0 → st'.buf = []) :=
  write_flush_transparent n false 0 (Or.inr (by decide)) m calls st' hrun

/-- Non-vacuity: descriptor 0, buffer of 4, 6 bytes and a flush: both chunks arrive at the descriptor; the same
    on descriptor 7 and unbuffered on descriptor 0; with no descriptor (-1) and no function nothing is delivered. -/
example : ∃ a b c d, run (fresh 4 false 0 {}) [.printn [1, 2, 3, 4, 5, 6, 0] 6, .flush] = .ok a ∧
    run (fresh 4 false 7 {}) [.printn [1, 2, 3, 4, 5, 6, 0] 6, .flush] = .ok b ∧
    run (fresh 0 false 0 {}) [.printn [1, 2, 3, 4, 5, 6, 0] 6, .flush] = .ok c ∧
    run (fresh 4 false (-1) {}) [.printn [1, 2, 3, 4, 5, 6, 0] 6, .flush] = .ok d ∧
    a.out = [.data .fd [1, 2, 3, 4], .data .fd [5, 6]] ∧ b.out = a.out ∧ c.out = [.data .fd [1, 2, 3, 4, 5, 6]] ∧
    d.out = [] ∧ a.buf = [] :=
  ⟨_, _, _, _, rfl, rfl, rfl, rfl, by decide, by decide, by decide, by decide, by decide⟩

/-- Non-vacuity: the harness's `new 3 both early 0 …`: the descriptor is attached first, so the driver's start-up
    strings go through the buffer to descriptor 0; later output goes to the function. -/
example : ∃ s, run init (buildOps 3 true true true 0 ++ [.printn [1, 2, 3, 0] 3]) = .ok s ∧
    s.out.getLast? = some (.data .func [1, 2, 3]) ∧ s.out.head? = some (.data .fd [27, 91, 63]) ∧
    stream s.out = startBytes ++ [1, 2, 3] := ⟨_, rfl, by decide, by decide, by decide⟩

end Tickit.Props.C11
