import Tickit.Model.TermBuf
namespace Tickit.Props.C11
end Tickit.Props.C11
