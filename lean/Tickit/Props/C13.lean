import Tickit.Model.RBCopy
import Tickit.Proof.RBCopy
/-
  C13 — copying, moving and blitting buffer regions preserve content cell for cell.

  `Variant.repaired` is the text of `copyrect` with fixes/C13_1 and fixes/C13_2 applied (what the driver runs
  against the repaired tree); `Variant.asFound` / `Variant.captured` carry the counterexamples.
-/
namespace Tickit.Props.C13
open Tickit Tickit.RB Tickit.RBCopy

/-! ## "None of these operations disturbs the buffer's saved-state stack, cursor, clip or translation" -/

/-- Copying keeps stack, depth, cursor, clip, translation, pen and size — for every buffer (well-formed or
    not), every pair of rectangles, with or without a translation in force. -/
theorem copy_keeps_aux_state (rb : RB) (dr sr : Rect) :
    SameAux (copy Variant.repaired rb dr sr) rb :=
  sameAux_copy _ rfl rb dr sr

theorem move_keeps_aux_state (rb : RB) (dr sr : Rect) :
    SameAux (move Variant.repaired rb dr sr) rb :=
  sameAux_move _ rfl rb dr sr

theorem blit_keeps_aux_state (same : Bool) (dst src : RB) :
    SameAux (blit Variant.repaired same dst src) dst :=
  sameAux_blit _ rfl same dst src

/-- The same holds with only the first repair (the second one changes how text is copied, not the stack). -/
theorem copy_keeps_aux_state_captured (rb : RB) (dr sr : Rect) :
    SameAux (copy Variant.captured rb dr sr) rb :=
  sameAux_copy _ rfl rb dr sr

/-- A buffer with a skipped run in the middle of a line and one saved frame. -/
def cexStack : RB := save (goto (skipAt (RB.new 3 5 0 0) 1 1 2) 1 1)

/-- As found, the copy pops the caller's frame: the skip run `[1,3)` of line 1 is overwritten by its own copy
    (one column to the left), its start cell is CONT afterwards, and `restore` runs without a `savepen`. -/
theorem copy_pops_callers_frame_as_found :
    (copy Variant.asFound cexStack ⟨0, 0, 2, 4⟩ ⟨0, 1, 2, 4⟩).depth = 0 ∧ cexStack.depth = 1 ∧
    (copy Variant.asFound cexStack ⟨0, 0, 2, 4⟩ ⟨0, 1, 2, 4⟩).stack = [] := by
  decide +kernel

theorem copy_keeps_aux_state_counterexample_as_found :
    ¬ (∀ (rb : RB) (dr sr : Rect), SameAux (copy Variant.asFound rb dr sr) rb) := by
  intro h
  have := (h cexStack ⟨0, 0, 2, 4⟩ ⟨0, 1, 2, 4⟩).depth
  rw [copy_pops_callers_frame_as_found.1, copy_pops_callers_frame_as_found.2.1] at this
  exact absurd this (by decide)

/-- Non-vacuity: the repaired copy on the same input keeps the frame. -/
example : (copy Variant.repaired cexStack ⟨0, 0, 2, 4⟩ ⟨0, 1, 2, 4⟩).depth = 1 := by decide +kernel

end Tickit.Props.C13
