import Tickit.Model.RBCopy
import Tickit.Proof.RBCopy
import Tickit.Proof.RBCopyMove
import Tickit.Proof.RBCopyBridge
import Tickit.Proof.RBCopyFuel
import Tickit.Proof.RBCopyPen
import Tickit.Gen.RBCopy
/-
  C13 — copying, moving and blitting buffer regions preserve content cell for cell.

  `Variant.repaired` is the text of `copyrect` with fixes/C13_1_copyrect_run_state.patch and
  fixes/C13_2_copyrect_text_by_reference.patch applied (what the driver runs against the repaired tree);
  `Variant.asFound` (the code as found) and `Variant.captured` (first repair only) carry the counterexamples.

  Vocabulary (Model/RBCopy.lean, second half): `absContent rb L C` — what cell `(L, C)` shows (`skip`, `text pen s k`,
  `erase pen`, `line pen mask`, `char pen cp`); `writable rb L C` — inside buffer and clip, not masked;
  `copyExpect` / `selfCopyExpect` / `moveExpect` / `blitExpect` — the cell-wise specification: a destination cell
  that clip and mask allow shows what the source cell at the same offset showed *before* the call, its pen
  completed from the buffer's current pen (`completePen`), line segments merged into a line cell already there
  (`mergeLine`); every other cell shows what it showed before.
  `WF rb` (Proof/RBCopyPrim.lean) is the run-structure invariant of the render buffer (runs tile every line, CONT
  cells point at their run's start, LINE/CHAR cells are one column, mask depths in [-1, depth], clip inside the
  buffer); it holds of `RB.new` and is preserved by every drawing operation (property C03).
-/
namespace Tickit.Props.C13
open Tickit Tickit.RB Tickit.RBCopy

/-! ## "None of these operations disturbs the buffer's saved-state stack, cursor, clip or translation" -/

/-- Copying keeps stack, depth, cursor, clip, translation, pen and size — for every buffer (well-formed or
    not), every pair of rectangles, with or without a translation in force. -/
theorem copy_keeps_aux_state (rb : RB) (dr sr : Rect) :
    SameAux (copy Variant.repaired rb dr sr) rb :=
  sameAux_copy _ rfl rb dr sr

theorem move_keeps_aux_state (rb : RB) (dr sr : Rect) :
    SameAux (move Variant.repaired rb dr sr) rb :=
  sameAux_move _ rfl rb dr sr

theorem blit_keeps_aux_state (same : Bool) (dst src : RB) :
    SameAux (blit Variant.repaired same dst src) dst :=
  sameAux_blit _ rfl same dst src

/-- The same holds with only the first repair (the second one changes how text is copied, not the stack). -/
theorem copy_keeps_aux_state_captured (rb : RB) (dr sr : Rect) :
    SameAux (copy Variant.captured rb dr sr) rb :=
  sameAux_copy _ rfl rb dr sr

/-! ## Copy -/

/-- The source rectangle lies inside the buffer and has positive extent. -/
def Inside (rb : RB) (sr : Rect) : Prop :=
  0 ≤ sr.top ∧ sr.top + sr.lines ≤ rb.lines ∧ 0 ≤ sr.left ∧ sr.left + sr.cols ≤ rb.cols ∧ sr.Nonempty

/-- **Copy, cell for cell** — every overlap direction, rectangle edges anywhere relative to the runs, any clip,
    masks, pen and stack.  With no translation in force, after `copyrect(rb, dest, src)` every cell shows what the
    specification `selfCopyExpect` says; the result is well-formed and no mask depth changed. -/
theorem copy_spec (rb : RB) (dr sr : Rect) (hwf : RBCopy.WF rb) (hxl : rb.xlLine = 0) (hxc : rb.xlCol = 0)
    (hin : Inside rb sr) :
    (∀ L C, absContent (copy Variant.repaired rb dr sr) L C = selfCopyExpect rb dr sr L C) ∧
    RBCopy.WF (copy Variant.repaired rb dr sr) ∧
    (∀ l c, 0 ≤ l → l < rb.lines → 0 ≤ c → c < rb.cols →
      (((copy Variant.repaired rb dr sr).cells l).get c).maskdepth = ((rb.cells l).get c).maskdepth) :=
  let r := copy_result rb dr sr hwf hxl hxc hin.1 hin.2.1 hin.2.2.1 hin.2.2.2.1 hin.2.2.2.2
  ⟨r.content, r.wf, r.mask⟩

/-- The destination clause spelled out: a destination cell that clip and mask allow takes the content the source
    cell at the same offset had before the call (pen completed, lines merged). -/
theorem copy_spec_destination (rb : RB) (dr sr : Rect) (hwf : RBCopy.WF rb) (hxl : rb.xlLine = 0) (hxc : rb.xlCol = 0)
    (hin : Inside rb sr) (hmoved : ¬ (dr.top = sr.top ∧ dr.left = sr.left)) (L C : Int)
    (hsrc : sr.Mem (L - (dr.top - sr.top)) (C - (dr.left - sr.left))) (hw : writable rb L C = true) :
    absContent (copy Variant.repaired rb dr sr) L C =
      match absContent rb (L - (dr.top - sr.top)) (C - (dr.left - sr.left)) with
      | .skip => .skip
      | c => transfer rb.pen c (absContent rb L C) := by
  rw [(copy_spec rb dr sr hwf hxl hxc hin).1 L C]
  unfold selfCopyExpect copyExpect
  rw [if_neg hmoved, (Rect.memb_iff sr _ _).2 hsrc, hw]
  simp only [Bool.and_self, if_true]
  cases absContent rb (L - (dr.top - sr.top)) (C - (dr.left - sr.left)) <;> rfl

/-- All other cells are unchanged. -/
theorem copy_spec_elsewhere (rb : RB) (dr sr : Rect) (hwf : RBCopy.WF rb) (hxl : rb.xlLine = 0) (hxc : rb.xlCol = 0)
    (hin : Inside rb sr) (L C : Int)
    (h : ¬ (sr.Mem (L - (dr.top - sr.top)) (C - (dr.left - sr.left)) ∧ writable rb L C = true)) :
    absContent (copy Variant.repaired rb dr sr) L C = absContent rb L C := by
  rw [(copy_spec rb dr sr hwf hxl hxc hin).1 L C]
  unfold selfCopyExpect copyExpect
  by_cases hid : dr.top = sr.top ∧ dr.left = sr.left
  · rw [if_pos hid]
  · rw [if_neg hid]
    have : ¬ ((sr.memb (L - (dr.top - sr.top)) (C - (dr.left - sr.left)) && writable rb L C) = true) := by
      intro hh
      rw [Bool.and_eq_true, Rect.memb_iff] at hh
      exact h hh
    rw [if_neg this]

/-- On a well-formed buffer the copy reaches no `abort()` ("unreachable" arms of `make_span` and of the switch) and
    the model's fuel-bounded loops do not run out. -/
theorem copy_no_abort (rb : RB) (dr sr : Rect) (hwf : RBCopy.WF rb) (hxl : rb.xlLine = 0) (hxc : rb.xlCol = 0)
    (hin : Inside rb sr) :
    (copy Variant.repaired rb dr sr).aborted = rb.aborted ∧ (copy Variant.repaired rb dr sr).fuelOut = rb.fuelOut :=
  (copy_result rb dr sr hwf hxl hxc hin.1 hin.2.1 hin.2.2.1 hin.2.2.2.1 hin.2.2.2.2).flags

/-! ## Move -/

/-- The rectangle-set computation of the vacated area (`tickit_rectset_add` of the source, `tickit_rectset_subtract`
    of the destination) never runs out of the model's fuel … -/
theorem move_vacated_area_returns (dr sr : Rect) (hsr : sr.Nonempty) : ∃ rects, clearArea dr sr = some rects :=
  clearArea_returns dr sr hsr

/-- … and returns exactly the vacated cells. -/
theorem move_vacated_area_exact (dr sr : Rect) (hsr : sr.Nonempty) {rects : List Rect} (hca : clearArea dr sr = some rects) :
    ∀ l c, Covered rects l c ↔ (sr.Mem l c ∧ ¬ Rect.Mem ⟨dr.top, dr.left, sr.lines, sr.cols⟩ l c) :=
  (clearArea_region hca hsr).2

/-- **Move**: as the copy, and the vacated source cells (those of the source rectangle that are not destination
    cells) that clip and mask allow are skipped. -/
theorem move_spec (rb : RB) (dr sr : Rect) (hwf : RBCopy.WF rb) (hxl : rb.xlLine = 0) (hxc : rb.xlCol = 0)
    (hin : Inside rb sr) :
    (∀ L C, absContent (move Variant.repaired rb dr sr) L C = moveExpect rb dr sr L C) ∧
    RBCopy.WF (move Variant.repaired rb dr sr) ∧
    (∀ l c, 0 ≤ l → l < rb.lines → 0 ≤ c → c < rb.cols →
      (((move Variant.repaired rb dr sr).cells l).get c).maskdepth = ((rb.cells l).get c).maskdepth) := by
  obtain ⟨rects, hca⟩ := clearArea_returns dr sr hin.2.2.2.2
  have r := move_result rb dr sr hwf hxl hxc hin.1 hin.2.1 hin.2.2.1 hin.2.2.2.1 hin.2.2.2.2 hca
  exact ⟨r.content, r.wf, r.mask⟩

/-- The vacated cells, spelled out. -/
theorem move_spec_vacated (rb : RB) (dr sr : Rect) (hwf : RBCopy.WF rb) (hxl : rb.xlLine = 0) (hxc : rb.xlCol = 0)
    (hin : Inside rb sr) (L C : Int)
    (hs : sr.Mem L C) (hd : ¬ Rect.Mem ⟨dr.top, dr.left, sr.lines, sr.cols⟩ L C) (hw : writable rb L C = true) :
    absContent (move Variant.repaired rb dr sr) L C = .skip := by
  rw [(move_spec rb dr sr hwf hxl hxc hin).1 L C]
  unfold moveExpect
  have : Rect.memb ⟨dr.top, dr.left, sr.lines, sr.cols⟩ L C = false := by
    rw [Bool.eq_false_iff]; exact fun hh => hd ((Rect.memb_iff _ _ _).1 hh)
  rw [(Rect.memb_iff sr _ _).2 hs, this, hw]
  rfl

theorem move_no_abort (rb : RB) (dr sr : Rect) (hwf : RBCopy.WF rb) (hxl : rb.xlLine = 0) (hxc : rb.xlCol = 0)
    (hin : Inside rb sr) :
    (move Variant.repaired rb dr sr).aborted = rb.aborted ∧ (move Variant.repaired rb dr sr).fuelOut = rb.fuelOut := by
  obtain ⟨rects, hca⟩ := clearArea_returns dr sr hin.2.2.2.2
  exact (move_result rb dr sr hwf hxl hxc hin.1 hin.2.1 hin.2.2.1 hin.2.2.2.1 hin.2.2.2.2 hca).flags

/-! ## The destination rectangle: only its position is meaningful

  `copy_spec` / `move_spec` above quantify over *every* destination rectangle `dr`; its `lines` / `cols` occur
  nowhere in the specification (`selfCopyExpect`, `moveExpect` use `dr.top`, `dr.left` and the source's size).  The
  statements below say so outright: a 1x1 "position" rectangle, an empty one or one larger than the source give the
  same buffer, for every text of `copyrect` and every buffer (well-formed or not). -/

/-- Copying reads only the position of the destination rectangle. -/
theorem copy_dest_size_irrelevant (v : Variant) (rb : RB) (dr dr' sr : Rect) (ht : dr'.top = dr.top) (hl : dr'.left = dr.left) :
    copy v rb dr' sr = copy v rb dr sr := by
  unfold copy copyrect
  rw [ht, hl]

/-- So does moving — in particular the vacated area is computed from a source-sized rectangle at the
    destination's position, never from the destination rectangle as passed. -/
theorem move_dest_size_irrelevant (v : Variant) (rb : RB) (dr dr' sr : Rect) (ht : dr'.top = dr.top) (hl : dr'.left = dr.left) :
    move v rb dr' sr = move v rb dr sr := by
  unfold move clearArea
  rw [copy_dest_size_irrelevant v rb dr dr' sr ht hl, ht, hl]

/-- The specification does not mention the destination's size either. -/
theorem expect_dest_size_irrelevant (rb : RB) (dr dr' sr : Rect) (ht : dr'.top = dr.top) (hl : dr'.left = dr.left) (L C : Int) :
    selfCopyExpect rb dr' sr L C = selfCopyExpect rb dr sr L C ∧ moveExpect rb dr' sr L C = moveExpect rb dr sr L C := by
  unfold moveExpect selfCopyExpect
  rw [ht, hl]
  exact ⟨rfl, rfl⟩

/-- **Move with a destination rectangle of any size**: every cell shows what `moveExpect` says for the
    source-sized destination at the same position; in particular a cell of the source that the source-sized
    destination does not cover is skipped even when the rectangle passed as destination is larger and covers it,
    and a freshly moved cell keeps the moved content even when the rectangle passed is smaller (1x1, empty). -/
theorem move_spec_any_dest_size (rb : RB) (dr sr : Rect) (n c : Int) (hwf : RBCopy.WF rb) (hxl : rb.xlLine = 0) (hxc : rb.xlCol = 0)
    (hin : Inside rb sr) :
    ∀ L C, absContent (move Variant.repaired rb ⟨dr.top, dr.left, n, c⟩ sr) L C =
      moveExpect rb ⟨dr.top, dr.left, sr.lines, sr.cols⟩ sr L C := by
  intro L C
  rw [move_dest_size_irrelevant Variant.repaired rb ⟨dr.top, dr.left, sr.lines, sr.cols⟩ ⟨dr.top, dr.left, n, c⟩ sr rfl rfl]
  exact (move_spec rb _ sr hwf hxl hxc hin).1 L C

theorem copy_spec_any_dest_size (rb : RB) (dr sr : Rect) (n c : Int) (hwf : RBCopy.WF rb) (hxl : rb.xlLine = 0) (hxc : rb.xlCol = 0)
    (hin : Inside rb sr) :
    ∀ L C, absContent (copy Variant.repaired rb ⟨dr.top, dr.left, n, c⟩ sr) L C =
      selfCopyExpect rb ⟨dr.top, dr.left, sr.lines, sr.cols⟩ sr L C := by
  intro L C
  rw [copy_dest_size_irrelevant Variant.repaired rb ⟨dr.top, dr.left, sr.lines, sr.cols⟩ ⟨dr.top, dr.left, n, c⟩ sr rfl rfl]
  exact (copy_spec rb _ sr hwf hxl hxc hin).1 L C

/-! ## Blit -/

/-- **Blit** overlays exactly the source's non-skipped cells (at the destination's translation, through the
    destination's clip and masks, pens completed from the destination's pen); the source is not touched (it is
    not even an argument of the result). -/
theorem blit_spec (dst src : RB) (hwf : RBCopy.WF dst) (hsrc : RBCopy.WF src) (hl : 0 ≤ src.lines) (hc : 0 ≤ src.cols) :
    (∀ L C, absContent (blit Variant.repaired false dst src) L C = blitExpect dst src L C) ∧
    RBCopy.WF (blit Variant.repaired false dst src) ∧
    (∀ l c, 0 ≤ l → l < dst.lines → 0 ≤ c → c < dst.cols →
      (((blit Variant.repaired false dst src).cells l).get c).maskdepth = ((dst.cells l).get c).maskdepth) :=
  let r := blit_result dst src hwf hsrc hl hc
  ⟨r.content, r.wf, r.mask⟩

theorem blit_no_abort (dst src : RB) (hwf : RBCopy.WF dst) (hsrc : RBCopy.WF src) (hl : 0 ≤ src.lines) (hc : 0 ≤ src.cols) :
    (blit Variant.repaired false dst src).aborted = dst.aborted ∧
    (blit Variant.repaired false dst src).fuelOut = dst.fuelOut :=
  (blit_result dst src hwf hsrc hl hc).flags

/-- A skipped source cell leaves the destination cell alone. -/
theorem blit_spec_skip (dst src : RB) (hwf : RBCopy.WF dst) (hsrc : RBCopy.WF src) (hl : 0 ≤ src.lines) (hc : 0 ≤ src.cols) (L C : Int)
    (hs : absContent src (L - dst.xlLine) (C - dst.xlCol) = .skip) :
    absContent (blit Variant.repaired false dst src) L C = absContent dst L C := by
  rw [(blit_spec dst src hwf hsrc hl hc).1 L C]
  unfold blitExpect copyExpect
  rw [hs]
  simp

/-- Blitting a buffer onto itself does nothing. -/
theorem blit_self (rb : RB) : blit Variant.repaired true rb rb = rb := by
  unfold blit copyrect
  simp

/-! ## Line cells: "line segments merging into line cells already there", and the pen is the source's

  `penLook p` (Model/RBCopy.lean) is what a pen makes a cell look like: the value of every getter of src/pen.c, the
  RGB8 value of a colour (or that there is none) included.  `linecell` keeps the pen object of a line cell already
  there when `tickit_pen_equiv` says the incoming pen is equivalent; the theorems below say that this is never
  visible: a destination cell that receives a line cell holds the union of the segments and *looks* like the source
  cell's pen (completed from the buffer's current pen) - in particular an RGB8 value the source's colour has and the
  destination's lacks (or the other way round) arrives, whatever the value. -/

/-- `tickit_pen_equiv` holds exactly of pens with the same look. -/
theorem pen_equiv_iff_same_look (a b : Pen) : Pen.equiv a b = true ↔ penLook a = penLook b :=
  equiv_iff_penLook a b

/-- An RGB8 value refines a colour: a pen that has one is never equivalent to a pen with the same colour index and
    none - whatever the value (`#000000`, what the getter returns for "no RGB8 value", included). -/
theorem pen_rgb8_refinement_not_equiv (p q : Pen) (idx : Int) (v : RGB)
    (h : (p.fg = some ⟨idx, none⟩ ∧ q.fg = some ⟨idx, some v⟩) ∨ (p.bg = some ⟨idx, none⟩ ∧ q.bg = some ⟨idx, some v⟩)) :
    Pen.equiv p q = false ∧ Pen.equiv q p = false := by
  have key : penLook p ≠ penLook q := by
    intro he
    rcases h with ⟨hp, hq⟩ | ⟨hp, hq⟩
    · have := congrArg PenLook.fgRgb he
      simp [penLook, Pen.getRgb, hp, hq] at this
    · have := congrArg PenLook.bgRgb he
      simp [penLook, Pen.getRgb, hp, hq] at this
  constructor
  · cases hx : Pen.equiv p q
    · rfl
    · exact absurd ((pen_equiv_iff_same_look p q).1 hx) key
  · cases hx : Pen.equiv q p
    · rfl
    · exact absurd ((pen_equiv_iff_same_look q p).1 hx).symm key

/-- Merging a line into a cell: the segments are united with those of a line cell already there, and the cell looks
    like the incoming pen; when the pens are not equivalent (or there was no line cell) the pen *is* the incoming one. -/
theorem merge_line_takes_source_pen (pen : Pen) (bits : Nat) (old : Content) :
    ∃ q, mergeLine pen bits old = .line q (mergedMask bits old) ∧ penLook q = penLook pen ∧
      (∀ p m, old = .line p m → Pen.equiv p pen = false → q = pen) ∧ ((∀ p m, old ≠ .line p m) → q = pen) :=
  mergeLine_look pen bits old

/-- **A line cell copied onto any cell**: a destination cell that clip and mask allow and whose source cell showed
    line segments `m` in pen `p` shows, after the copy, those segments united with the ones it had (if it was a line
    cell), in a pen that looks like `p` completed from the buffer's current pen. -/
theorem copy_line_cell (rb : RB) (dr sr : Rect) (hwf : RBCopy.WF rb) (hxl : rb.xlLine = 0) (hxc : rb.xlCol = 0)
    (hin : Inside rb sr) (hmoved : ¬ (dr.top = sr.top ∧ dr.left = sr.left)) (L C : Int)
    (hsrc : sr.Mem (L - (dr.top - sr.top)) (C - (dr.left - sr.left))) (hw : writable rb L C = true)
    (p : Pen) (m : Nat) (hs : absContent rb (L - (dr.top - sr.top)) (C - (dr.left - sr.left)) = .line p m) :
    ∃ q, absContent (copy Variant.repaired rb dr sr) L C = .line q (mergedMask m (absContent rb L C)) ∧
      penLook q = penLook (completePen p rb.pen) := by
  rw [copy_spec_destination rb dr sr hwf hxl hxc hin hmoved L C hsrc hw, hs]
  obtain ⟨q, h1, h2, _⟩ := mergeLine_look (completePen p rb.pen) m (absContent rb L C)
  exact ⟨q, h1, h2⟩

/-- **A line cell copied onto a line cell**: segments `m' ||| m`; the pen looks like the source's, and is the source's
    (completed) pen outright when the two were not equivalent - e.g. when they differ in an RGB8 value only. -/
theorem copy_line_onto_line (rb : RB) (dr sr : Rect) (hwf : RBCopy.WF rb) (hxl : rb.xlLine = 0) (hxc : rb.xlCol = 0)
    (hin : Inside rb sr) (hmoved : ¬ (dr.top = sr.top ∧ dr.left = sr.left)) (L C : Int)
    (hsrc : sr.Mem (L - (dr.top - sr.top)) (C - (dr.left - sr.left))) (hw : writable rb L C = true)
    (p p' : Pen) (m m' : Nat) (hs : absContent rb (L - (dr.top - sr.top)) (C - (dr.left - sr.left)) = .line p m)
    (hd : absContent rb L C = .line p' m') :
    ∃ q, absContent (copy Variant.repaired rb dr sr) L C = .line q (m' ||| m) ∧
      penLook q = penLook (completePen p rb.pen) ∧
      (Pen.equiv p' (completePen p rb.pen) = false → q = completePen p rb.pen) := by
  rw [copy_spec_destination rb dr sr hwf hxl hxc hin hmoved L C hsrc hw, hs, hd]
  obtain ⟨q, h1, h2, h3, _⟩ := mergeLine_look (completePen p rb.pen) m (.line p' m')
  exact ⟨q, h1, h2, h3 p' m' rfl⟩

/-- The same for a move: a cell of the (source-sized) destination that receives a line cell. -/
theorem move_line_cell (rb : RB) (dr sr : Rect) (hwf : RBCopy.WF rb) (hxl : rb.xlLine = 0) (hxc : rb.xlCol = 0)
    (hin : Inside rb sr) (hmoved : ¬ (dr.top = sr.top ∧ dr.left = sr.left)) (L C : Int)
    (hsrc : sr.Mem (L - (dr.top - sr.top)) (C - (dr.left - sr.left))) (hw : writable rb L C = true)
    (p : Pen) (m : Nat) (hs : absContent rb (L - (dr.top - sr.top)) (C - (dr.left - sr.left)) = .line p m) :
    ∃ q, absContent (move Variant.repaired rb dr sr) L C = .line q (mergedMask m (absContent rb L C)) ∧
      penLook q = penLook (completePen p rb.pen) := by
  rw [(move_spec rb dr sr hwf hxl hxc hin).1 L C]
  unfold moveExpect
  have hdm : Rect.memb ⟨dr.top, dr.left, sr.lines, sr.cols⟩ L C = true := by
    rw [Rect.memb_iff]
    unfold Rect.Mem Rect.bottom Rect.right at *
    simp only at *
    omega
  rw [hdm]
  simp only [Bool.not_true, Bool.and_false, Bool.false_and, if_false, Bool.false_eq_true]
  rw [← (copy_spec rb dr sr hwf hxl hxc hin).1 L C]
  exact copy_line_cell rb dr sr hwf hxl hxc hin hmoved L C hsrc hw p m hs

/-- The same for a blit: a line cell of the source buffer landing on a destination cell that clip and mask allow. -/
theorem blit_line_cell (dst src : RB) (hwf : RBCopy.WF dst) (hsrc : RBCopy.WF src) (hl : 0 ≤ src.lines) (hc : 0 ≤ src.cols)
    (L C : Int) (hw : writable dst L C = true) (p : Pen) (m : Nat)
    (hs : absContent src (L - dst.xlLine) (C - dst.xlCol) = .line p m) :
    ∃ q, absContent (blit Variant.repaired false dst src) L C = .line q (mergedMask m (absContent dst L C)) ∧
      penLook q = penLook (completePen p dst.pen) := by
  rw [(blit_spec dst src hwf hsrc hl hc).1 L C]
  unfold blitExpect copyExpect
  have hm : Rect.memb ⟨0, 0, src.lines, src.cols⟩ (L - dst.xlLine) (C - dst.xlCol) = true := by
    rw [Rect.memb_iff]
    unfold absContent at hs
    by_cases hh : 0 ≤ L - dst.xlLine ∧ L - dst.xlLine < src.lines ∧ 0 ≤ C - dst.xlCol ∧ C - dst.xlCol < src.cols
    · unfold Rect.Mem Rect.bottom Rect.right
      simp only
      omega
    · rw [if_neg hh] at hs; cases hs
  rw [hm, hw, hs]
  simp only [Bool.and_self, if_true]
  obtain ⟨q, h1, h2, _⟩ := mergeLine_look (completePen p dst.pen) m (absContent dst L C)
  exact ⟨q, h1, h2⟩

/-- The vertical line `│` of a 4x10 buffer in pen `fg 0`, a horizontal line below it in pen `fg 0 #000000`. -/
def cexLines : RB :=
  setpen (hlineAt (setpen (vlineAt (setpen (RB.new 4 10 0 0) (some { fg := some ⟨0, none⟩ })) 0 2 5 1 0)
    (some { fg := some ⟨0, some ⟨0, 0, 0⟩⟩ })) 3 2 8 1 0) none

/-! ## "For every buffer content reachable by drawing programs"

  `RB.Op` / `RB.run` (Model/RB.lean) are the public state-changing operations of the render buffer and their
  programs; `wf_reachable` (from the invariant theorem of C03, `RB.run_wf`) says every buffer a program reaches
  from a fresh one is well-formed. -/

/-- `copy_spec` for every buffer content reachable by a drawing program. -/
theorem copy_spec_reachable (lines cols g1 g2 : Int) (hl : 0 ≤ lines) (hc : 0 < cols) (prog : List RB.Op) (dr sr : Rect)
    (hxl : (RB.run (RB.new lines cols g1 g2) prog).xlLine = 0) (hxc : (RB.run (RB.new lines cols g1 g2) prog).xlCol = 0)
    (hin : Inside (RB.run (RB.new lines cols g1 g2) prog) sr) :
    ∀ L C, absContent (copy Variant.repaired (RB.run (RB.new lines cols g1 g2) prog) dr sr) L C =
      selfCopyExpect (RB.run (RB.new lines cols g1 g2) prog) dr sr L C :=
  (copy_spec _ dr sr (wf_reachable lines cols g1 g2 hl hc prog) hxl hxc hin).1

theorem move_spec_reachable (lines cols g1 g2 : Int) (hl : 0 ≤ lines) (hc : 0 < cols) (prog : List RB.Op) (dr sr : Rect)
    (hxl : (RB.run (RB.new lines cols g1 g2) prog).xlLine = 0) (hxc : (RB.run (RB.new lines cols g1 g2) prog).xlCol = 0)
    (hin : Inside (RB.run (RB.new lines cols g1 g2) prog) sr) :
    ∀ L C, absContent (move Variant.repaired (RB.run (RB.new lines cols g1 g2) prog) dr sr) L C =
      moveExpect (RB.run (RB.new lines cols g1 g2) prog) dr sr L C :=
  (move_spec _ dr sr (wf_reachable lines cols g1 g2 hl hc prog) hxl hxc hin).1

/-- `blit_spec` for two buffers reachable by drawing programs (any translation, clip, masks on the destination). -/
theorem blit_spec_reachable (l1 c1 g1 g2 l2 c2 g3 g4 : Int) (hl1 : 0 ≤ l1) (hc1 : 0 < c1) (hl2 : 0 ≤ l2) (hc2 : 0 < c2)
    (p1 p2 : List RB.Op) :
    ∀ L C, absContent (blit Variant.repaired false (RB.run (RB.new l1 c1 g1 g2) p1) (RB.run (RB.new l2 c2 g3 g4) p2)) L C =
      blitExpect (RB.run (RB.new l1 c1 g1 g2) p1) (RB.run (RB.new l2 c2 g3 g4) p2) L C := by
  have hw2 := Tickit.RB.run_wf p2 (Tickit.RB.new_refines l2 c2 g3 g4 hl2 hc2).1
  exact (blit_spec _ _ (wf_reachable l1 c1 g1 g2 hl1 hc1 p1) (wf_of_rb hw2) hw2.size.1 (Int.le_of_lt hw2.size.2)).1

/-! ## The defects of the code as found -/

/-- A buffer with a skipped run in the middle of a line and one saved frame. -/
def cexStack : RB := save (goto (skipAt (RB.new 3 5 0 0) 1 1 2) 1 1)

/-- As found, the copy pops the caller's frame: the skip run `[1,3)` of line 1 is overwritten by its own copy
    (one column to the left), its start cell is CONT afterwards, and `restore` runs without a `savepen`. -/
theorem copy_pops_callers_frame_as_found :
    (copy Variant.asFound cexStack ⟨0, 0, 2, 4⟩ ⟨0, 1, 2, 4⟩).depth = 0 ∧ cexStack.depth = 1 ∧
    (copy Variant.asFound cexStack ⟨0, 0, 2, 4⟩ ⟨0, 1, 2, 4⟩).stack = [] := by
  decide +kernel

theorem copy_keeps_aux_state_counterexample_as_found :
    ¬ (∀ (rb : RB) (dr sr : Rect), SameAux (copy Variant.asFound rb dr sr) rb) := by
  intro h
  have := (h cexStack ⟨0, 0, 2, 4⟩ ⟨0, 1, 2, 4⟩).depth
  rw [copy_pops_callers_frame_as_found.1, copy_pops_callers_frame_as_found.2.1] at this
  exact absurd this (by decide)

/-- An erase run `[1,5)` on line 1 of a 2 × 7 buffer. -/
def cexRun : RB := eraseAt (RB.new 2 7 0 0) 1 1 4

theorem cexRun_wf : RBCopy.WF cexRun := (eraseRun_spec (wf_new 2 7 0 0 (by decide) (by decide)) 1 1 4).wf

/-- As found, when the rectangle's left edge falls inside a run the piece copied is as long as the whole run and the
    scan advances by the whole run: copying columns 3..5 two to the left leaves an erase cell where the skipped
    cell (1,5) should have gone. -/
theorem copy_misses_cell_as_found :
    absContent (copy Variant.asFound cexRun ⟨0, 1, 2, 3⟩ ⟨0, 3, 2, 3⟩) 1 3 = .erase {} ∧
    selfCopyExpect cexRun ⟨0, 1, 2, 3⟩ ⟨0, 3, 2, 3⟩ 1 3 = .skip := by
  decide +kernel

theorem copy_spec_counterexample_as_found :
    ¬ (∀ (rb : RB) (dr sr : Rect), RBCopy.WF rb → rb.xlLine = 0 → rb.xlCol = 0 → Inside rb sr →
        ∀ L C, absContent (copy Variant.asFound rb dr sr) L C = selfCopyExpect rb dr sr L C) := by
  intro h
  have := h cexRun ⟨0, 1, 2, 3⟩ ⟨0, 3, 2, 3⟩ cexRun_wf rfl rfl (by unfold Inside Rect.Nonempty; decide) 1 3
  rw [copy_misses_cell_as_found.1, copy_misses_cell_as_found.2] at this
  exact absurd this (by decide)

/-- `"d一f"` (a double-width character in columns 1–2) at the start of line 0. -/
def cexWide : RB := textAt (RB.new 2 6 0 0) 0 0 [0x64, 0xe4, 0xb8, 0x80, 0x66]

/-- With the first repair only (TEXT runs still copied by cutting bytes out of the string), a rectangle whose left
    edge falls on the right half of a double-width character draws the whole character at the destination: cell
    (0,1) shows the *left* half of `一` (column 0 of `"一f"`) where the source cell (0,2) showed its right half. -/
theorem copy_widechar_cut_captured :
    (absContent (copy Variant.captured cexWide ⟨0, 1, 1, 4⟩ ⟨0, 2, 1, 4⟩) 0 1).same
      (selfCopyExpect cexWide ⟨0, 1, 1, 4⟩ ⟨0, 2, 1, 4⟩ 0 1) = false ∧
    (absContent (copy Variant.repaired cexWide ⟨0, 1, 1, 4⟩ ⟨0, 2, 1, 4⟩) 0 1).same
      (selfCopyExpect cexWide ⟨0, 1, 1, 4⟩ ⟨0, 2, 1, 4⟩ 0 1) = true := by
  decide +kernel

/-! ## The tie to the source text (regenerated from src/renderbuffer.c on every run, bin/extract.d/33_rbcopy.py) -/

/-- The `copy_skip` argument at the three call sites of `copyrect()` is what `blit` / `copy` / `move` pass. -/
theorem gen_call_sites :
    Gen.RBCopy.copySkipBlit = false ∧ Gen.RBCopy.copySkipCopy = true ∧ Gen.RBCopy.copySkipMove = true := by
  decide

/-- The early-return test and the two direction flags of the source are the model's. -/
theorem gen_directions (same : Bool) (lo co : Int) :
    (Gen.RBCopy.nullCopy same lo co = true ↔ (same = true ∧ lo = 0 ∧ co = 0)) ∧
    Gen.RBCopy.upwards same lo co = (same && decide (lo > 0)) ∧
    Gen.RBCopy.leftwards same lo co = (same && decide (lo = 0) && decide (co > 0)) := by
  refine ⟨?_, rfl, rfl⟩
  unfold Gen.RBCopy.nullCopy
  simp only [Bool.and_eq_true, decide_eq_true_eq]
  constructor
  · rintro ⟨⟨h1, h2⟩, h3⟩; exact ⟨h1, h2, h3⟩
  · rintro ⟨h1, h2, h3⟩; exact ⟨⟨h1, h2⟩, h3⟩

/-- The loop body of the working tree is the repaired text (`Variant.repaired`): it captures `remaining` and
    `active` before the dispatch, copies TEXT runs by reference and holds a reference on the string meanwhile. -/
theorem gen_tree_is_repaired :
    Gen.RBCopy.captures = Variant.repaired.capture ∧ Gen.RBCopy.textByRef = Variant.repaired.byRef ∧
    Gen.RBCopy.holdsStringRef = true := by
  decide

/-- `copyrect()` reads only `top` and `left` of its destination rectangle, and `moverect()` subtracts the
    source-sized rectangle at the destination's position from the source (what `clearArea` models) and skips every
    rectangle that remains. -/
theorem gen_dest_rect_position_only :
    Gen.RBCopy.destSizeUnused = true ∧ Gen.RBCopy.moveKeepsSrcSizedDest = true := by
  decide

/-! ## Non-vacuity -/

/-- A move one column to the left (source columns 2-4 of the erase run `[1,5)`) whose destination is given as a
    1x1 "position" rectangle, or as a rectangle that covers the whole source: the freshly moved erase cells (1,2),
    (1,3) - inside the source, outside a 1x1 destination - stay, and the vacated cell (1,4) - inside the 2x6
    destination as passed - is skipped. -/
example :
    absContent (move Variant.repaired cexRun ⟨0, 1, 1, 1⟩ ⟨0, 2, 2, 3⟩) 1 2 = .erase {} ∧
    absContent (move Variant.repaired cexRun ⟨0, 1, 1, 1⟩ ⟨0, 2, 2, 3⟩) 1 3 = .erase {} ∧
    absContent (move Variant.repaired cexRun ⟨0, 1, 1, 1⟩ ⟨0, 2, 2, 3⟩) 1 4 = .skip ∧
    absContent (move Variant.repaired cexRun ⟨0, 1, 2, 6⟩ ⟨0, 2, 2, 3⟩) 1 3 = .erase {} ∧
    absContent (move Variant.repaired cexRun ⟨0, 1, 2, 6⟩ ⟨0, 2, 2, 3⟩) 1 4 = .skip ∧
    Inside cexRun ⟨0, 2, 2, 3⟩ := by
  refine ⟨?_, ?_, ?_, ?_, ?_, ?_⟩ <;> first | decide +kernel | (unfold Inside Rect.Nonempty; decide)

/-- The hypotheses of `copy_spec` are inhabited by a buffer with a run that both rectangle edges cut, and the
    repaired copy puts the skipped cell where the as-found code left an erase cell. -/
example : RBCopy.WF cexRun ∧ cexRun.xlLine = 0 ∧ cexRun.xlCol = 0 ∧ Inside cexRun ⟨0, 3, 2, 3⟩ ∧
    absContent (copy Variant.repaired cexRun ⟨0, 1, 2, 3⟩ ⟨0, 3, 2, 3⟩) 1 3 = .skip ∧
    absContent (copy Variant.repaired cexRun ⟨0, 1, 2, 3⟩ ⟨0, 3, 2, 3⟩) 1 2 = .erase {} :=
  ⟨cexRun_wf, rfl, rfl, by unfold Inside Rect.Nonempty; decide, by decide +kernel, by decide +kernel⟩

/-- Line cells of different pens copied onto one another (the hypotheses of `copy_line_onto_line` are inhabited): the
    horizontal line in pen `fg 0 #000000` copied over the crossing with the vertical line in pen `fg 0` - the two pens
    are not equivalent, the crossing gets all four segments and the pen with the RGB8 value; the vertical line's cells
    outside the destination keep theirs. -/
example :
    RBCopy.WF cexLines ∧ Inside cexLines ⟨3, 2, 1, 7⟩ ∧ writable cexLines 1 5 = true ∧
    absContent cexLines 3 5 = .line { fg := some ⟨0, some ⟨0, 0, 0⟩⟩ } 68 ∧
    absContent cexLines 1 5 = .line { fg := some ⟨0, none⟩ } 17 ∧
    Pen.equiv { fg := some ⟨0, none⟩ } { fg := some ⟨0, some ⟨0, 0, 0⟩⟩ } = false ∧
    absContent (copy Variant.repaired cexLines ⟨1, 2, 1, 7⟩ ⟨3, 2, 1, 7⟩) 1 5 = .line { fg := some ⟨0, some ⟨0, 0, 0⟩⟩ } 85 ∧
    absContent (copy Variant.repaired cexLines ⟨1, 2, 1, 7⟩ ⟨3, 2, 1, 7⟩) 0 5 = .line { fg := some ⟨0, none⟩ } 16 ∧
    absContent (move Variant.repaired cexLines ⟨1, 2, 1, 7⟩ ⟨3, 2, 1, 7⟩) 1 5 = .line { fg := some ⟨0, some ⟨0, 0, 0⟩⟩ } 85 ∧
    absContent (blit Variant.repaired false (vlineAt (setpen (RB.new 4 10 0 0) (some { fg := some ⟨0, none⟩ })) 0 2 5 1 0)
      (hlineAt (setpen (RB.new 4 10 0 0) (some { fg := some ⟨0, some ⟨0, 0, 0⟩⟩ })) 1 2 8 1 0)) 1 5 =
        .line { fg := some ⟨0, some ⟨0, 0, 0⟩⟩ } 85 := by
  refine ⟨?_, by unfold Inside Rect.Nonempty; decide, by decide +kernel, by decide +kernel, by decide +kernel, by decide,
    by decide +kernel, by decide +kernel, by decide +kernel, by decide +kernel⟩
  exact wf_reachable 4 10 0 0 (by decide) (by decide)
    [.setpen (some { fg := some ⟨0, none⟩ }), .vlineAt 0 2 5 1 0, .setpen (some { fg := some ⟨0, some ⟨0, 0, 0⟩⟩ }),
     .hlineAt 3 2 8 1 0, .setpen none]

/-- The repaired copy on the stack example keeps the frame. -/
example : (copy Variant.repaired cexStack ⟨0, 0, 2, 4⟩ ⟨0, 1, 2, 4⟩).depth = 1 := by decide +kernel

/-- The vacated area of an overlapping move to the left, computed. -/
example : clearArea ⟨0, 1, 2, 3⟩ ⟨0, 3, 2, 3⟩ = some [⟨0, 4, 2, 2⟩] := by decide +kernel

/-- The "reachable" theorems are about non-trivial programs: `cexRun` is one. -/
example : RB.run (RB.new 2 7 0 0) [.eraseAt 1 1 4] = cexRun := rfl

/-- `blit_spec`'s hypotheses are inhabited. -/
example : RBCopy.WF (RB.new 2 4 0 0) ∧ RBCopy.WF cexRun := ⟨wf_new 2 4 0 0 (by decide) (by decide), cexRun_wf⟩

end Tickit.Props.C13
