import Tickit.Model.RBCopy
/-
  C13 — copying, moving and blitting buffer regions preserve content cell for cell.
-/
namespace Tickit.Props.C13
end Tickit.Props.C13
