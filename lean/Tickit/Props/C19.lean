import Tickit.Proof.Pen
/-
  C19 — a pen is a faithful partial map of attributes with lawful copy and equivalence.
  (theorems follow in stage 3)
-/
namespace Tickit.Props.C19
open Tickit

end Tickit.Props.C19
