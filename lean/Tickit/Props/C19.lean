import Tickit.Proof.Pen
/-
  C19 — a pen is a faithful partial map of attributes with lawful copy and equivalence.

  `Pen` is the statement-by-statement model of `struct TickitPen` and the functions of src/pen.c
  (`Model/Pen.lean`); widths and signedness of the bit-fields, the enum values, the `tickit_penattr_type`
  table and the colour-name table come from `Gen.PenLayout`, regenerated from the source on every run.

  * A *representable value* of attribute `a` is `a.Representable v`: `v` fits the bit-field of `a`
    (`Representable a.width a.signed v`, e.g. −256 ≤ v < 256 for the signed 9-bit colour index).
  * `p.typedRead a` is what `a` reads as through the getter(s) of its own type; `p.abs : PenDict` is the
    partial map the pen denotes; `PenDict` with `set / erase / copy / equiv / read` is the specification.
  * `Pen.WF` is the type invariant of the C struct (every bit-field holds a value of its width); it holds of
    `Pen.new` and is preserved by every operation (`wf_*`), so it holds of every reachable pen.

  Every theorem is universally quantified (all pens, attributes, values, strings); none uses a bound.
-/
namespace Tickit.Props.C19
open Tickit Tickit.Bitfield Tickit.Pen Tickit.PenHistory Tickit.Gen.PenLayout

/-! ### representable values (tie to the extracted layout) -/

/-- A value is representable exactly when storing it into the attribute's bit-field is exact. -/
theorem representable_iff_store_exact (a : PenAttr) (v : Int) :
    a.Representable v ↔ store a.width a.signed v = v :=
  (store_eq_iff a.width a.signed v a.width_pos).symm

/-- Every value the header documents for an attribute is representable in the bit-field the source declares
    for it: colour indices 0…255 and `COLOUR_DEFAULT`, underline styles and −1, alternate fonts −1…10,
    size positions 0…3, booleans.  Narrowing a bit-field in the source breaks this obligation. -/
theorem documented_values_representable :
    (∀ v : Int, COLOUR_DEFAULT ≤ v → v ≤ 255 → PenAttr.fg.Representable v ∧ PenAttr.bg.Representable v) ∧
    (∀ v : Int, -1 ≤ v → v < TICKIT_N_PEN_UNDERS → PenAttr.under.Representable v) ∧
    (∀ v : Int, -1 ≤ v → v ≤ 10 → PenAttr.altfont.Representable v) ∧
    (∀ v : Int, TICKIT_PEN_SIZEPOS_NORMAL ≤ v → v ≤ TICKIT_PEN_SIZEPOS_SUBSCRIPT → PenAttr.sizepos.Representable v) ∧
    (∀ a : PenAttr, a.type = .bool → a.Representable 0 ∧ a.Representable 1) := by
  refine ⟨?_, ?_, ?_, ?_, ?_⟩
  · intro v h0 h1
    simp [PenAttr.Representable, Representable, PenAttr.width, PenAttr.signed, fgindex_width, fgindex_signed,
      bgindex_width, bgindex_signed, COLOUR_DEFAULT] at *
    omega
  · intro v h0 h1
    simp [PenAttr.Representable, Representable, PenAttr.width, PenAttr.signed, under_width, under_signed,
      TICKIT_N_PEN_UNDERS] at *
    omega
  · intro v h0 h1
    simp [PenAttr.Representable, Representable, PenAttr.width, PenAttr.signed, altfont_width, altfont_signed] at *
    omega
  · intro v h0 h1
    simp [PenAttr.Representable, Representable, PenAttr.width, PenAttr.signed, sizepos_width, sizepos_signed,
      TICKIT_PEN_SIZEPOS_NORMAL, TICKIT_PEN_SIZEPOS_SUBSCRIPT] at *
    omega
  · intro a h; cases a <;> first | (exact ⟨by decide, by decide⟩) | (simp [PenAttr.type] at h)

example : PenAttr.fg.Representable 255 ∧ ¬ PenAttr.fg.Representable 256 ∧ PenAttr.fg.Representable (-256) := by decide
example : PenAttr.sizepos.Representable 3 ∧ ¬ PenAttr.sizepos.Representable (-1) := by decide

/-- The invariant: every reachable pen is well formed. -/
theorem wf_reachable :
    Pen.new.WF ∧
    (∀ (p : Pen) a v, p.WF → (p.setBoolAttr a v).WF) ∧ (∀ (p : Pen) a v, p.WF → (p.setIntAttr a v).WF) ∧
    (∀ (p : Pen) a v, p.WF → (p.setColourAttr a v).WF) ∧ (∀ (p : Pen) a v, p.WF → (p.setColourAttrRgb8 a v).WF) ∧
    (∀ (p : Pen) a, p.WF → (p.clearAttr a).WF) ∧ (∀ p : Pen, p.WF → p.clear.WF) ∧
    (∀ (d s : Pen) ow, d.WF → (d.copy s ow).WF) ∧ (∀ (d s : Pen) a, d.WF → (d.copyAttr s a).WF) ∧
    (∀ o : Pen, (Pen.clone o).WF) ∧
    (∀ sc (p : Pen) a s, p.WF → (setColourAttrDesc sc p a s).2.WF) :=
  ⟨wf_new, wf_setBoolAttr, wf_setIntAttr, wf_setColourAttr, wf_setColourAttrRgb8, wf_clearAttr, wf_clear,
   fun d s ow h => wf_copy d s ow h, fun d s a h => wf_copyAttr d s a h, wf_clone,
   fun sc p a s h => wf_setColourAttrDesc sc p a s h⟩

/-! ### set then get -/

/-- Setting a boolean attribute makes it present and it reads back the value. -/
theorem set_get_bool (p : Pen) (a : PenAttr) (v : Bool) (h : a.type = .bool) :
    (p.setBoolAttr a v).hasAttr a = true ∧ (p.setBoolAttr a v).getBoolAttr a = v := by
  cases a <;> cases v <;> simp [PenAttr.type] at h <;>
    simp [Pen.setBoolAttr, Pen.hasAttr, Pen.getBoolAttr] <;> decide

/-- Setting an integer attribute to a representable value makes it present and it reads back that value. -/
theorem set_get_int (p : Pen) (a : PenAttr) (v : Int) (h : a.type = .int) (hr : a.Representable v) :
    (p.setIntAttr a v).hasAttr a = true ∧ (p.setIntAttr a v).getIntAttr a = v := by
  have hs := store_of_representable a.width a.signed v a.width_pos hr
  cases a <;> simp [PenAttr.type] at h <;>
    simp_all [Pen.setIntAttr, Pen.hasAttr, Pen.getIntAttr, PenAttr.width, PenAttr.signed]

/-- Setting a colour attribute to a representable index makes it present and it reads back that index. -/
theorem set_get_colour (p : Pen) (a : PenAttr) (v : Int) (h : a.type = .colour) (hr : a.Representable v) :
    (p.setColourAttr a v).hasAttr a = true ∧ (p.setColourAttr a v).getColourAttr a = v := by
  have hs := store_of_representable a.width a.signed v a.width_pos hr
  cases a <;> simp [PenAttr.type] at h <;>
    simp_all [Pen.setColourAttr, Pen.hasAttr, Pen.getColourAttr, PenAttr.width, PenAttr.signed]

/-- Setting the RGB8 secondary of a present colour makes it present, it reads back, and the index stays. -/
theorem set_get_rgb8 (p : Pen) (a : PenAttr) (v : RGB8) (h : a.type = .colour) (hh : p.hasAttr a = true) :
    (p.setColourAttrRgb8 a v).hasColourAttrRgb8 a = true ∧ (p.setColourAttrRgb8 a v).getColourAttrRgb8 a = v ∧
    (p.setColourAttrRgb8 a v).hasAttr a = true ∧ (p.setColourAttrRgb8 a v).getColourAttr a = p.getColourAttr a := by
  cases a <;> simp [PenAttr.type] at h <;>
    simp_all [Pen.setColourAttrRgb8, Pen.hasAttr, Pen.hasColourAttrRgb8, Pen.getColourAttrRgb8, Pen.getColourAttr]

/-- The back-compat boolean view of `TICKIT_PEN_UNDER`: setting it stores SINGLE / NONE. -/
theorem set_get_bool_under (p : Pen) (v : Bool) :
    (p.setBoolAttr .under v).hasAttr .under = true ∧ (p.setBoolAttr .under v).getBoolAttr .under = v ∧
    (p.setBoolAttr .under v).getIntAttr .under = if v then TICKIT_PEN_UNDER_SINGLE else TICKIT_PEN_UNDER_NONE := by
  cases v <;> simp [Pen.setBoolAttr, Pen.hasAttr, Pen.getBoolAttr, Pen.getIntAttr] <;> decide

/-- What is read back after *any* store, representable or not: the value reduced into the bit-field. -/
theorem set_get_wrapped (p : Pen) (a : PenAttr) (v : Int) :
    (a.type = .int → (p.setIntAttr a v).getIntAttr a = store a.width a.signed v) ∧
    (a.type = .colour → (p.setColourAttr a v).getColourAttr a = store a.width a.signed v) := by
  cases a <;> simp [PenAttr.type, Pen.setIntAttr, Pen.setColourAttr, Pen.hasAttr, Pen.getIntAttr, Pen.getColourAttr,
    PenAttr.width, PenAttr.signed]

/-- The whole "set" clause at once, as refinement of the dictionary: every setter is the dictionary update
    (so the attribute set reads back, and *no other attribute changes*). -/
theorem set_get (p : Pen) (a : PenAttr) :
    (∀ v, (p.setBoolAttr a v).abs = p.abs.setBool a v) ∧
    (∀ v, a.Representable v → (p.setIntAttr a v).abs = p.abs.setInt a v) ∧
    (∀ v, a.Representable v → (p.setColourAttr a v).abs = p.abs.setColour a v) ∧
    (∀ v, (p.setColourAttrRgb8 a v).abs = p.abs.setRgb8 a v) :=
  ⟨abs_setBoolAttr p a, abs_setIntAttr p a, abs_setColourAttr p a, abs_setColourAttrRgb8 p a⟩

example : ((Pen.new.setColourAttr .fg 255).setIntAttr .under 3).typedRead .fg = .c 255 none := by decide
example : (Pen.new.setColourAttr .fg 256).getColourAttr .fg = -256 := by decide   -- not representable: wraps

/-! ### clear -/

/-- Clearing removes the attribute and nothing else. -/
theorem clear_removes (p : Pen) (a : PenAttr) :
    (p.clearAttr a).hasAttr a = false ∧ (p.clearAttr a).abs = p.abs.erase a := by
  refine ⟨?_, abs_clearAttr p a⟩
  cases a <;> simp [Pen.clearAttr, Pen.hasAttr]

/-- `tickit_pen_clear` removes every attribute. -/
theorem clear_all_removes (p : Pen) : (∀ a, p.clear.hasAttr a = false) ∧ p.clear.abs = PenDict.empty :=
  ⟨clear_hasAttr p, abs_clear p⟩

example : ((Pen.new.setBoolAttr .bold true).clearAttr .bold).hasAttr .bold = false := by decide

/-! ### absent attributes read as their defaults -/

theorem absent_reads_default (p : Pen) (a : PenAttr) (h : p.hasAttr a = false) :
    p.getBoolAttr a = false ∧ p.getIntAttr a = 0 ∧ p.getColourAttr a = COLOUR_DEFAULT ∧
    p.hasColourAttrRgb8 a = false ∧ p.getColourAttrRgb8 a = ⟨0, 0, 0⟩ ∧ p.nondefaultAttr a = false ∧
    p.typedRead a = PenDict.default a := by
  cases a <;>
    simp_all [Pen.getBoolAttr, Pen.getIntAttr, Pen.getColourAttr, Pen.hasColourAttrRgb8, Pen.getColourAttrRgb8,
      Pen.nondefaultAttr, Pen.hasAttr, Pen.typedRead, PenDict.default, PenAttr.type]

/-- A new pen has no attribute, whatever the allocation contained. -/
theorem new_is_empty (garbage : Pen) :
    (∀ a, (Pen.newFrom garbage).hasAttr a = false) ∧ (Pen.newFrom garbage).abs = PenDict.empty ∧
    (Pen.newFrom garbage).isNonempty = false := by
  refine ⟨clear_hasAttr garbage, abs_newFrom garbage, ?_⟩
  simp [Pen.isNonempty, Pen.newFrom, clear_hasAttr]

example : Pen.new.getColourAttr .fg = -1 ∧ Pen.new.getIntAttr .under = 0 := by decide

/-! ### copy -/

/-- `tickit_pen_copy` is the dictionary copy (both modes). -/
theorem copy_refines (dst src : Pen) (ow : Bool) (hs : src.WF) :
    (dst.copy src ow).abs = PenDict.copy dst.abs src.abs ow := abs_copy dst src ow hs

/-- What an attribute reads as, and whether it is present, is determined by the dictionary. -/
theorem obs_of_abs (p q : Pen) (a : PenAttr) (h : p.abs a = q.abs a) :
    p.hasAttr a = q.hasAttr a ∧ p.typedRead a = q.typedRead a := by
  refine ⟨by rw [← abs_isSome, ← abs_isSome, h], ?_⟩
  rw [← abs_read, ← abs_read]; simp [PenDict.read, h]

/-- Copying without overwrite fills only absent attributes: an attribute present in the destination is
    untouched, an absent one is taken from the source if the source has it, and stays absent otherwise. -/
theorem copy_no_overwrite (dst src : Pen) (hs : src.WF) (a : PenAttr) :
    (dst.hasAttr a = true →
      (dst.copy src false).hasAttr a = true ∧ (dst.copy src false).typedRead a = dst.typedRead a) ∧
    (dst.hasAttr a = false → src.hasAttr a = true →
      (dst.copy src false).hasAttr a = true ∧ (dst.copy src false).typedRead a = src.typedRead a) ∧
    (dst.hasAttr a = false → src.hasAttr a = false → (dst.copy src false).hasAttr a = false) := by
  have habs := congrFun (abs_copy dst src false hs) a
  have hd := abs_isSome dst a
  have hsrc := abs_isSome src a
  refine ⟨fun h => ?_, fun h h' => ?_, fun h h' => ?_⟩
  · have : (dst.copy src false).abs a = dst.abs a := by
      rw [habs]; rw [h] at hd
      cases hv : src.abs a <;> simp [PenDict.copy, hv, hd]
    have := obs_of_abs _ _ a this
    rw [h] at this; exact this
  · have : (dst.copy src false).abs a = src.abs a := by
      rw [habs]; rw [h] at hd; rw [h'] at hsrc
      cases hv : src.abs a with
      | none => simp [hv] at hsrc
      | some v => simp [PenDict.copy, hd, hv]
    have := obs_of_abs _ _ a this
    rw [h'] at this; exact this
  · have : (dst.copy src false).abs a = dst.abs a := by
      rw [habs]; rw [h'] at hsrc
      cases hv : src.abs a with
      | none => simp [PenDict.copy, hv]
      | some v => simp [hv] at hsrc
    have := obs_of_abs _ _ a this
    rw [h] at this; exact this.1

/-- Copying with overwrite makes every attribute present in the source read the same in the destination,
    and leaves the rest alone. -/
theorem copy_overwrite (dst src : Pen) (hs : src.WF) (a : PenAttr) :
    (src.hasAttr a = true →
      (dst.copy src true).hasAttr a = true ∧ (dst.copy src true).typedRead a = src.typedRead a) ∧
    (src.hasAttr a = false →
      (dst.copy src true).hasAttr a = dst.hasAttr a ∧ (dst.copy src true).typedRead a = dst.typedRead a ∧
      (dst.copy src true).abs a = dst.abs a) := by
  have habs := congrFun (abs_copy dst src true hs) a
  have hsrc := abs_isSome src a
  refine ⟨fun h => ?_, fun h => ?_⟩
  · have : (dst.copy src true).abs a = src.abs a := by
      rw [habs]; rw [h] at hsrc
      cases hv : src.abs a with
      | none => simp [hv] at hsrc
      | some v => simp [PenDict.copy, hv]
    have := obs_of_abs _ _ a this
    rw [h] at this; exact this
  · have : (dst.copy src true).abs a = dst.abs a := by
      rw [habs]; rw [h] at hsrc
      cases hv : src.abs a with
      | none => simp [PenDict.copy, hv]
      | some v => simp [hv] at hsrc
    have h2 := obs_of_abs _ _ a this
    exact ⟨h2.1, h2.2, this⟩

/-- `tickit_pen_copy_attr` (distinct pens): the destination gets what the source reads as. -/
theorem copy_attr_refines (dst src : Pen) (a : PenAttr) (hs : src.WF) :
    (dst.copyAttr src a).abs = PenDict.copyAttr dst.abs src.abs a := abs_copyAttr dst src a hs

example :
    let src := (Pen.new.setColourAttr .fg 5).setBoolAttr .bold true
    let dst := Pen.new.setColourAttr .fg 7
    (dst.copy src false).typedRead .fg = .c 7 none ∧ (dst.copy src true).typedRead .fg = .c 5 none ∧
    (dst.copy src false).typedRead .bold = .b true := by decide

/-! ### clone -/

/-- A clone denotes the same dictionary as its original, hence is equivalent to it and has exactly the
    same attributes. -/
theorem clone_equiv (orig : Pen) (h : orig.WF) :
    orig.clone.equiv orig = true ∧ orig.clone.abs = orig.abs ∧ ∀ a, orig.clone.hasAttr a = orig.hasAttr a := by
  have habs := abs_clone orig h
  refine ⟨?_, habs, fun a => (obs_of_abs _ _ a (congrFun habs a)).1⟩
  rw [equiv_eq_dict, habs]
  simp [PenDict.equiv]

example : ((Pen.new.setColourAttr .bg 3).setColourAttrRgb8 .bg ⟨1, 2, 3⟩).clone.typedRead .bg = .c 3 (some ⟨1, 2, 3⟩) := by
  decide

/-! ### equivalence -/

/-- Equivalence holds exactly when every attribute reads the same in both pens (through the getter of the
    attribute's own type, each with its default for an absent attribute). -/
theorem equiv_iff_getters_agree (a b : Pen) : a.equiv b = true ↔ ∀ x, a.typedRead x = b.typedRead x := by
  unfold Pen.equiv
  rw [List.all_eq_true]
  constructor
  · intro h x; exact (equivAttr_iff a b x).1 (h x (PenAttr.mem_all x))
  · intro h x _; exact (equivAttr_iff a b x).2 (h x)

/-- The same per attribute: `tickit_pen_equiv_attr`. -/
theorem equiv_attr_iff_getters_agree (a b : Pen) (x : PenAttr) :
    a.equivAttr b x = true ↔ a.typedRead x = b.typedRead x := equivAttr_iff a b x

/-- Spelled out per type: booleans compare `get_bool`, integers `get_int`, colours the index, the presence of
    an RGB8 and its three components. -/
theorem typedRead_eq_iff (a b : Pen) (x : PenAttr) :
    a.typedRead x = b.typedRead x ↔
      match x.type with
      | .bool => a.getBoolAttr x = b.getBoolAttr x
      | .int => a.getIntAttr x = b.getIntAttr x
      | .colour => a.getColourAttr x = b.getColourAttr x ∧ a.hasColourAttrRgb8 x = b.hasColourAttrRgb8 x ∧
          (a.hasColourAttrRgb8 x = true → a.getColourAttrRgb8 x = b.getColourAttrRgb8 x) := by
  unfold Pen.typedRead
  cases hx : x.type
  · simp
  · simp
  · cases ha : a.hasColourAttrRgb8 x <;> cases hb : b.hasColourAttrRgb8 x <;> simp

theorem equiv_refl (a : Pen) : a.equiv a = true := (equiv_iff_getters_agree a a).2 fun _ => rfl

theorem equiv_symm (a b : Pen) : a.equiv b = b.equiv a := by
  rw [Bool.eq_iff_iff, equiv_iff_getters_agree, equiv_iff_getters_agree]
  exact ⟨fun h x => (h x).symm, fun h x => (h x).symm⟩

theorem equiv_trans (a b c : Pen) (hab : a.equiv b = true) (hbc : b.equiv c = true) : a.equiv c = true := by
  rw [equiv_iff_getters_agree] at *
  intro x; rw [hab x, hbc x]

/-- Equivalence is equivalence of the dictionaries read with defaulting. -/
theorem equiv_refines (a b : Pen) : a.equiv b = PenDict.equiv a.abs b.abs := equiv_eq_dict a b

/-- Equivalence ignores *presence*: a present default is equivalent to an absent attribute
    (non-vacuity of "reads the same": the two pens differ as dictionaries). -/
example : (Pen.new.setBoolAttr .bold false).equiv Pen.new = true ∧
    (Pen.new.setBoolAttr .bold false).hasAttr .bold ≠ Pen.new.hasAttr .bold := by decide
example : (Pen.new.setColourAttr .fg 1).equiv (Pen.new.setColourAttr .fg 2) = false := by decide

/-! ### the RGB8 secondary -/

/-- An RGB8 secondary exists only alongside an index colour: only on colour attributes, only when the index is
    present; it cannot be created without one, and disappears with it. -/
theorem rgb_requires_index (p : Pen) (a : PenAttr) :
    (p.hasColourAttrRgb8 a = true → a.type = .colour ∧ p.hasAttr a = true) ∧
    (p.hasAttr a = false → ∀ v, p.setColourAttrRgb8 a v = p) ∧
    (∀ v, ((p.clearAttr a).setColourAttrRgb8 a v).hasColourAttrRgb8 a = false) ∧
    (p.clearAttr a).hasColourAttrRgb8 a = false := by
  refine ⟨?_, ?_, ?_, ?_⟩
  · cases a <;> simp_all [Pen.hasColourAttrRgb8, Pen.hasAttr, PenAttr.type]
  · intro h v; simp [Pen.setColourAttrRgb8, h]
  · intro v; cases a <;> simp [Pen.clearAttr, Pen.setColourAttrRgb8, Pen.hasColourAttrRgb8, Pen.hasAttr]
  · cases a <;> simp [Pen.clearAttr, Pen.hasColourAttrRgb8]

/-- Setting the index again drops the RGB8 secondary — also when the index had been cleared in between
    (the stale `valid.fg_rgb8` bit never resurfaces). -/
theorem set_index_drops_rgb (p : Pen) (a : PenAttr) (v : Int) :
    (p.setColourAttr a v).hasColourAttrRgb8 a = false ∧
    ((p.clearAttr a).setColourAttr a v).hasColourAttrRgb8 a = false ∧
    (p.setColourAttr a v).getColourAttrRgb8 a = ⟨0, 0, 0⟩ := by
  cases a <;> simp [Pen.setColourAttr, Pen.clearAttr, Pen.hasColourAttrRgb8, Pen.getColourAttrRgb8]

example :
    let p := (Pen.new.setColourAttr .fg 5).setColourAttrRgb8 .fg ⟨9, 9, 9⟩
    p.hasColourAttrRgb8 .fg = true ∧ (p.setColourAttr .fg 5).hasColourAttrRgb8 .fg = false ∧
    ((p.clearAttr .fg).setColourAttr .fg 6).hasColourAttrRgb8 .fg = false := by decide

/-! ### colour description strings -/

/-- For *every* string, attribute and pen, and whatever `sscanf` does: the description is either rejected
    without effect, or the result is exactly the pen after the direct call `set_colour_attr idx`, optionally
    followed by `set_colour_attr_rgb8 rgb`, for some `idx`, `rgb`. -/
theorem desc_structural (sc : Scanf) (p : Pen) (a : PenAttr) (s : List UInt8) :
    setColourAttrDesc sc p a s = (false, p) ∨
    ∃ idx, setColourAttrDesc sc p a s = (true, p.setColourAttr a idx) ∨
      ∃ rgb, setColourAttrDesc sc p a s = (true, (p.setColourAttr a idx).setColourAttrRgb8 a rgb) :=
  Pen.desc_structural sc p a s

/-- Stronger: which calls are made depends on the string only (`descParse`), not on the pen or attribute. -/
theorem desc_is_parse_then_direct_calls (sc : Scanf) (p : Pen) (a : PenAttr) (s : List UInt8) :
    setColourAttrDesc sc p a s = applyParsed p a (descParse sc s) := setColourAttrDesc_eq_parse sc p a s

/-- On the dictionary: a description is `setColour` (+ `setRgb8`) of what is actually stored, or nothing. -/
theorem desc_refines (sc : Scanf) (p : Pen) (a : PenAttr) (s : List UInt8) :
    ((setColourAttrDesc sc p a s).1 = false ∧ (setColourAttrDesc sc p a s).2 = p) ∨
    ((setColourAttrDesc sc p a s).1 = true ∧ ∃ idx, a.Representable idx ∧
      ((setColourAttrDesc sc p a s).2.abs = p.abs.setColour a idx ∨
       ∃ rgb, (setColourAttrDesc sc p a s).2.abs = (p.abs.setColour a idx).setRgb8 a rgb)) := by
  rcases Pen.desc_structural sc p a s with h | ⟨idx, h | ⟨rgb, h⟩⟩
  · exact Or.inl (by rw [h]; exact ⟨rfl, rfl⟩)
  · refine Or.inr ⟨by rw [h], store a.width a.signed idx, store_representable _ _ _ a.width_pos, Or.inl ?_⟩
    rw [h]; exact abs_setColourAttr' p a idx
  · refine Or.inr ⟨by rw [h], store a.width a.signed idx, store_representable _ _ _ a.width_pos, Or.inr ⟨rgb, ?_⟩⟩
    rw [h]; simp only; rw [abs_setColourAttrRgb8, abs_setColourAttr']

/-! ### which strings give which index (under the recorded behaviour of glibc's `sscanf`, `glibcScanf`)

These are the `desc_grammar` statements of DESIGN.md: they depend on the small explicit model of `sscanf`
(`Tickit.PenScan`), which is tied to the real libc only by differential execution. -/

/-- Every name of the `colournames[]` table (regenerated from the source) gives its table index. -/
theorem desc_names :
    colourNames.all (fun e => descParse glibcScanf e.1 == some (e.2, none)) = true := by decide +kernel

/-- `hi-` before a name adds 8 to the eight VGA colours and leaves the 256-colour names alone. -/
theorem desc_hi_names :
    colourNames.all (fun e => descParse glibcScanf (hiPrefix ++ e.1) == some (if e.2 < 8 then e.2 + 8 else e.2, none)) = true := by
  decide +kernel

/-- A decimal number (any number of digits, value below 2^31) is that index … -/
theorem desc_number (ds : List UInt8) (hne : ds ≠ []) (hd : ∀ d ∈ ds, PenScan.isDigit d = true) (hv : PenScan.decVal ds < 2 ^ 31) :
    descParse glibcScanf ds = some ((PenScan.decVal ds : Int), none) := PenScan.desc_number ds hne hd hv

/-- … and after `hi-` the numbers 0…7 give 8…15 and larger ones are rejected. -/
theorem desc_hi_number (ds : List UInt8) (hne : ds ≠ []) (hd : ∀ d ∈ ds, PenScan.isDigit d = true) (hv : PenScan.decVal ds < 2 ^ 31) :
    descParse glibcScanf (hiPrefix ++ ds) = if PenScan.decVal ds ≤ 7 then some ((PenScan.decVal ds : Int) + 8, none) else none :=
  PenScan.desc_hi_number ds hne hd hv

/-- The `#rrggbb` tail: after any base without `#` that does not end in a space, any number of spaces, `#` and
    six hexadecimal characters (anything may follow): the index is that of the base alone and the RGB8 is the
    three bytes. -/
theorem desc_rgb_tail (base : List UInt8) (n : Nat) (a b c d e f : UInt8) (rest : List UInt8)
    (h1 : ∀ x ∈ base, (x == 35) = false) (h2 : base.getLast? ≠ some 32)
    (hx : [a, b, c, d, e, f].all PenScan.isXDigit = true) :
    descParse glibcScanf (base ++ List.replicate n 32 ++ 35 :: a :: b :: c :: d :: e :: f :: rest) =
      (descParse glibcScanf base).map (fun r => (r.1, some
        ⟨UInt8.ofNat (PenScan.xval a * 16 + PenScan.xval b), UInt8.ofNat (PenScan.xval c * 16 + PenScan.xval d),
         UInt8.ofNat (PenScan.xval e * 16 + PenScan.xval f)⟩)) := by
  simp only [List.all_cons, List.all_nil, Bool.and_true, Bool.and_eq_true] at hx
  obtain ⟨ha, hb, hc, hd, he, hf⟩ := hx
  have := PenScan.descParse_tail glibcScanf base n (a :: b :: c :: d :: e :: f :: rest) h1 h2
    (fun b' => PenScan.scanD_hashTail b' n _)
  rw [List.append_assoc]
  rw [show List.replicate n 32 ++ 35 :: a :: b :: c :: d :: e :: f :: rest = PenScan.hashTail n (a :: b :: c :: d :: e :: f :: rest) from rfl]
  rw [this]
  congr 1
  funext r
  show (r.1, PenScan.scanRgb _) = _
  rw [PenScan.scanRgb_hex6 a b c d e f rest ha hb hc hd he hf]

/-- Every table name (and every decimal number) is a legal base for `desc_rgb_tail`. -/
theorem desc_bases_ok :
    colourNames.all (fun e => e.1.all (fun x => !(x == 35)) && !(e.1.getLast? == some 32)) = true ∧
    ∀ ds : List UInt8, (∀ d ∈ ds, PenScan.isDigit d = true) → (∀ x ∈ ds, (x == 35) = false) ∧ ds.getLast? ≠ some 32 := by
  refine ⟨by decide +kernel, fun ds hd => ⟨fun x hx => (PenScan.digit_facts x (hd x hx)).2.2.2.1, ?_⟩⟩
  intro hl
  have hm : (32 : UInt8) ∈ ds := List.mem_of_getLast? hl
  have := hd 32 hm
  revert this; decide

example : descParse glibcScanf "red #FF1515".toUTF8.toList = some (1, some ⟨0xFF, 0x15, 0x15⟩) := by decide +kernel
example : descParse glibcScanf "hi-12".toUTF8.toList = none := by decide +kernel

/-- Oddities of the parser, recorded (not violations of C19: each is "some index via the direct call"):
    names are matched as *prefixes* (`strncmp` with the length of the description), so the empty string and
    `"hi-"` are accepted as black / bright black, `"b"` is black, `"g"` is green; junk after a number is
    ignored; an index outside the bit-field wraps. -/
theorem desc_prefix_quirks :
    descParse glibcScanf [] = some (0, none) ∧
    descParse glibcScanf hiPrefix = some (8, none) ∧
    descParse glibcScanf "b".toUTF8.toList = some (0, none) ∧
    descParse glibcScanf "g".toUTF8.toList = some (2, none) ∧
    descParse glibcScanf "#102030".toUTF8.toList = some (0, some ⟨0x10, 0x20, 0x30⟩) ∧
    descParse glibcScanf "12abc".toUTF8.toList = some (12, none) ∧
    descParse glibcScanf "hi--5".toUTF8.toList = some (3, none) ∧
    (Pen.new.setColourAttr .fg 300).getColourAttr .fg = -212 := by decide +kernel

/-! ### whole histories

The property quantifies over "every sequence of set/clear/copy/clone operations".  `PenOp` is one operation
on pens numbered by `Nat` (aliased operands allowed), `runOps` runs the model of pen.c, `specOps` runs the
dictionary specification, in which a stored value is `store width signed v` (= `v` when representable,
`representable_iff_store_exact`) and a description is what `descParse` extracts. -/

/-- Every history, from any well-formed state (in particular from new pens), refines the dictionary history —
    aliased `copy` and aliased `copy_attr` included: after any sequence of operations every pen denotes exactly the
    dictionary the specification computes, so every getter, `has_attr` and `equiv` answer as the dictionary says. -/
theorem history_full (sc : Scanf) (ops : List PenOp) (st : Nat → Pen) (h : ∀ i, (st i).WF) :
    (fun i => (runOps sc st ops i).abs) = specOps sc (fun i => (st i).abs) ops ∧ ∀ i, (runOps sc st ops i).WF :=
  ⟨runOps_refines sc ops st h, runOps_wf sc ops st h⟩

/-- … in particular from new pens. -/
theorem history_from_new (sc : Scanf) (ops : List PenOp) :
    (fun i => (runOps sc (fun _ => Pen.new) ops i).abs) = specOps sc (fun _ => PenDict.empty) ops := by
  have := (history_full sc ops (fun _ => Pen.new) (fun _ => wf_new)).1
  rw [this]; simp [abs_new]

/-- `copy_attr` gives the destination what the source reads as, also for source = destination (since /repo
    8cce03b; before that fix the call lost the RGB8 secondary of a colour attribute). -/
theorem copy_attr_self_full (p : Pen) (a : PenAttr) (hp : p.WF) :
    (p.copyAttrSelf a).abs = PenDict.copyAttr p.abs p.abs a ∧
    (p.copyAttrSelf a).hasColourAttrRgb8 a = p.hasColourAttrRgb8 a := by
  have habs := abs_copyAttrSelf p a hp
  refine ⟨habs, ?_⟩
  have hr : (p.copyAttrSelf a).typedRead a = p.typedRead a := by
    rw [← abs_read, ← abs_read, habs]
    simp [PenDict.read, PenDict.copyAttr, PenDict.set]
  cases a <;> first
    | rfl
    | (simp only [Pen.typedRead, PenAttr.type] at hr
       cases h1 : (p.copyAttrSelf _).hasColourAttrRgb8 _ <;> cases h2 : p.hasColourAttrRgb8 _ <;> simp_all)

/-- The former failing history (regression probe corpus/C19/copyattr_self_drops_rgb8.ops) now keeps the RGB8. -/
example :
    (runOps glibcScanf (fun _ => Pen.new) [.setColour 0 .fg 5, .setRgb8 0 .fg ⟨16, 32, 48⟩, .copyAttr 0 0 .fg] 0).typedRead .fg
      = .c 5 (some ⟨16, 32, 48⟩) := by decide

end Tickit.Props.C19
