import Tickit.Model.WinFocus
namespace Tickit.Props.C15
end Tickit.Props.C15
