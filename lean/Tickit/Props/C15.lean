import Tickit.Proof.WinFocus
import Tickit.Proof.WinFocusReq
import Tickit.Proof.WinFocusHist
import Tickit.Proof.WinFocusRestack
import Tickit.Proof.WinFocusResize
import Tickit.Proof.WinFocusMock
import Tickit.Proof.WinFocusMockHist
import Tickit.Proof.WinFocusRelink
import Tickit.Proof.WinFocusOrder
import Tickit.Gen.WinFocusSrc
/-
  C15 — After a flush the terminal cursor reflects the focused window, or is hidden.

  "After a flush the terminal cursor is visible exactly when the window at the end of the focus chain is focused, it
   and all its ancestors are visible, its cursor is enabled and its cursor cell is inside the window and every
   ancestor and not covered by another window - and then it sits at that cell's absolute position with that window's
   shape; in every other case it is hidden.  When focus moves, the window losing it is told before the window gaining
   it, and parents that asked for child notifications are told about both."

  The model (`Model/WinFocus.lean`, on the shared `Model/WinTree.lean`) transcribes `_do_restore`, `_cell_visible`,
  `_focus_gained`, `_focus_lost`, the cursor setters and the restore part of `tickit_window_flush`; it is parametrised by
  `fx : Fixes`, the repairs (fixes/C15_*.patch) the working tree carries — `Fixes.none` is the unchanged library.
  `cursorSpec` is the property's own definition (painter's-model `owner` for "not covered by another window").

  Trees are quantified over all stores satisfying `wfB` (parents have smaller ids and list their children, children
  point back, a `focused_child` link goes to a live *visible* child — DESIGN's `chain_visible`); the driver evaluates
  `wfB` on every tree the real library is observed in.

  Four clauses of the property are false of the unchanged library (and of `Fixes.none`); each has its full statement as
  a `def … : Prop`, a kernel-checked counterexample, the theorem under the hypothesis excluding the trigger, and —
  where proved — the full theorem for the repaired code.
-/
namespace Tickit.Props.C15
open Tickit Tickit.WinTree Tickit.WinFocus

/-! ### `restore_spec`: what `_do_restore` shows is `cursorSpec` -/

/-- For every well-formed tree: the calls `_do_restore` makes leave the terminal cursor exactly as the property
    says — provided the root window is visible, or the source carries the repair `hiddenRoot`. -/
theorem restore_spec (fx : Fixes) (t : Tree) (hwf : wfB t = true)
    (hroot : fx.hiddenRoot = true ∨ rootVisible t = true)
    (calls : List TermCall) (hd : doRestore fx t = .ok calls) (c0 : TermCursor) :
    (c0.applyAll calls).matches (cursorSpec t) = true :=
  doRestore_spec hwf fx hroot hd c0

/-- The clause in full, for a given state of the source. -/
def restore_spec_full (fx : Fixes) : Prop :=
  ∀ (t : Tree), wfB t = true → ∀ (calls : List TermCall), doRestore fx t = .ok calls →
    ∀ c0 : TermCursor, (c0.applyAll calls).matches (cursorSpec t) = true

/-- The repaired `_do_restore` satisfies the clause in full. -/
theorem restore_spec_repaired (fx : Fixes) (hfx : fx.hiddenRoot = true) : restore_spec_full fx :=
  fun t hwf calls hd c0 => restore_spec fx t hwf (.inl hfx) calls hd c0

/-- The unchanged `_do_restore` satisfies it on every tree whose root window is visible. -/
theorem restore_spec_partial (t : Tree) (hwf : wfB t = true) (hroot : rootVisible t = true)
    (calls : List TermCall) (hd : doRestore Fixes.none t = .ok calls) (c0 : TermCursor) :
    (c0.applyAll calls).matches (cursorSpec t) = true :=
  restore_spec Fixes.none t hwf (.inr hroot) calls hd c0

/-- A hidden, focused root window (history: `new 6 10; hide 0; focus 0`). -/
def hiddenRootTree : Tree :=
  { wins := #[{ rect := ⟨0, 0, 6, 10⟩, isRoot := true, isVisible := false, isFocused := true }] }

def restoreCheck (fx : Fixes) (t : Tree) (c0 : TermCursor) : Bool :=
  match doRestore fx t with
  | .ok calls => (c0.applyAll calls).matches (cursorSpec t)
  | .ub _ => true

/-- The unchanged library shows the cursor of a focused root window that is hidden. -/
theorem restore_spec_counterexample : ¬ restore_spec_full Fixes.none := by
  intro h
  have key : restoreCheck Fixes.none hiddenRootTree {} = true := by
    unfold restoreCheck
    split
    · next calls hd => exact h hiddenRootTree (by decide) calls hd {}
    · rfl
  revert key
  decide

/-! ### `flush_cursor` -/

/-- After a flush that had a restore or an expose pending (and hence was not skipped), the terminal cursor is what the
    property demands of the tree as the flush leaves it (queued restacking applied) — whatever the terminal cursor was
    before. -/
theorem flush_cursor (fx : Fixes) (t : Tree) (out : FlushOut) (hf : flush fx t = .ok out)
    (hl : t.root.needsLater = true) (hr : t.root.needsRestore = true ∨ t.root.needsExpose = true)
    (hwf : wfB out.tree = true) (hroot : fx.hiddenRoot = true ∨ rootVisible out.tree = true) (c0 : TermCursor) :
    (c0.applyAll out.calls).matches (cursorSpec out.tree) = true :=
  flush_spec fx hf hl hr hwf hroot c0

/-- The same on the library's own mock terminal (src/mockterm.c — the engine's second configuration, `newmock`), which
    clamps a goto to its screen and stores `!!value` for CURSORVIS and CURSORBLINK (`TermCall.onMock`): when the root
    window sits at the origin and fits the `L × C` screen (which `on_term_resize` maintains), what the mock reports
    after the flush is `cursorSpec`. -/
theorem flush_cursor_mock (fx : Fixes) (t : Tree) (out : FlushOut) (hf : flush fx t = .ok out)
    (hl : t.root.needsLater = true) (hr : t.root.needsRestore = true ∨ t.root.needsExpose = true)
    (hwf : wfB out.tree = true) (hroot : fx.hiddenRoot = true ∨ rootVisible out.tree = true)
    (L C : Int) (r : Win) (hr0 : out.tree.wins[0]? = some r)
    (htop : r.rect.top = 0) (hleft : r.rect.left = 0) (hL : r.rect.lines ≤ L) (hC : r.rect.cols ≤ C) (c0 : TermCursor) :
    (c0.applyAllMock L C out.calls).matches (cursorSpec out.tree) = true :=
  flush_spec_mock fx hf hl hr hwf hroot hr0 htop hleft hL hC c0

/-- `restore_spec` on the mock terminal. -/
theorem restore_spec_mock (fx : Fixes) (t : Tree) (hwf : wfB t = true)
    (hroot : fx.hiddenRoot = true ∨ rootVisible t = true)
    (calls : List TermCall) (hd : doRestore fx t = .ok calls)
    (L C : Int) (r : Win) (hr0 : t.wins[0]? = some r)
    (htop : r.rect.top = 0) (hleft : r.rect.left = 0) (hL : r.rect.lines ≤ L) (hC : r.rect.cols ≤ C) (c0 : TermCursor) :
    (c0.applyAllMock L C calls).matches (cursorSpec t) = true :=
  doRestore_spec_mock hwf fx hroot hd hr0 htop hleft hL hC c0

/-- A flush with nothing requested touches neither the terminal nor the tree (so what `restore_requested` must
    guarantee is that nothing *needed* to be requested). -/
theorem flush_idle (fx : Fixes) (t : Tree) (hl : t.root.needsLater = false) :
    flush fx t = .ok { tree := t, exposed := [], calls := [] } := by
  unfold flush; simp [hl]; rfl

/-! ### `focus_event_order` -/

/-- OUT before IN: every `take_focus` delivers a block of OUT events followed by a block of IN events, and the last
    event tells the window that took the focus IN — for every tree, every window, every state of the source. -/
theorem focus_out_before_in (fx : Fixes) (t : Tree) (win : Nat) (r : Tree × List Event)
    (h : takeFocus fx t win = .ok r) :
    ∃ outs ins, r.2 = outs ++ ins ++ [⟨win, .focusIn, win⟩] ∧
      (∀ e ∈ outs, e.type = .focusOut) ∧ (∀ e ∈ ins, e.type = .focusIn) := by
  obtain ⟨outs, ins, h1, h2, h3, h4⟩ := focusGained_out_in fx _ _ _ _ _ h
  obtain ⟨ins', h5⟩ := h4 rfl
  subst h5
  refine ⟨outs, ins', by rw [h1, List.append_assoc], h2, ?_⟩
  intro e he; exact h3 e (List.mem_append.mpr (.inl he))

/-- The holder of the focus: the window at the end of the focus chain, when it is focused. -/
def holder (t : Tree) : Option Nat :=
  match t.wins[chainEnd t (treeFuel t) 0]? with
  | some w => if w.isFocused then some (chainEnd t (treeFuel t) 0) else none
  | none => none

/-- "The window losing it is told": when a `take_focus` changes the holder, the old holder gets an OUT event. -/
def loser_told_full (fx : Fixes) : Prop :=
  ∀ (t : Tree) (win b : Nat) (r : Tree × List Event), wfB t = true → takeFocus fx t win = .ok r →
    holder t = some b → holder r.1 ≠ some b → (⟨b, .focusOut, b⟩ : Event) ∈ r.2

/-- The loser is told: when a window attached to the root through a visible path (`VisPath`, `Anc … 0`) takes the
    focus from another window `b`, `b` receives an OUT event (before every IN event, by `focus_out_before_in`) —
    for every well-formed tree; for the repaired `_focus_gained` always, for the unchanged one unless one of the two
    windows is an ancestor of the other. -/
theorem loser_told (fx : Fixes) (t : Tree) (win b : Nat) (r : Tree × List Event) (hwf : wfB t = true)
    (h : takeFocus fx t win = .ok r) (hp : VisPath t win) (h0 : Anc t win 0) (hb : holder t = some b) (hne : win ≠ b)
    (hex : fx.focusEvents = true ∨ (¬ Anc t b win ∧ ¬ Anc t win b)) :
    (⟨b, .focusOut, b⟩ : Event) ∈ r.2 := by
  unfold holder at hb
  cases hbw : t.wins[chainEnd t (treeFuel t) 0]? with
  | none => rw [hbw] at hb; cases hb
  | some bw =>
    rw [hbw] at hb
    by_cases hf : bw.isFocused = true
    · simp only [hf, if_true, Option.some.injEq] at hb
      refine gained_tells_loser fx _ t win none r b h hwf hp h0 hb ⟨bw, hb ▸ hbw, hf⟩ (fun _ => hne)
        (fun c hc => by cases hc) ?_
      rcases hex with hfx | ⟨h1, h2⟩
      · exact .inl hfx
      · exact .inr ⟨fun _ => h1, h2⟩
    · simp [hf] at hb

/-- The repaired `_focus_gained` (fixes/C15_focus_events.patch) always tells the loser. -/
theorem loser_told_repaired (fx : Fixes) (hfx : fx.focusEvents = true) (t : Tree) (win b : Nat)
    (r : Tree × List Event) (hwf : wfB t = true) (h : takeFocus fx t win = .ok r) (hp : VisPath t win)
    (h0 : Anc t win 0) (hb : holder t = some b) (hne : win ≠ b) : (⟨b, .focusOut, b⟩ : Event) ∈ r.2 :=
  loser_told fx t win b r hwf h hp h0 hb hne (.inl hfx)

/-- The unchanged `_focus_gained` tells the loser whenever neither window is an ancestor of the other. -/
theorem loser_told_partial (t : Tree) (win b : Nat) (r : Tree × List Event) (hwf : wfB t = true)
    (h : takeFocus Fixes.none t win = .ok r) (hp : VisPath t win) (h0 : Anc t win 0) (hb : holder t = some b)
    (hne : win ≠ b) (h1 : ¬ Anc t b win) (h2 : ¬ Anc t win b) : (⟨b, .focusOut, b⟩ : Event) ∈ r.2 :=
  loser_told Fixes.none t win b r hwf h hp h0 hb hne (.inr ⟨h1, h2⟩)

/-- "The window losing it is told", in full, for the repaired `_focus_gained` (in /repo since 7a99ce0): whenever a
    `take_focus` changes the holder of the focus — any tree, any window, visible path or not — the old holder is told
    OUT.  (Below an invisible ancestor nothing on the focus chain moves, so the holder does not change.) -/
theorem loser_told_full_repaired (fx : Fixes) (hfx : fx.focusEvents = true) : loser_told_full fx := by
  intro t win b r hwf h hb hnb
  have hb' : holderOf t = some b := hb
  unfold holderOf at hb'
  cases hbw : t.wins[chainEnd t (treeFuel t) 0]? with
  | none => rw [hbw] at hb'; cases hb'
  | some bw =>
    rw [hbw] at hb'
    by_cases hf : bw.isFocused = true
    · simp only [hf, if_true, Option.some.injEq] at hb'
      rcases gained_tells_or_keeps fx hfx _ t win none r b h hwf hb' ⟨bw, hb' ▸ hbw, hf⟩ with hm | hk
      · exact hm
      · exact absurd (holder_kept hwf hk hb' ⟨bw, hb' ▸ hbw, hf⟩) hnb
    · simp [hf] at hb'

/-- root 0 with child 1; window 1 holds the focus (history: `win 1 0 1 1 3 3 0; focus 1`). -/
def childFocusedTree : Tree :=
  { wins := #[{ rect := ⟨0, 0, 6, 10⟩, isRoot := true, children := [1], focusedChild := some 1 },
              { rect := ⟨1, 1, 3, 3⟩, parent := some 0, isFocused := true }] }

/-- root 0 with child 1; the root holds the focus (history: `win 1 0 1 1 3 3 0; focus 0`). -/
def rootFocusedTree : Tree :=
  { wins := #[{ rect := ⟨0, 0, 6, 10⟩, isRoot := true, children := [1], isFocused := true },
              { rect := ⟨1, 1, 3, 3⟩, parent := some 0 }] }

def loserCheck (fx : Fixes) (t : Tree) (win b : Nat) : Bool :=
  match takeFocus fx t win with
  | .ok r => !(holder t == some b && holder r.1 != some b) || r.2.contains ⟨b, .focusOut, b⟩
  | .ub _ => true

/-- The full statement implies the executable check on any concrete instance. -/
def loserCheck_of_full {fx : Fixes} (h : loser_told_full fx) (t : Tree) (hwf : wfB t = true) (win b : Nat) :
    loserCheck fx t win b = true := by
  unfold loserCheck
  split
  · next r hr =>
    by_cases hc : (holder t == some b && holder r.1 != some b) = true
    · simp only [Bool.and_eq_true, beq_iff_eq, bne_iff_ne] at hc
      have := h t win b r hwf hr hc.1 hc.2
      simp [this]
    · simp [hc]
  · rfl

/-- Unchanged library, focus taken by an ancestor: `focus 1; focus 0` never tells window 1 OUT. -/
theorem loser_told_counterexample_ancestor : ¬ loser_told_full Fixes.none := by
  intro h
  have := loserCheck_of_full h childFocusedTree (by decide) 0 1
  revert this
  decide

/-- Unchanged library, focus taken by a descendant: `focus 0; focus 1` never tells the root OUT. -/
theorem loser_told_counterexample_descendant : ¬ loser_told_full Fixes.none := by
  intro h
  have := loserCheck_of_full h rootFocusedTree (by decide) 1 0
  revert this
  decide

/-- "Parents that asked are told about both": a window with `focus_child_notify` whose `focused_child` link is moved by
    a `take_focus` from child `c` to another child is told OUT for `c` (and IN for the new one). -/
def link_parent_told_full (fx : Fixes) : Prop :=
  ∀ (t : Tree) (win p c c' : Nat) (pw pw' : Win) (r : Tree × List Event), wfB t = true →
    takeFocus fx t win = .ok r → t.wins[p]? = some pw → r.1.wins[p]? = some pw' → pw.focusChildNotify = true →
    pw.focusedChild = some c → pw'.focusedChild = some c' → c ≠ c' →
    (⟨p, .focusOut, c⟩ : Event) ∈ r.2 ∧ (⟨p, .focusIn, c'⟩ : Event) ∈ r.2

/-- The IN half of "told about both", for every tree and every state of the source: every window on the visible
    path above the window that takes the focus (`Reaches t win p c`: the climb of `_focus_gained` arrives at `p` from
    its child `c`) that asked for child notifications is told IN for `c`. -/
theorem parents_told_in (fx : Fixes) (t : Tree) (win p c : Nat) (pw : Win) (r : Tree × List Event)
    (h : takeFocus fx t win = .ok r) (hre : Reaches t win p c) (hpw : t.wins[p]? = some pw)
    (hn : pw.focusChildNotify = true) : (⟨p, .focusIn, c⟩ : Event) ∈ r.2 :=
  gained_parents_in fx _ t win none r p c pw h hre hpw hn

/-- "Parents that asked are told about both", in full, for the repaired `_focus_gained`: a notification-asking window
    whose `focused_child` link a `take_focus` moves from `c` to `c'` is told OUT for `c` and IN for `c'`. -/
theorem link_parent_told_full_repaired (fx : Fixes) (hfx : fx.focusEvents = true) : link_parent_told_full fx := by
  intro t win p c c' pw pw' r _ h hp hp' hn hfc hfc' hne
  exact gained_link_told fx hfx _ t win none r p c c' pw pw' h hp hp' hn hfc hfc' hne

/-- The OUT half for the branch that loses the focus, for every tree and every state of the source: when the climb of
    `_focus_gained` arrives at `p` from its child `c` (`Reaches`) and `p`'s `focused_child` is another child `f`, every
    window `q` on the chain below `f` (`FcChain`) that asked for child notifications is told OUT for its focused
    child — the parents of the window losing the focus are told. -/
theorem branch_told_out (fx : Fixes) (t : Tree) (win p c f q d : Nat) (pw qw : Win) (r : Tree × List Event)
    (h : takeFocus fx t win = .ok r) (hre : Reaches t win p c) (hp : Live t p pw) (hpfc : pw.focusedChild = some f)
    (hfc : f ≠ c) (hch : FcChain t f q) (hq : Live t q qw) (hqfc : qw.focusedChild = some d)
    (hn : qw.focusChildNotify = true) : (⟨q, .focusOut, d⟩ : Event) ∈ r.2 :=
  gained_reach_branch_out fx _ t win none r p c f q d pw qw h hre hp hpfc hfc hch hq hqfc hn

/-- The same when the window itself takes the focus from a branch below it (repaired `_focus_gained` only: the
    unchanged one does not run `_focus_lost` there — `loser_told_counterexample_ancestor`). -/
theorem branch_told_out_self (fx : Fixes) (hfx : fx.focusEvents = true) (t : Tree) (win f q d : Nat) (w qw : Win)
    (r : Tree × List Event) (h : takeFocus fx t win = .ok r) (hw : Live t win w) (hwfc : w.focusedChild = some f)
    (hch : FcChain t f q) (hq : Live t q qw) (hqfc : qw.focusedChild = some d) (hn : qw.focusChildNotify = true) :
    (⟨q, .focusOut, d⟩ : Event) ∈ r.2 :=
  gained_level_branch_out fx h hw hwfc (by simp [hfx]) hch hq hqfc hn

/-- root 0 (asking for notifications) with children 1 and 2; window 1 holds the focus. -/
def twoChildrenTree : Tree :=
  { wins := #[{ rect := ⟨0, 0, 6, 10⟩, isRoot := true, children := [2, 1], focusedChild := some 1, focusChildNotify := true },
              { rect := ⟨1, 1, 2, 2⟩, parent := some 0, isFocused := true },
              { rect := ⟨3, 3, 2, 2⟩, parent := some 0 }] }

def linkCheck (fx : Fixes) (t : Tree) (win p c c' : Nat) : Bool :=
  match takeFocus fx t win with
  | .ok r =>
    (match t.wins[p]?, r.1.wins[p]? with
     | some pw, some pw' =>
       !(pw.focusChildNotify && pw.focusedChild == some c && pw'.focusedChild == some c' && c != c') ||
       (r.2.contains ⟨p, .focusOut, c⟩ && r.2.contains ⟨p, .focusIn, c'⟩)
     | _, _ => true)
  | .ub _ => true

/-- The full statement implies the executable check on any concrete instance. -/
def linkCheck_of_full {fx : Fixes} (h : link_parent_told_full fx) (t : Tree) (hwf : wfB t = true) (win p c c' : Nat) :
    linkCheck fx t win p c c' = true := by
  unfold linkCheck
  split
  · next r hr =>
    split
    · next pw pw' hp hp' =>
      by_cases hc : (pw.focusChildNotify && pw.focusedChild == some c && pw'.focusedChild == some c' && c != c') = true
      · simp only [Bool.and_eq_true, beq_iff_eq, bne_iff_ne] at hc
        have := h t win p c c' pw pw' r hwf hr hp hp' hc.1.1.1 hc.1.1.2 hc.1.2 hc.2
        simp [this.1, this.2]
      · simp [hc]
    · rfl
  · rfl

/-- Unchanged library: `notify 0 1; focus 1; focus 2` tells the root IN for 2 but not OUT for 1. -/
theorem link_parent_told_counterexample : ¬ link_parent_told_full Fixes.none := by
  intro h
  have := linkCheck_of_full h twoChildrenTree (by decide) 2 0 1 2
  revert this
  decide

/-! ### `restore_requested` -/

/-- `Requests t t'` (Proof/WinFocus.lean): after the operation a restore or an expose is pending and the flush will not
    be skipped, or the operation did not change what the cursor has to be.

    The setters of the cursor record request what the property needs — for every tree, window and value. -/
theorem restore_requested_cursor_position (t t' : Tree) (win : Nat) (line col : Int)
    (h : setCursorPosition t win line col = .ok t') : Requests t t' :=
  cursor_setter_requests (fun c => { c with line := line, col := col }) h

theorem restore_requested_cursor_visible (t t' : Tree) (win : Nat) (value : Int)
    (h : setCursorVisible t win value = .ok t') : Requests t t' :=
  cursor_setter_requests (fun c => { c with visible := bit1 value }) h

theorem restore_requested_cursor_shape (t t' : Tree) (win : Nat) (value : Int)
    (h : setCursorShape t win value = .ok t') : Requests t t' :=
  cursor_setter_requests (fun c => { c with shape := value }) h

theorem restore_requested_cursor_blink (t t' : Tree) (win : Nat) (value : Int)
    (h : setCursorBlink t win value = .ok t') : Requests t t' :=
  cursor_setter_requests (fun c => { c with blink := if value ≠ 0 then 1 else 0 }) h

/-- `take_focus` on a window whose parent chain is visible up to the top (`VisPath`) always leaves a restore
    requested — for every tree and every state of the source. -/
theorem restore_requested_take_focus (fx : Fixes) (t : Tree) (win : Nat) (r : Tree × List Event)
    (h : takeFocus fx t win = .ok r) (hp : VisPath t win) :
    r.1.root.needsRestore = true ∧ r.1.root.needsLater = true :=
  focusGained_requests fx _ _ _ _ _ h hp

/-- The clause for `take_focus` in full: also below an invisible ancestor, where nothing is requested and nothing has
    to be (the focus chain from the root and the composition are untouched). -/
def take_focus_requests_full (fx : Fixes) : Prop :=
  ∀ (t : Tree) (win : Nat) (r : Tree × List Event), wfB t = true → takeFocus fx t win = .ok r → Requests t r.1

/-- … and it holds, for every state of the source (`Proof/WinFocusReq.lean`: once the climb of `_focus_gained` touches
    the focus chain it reaches the root and requests the restore; otherwise it writes only windows off the chain, and
    never a field the composition reads). -/
theorem take_focus_requests (fx : Fixes) : take_focus_requests_full fx :=
  fun _ _ _ hwf h => takeFocus_requests hwf h

/-- `Good15 t` (Proof/WinFocusReq.lean): the store invariant `wfB`, the structural invariants of the window engine
    (C01: parent pointers agree with child lists, no repeated children, one root window at the origin, positive size),
    non-empty damage rectangles, and the flag discipline (recorded damage is flagged; a pending expose or restore keeps
    the flush from being skipped).  `good15B` is its executable form (checked by the driver on every observed tree).

    `hide`, `show`, `close` and a geometry change request what the property needs (full statement; false of the
    unrepaired model when the window exposes nothing). -/
def hide_requests_full (fx : Fixes) : Prop :=
  ∀ (t t' : Tree) (win : Nat), Good15 t → hideWin fx t win = .ok t' → Requests t t'

/-- `restore_requested` for `hide`, `show`, `close` (repaired source) and for a geometry change followed by the exposes
    of the old and the new area (C01's proviso; any window but the root): afterwards a restore or an expose is pending
    and the flush will not be skipped, or `cursorSpec` is what it was.  Built on the window engine's damage
    specification (C01 `hide_step`, `show_step`, `close_step`, `geom_step`): every terminal cell whose owner changes is
    covered by the damage the operation records — applied to the screen that shows in every cell who owns it. -/
theorem restore_requested_hide (fx : Fixes) (hfx1 : fx.hiddenRoot = true) (hfx2 : fx.chainRestore = true) :
    hide_requests_full fx :=
  fun _ _ _ hg h => hide_requests hfx1 hfx2 hg h

theorem restore_requested_show (fx : Fixes) (hfx2 : fx.chainRestore = true) (t t' : Tree) (win : Nat)
    (hg : Good15 t) (h : showWin fx t win = .ok t') : Requests t t' :=
  show_requests hfx2 hg h

theorem restore_requested_close (fx : Fixes) (hfx2 : fx.chainRestore = true) (t t' : Tree) (win : Nat)
    (hg : Good15 t) (h : closeWin fx t win = .ok t') : Requests t t' :=
  close_requests hfx2 hg h

theorem restore_requested_move (t t' : Tree) (win : Nat) (rect : Rect) (hg : Good15 t) (h0 : win ≠ 0)
    (h : WinFlush.setGeometryExposed t (treeFuel t) win rect = .ok t') : Requests t t' :=
  move_requests hg h0 h (setGeometryExposed_wf hg.wf h)

/-- A restacking request only queues: the tree, hence `cursorSpec`, is untouched (its effect comes with the flush). -/
theorem restore_requested_restack (t t' : Tree) (ch : Change) (win : Nat)
    (h : requestHierarchyChange t (treeFuel t) ch win = .ok t') : Requests t t' := by
  right
  apply cursorSpec_wins
  unfold requestHierarchyChange at h
  simp only [bind_ok] at h
  obtain ⟨w, _, h⟩ := h
  split at h
  · simp only [pure_ok] at h; subst h; rfl
  · simp only [bind_ok, pure_ok] at h
    obtain ⟨_, _, h⟩ := h
    subst h; rfl

/-- root 0, child 1 (focused itself, then its child took the focus), grandchild 2 lying outside window 1;
    nothing pending.  History: `win 1 0 1 1 3 3 0; win 2 1 5 5 1 1 0; focus 1; focus 2; flush`. -/
def outsideChildTree : Tree :=
  { wins := #[{ rect := ⟨0, 0, 6, 10⟩, isRoot := true, children := [1], focusedChild := some 1 },
              { rect := ⟨1, 1, 3, 3⟩, parent := some 0, children := [2], focusedChild := some 2, isFocused := true },
              { rect := ⟨5, 5, 1, 1⟩, parent := some 1, isFocused := true }] }

def hideCheck (fx : Fixes) (t : Tree) (win : Nat) : Bool :=
  match hideWin fx t win with
  | .ok t' => ((t'.root.needsRestore || t'.root.needsExpose) && t'.root.needsLater) || (cursorSpec t' == cursorSpec t)
  | .ub _ => true

/-- The full statement implies the executable check on any concrete instance. -/
def hideCheck_of_full {fx : Fixes} (h : hide_requests_full fx) (t : Tree) (hwf : Good15 t) (win : Nat) :
    hideCheck fx t win = true := by
  unfold hideCheck
  split
  · next t' ht' =>
    rcases h t t' win hwf ht' with ⟨h1, h2⟩ | h3
    · rcases h1 with h1 | h1 <;> simp [h1, h2]
    · simp [h3]
  · rfl

/-- Unchanged library: hiding the grandchild that lies outside its parent hands the focus chain back to window 1
    (still `is_focused`), exposes nothing and requests nothing — the cursor stays hidden although it should now sit
    at window 1's cursor cell. -/
theorem hide_requests_counterexample : ¬ hide_requests_full Fixes.none := by
  intro h
  have := hideCheck_of_full h outsideChildTree (good15_of_B (by decide)) 2
  revert this
  decide

/-! ### the focus chain through `hide` / `show`, and the reposition of the focused window

    The "focus chain" of the property is maintained by `show`, `hide` and REMOVE, not only by `take_focus`; these are the
    rules (the driver evaluates them on the implementation's links before and after every show / hide / close). -/

/-- `show` relinks: a window whose parent has no focused child is linked in whenever it carries a link or is focused
    itself — in particular when the branch below it ends, however deep, in the focused window. -/
theorem show_relinks (fx : Fixes) (t t' : Tree) (win p : Nat) (w pw : Win) (hwf : wfB t = true) (hw : Live t win w)
    (hp : w.parent = some p) (hpw : Live t p pw) (hnone : pw.focusedChild = none)
    (hlat : w.focusedChild.isSome = true ∨ w.isFocused = true) (hh : showWin fx t win = .ok t') :
    ∃ pw', t'.wins[p]? = some pw' ∧ pw'.focusedChild = some win :=
  showWin_relinks hwf hw hp hpw hnone hlat hh

/-- `hide` then `show` of a visible window the focus chain runs through: every window is as before — every link and
    flag — so the terminal cursor has to be what it had to be (and `restore_requested_show` makes the flush put it
    there). -/
theorem hide_show_roundtrip (fx : Fixes) (t t1 t2 : Tree) (win p : Nat) (w pw : Win) (hwf : wfB t = true)
    (hwf1 : wfB t1 = true) (hw : Live t win w) (hv : w.isVisible = true) (hp : w.parent = some p) (hpw : Live t p pw)
    (hl : pw.focusedChild = some win) (hlat : w.focusedChild.isSome = true ∨ w.isFocused = true)
    (h1 : hideWin fx t win = .ok t1) (h2 : showWin fx t1 win = .ok t2) :
    t2.wins = t.wins ∧ cursorSpec t2 = cursorSpec t :=
  ⟨WinFocus.hide_show_roundtrip hwf hwf1 hw hv hp hpw hl hlat h1 h2,
   cursorSpec_wins (WinFocus.hide_show_roundtrip hwf hwf1 hw hv hp hpw hl hlat h1 h2)⟩

/-- `tickit_window_reposition` of a focused window requests the restore itself, wherever the cursor cell ends up (under a
    sibling, outside the parent, in the open): no expose is needed for the cursor to follow the window. -/
theorem restore_requested_reposition (t t' : Tree) (win : Nat) (w : Win) (top left : Int) (hw : Live t win w)
    (hf : w.isFocused = true) (h : reposition t win top left = .ok t') : Requests t t' :=
  .inl ⟨.inl (reposition_requests hw hf h).1, (reposition_requests hw hf h).2⟩

/-- root 0 → 1 → 2 → 3, window 3 focused (history: three nested windows, `focus 3`, `flush`). -/
def deepChainTree : Tree :=
  { wins := #[{ rect := ⟨0, 0, 12, 30⟩, isRoot := true, children := [1], focusedChild := some 1 },
              { rect := ⟨1, 2, 10, 28⟩, parent := some 0, children := [2], focusedChild := some 2 },
              { rect := ⟨0, 0, 10, 27⟩, parent := some 1, children := [3], focusedChild := some 3 },
              { rect := ⟨0, 0, 9, 26⟩, parent := some 2, isFocused := true }] }

/-! ### the terminal changes its size

    `termResize` (Model/WinFocus.lean) transcribes `on_term_resize`, the root window's handler of the terminal's resize
    event: the root window takes the new size and the lines and columns *gained* are exposed.  About an area *lost*
    the unchanged handler does nothing: a cursor cell of the focused window that now lies outside the root window —
    "inside the window and every ancestor" fails — stays shown.  fixes/C15_resize_restore.patch ends the handler with
    `_request_restore(root)`; the extractor reads `Fixes.resizeRestore` off the source. -/

/-- The resize event requests what the property needs (full statement). -/
def resize_requests_full (fx : Fixes) : Prop :=
  ∀ (t t' : Tree) (l c : Int), Good15 t → 0 < l → 0 < c → termResize fx t l c = .ok t' → Requests t t'

/-- With the repair a restore is pending after every resize event. -/
theorem restore_requested_term_resize (fx : Fixes) (hfx : fx.resizeRestore = true) : resize_requests_full fx :=
  fun _ _ _ _ hg hl hc h => .inl (termResize_pending hfx hg hl hc h)

/-- root 0 (6 × 10) with child 1 at 1,1 (3 × 3), focused, cursor cell 1,1 (absolute 2,2), nothing pending.
    History: `new 6 10; win 1 0 1 1 3 3 0; curpos 1 1 1; focus 1; flush`. -/
def shrinkTree : Tree :=
  { wins := #[{ rect := ⟨0, 0, 6, 10⟩, isRoot := true, children := [1], focusedChild := some 1 },
              { rect := ⟨1, 1, 3, 3⟩, parent := some 0, isFocused := true, cursor := { line := 1, col := 1 } }] }

def resizeCheck (fx : Fixes) (t : Tree) (l c : Int) : Bool :=
  match termResize fx t l c with
  | .ok t' => ((t'.root.needsRestore || t'.root.needsExpose) && t'.root.needsLater) || (cursorSpec t' == cursorSpec t)
  | .ub _ => true

/-- The full statement implies the executable check on any concrete instance. -/
def resizeCheck_of_full {fx : Fixes} (h : resize_requests_full fx) (t : Tree) (hg : Good15 t) (l c : Int)
    (hl : 0 < l) (hc : 0 < c) : resizeCheck fx t l c = true := by
  unfold resizeCheck
  split
  · next t' ht' =>
    rcases h t t' l c hg hl hc ht' with ⟨h1, h2⟩ | h3
    · rcases h1 with h1 | h1 <;> simp [h1, h2]
    · simp [h3]
  · rfl

/-- The library without the repair — every other repair in place: the terminal shrinks to 2 × 2, the cursor cell 2,2 of
    the focused window lies outside the root window now (`cursorSpec` goes from `some (2, 2, 1)` to `none`), nothing is
    exposed and nothing requested.  Replayed on the real code (both terminal configurations):
    corpus/C15/cursor_kept_after_terminal_shrink.ops. -/
theorem resize_requests_counterexample : ¬ resize_requests_full { Fixes.all with resizeRestore := false } := by
  intro h
  have := resizeCheck_of_full h shrinkTree (good15_of_B (by decide)) 2 2 (by decide) (by decide)
  revert this
  decide

/-- The resize event (terminal of at least one cell) preserves the invariants, for every state of the source. -/
theorem resize_preserves_good (fx : Fixes) (t t' : Tree) (l c : Int) (hg : Good15 t) (hl : 0 < l) (hc : 0 < c)
    (h : termResize fx t l c = .ok t') : Good15 t' :=
  termResize_good hg hl hc h

/-! ### the property over histories

    `Op`, `HSt`, `stepOp`, `runOps` (Proof/WinFocusRestack.lean): the operations the property quantifies over — window
    creation, take-focus, the cursor setters, the notification switch, show, hide, close, restacking requests, a geometry
    change with the exposes of the old and the new area (C01's proviso), expose, flush — run on a tree and a terminal
    cursor. -/

/-- C15 over histories: from a fresh root window on an `l × c` terminal, after any history that ends in a flush and
    that the library survives, the terminal cursor is what `cursorSpec` says of the tree.
    False of `Fixes.none` (the four counterexamples above are such histories).  For the repaired source it is PROVED
    (`history_cursor` below) for every history of the library's operations that does not move the root window; such a
    move is outside C01's proviso (the root has no parent to expose in; its geometry follows the terminal), and with it
    the statement is false (`history_full_root_move_counterexample`) — that is all that keeps this a `def`. -/
def history_full (fx : Fixes) : Prop :=
  ∀ (l c : Int) (ops : List Op) (s : HSt), 0 < l → 0 < c →
    runOps fx { tree := newRoot l c } (ops ++ [.flush]) = .ok s → s.term.matches (cursorSpec s.tree) = true

/-- **After every flush the cursor equals `cursorSpec`**, over whole histories, for the source as repaired in /repo:
    every history of window creation, take-focus, cursor position / visibility / shape / blink changes, notification
    switches, show, hide, close, raise, raise-to-front, lower, lower-to-back (queued, and applied by the next flush
    together with their exposes), geometry changes of any window but the root (with the proviso's exposes), expose and
    flush, in any order and of any length, from a fresh root window on any terminal, that ends in a flush.
    (`Op.plain`: a restacking request is one of the four kinds the API offers; the root window is not moved.)  The
    composition of `restore_spec`, `flush_cursor`, `restore_requested` for every operation (C01's damage specification
    underneath), the step lemma for `_do_hierarchy_change` inside the flush (`restack_apply`: a reordered child list
    changes ownership only inside the exposed rectangle), the flag discipline, and the preservation of `Good15`. -/
theorem history_cursor (fx : Fixes) (hfx1 : fx.hiddenRoot = true) (hfx2 : fx.chainRestore = true)
    (l c : Int) (hl : 0 < l) (hc : 0 < c) (ops : List Op) (hplain : ∀ op ∈ ops, op.plain) (s : HSt)
    (h : runOps fx { tree := newRoot l c } (ops ++ [.flush]) = .ok s) :
    s.term.matches (cursorSpec s.tree) = true :=
  WinFocus.history_cursor hfx1 hfx2 l c hl hc ops hplain s h

/-- Why `history_full` keeps the restriction: `tickit_window_set_geometry` on the *root* window (which has no parent in
    which the proviso's exposes could be made) changes every absolute position and requests nothing; the next flush
    leaves the cursor where it was.  Replayed on the library: `new 6 10; win 1 0 1 1 3 3 0; curpos 1 1 1; focus 1; flush;
    geom 0 1 0 6 10; flush` — the cursor stays at 2,2 where `cursorSpec` says 3,2.  (The library itself only resizes the
    root, from the terminal's resize event, keeping it at 0,0.) -/
theorem history_full_root_move_counterexample : ¬ history_full Fixes.all := by
  intro h
  have := h 6 10 [.newWin 0 ⟨1, 1, 3, 3⟩ false false false false, .curpos 1 1 1, .focus 1, .flush, .move 0 ⟨1, 0, 6, 10⟩]
    _ (by decide) (by decide) rfl
  revert this
  decide

/-- … and at every flush in the middle of such a history too: the invariant `HInv` (store and flags in order, only
    restacking requests queued, cursor right or a restore pending) holds after every operation, and after a flush the
    cursor is right. -/
theorem history_every_flush (fx : Fixes) (hfx1 : fx.hiddenRoot = true) (hfx2 : fx.chainRestore = true)
    (l c : Int) (hl : 0 < l) (hc : 0 < c) (ops : List Op) (hplain : ∀ op ∈ ops, op.plain) (s s' : HSt)
    (h : runOps fx { tree := newRoot l c } ops = .ok s) (hf : stepOp fx s .flush = .ok s') :
    s'.term.matches (cursorSpec s'.tree) = true :=
  (flush_step hfx1 (runOps_inv hfx1 hfx2 ops _ s hplain (hinv_newRoot l c hl hc) h) hf).2

/-- C15 over histories in which the terminal also changes its size (`Op.plainR`: as `Op.plain`, plus resize events
    to any size of at least one cell). -/
def history_resize_full (fx : Fixes) : Prop :=
  ∀ (l c : Int) (ops : List Op) (s : HSt), 0 < l → 0 < c → (∀ op ∈ ops, op.plainR) →
    runOps fx { tree := newRoot l c } (ops ++ [.flush]) = .ok s → s.term.matches (cursorSpec s.tree) = true

/-- **After every flush the cursor equals `cursorSpec`, terminal resizes included**, for a source that carries the three
    repairs `hiddenRoot`, `chainRestore` and `resizeRestore` (fixes/C15_resize_restore.patch): every history of
    `history_cursor` with any number of resize events in it, to any sizes of at least one cell. -/
theorem history_cursor_resize (fx : Fixes) (hfx1 : fx.hiddenRoot = true) (hfx2 : fx.chainRestore = true)
    (hfx3 : fx.resizeRestore = true) : history_resize_full fx :=
  fun l c ops s hl hc hplain h => WinFocus.history_cursor_resize hfx1 hfx2 hfx3 l c hl hc ops hplain s h

/-- Without `resizeRestore` it is false, all other repairs in place: `new 6 10; win 1 0 1 1 3 3 0; curpos 1 1 1; focus 1;
    flush; termsize 2 2; flush` leaves the cursor shown at 2,2 where `cursorSpec` says hidden.  This is the library as
    found in /repo (known finding `cursor_kept_after_terminal_shrink`, replayed on the real code). -/
theorem history_resize_counterexample : ¬ history_resize_full { Fixes.all with resizeRestore := false } := by
  intro h
  have := h 6 10 [.newWin 0 ⟨1, 1, 3, 3⟩ false false false false, .curpos 1 1 1, .focus 1, .flush, .termResize 2 2]
    _ (by decide) (by decide) (by intro op hop; simp at hop; rcases hop with rfl | rfl | rfl | rfl | rfl <;> simp [Op.plainR, Op.plain]) rfl
  revert this
  decide

/-- … and at every flush in the middle of such a history. -/
theorem history_every_flush_resize (fx : Fixes) (hfx1 : fx.hiddenRoot = true) (hfx2 : fx.chainRestore = true)
    (hfx3 : fx.resizeRestore = true)
    (l c : Int) (hl : 0 < l) (hc : 0 < c) (ops : List Op) (hplain : ∀ op ∈ ops, op.plainR) (s s' : HSt)
    (h : runOps fx { tree := newRoot l c } ops = .ok s) (hf : stepOp fx s .flush = .ok s') :
    s'.term.matches (cursorSpec s'.tree) = true :=
  (flush_step hfx1 (runOps_invR hfx1 hfx2 hfx3 ops _ s hplain (hinv_newRoot l c hl hc) h) hf).2

/-- **The same on the library's own mock terminal** (`MSt`, `stepOpMock`, `runOpsMock`, Proof/WinFocusMockHist.lean: the
    flush's calls are executed by the mock — goto clamped to the screen, `!!value` for visibility and blink —, a resize
    is `tickit_mockterm_resize`): from `tickit_mockterm_new(l, c)` and a fresh root window, after any such history that
    ends in a flush, the cursor the mock terminal *reports* is `cursorSpec` of the tree.  The extra invariant: the root
    window always covers exactly the screen (no operation but the resize event touches its rectangle), so the clamp
    never bites.  This is the specification the engine evaluates in its second configuration (`newmock`). -/
theorem history_cursor_mock (fx : Fixes) (hfx1 : fx.hiddenRoot = true) (hfx2 : fx.chainRestore = true)
    (hfx3 : fx.resizeRestore = true)
    (l c : Int) (hl : 0 < l) (hc : 0 < c) (ops : List Op) (hplain : ∀ op ∈ ops, op.plainR) (s : MSt)
    (h : runOpsMock fx { tree := newRoot l c, lines := l, cols := c } (ops ++ [.flush]) = .ok s) :
    s.term.matches (cursorSpec s.tree) = true :=
  WinFocus.history_cursor_mock hfx1 hfx2 hfx3 l c hl hc ops hplain s h

/-- Every operation preserves the invariants (full statement: `Good15`, which contains the store invariant `wfB`). -/
def wf_preserved_full (fx : Fixes) : Prop :=
  ∀ (s s' : HSt) (op : Op), Good15 s.tree → stepOp fx s op = .ok s' → Good15 s'.tree

/-- `Good15` — `wfB` with `chain_visible`, the window engine's structural invariants, the flag discipline — survives
    window creation, take-focus, the cursor setters, the notification switch, show, hide, close, restacking requests,
    geometry changes of any window but the root with their exposes, expose, and the terminal's resize event (to at
    least one cell), for every tree and every state of the source.  (The flush: `flush_preserves_good` below.) -/
theorem wf_preserved (fx : Fixes) (s s' : HSt) (op : Op) (hop : op ≠ .flush) (hmv : ∀ w r, op = .move w r → w ≠ 0)
    (hrs : ∀ l c, op = .termResize l c → 0 < l ∧ 0 < c)
    (hg : Good15 s.tree) (hs : stepOp fx s op = .ok s') : Good15 s'.tree := by
  cases op with
  | flush => exact absurd rfl hop
  | termResize l c =>
    simp only [stepOp, bind_ok, pure_ok] at hs
    obtain ⟨x, hx, hs⟩ := hs; subst hs
    exact termResize_good hg (hrs l c rfl).1 (hrs l c rfl).2 hx
  | newWin p r a b c d =>
    simp only [stepOp, bind_ok, pure_ok] at hs
    obtain ⟨x, hx, hs⟩ := hs; subst hs
    obtain ⟨t', id⟩ := x
    exact (newWindow_step hg hx).1
  | focus w =>
    simp only [stepOp, bind_ok, pure_ok] at hs
    obtain ⟨x, hx, hs⟩ := hs; subst hs; exact takeFocus_good hg hx
  | curpos w l c =>
    simp only [stepOp, bind_ok, pure_ok] at hs
    obtain ⟨x, hx, hs⟩ := hs; subst hs
    exact cursor_setter_good (fun cu => { cu with line := l, col := c }) hg hx
  | curvis w v =>
    simp only [stepOp, bind_ok, pure_ok] at hs
    obtain ⟨x, hx, hs⟩ := hs; subst hs
    exact cursor_setter_good (fun cu => { cu with visible := bit1 v }) hg hx
  | curshape w v =>
    simp only [stepOp, bind_ok, pure_ok] at hs
    obtain ⟨x, hx, hs⟩ := hs; subst hs
    exact cursor_setter_good (fun cu => { cu with shape := v }) hg hx
  | curblink w v =>
    simp only [stepOp, bind_ok, pure_ok] at hs
    obtain ⟨x, hx, hs⟩ := hs; subst hs
    exact cursor_setter_good (fun cu => { cu with blink := if v ≠ 0 then 1 else 0 }) hg hx
  | notify w v =>
    simp only [stepOp, bind_ok, pure_ok] at hs
    obtain ⟨x, hx, hs⟩ := hs; subst hs; exact notify_good hg hx
  | showW w =>
    simp only [stepOp, bind_ok, pure_ok] at hs
    obtain ⟨x, hx, hs⟩ := hs; subst hs; exact show_good hg hx
  | hideW w =>
    simp only [stepOp, bind_ok, pure_ok] at hs
    obtain ⟨x, hx, hs⟩ := hs; subst hs; exact hide_good hg hx
  | closeW w =>
    simp only [stepOp, bind_ok, pure_ok] at hs
    obtain ⟨x, hx, hs⟩ := hs; subst hs; exact close_good hg hx
  | restack ch w =>
    simp only [stepOp, bind_ok, pure_ok] at hs
    obtain ⟨x, hx, hs⟩ := hs; subst hs; exact restack_request_good hg hx
  | move w r =>
    simp only [stepOp, bind_ok, pure_ok] at hs
    obtain ⟨x, hx, hs⟩ := hs; subst hs; exact move_good hg (hmv w r rfl) hx
  | exposeW w r =>
    simp only [stepOp, bind_ok, pure_ok] at hs
    obtain ⟨x, hx, hs⟩ := hs; subst hs; exact expose_good hg hx

/-- Why `wf_preserved_full` keeps its restrictions: a move of the root window by the application takes it off the
    origin, which `Good15` (C01's `RootWin`: the root window sits at 0,0 — its geometry is the terminal's) forbids.
    So the unrestricted statement is false of every state of the source; `wf_preserved` is the whole truth for the
    operations the property's proviso admits. -/
theorem wf_preserved_full_counterexample (fx : Fixes) : ¬ wf_preserved_full fx := by
  intro h
  have hg := h { tree := newRoot 6 10 } { tree := WinTree.set (newRoot 6 10) 0 { rect := ⟨1, 0, 6, 10⟩, isRoot := true } }
    (.move 0 ⟨1, 0, 6, 10⟩) (hinv_newRoot 6 10 (by decide) (by decide)).good rfl
  obtain ⟨w, hw, _, _, _, htop, _⟩ := hg.rootWin.ex
  have : w = { rect := ⟨1, 0, 6, 10⟩, isRoot := true } := by
    have h0 : (WinTree.set (newRoot 6 10) 0 { rect := ⟨1, 0, 6, 10⟩, isRoot := true }).wins[0]? =
        some { rect := ⟨1, 0, 6, 10⟩, isRoot := true } := rfl
    rw [h0] at hw; exact (Option.some.inj hw).symm
  subst this
  revert htop; decide

/-- A flush whose queue holds restacking requests only (all the public API can put there) preserves the invariant. -/
theorem flush_preserves_wf (fx : Fixes) (t : Tree) (out : FlushOut) (hwf : wfB t = true)
    (hq : ∀ r ∈ t.root.changes, r.change.isRestack = true) (hf : flush fx t = .ok out) : wfB out.tree = true :=
  flush_wf hwf hq hf

/-- … and all of `Good15`: the queued restacking is applied (child lists reordered, the windows' areas exposed), the
    damage handed out, the flags cleared. -/
theorem flush_preserves_good (fx : Fixes) (t : Tree) (out : FlushOut) (hg : Good15 t)
    (hq : ∀ r ∈ t.root.changes, r.change.isRestack = true) (hf : flush fx t = .ok out) : Good15 out.tree :=
  flush_good hg hq hf

/-- `restore_requested` for the *application* of a queued restacking request inside the flush: afterwards an expose is
    pending (which makes this very flush restore the cursor) or `cursorSpec` is what it was. -/
theorem restore_requested_restack_applied (t t' : Tree) (ch : Change) (p c : Nat) (hg : Good15 t)
    (hch : ch.isRestack = true) (hd : doHierarchyChange t (treeFuel t) ch p c = .ok t') :
    t'.root.needsExpose = true ∨ cursorSpec t' = cursorSpec t :=
  (restack_apply (goodF_of_good hg) hch hd).2.2

/-- `flush_cursor` for the repaired `_do_restore`, with every hypothesis on the state *before* the flush. -/
theorem flush_cursor_repaired (fx : Fixes) (hfx : fx.hiddenRoot = true) (t : Tree) (out : FlushOut)
    (hf : flush fx t = .ok out) (hwf : wfB t = true) (hq : ∀ r ∈ t.root.changes, r.change.isRestack = true)
    (hl : t.root.needsLater = true) (hr : t.root.needsRestore = true ∨ t.root.needsExpose = true) (c0 : TermCursor) :
    (c0.applyAll out.calls).matches (cursorSpec out.tree) = true :=
  flush_cursor fx t out hf hl hr (flush_wf hwf hq hf) (.inl hfx) c0

/-! ### restacking requests take effect in the order they were made

  `raise` / `raise_to_front` / `lower` / `lower_to_back` only queue a request; the flush applies the queue.  "Not covered by
  another window" in the cursor clause therefore depends on *which order* the flush applies them in.  The specification
  (`Model/WinFocus.lean`): `stackSpec` — what one request asks of its parent's sibling list (one place towards the front /
  back, to the front, to the back; nothing for a window that is not in the list), `stackApplied t reqs` — the requests
  applied oldest first, `cursorSpecReq before after reqs` — the cursor clause on `after` stacked as `stackApplied before
  reqs`.  The engine evaluates `cursorSpecReq` on the library's observations at every flush, with the requests read from
  the operation lines since the last flush. -/

/-- `_request_hierarchy_change` touches no window; a window without a parent (the root, a closed window) gets nothing
    queued, any other gets its request appended *behind* those already waiting. -/
theorem request_queued_last (t t' : Tree) (F : Nat) (ch : Change) (w : Nat)
    (h : requestHierarchyChange t F ch w = .ok t') :
    t'.wins = t.wins ∧
    ((parentOf t w = some none ∧ t'.root.changes = t.root.changes) ∨
     (∃ p, ParentIs t ⟨ch, p, w⟩ ∧ t'.root.changes = t.root.changes ++ [⟨ch, p, w⟩])) :=
  request_step h

/-- `_do_hierarchy_change` for a restacking request does to the tree exactly what the request asks for: the parent's
    sibling list becomes `stackSpec` of it, and no other field of any window changes. -/
theorem restack_applied_exact (t t' : Tree) (F p c : Nat) (ch : Change) (hch : ch.isRestack = true)
    (hd : doHierarchyChange t F ch p c = .ok t') :
    ∃ pw, t.wins[p]? = some pw ∧
      t'.wins = t.wins.setIfInBounds p { pw with children := stackSpec ch pw.children c } :=
  restack_exact hch hd

/-- **The flush applies the queue oldest first**: whatever is queued (restacking requests, each naming its window's
    parent — all the API can queue), after `tickit_window_flush` the windows are those of `stackApplied`: the sibling
    lists found at the flush with the requests applied in the order they were made; nothing else about any window
    changes. -/
theorem flush_applies_requests_in_order (fx : Fixes) (t : Tree) (out : FlushOut)
    (hq : ∀ q ∈ t.root.changes, q.change.isRestack = true ∧ ParentIs t q)
    (hl : t.root.changes ≠ [] → t.root.needsLater = true) (hf : flush fx t = .ok out) :
    out.tree.wins = (stackApplied t (t.root.changes.map Req.pair)).wins :=
  flush_order hq hl hf

/-- **The cursor clause over bursts of requests** (repaired source).  From any state a history reaches (`HInv`) in which
    the waiting requests name their windows' parents: after any number of restacking requests `rs` and a flush, the
    windows are stacked as the waiting requests and then `rs`, applied oldest first, say — and the terminal cursor is
    visible exactly when the cursor clause holds on the tree *stacked that way* (the focused window's cursor cell not
    covered by another window after the requests took effect in request order), at that cell, with that shape; hidden
    in every other case. -/
theorem restack_burst_cursor (fx : Fixes) (hfx1 : fx.hiddenRoot = true) (hfx2 : fx.chainRestore = true)
    (s1 : HSt) (hi : HInv s1) (hq0 : ∀ q ∈ s1.tree.root.changes, ParentIs s1.tree q)
    (rs : List (Change × Nat)) (hrs : ∀ r ∈ rs, r.1.isRestack = true) (s2 : HSt)
    (h : runOps fx s1 (reqOps rs ++ [.flush]) = .ok s2) :
    s2.tree.wins = (stackApplied s1.tree (s1.tree.root.changes.map Req.pair ++ rs)).wins ∧
    s2.term.matches (cursorSpecReq s1.tree s2.tree (s1.tree.root.changes.map Req.pair ++ rs)) = true ∧
    s2.tree.root.changes = [] :=
  restack_burst_order hfx1 hfx2 hi hq0 rs hrs s2 h

/-- **… over whole histories**: any history of the API's operations from a fresh root window that ends in a flush, then
    any burst of restacking requests, then a flush: the stacking is the burst applied in request order to the stacking
    of the first flush, and the cursor is `cursorSpecReq` — the property's first sentence with "restack" in the
    quantifier read as "requests take effect at the flush in the order they were made". -/
theorem history_restack_order (fx : Fixes) (hfx1 : fx.hiddenRoot = true) (hfx2 : fx.chainRestore = true)
    (l c : Int) (hl : 0 < l) (hc : 0 < c) (ops : List Op) (hplain : ∀ op ∈ ops, op.plain) (s1 : HSt)
    (h1 : runOps fx { tree := newRoot l c } (ops ++ [.flush]) = .ok s1)
    (rs : List (Change × Nat)) (hrs : ∀ r ∈ rs, r.1.isRestack = true) (s2 : HSt)
    (h2 : runOps fx s1 (reqOps rs ++ [.flush]) = .ok s2) :
    s2.tree.wins = (stackApplied s1.tree rs).wins ∧ s2.term.matches (cursorSpecReq s1.tree s2.tree rs) = true :=
  WinFocus.history_restack_order hfx1 hfx2 l c hl hc ops hplain s1 h1 rs hrs s2 h2

/-- The order matters, and the specification tells the orders apart: two overlapping siblings, window 1 focused with its
    cursor cell in the overlap.  "2 to the front, then 1 to the front" leaves the cursor visible at 2,2; "1 to the front,
    then 2 to the front" leaves it hidden; `raise 1; lower 1` nets out (hidden as before), `lower 1; raise 1` does not
    when window 1 is already at the back … — a flush that applied its queue youngest first would be judged wrong on
    each of these. -/
theorem request_order_matters :
    ∃ s, runOps Fixes.all { tree := newRoot 6 10 }
        [.newWin 0 ⟨1, 1, 3, 3⟩ false false false false, .newWin 0 ⟨2, 2, 3, 3⟩ false false false false,
         .curpos 1 1 1, .focus 1, .flush] = .ok s ∧
      cursorSpecReq s.tree s.tree [(.raiseFront, 2), (.raiseFront, 1)] = some (2, 2, 1) ∧
      cursorSpecReq s.tree s.tree [(.raiseFront, 1), (.raiseFront, 2)] = none ∧
      cursorSpecReq s.tree s.tree [(.raise, 1), (.lower, 1)] = none ∧
      cursorSpecReq s.tree s.tree [(.lower, 1), (.raise, 1)] = some (2, 2, 1) := by
  refine ⟨_, rfl, by decide, by decide, by decide, by decide⟩

/-! ### the source is as the model assumes (regenerated from the working tree on every run) -/

/-- The harness reads `focused_child` and the cursor position through a mirror of this prefix of `struct TickitWindow`. -/
theorem src_window_fields :
    Tickit.Gen.WinFocusSrc.windowFields.map (fun f => (f.1, f.2.2)) =
      [("parent", 0), ("first_child", 0), ("next", 0), ("focused_child", 0), ("pen", 0), ("rect", 0),
       ("cursor.line", 0), ("cursor.col", 0), ("cursor.shape", 0), ("cursor.visible", 1), ("cursor.blink", 2),
       ("is_root", 1), ("is_visible", 1), ("is_focused", 1), ("is_closed", 1), ("steal_input", 1),
       ("focus_child_notify", 1), ("refcount", 0)] := by decide

/-- `init_window` establishes the cursor record the model starts windows with. -/
theorem src_init_cursor :
    ({} : WinTree.Cursor) =
      { line := Tickit.Gen.WinFocusSrc.initCursorLine, col := Tickit.Gen.WinFocusSrc.initCursorCol,
        shape := Tickit.Gen.WinFocusSrc.initCursorShape, visible := Tickit.Gen.WinFocusSrc.initCursorVisible,
        blink := Tickit.Gen.WinFocusSrc.initCursorBlink } := by decide

/-- `on_term_resize` resizes the root window and exposes the lines and the columns gained, as `termResize` transcribes. -/
theorem src_term_resize : Tickit.Gen.WinFocusSrc.termResizeAsModelled = true := by decide

/-- The mock terminal's cursor controls are as `TermCall.onMock` transcribes them: `!!value` for visibility and blink,
    the raw value for the shape, every case closed by its `break`. -/
theorem src_mock_setctl : Tickit.Gen.WinFocusSrc.mockSetctlAsModelled = true := by decide

/-- The mock terminal clamps a goto (and, on a resize, its stored position) to the screen with the two-`if` `BOUND`, and
    starts at -1,-1 with visibility, blink and shape 0 (`TermCursor.mockInit`, `bound`, `TermCursor.mockResize`). -/
theorem src_mock_cursor : Tickit.Gen.WinFocusSrc.mockCursorAsModelled = true := by decide

/-- `_do_restore` still walks `focused_child` from the root, stopping at the first invisible window. -/
theorem src_restore_walk : Tickit.Gen.WinFocusSrc.restoreWalkAsModelled = true := by decide

/-- The condition under which `_do_restore` shows the cursor is the one the model transcribes. -/
theorem src_restore_condition :
    Tickit.Gen.WinFocusSrc.restoreCondition =
      (if Tickit.Gen.WinFocusSrc.fixes.hiddenRoot then
         ["win", "win->is_visible", "win->is_focused", "win->cursor.visible",
          "_cell_visible(win,win->cursor.line,win->cursor.col)"]
       else
         ["win", "win->is_focused", "win->cursor.visible", "_cell_visible(win,win->cursor.line,win->cursor.col)"]) := by
  decide

/-! ### non-vacuity -/

/-- A three-level tree with an overlapping sibling, a hidden window and a focus chain: the hypotheses of the theorems
    above are inhabited by a non-trivial state, and the conclusion is not the trivial "hidden". -/
def demoTree : Tree :=
  { wins := #[{ rect := ⟨0, 0, 8, 16⟩, isRoot := true, children := [2, 1], focusedChild := some 1 },
              { rect := ⟨1, 1, 5, 8⟩, parent := some 0, children := [3], focusedChild := some 3, isFocused := true },
              { rect := ⟨4, 6, 3, 6⟩, parent := some 0 },
              { rect := ⟨1, 1, 3, 5⟩, parent := some 1, isFocused := true,
                cursor := { line := 1, col := 2, shape := 2, visible := true, blink := 1 } }],
    root := { needsRestore := true, needsLater := true } }

example : wfB demoTree = true := by decide
example : rootVisible demoTree = true := by decide
example : cursorSpec demoTree = some (3, 4, 2) := by decide
example : ∃ calls, doRestore Fixes.none demoTree = .ok calls ∧
    (({} : TermCursor).applyAll calls).matches (cursorSpec demoTree) = true ∧ calls.length = 4 := by
  refine ⟨[.goto 3 4, .shape 2, .blink 1, .vis 1], by decide, by decide, rfl⟩
/-- the same cell covered by the front sibling: hidden -/
example : cursorSpec { demoTree with wins := demoTree.wins.modify 3 (fun w => { w with cursor := { w.cursor with line := 2, col := 4 } }) } = none := by
  decide
example : ∃ out, flush Fixes.none demoTree = .ok out ∧ out.calls = [.goto 3 4, .shape 2, .blink 1, .vis 1] := by
  refine ⟨_, rfl, by decide⟩
example : ∃ r, takeFocus Fixes.none demoTree 2 = .ok r ∧
    r.2 = [⟨3, .focusOut, 3⟩, ⟨1, .focusOut, 1⟩, ⟨2, .focusIn, 2⟩] := by
  refine ⟨_, rfl, by decide⟩
example : holder childFocusedTree = some 1 := by decide
/-- `loser_told_partial` is not vacuous: in `demoTree` window 3 holds the focus and its cousin 2 can take it -/
example : holder demoTree = some 3 ∧ VisPath demoTree 2 ∧ Anc demoTree 2 0 ∧ ¬ Anc demoTree 3 2 ∧ ¬ Anc demoTree 2 3 := by
  refine ⟨by decide, .step (w := demoTree.wins[2]) rfl rfl rfl rfl (.top (w := demoTree.wins[0]) rfl rfl rfl),
    .step (w := demoTree.wins[2]) ⟨rfl, rfl⟩ rfl (.refl 0), ?_, ?_⟩
  · intro h
    cases h with
    | step hw hp hrest =>
      have hw3 := live_unique hw (⟨rfl, rfl⟩ : Live demoTree 3 demoTree.wins[3])
      subst hw3
      cases hp
      have := anc_le (by decide : wfB demoTree = true) hrest
      omega
  · intro h
    have := anc_le (by decide : wfB demoTree = true) h
    omega
/-- `branch_told_out` is not vacuous: window 1 (asking) sits above the holder 3; its cousin 2 takes the focus -/
def demoTreeNotify : Tree :=
  { demoTree with wins := demoTree.wins.modify 1 (fun w => { w with focusChildNotify := true }) }
example : Reaches demoTreeNotify 2 0 2 ∧ FcChain demoTreeNotify 1 1 ∧
    (∃ r, takeFocus Fixes.all demoTreeNotify 2 = .ok r ∧
      r.2 = [⟨3, .focusOut, 3⟩, ⟨1, .focusOut, 3⟩, ⟨1, .focusOut, 1⟩, ⟨2, .focusIn, 2⟩]) :=
  ⟨.here (w := demoTreeNotify.wins[2]) rfl rfl rfl rfl, .here 1, _, rfl, by decide⟩
example : Reaches demoTree 3 0 1 :=
  .up (w := demoTree.wins[3]) rfl rfl rfl rfl (.here (w := demoTree.wins[1]) rfl rfl rfl rfl)
example : VisPath demoTree 3 :=
  .step (w := demoTree.wins[3]) rfl rfl rfl rfl (.step (w := demoTree.wins[1]) rfl rfl rfl rfl (.top (w := demoTree.wins[0]) rfl rfl rfl))
/-- a short history through the history-level vocabulary: create, focus, flush -/
example : ∃ s, runOps Fixes.none { tree := newRoot 6 10 }
    [.newWin 0 ⟨1, 1, 3, 3⟩ false false false false, .curpos 1 1 2, .focus 1, .flush] = .ok s ∧
    s.term.matches (cursorSpec s.tree) = true ∧ cursorSpec s.tree = some (2, 3, 1) := by
  refine ⟨_, rfl, by decide, by decide⟩
/-- a history with restacking: two overlapping siblings, the focused one's cursor cell lies in the overlap; behind its
    sibling the cursor is hidden, raised to the front it shows, lowered again it is hidden (repaired source) -/
def restackOps1 : List Op :=
  [.newWin 0 ⟨1, 1, 3, 3⟩ false false false false, .newWin 0 ⟨2, 2, 3, 3⟩ false false false false,
   .curpos 1 1 1, .focus 1, .flush]
example : (∀ op ∈ restackOps1 ++ [.restack .raiseFront 1], op.plain) := by
  intro op h; simp [restackOps1] at h; rcases h with h | h | h | h | h | h <;> subst h <;> simp [Op.plain, Change.isRestack]
example : ∃ s, runOps Fixes.all { tree := newRoot 6 10 } restackOps1 = .ok s ∧ cursorSpec s.tree = none ∧
    s.term.matches none = true := by
  refine ⟨_, rfl, by decide, by decide⟩
example : ∃ s, runOps Fixes.all { tree := newRoot 6 10 } (restackOps1 ++ [.restack .raiseFront 1, .flush]) = .ok s ∧
    cursorSpec s.tree = some (2, 2, 1) ∧ s.term.matches (some (2, 2, 1)) = true := by
  refine ⟨_, rfl, by decide, by decide⟩
example : ∃ s, runOps Fixes.all { tree := newRoot 6 10 }
      (restackOps1 ++ [.restack .raiseFront 1, .flush, .restack .lower 1, .flush]) = .ok s ∧
    cursorSpec s.tree = none ∧ s.term.matches none = true := by
  refine ⟨_, rfl, by decide, by decide⟩

/-- the mock terminal: a window with an explicit blink mode and a bar cursor; the mock reports shape 2 (not the blink
    value), position 3,4, visible -/
example : ∃ out, flush Fixes.none demoTree = .ok out ∧
    TermCursor.mockInit.applyAllMock 8 12 out.calls = { vis := 1, line := 3, col := 4, shape := 2, blink := 1 } := by
  refine ⟨_, rfl, ?_⟩; decide
/-- the terminal shrinks through the focused window: the hypotheses of `resize_preserves_good` and of the resize
    theorems hold of `shrinkTree`, and the event changes what the cursor has to be -/
example : Good15 shrinkTree := good15_of_B (by decide)
example : cursorSpec shrinkTree = some (2, 2, 1) := by decide
example : ∃ t', termResize Fixes.all shrinkTree 2 2 = .ok t' ∧ cursorSpec t' = none ∧ t'.root.needsRestore = true := by
  refine ⟨_, rfl, ?_, ?_⟩ <;> decide
/-- a history with a resize through the focused window and back: hidden after the first flush, shown again after the second -/
example : ∃ s, runOps Fixes.all { tree := newRoot 6 10 }
    [.newWin 0 ⟨1, 1, 3, 3⟩ false false false false, .curpos 1 1 1, .focus 1, .flush, .termResize 2 2, .flush] = .ok s ∧
    s.term.vis = 0 := by
  refine ⟨_, rfl, ?_⟩; decide
example : ∃ s, runOps Fixes.all { tree := newRoot 6 10 }
    [.newWin 0 ⟨1, 1, 3, 3⟩ false false false false, .curpos 1 1 1, .focus 1, .flush, .termResize 2 2, .flush,
     .termResize 6 10, .flush] = .ok s ∧ s.term = { vis := 1, line := 2, col := 2, shape := 1, blink := -1 } := by
  refine ⟨_, rfl, ?_⟩; decide

/-- a history on the mock terminal: blink mode set explicitly, bar cursor, a resize through the window and back -/
example : ∃ s, runOpsMock Fixes.all { tree := newRoot 6 10, lines := 6, cols := 10 }
    [.newWin 0 ⟨1, 1, 3, 3⟩ false false false false, .curshape 1 3, .curblink 1 1, .curpos 1 1 1, .focus 1, .flush] = .ok s ∧
    s.term = { vis := 1, line := 2, col := 2, shape := 3, blink := 1 } := by
  refine ⟨_, rfl, ?_⟩; decide
example : ∃ s, runOpsMock Fixes.all { tree := newRoot 6 10, lines := 6, cols := 10 }
    [.newWin 0 ⟨1, 1, 3, 3⟩ false false false false, .curshape 1 3, .curblink 1 1, .curpos 1 1 1, .focus 1, .flush,
     .termResize 2 2, .flush] = .ok s ∧ s.term = { vis := 0, line := 1, col := 1, shape := 3, blink := 1 } := by
  refine ⟨_, rfl, ?_⟩; decide

/-- `hide_show_roundtrip` is not vacuous: the focused window sits two levels below the window that is hidden and shown -/
example : wfB deepChainTree = true := by decide
example : cursorSpec deepChainTree = some (1, 2, 1) := by decide
example : ∃ t1 t2, hideWin Fixes.all deepChainTree 1 = .ok t1 ∧ wfB t1 = true ∧ cursorSpec t1 = none ∧
    showWin Fixes.all t1 1 = .ok t2 ∧ cursorSpec t2 = some (1, 2, 1) ∧ t2.root.needsRestore = true := by
  refine ⟨_, _, rfl, ?_, ?_, rfl, ?_, ?_⟩ <;> decide
/-- `restore_requested_reposition`: the focused window moves outside its parent; a restore is pending and the cursor has
    to go -/
example : ∃ t', reposition deepChainTree 3 20 40 = .ok t' ∧ t'.root.needsRestore = true ∧ cursorSpec t' = none := by
  refine ⟨_, rfl, ?_, ?_⟩ <;> decide

/-- bursts of restacking requests through the history-level vocabulary: the hypotheses of `history_restack_order` are
    satisfiable, and the library (model) does what `cursorSpecReq` says in both orders -/
example : (∀ r ∈ [(Change.raiseFront, 2), (Change.raiseFront, 1)], r.1.isRestack = true) := by decide
example : ∃ s, runOps Fixes.all { tree := newRoot 6 10 }
      (restackOps1 ++ reqOps [(.raiseFront, 2), (.raiseFront, 1)] ++ [.flush]) = .ok s ∧
    cursorSpec s.tree = some (2, 2, 1) ∧ s.term.matches (some (2, 2, 1)) = true := by
  refine ⟨_, rfl, by decide, by decide⟩
example : ∃ s, runOps Fixes.all { tree := newRoot 6 10 }
      (restackOps1 ++ reqOps [(.raiseFront, 1), (.raiseFront, 2)] ++ [.flush]) = .ok s ∧
    cursorSpec s.tree = none ∧ s.term.matches none = true := by
  refine ⟨_, rfl, by decide, by decide⟩
example : stackSpec .raise [3, 1, 2] 2 = [3, 2, 1] ∧ stackSpec .lower [3, 1, 2] 3 = [1, 3, 2] ∧
    stackSpec .raiseFront [3, 1, 2] 2 = [2, 3, 1] ∧ stackSpec .lowerBack [3, 1, 2] 3 = [1, 2, 3] ∧
    stackSpec .raise [3, 1, 2] 3 = [3, 1, 2] ∧ stackSpec .lower [3, 1, 2] 2 = [3, 1, 2] ∧ stackSpec .raise [3, 1, 2] 7 = [3, 1, 2] := by
  decide

end Tickit.Props.C15
