import Tickit.Model.WinFlush
import Tickit.Model.WinSpec
import Tickit.Model.WinTextf
import Tickit.Model.VT
import Tickit.Driver.Common
/-
  Engine `win` (C01, C02).  Operations and observation format: see harness/win.c.

  Model observation: the tree (public queries), the expose events of a flush and the grid, printed exactly as the
  harness prints them.  Specification verdict, evaluated on the *implementation's* observation:
    C01  after every flush the implementation's grid equals `WinSpec.compose` of the implementation's tree
         (parsed from its public queries) and the windows' content functions;
    C02  every rectangle handed to a handler lies inside its window, the rectangles handed to one window in one
         flush are pairwise disjoint, and every cell the flush changed was written by the window that owns it in the
         composition (the writer is identified by the foreground tag `id + 1` every window draws with) and lies in
         the damaged region (the rectangles handed to the root).
  Second configuration (scroll oracle `m`): the library's mock terminal; `resize` there is `tickit_mockterm_resize` (the
  harness sets the default pen first), modelled by the same `termResize` (`Proof/WinMockResize.lean`: `mockResize_screen`).
  Handler instruction `F` / `f`: `tickit_renderbuffer_textf_at` with format "%*s" (`Model/WinTextf.lean`).
  Third configuration (scroll oracle `x`): the terminal is the library's xterm driver writing to an output function.  The
  harness prints no grid but the bytes the terminal was sent during each operation; they are interpreted here by the VT
  reference interpreter of C09 (`Model/VT.lean`: glyph, background colour and reverse video of every cell) and the screen
  it arrives at is *the implementation's grid* for every clause above (cells compared on glyph, background and reverse
  video; the writer tag is the background colour `id + 1`).  The model cannot print bytes: its observation repeats the
  `X=` token, the model's screen is re-synchronised with the interpreted screen after every operation, and at a flush the
  screen the bytes produce must be the previous screen overlaid with the model's flushed render buffer.
  Two clauses keep state of their own, fed only by the operation lines and the implementation's observations (never by
  the model state):
    z-order (C01, also run for C02)  an abstract child list per window: the implementation's lists as observed after the
         previous flush, new windows inserted first (last with `l`), closed windows removed, and at the flush the restack
         requests made since applied *in the order they were made* (raise / lower = one step, raise_to_front,
         lower_to_back; a request whose window or an ancestor of it was closed meanwhile is dropped); the child lists the
         implementation reports after the flush must be these.
    damage (C02)  an abstract damage region (rectangles in root coordinates, reset at every flush) accumulated from the
         operations by the property's own definition - an expose of `e` in window `w` damages `e ∩ w` clipped to the
         bounds of every ancestor, nothing when `w` or an ancestor is hidden (`exposedRegion`, the executable
         `WinTree.ExposedRegion`) - with sound over-approximations for restacks and scrolls; every rectangle handed to
         a handler and every cell the flush changed must lie inside it.
-/
namespace Tickit.Driver.WinEngine
open Tickit Tickit.Driver Tickit.WinTree Tickit.WinRB Tickit.WinFlush

/-! ### array-backed screen (re-tabulated after every operation) -/

structure Tab where
  lines : Nat := 0
  cols : Nat := 0
  data : Array Cell := #[]
deriving Inhabited

def Tab.get (t : Tab) (l c : Int) : Cell :=
  if 0 ≤ l ∧ l < t.lines ∧ 0 ≤ c ∧ c < t.cols then t.data.getD (l.toNat * t.cols + c.toNat) Cell.never
  else Cell.never

def Tab.ofFn (lines cols : Nat) (f : Int → Int → Cell) : Tab :=
  { lines := lines, cols := cols,
    data := Array.ofFn (n := lines * cols) fun i => f ((i.val / cols : Nat) : Int) ((i.val % cols : Nat) : Int) }

/-! ### handler programs -/

inductive Instr where
  | paint
  | erase (rel : Bool) (a b c d : Int)
  | skip (rel : Bool) (a b c d : Int)
  | clip (a b c d : Int)
  | text (rel : Bool) (l c : Int) (s : List Nat)
  | char (rel : Bool) (l c : Int) (cp : Nat)
  | clear
  | setpen (bg : Option Int) (b : Option Bool) (rv : Option Bool)
  | xlate (d r : Int)
  | hline (rel : Bool) (line c0 c1 : Int) (style caps : Int)
  | vline (rel : Bool) (l0 l1 col : Int) (style caps : Int)
  | copy (move : Bool) (dt dl st sl n k : Int)
  | save
  | savepen
  | restore
  /-- `tickit_window_expose` from inside the handler: of window `id` (whole window or a literal rectangle), or of the
      handler's own window with a rectangle relative to the handed one -/
  | exposeWin (id : Nat) (r : Option Rect)
  | exposeOwn (a b c d : Int)
deriving Repr, Inhabited

def field? (s : String) : Option (Option Int) :=
  if s = "x" then some none else (s.toInt?).map some

/-- Code points of a (valid) UTF-8 byte sequence. -/
def utf8Decode : List Nat → List Nat
  | [] => []
  | b :: rest =>
    if b < 0x80 then b :: utf8Decode rest
    else if b < 0xe0 then
      match rest with
      | b1 :: r => ((b % 32) * 64 + b1 % 64) :: utf8Decode r
      | _ => []
    else if b < 0xf0 then
      match rest with
      | b1 :: b2 :: r => ((b % 16) * 4096 + (b1 % 64) * 64 + b2 % 64) :: utf8Decode r
      | _ => []
    else
      match rest with
      | b1 :: b2 :: b3 :: r => ((b % 8) * 262144 + (b1 % 64) * 4096 + (b2 % 64) * 64 + b3 % 64) :: utf8Decode r
      | _ => []
termination_by l => l.length

def parseInstr (tok : String) : Option Instr :=
  match tok.splitOn ":" with
  | ["P"] => some .paint
  | ["K"] => some .clear
  | ["V"] => some .save
  | ["v"] => some .savepen
  | ["R"] => some .restore
  | [k, a, b, c, d, e, f] =>
    match ints? [a, b, c, d, e, f] with
    | some [a, b, c, d, e, f] =>
      if k = "Y" then some (.copy false a b c d e f) else if k = "M" then some (.copy true a b c d e f) else none
    | _ => none
  | [k, a, b, c, d] =>
    if k = "F" ∨ k = "f" then
      -- tickit_renderbuffer_textf_at(rb, l, c, "%*s", pad, bytes): put_text of the formatted bytes (Model/WinTextf.lean)
      match ints? [a, b, c], hexBytes? d with
      | some [l, cc, pad], some bytes =>
        if bytes.isEmpty ∨ pad < 0 ∨ pad > 4096 ∨ bytes.any (· == 0) then none
        else some (.text (k = "f") l cc (utf8Decode (putVtextf {} (formatPad pad.toNat (bytes.map (·.toNat)))).1))
      | _, _ => none
    else
    match ints? [a, b, c, d] with
    | some [a, b, c, d] =>
      if k = "E" then some (.erase false a b c d) else if k = "e" then some (.erase true a b c d)
      else if k = "S" then some (.skip false a b c d) else if k = "s" then some (.skip true a b c d)
      else if k = "L" then some (.clip a b c d)
      else if k = "z" then some (.exposeOwn a b c d) else none
    | _ => none
  | ["Z", i] => (i.toNat?).map fun i => .exposeWin i none
  | ["Z", i, a, b, c, d] =>
    match i.toNat?, ints? [a, b, c, d] with
    | some i, some [a, b, c, d] => some (.exposeWin i (some ⟨a, b, c, d⟩))
    | _, _ => none
  | [k, a, b, c, d, e] =>
    match ints? [a, b, c, d, e] with
    | some [a, b, c, d, e] =>
      if k = "H" ∨ k = "h" then some (.hline (k = "h") a b c d e)
      else if k = "I" ∨ k = "i" then some (.vline (k = "i") a b c d e) else none
    | _ => none
  | [k, a, b, c] =>
    if k = "T" ∨ k = "t" then
      match ints? [a, b], hexBytes? c with
      | some [l, cc], some bytes => if bytes.isEmpty then none else some (.text (k = "t") l cc (utf8Decode (bytes.map (·.toNat))))
      | _, _ => none
    else if k = "C" ∨ k = "c" then
      match ints? [a, b, c] with
      | some [l, cc, cp] => some (.char (k = "c") l cc cp.toNat)
      | _ => none
    else if k = "N" then
      match field? a, field? b, field? c with
      | some bg, some bo, some rv => some (.setpen bg (bo.map (· ≠ 0)) (rv.map (· ≠ 0)))
      | _, _, _ => none
    else none
  | [k, a, b] =>
    if k = "N" then
      match field? a, field? b with
      | some bg, some bo => some (.setpen bg (bo.map (· ≠ 0)) none)
      | _, _ => none
    else if k = "X" then
      match ints? [a, b] with
      | some [d, r] => some (.xlate d r)
      | _ => none
    else none
  | _ => none

/-! ### content functions (the application's model of its own content) -/

/-- A glyph; `+ 1000` when it carries a combining acute accent (U+0301). -/
def baseGlyph (w : Nat) (l c : Int) : Nat :=
  let v := (l * 7 + c * 3 + (w : Int) * 11) % 19
  if v < 5 then 32
  else
    let g := 33 + ((l * 13 + c * 5 + (w : Int) * 17) % 90).toNat
    if (l * 5 + c * 11 + (w : Int) * 3) % 7 = 0 then g + 1000 else g

/-- Shifts, newest first: a scroll of `rect` by `(d, r)` moved the content. -/
def glyphAt (w : Nat) : List (Rect × Int × Int) → Int → Int → Nat
  | [], l, c => baseGlyph w l c
  | (rect, d, r) :: older, l, c => if rect.memb l c then glyphAt w older (l + d) (c + r) else glyphAt w older l c

/-- The runs of non-blank glyphs of one line: `(start column, glyphs)`. -/
def lineRuns (g : Int → Nat) (left : Int) (n : Nat) : List (Int × List Nat) :=
  let rec go (k : Nat) (fuel : Nat) (cur : Option (Int × List Nat)) (acc : List (Int × List Nat)) : List (Int × List Nat) :=
    match fuel with
    | 0 => acc.reverse
    | fuel + 1 =>
      let col := left + k
      let gl := if k < n then g col else 32
      if gl ≠ 32 then
        match cur with
        | none => go (k + 1) fuel (some (col, [gl])) acc
        | some (s, gs) => go (k + 1) fuel (some (s, gl :: gs)) acc
      else
        match cur with
        | none => go (k + 1) fuel none acc
        | some (s, gs) => go (k + 1) fuel none ((s, gs.reverse) :: acc)
  go 0 (n + 1) none []

/-- The well-behaved handler: erase the rectangle, then draw the non-blank runs of every line. -/
def paintProg (glyph : Int → Int → Nat) (rect : Rect) : List DrawOp :=
  DrawOp.eraseRect rect ::
    (List.range rect.lines.toNat).flatMap fun (i : Nat) =>
      let line := rect.top + (i : Int)
      (lineRuns (glyph line) rect.left rect.cols.toNat).map fun (s, gs) =>
        DrawOp.textAt line s (gs.flatMap fun g => if g ≥ 1000 then [g % 1000, 0x301] else [g])

/-- Every cell of `src` (buffer coordinates) belongs to window `id` in the composition of `t`: a handler copies cells of
    its own window only (the harness does not call `copyrect` / `moverect` otherwise). -/
def ownsAll (t : Tree) (id : Nat) (src : Rect) : Bool :=
  decide (0 < src.lines) && decide (src.lines ≤ 64) && decide (0 < src.cols) && decide (src.cols ≤ 256) &&
  (List.range src.lines.toNat).all fun (i : Nat) => (List.range src.cols.toNat).all fun (j : Nat) =>
    (WinSpec.ownerAt t (src.top + (i : Int)) (src.left + (j : Int))).map (·.1) == some id

def instrOps (t : Tree) (id : Nat) (glyph : Int → Int → Nat) (rect : Rect) : Instr → List DrawOp
  | .paint => paintProg glyph rect
  | .erase rel a b c d =>
    [.eraseRect (if rel then ⟨rect.top + a, rect.left + b, rect.lines + c, rect.cols + d⟩ else ⟨a, b, c, d⟩)]
  | .skip rel a b c d =>
    [.skipRect (if rel then ⟨rect.top + a, rect.left + b, rect.lines + c, rect.cols + d⟩ else ⟨a, b, c, d⟩)]
  | .clip a b c d => [.clip ⟨a, b, c, d⟩]
  | .text rel l c s => [.textAt (if rel then rect.top + l else l) (if rel then rect.left + c else c) s]
  | .char rel l c cp => [.charAt (if rel then rect.top + l else l) (if rel then rect.left + c else c) cp]
  | .clear => [.clear]
  | .setpen bg b rv => [.setPen { fg := some ((id : Int) + 1), bg := bg, b := b, rv := rv }]
  | .xlate d r => [.translate d r]
  | .hline rel l c0 c1 st caps =>
    if 1 ≤ st ∧ st ≤ 3 ∧ 0 ≤ caps ∧ caps ≤ 3 then
      [.hline (if rel then rect.top + l else l) (if rel then rect.left + c0 else c0) (if rel then rect.left + c1 else c1)
        st.toNat caps.toNat]
    else []
  | .vline rel l0 l1 c st caps =>
    if 1 ≤ st ∧ st ≤ 3 ∧ 0 ≤ caps ∧ caps ≤ 3 then
      [.vline (if rel then rect.top + l0 else l0) (if rel then rect.top + l1 else l1) (if rel then rect.left + c else c)
        st.toNat caps.toNat]
    else []
  | .copy mv dt dl st sl n k =>
    if !ownsAll t id ⟨st, sl, n, k⟩ then []
    else if mv then [.moveRect ⟨dt, dl, n, k⟩ ⟨st, sl, n, k⟩] else [.copyRect ⟨dt, dl, n, k⟩ ⟨st, sl, n, k⟩]
  | .save => [.save]
  | .savepen => [.savepen]
  | .restore => [.restore]
  | .exposeWin _ _ => []
  | .exposeOwn _ _ _ _ => []

/-! ### driver state -/

structure DSt where
  prop : Nat := 1
  st : Option St := none
  dead : Option String := none          -- the model reached undefined behaviour
  scr : Tab := {}
  mode : Nat := 0                        -- 0 accept, 1 partial, 2 refuse, 3 the library's mock terminal (its rule = partial), 4 the xterm driver
  vt : Option VT.VTState := none         -- mode 4: the reference terminal the implementation's bytes are interpreted on
  behs : Array (Option (List Instr)) := #[]
  shifts : Array (List (Rect × Int × Int)) := #[]
  closed : Array Bool := #[]
  prevGrid : Option (Array (Array Cell)) := none     -- the implementation's grid before this operation
  unclipped : Bool := false     -- the history scrolled a region extending beyond an ancestor's bounds (diagnostic note only; the defect it pointed at is repaired: 8032ab5)
  -- specification state: from the operation lines and the implementation's observations only
  obsTree : Option Tree := none                      -- the implementation's tree as observed after the previous operation
  zKids : Array (List Id) := #[]                     -- abstract child lists (front-most first), by parent id
  zReqs : List (Change × Id) := []                   -- restack requests made since the previous flush, oldest first
  dmg : List Rect := []                              -- abstract damage since the previous flush, root coordinates
deriving Inhabited

/-- `t`: the tree the handlers run in (the queued restack requests applied). -/
def mkBeh (behs : Array (Option (List Instr))) (shifts : Array (List (Rect × Int × Int))) (t : Tree) : Id → Rect → List DrawOp :=
  fun id rect =>
    let glyph := glyphAt id (shifts.getD id [])
    match (behs.getD id none) with
    | none => paintProg glyph rect
    | some prog => prog.flatMap (instrOps t id glyph rect)

/-- The exposes a window's handler makes (targets that do not exist or are closed are skipped, as in the harness). -/
def mkBehExp (behs : Array (Option (List Instr))) (closed : Array Bool) : Id → Rect → List (Id × Option Rect) :=
  fun id rect =>
    match (behs.getD id none) with
    | none => []
    | some prog => prog.filterMap fun
      | .exposeWin i r => if closed.getD i true then none else some (i, r)
      | .exposeOwn a b c d => some (id, some ⟨rect.top + a, rect.left + b, rect.lines + c, rect.cols + d⟩)
      | _ => none

def oracleOf (mode : Nat) : Oracle := fun tl tc rect d r =>
  if mode = 0 then true
  else if mode = 2 then false
  else if mode = 4 then
    -- scrollrect of src/termdriver-xterm.c without the DECSLRM capability (the start-up probe is never answered)
    if d = 0 ∧ r = 0 then true
    else if rect.right = tc ∧ d = 0 then true                                  -- ICH / DCH on every line
    else if rect.left = 0 ∧ rect.cols = tc ∧ r = 0 then decide (rect.lines ≥ 2)   -- DECSTBM + IL / DL
    else false
  else
    if d = 0 ∧ r = 0 then true
    else if rect.top < 0 ∨ rect.left < 0 ∨ rect.bottom > tl ∨ rect.right > tc then false
    else if rect.left = 0 ∧ rect.right = tc ∧ r = 0 then true
    else if rect.right = tc ∧ d = 0 then true
    else false

/-! ### printing -/

def glyphChars (g : Nat) : List Char :=
  if g = 32 then ['.', '~'] else if g = 0 then ['}', '}'] else if 33 ≤ g ∧ g ≤ 122 then ['.', Char.ofNat g]
  else if 0xff01 ≤ g ∧ g ≤ 0xff5e then ['W', Char.ofNat (g - 0xfee0)]
  else if 0x2500 ≤ g ∧ g ≤ 0x257f then
    [Char.ofNat (98 + (g - 0x2500) / 16), "0123456789abcdef".toList.getD (g % 16) '0']
  else ['{', '{']

def colourChar (v : Int) : Char :=
  if -1 ≤ v ∧ v ≤ 40 then Char.ofNat (48 + (v + 1).toNat) else '!'

def cellChars (x : Cell) : List Char :=
  glyphChars x.glyph ++ [colourChar x.fg, colourChar x.bg, Char.ofNat (48 + (if x.b then 1 else 0) + (if x.rv then 2 else 0))]

def showGrid (t : Tab) : String :=
  "|".intercalate ((List.range t.lines).map fun (l : Nat) =>
    String.ofList ((List.range t.cols).flatMap fun (c : Nat) => cellChars (t.get (l : Int) (c : Int))))

def showTree (t : Tree) : String :=
  "|".intercalate ((List.range t.wins.size).map fun i =>
    match t.wins[i]? with
    | none => s!"{i},?"
    | some w =>
      if w.isClosed then s!"{i},x"
      else
        let p : Int := match w.parent with | some p => p | none => -1
        let ch := if w.children.isEmpty then "-" else ".".intercalate (w.children.map toString)
        s!"{i},{p},{w.rect.top},{w.rect.left},{w.rect.lines},{w.rect.cols},{if w.isVisible then 1 else 0},{ch}")

def showEvents (evs : List Ev) : String :=
  if evs.isEmpty then "-" else
  ";".intercalate (evs.map fun (id, r) => s!"{id}:{r.top},{r.left},{r.lines},{r.cols}")

def showObs (ret : Nat) (t : Tree) (evs : Option (List Ev)) (grid : Option Tab) : String :=
  s!"r={ret} T={showTree t} E={match evs with | some e => showEvents e | none => "-"} G={match grid with | some g => showGrid g | none => "-"}"

/-! ### parsing the implementation's observation -/

structure ImplObs where
  ret : Nat
  tree : Tree
  evs : List Ev
  grid : Option (Array (Array Cell))
  xtok : Option String := none            -- mode 4: the `X=` token (hex bytes)
  wtok : Option String := none            -- C02: the `W=` token (the buffer cells every handler invocation changed)

def hexVal (ch : Char) : Nat :=
  if '0' ≤ ch ∧ ch ≤ '9' then ch.toNat - 48 else if 'a' ≤ ch ∧ ch ≤ 'f' then ch.toNat - 87 else 0

def charGlyph (k ch : Char) : Nat :=
  if k = '}' then 0 else if k = 'W' then ch.toNat + 0xfee0 else if k = '{' then 0xfffd
  else if 'b' ≤ k ∧ k ≤ 'i' then 0x2500 + (k.toNat - 98) * 16 + hexVal ch
  else if ch = '~' then 32 else ch.toNat

def parseRow (s : String) : Array Cell :=
  let rec go : List Char → Array Cell → Array Cell
    | k :: g :: f :: b :: o :: rest, acc =>
      go rest (acc.push { glyph := charGlyph k g, fg := (f.toNat : Int) - 49, bg := (b.toNat : Int) - 49,
                          b := o = '1' ∨ o = '3', rv := o = '2' ∨ o = '3' })
    | _, acc => acc
  go s.toList #[]

def parseGrid (s : String) : Option (Array (Array Cell)) :=
  if s = "-" then none else some ((s.splitOn "|").map parseRow).toArray

def parseEvents (s : String) : List Ev :=
  if s = "-" then [] else
  (s.splitOn ";").filterMap fun e =>
    match e.splitOn ":" with
    | [id, r] => match id.toNat?, ints? (r.splitOn ",") with
      | some id, some [t, l, n, k] => some (id, ⟨t, l, n, k⟩)
      | _, _ => none
    | _ => none

/-- The implementation's tree, from its public queries.  Closed windows are hidden orphans. -/
def parseTree (s : String) : Tree :=
  let wins := (s.splitOn "|").map fun w =>
    match w.splitOn "," with
    | [_, p, t, l, n, k, v, ch] =>
      match ints? [p, t, l, n, k, v] with
      | some [p, t, l, n, k, v] =>
        ({ parent := if p < 0 then none else some p.toNat, rect := ⟨t, l, n, k⟩, isVisible := v ≠ 0,
           children := if ch = "-" then [] else (ch.splitOn ".").filterMap (·.toNat?) } : Win)
      | _ => ({ isVisible := false, isClosed := true } : Win)
    | _ => ({ isVisible := false, isClosed := true } : Win)
  { wins := wins.toArray }

def parseImpl (line : String) : Option ImplObs :=
  let core (r t e g : String) (x : Option String) : Option ImplObs :=
    if r.startsWith "r=" ∧ t.startsWith "T=" ∧ e.startsWith "E=" ∧ g.startsWith "G=" then
      some { ret := ((r.drop 2).toString.toNat?).getD 0, tree := parseTree (t.drop 2).toString,
             evs := parseEvents (e.drop 2).toString, grid := parseGrid (g.drop 2).toString, xtok := x }
    else none
  match toks line with
  | r :: t :: e :: g :: rest =>
    if rest.all (fun x => x.startsWith "X=" ∨ x.startsWith "W=") ∧ rest.length ≤ 2 then
      (core r t e g ((rest.find? (·.startsWith "X=")).map fun x => (x.drop 2).toString)).map fun o =>
        { o with wtok := (rest.find? (·.startsWith "W=")).map fun x => (x.drop 2).toString }
    else none
  | _ => none

/-- The `W=` token: per handler invocation the window and the runs `(line, col, len)` of buffer cells it changed. -/
def parseWrites (s : String) : Option (List (Nat × List (Int × Int × Int))) :=
  if s = "-" then some [] else
  (s.splitOn ";").mapM fun (e : String) =>
    match e.splitOn "@" with
    | [id, runs] =>
      match id.toNat? with
      | none => none
      | some id =>
        if runs = "-" then some (id, [])
        else ((runs.splitOn ",").mapM fun (r : String) =>
          match ints? (r.splitOn ".") with
          | some [l, c, n] => some (l, c, n)
          | _ => none).map fun rs => (id, rs)
    | _ => none

/-! ### the xterm configuration: bytes → screen -/

/-- Interpret bytes on the reference terminal, re-tabulating the screen every 256 bytes (speed only). -/
def vtFeed (vt : VT.VTState) (bytes : List UInt8) : VT.VTState :=
  let rec go (fuel : Nat) (vt : VT.VTState) (bs : List UInt8) : VT.VTState :=
    match fuel with
    | 0 => vt
    | fuel + 1 => if bs.isEmpty then vt else go fuel (VT.run (bs.take 256) vt).compact (bs.drop 256)
  go (bytes.length / 256 + 2) vt bytes

/-- A cell of the reference terminal as a grid cell: it knows glyph, background and reverse video only. -/
def cellOfVT (x : VT.Cell) : Cell := { glyph := x.glyph, fg := -1, bg := x.bg, b := false, rv := x.rv }

def gridOfVT (vt : VT.VTState) : Array (Array Cell) :=
  Array.ofFn (n := vt.lines.toNat) fun l => Array.ofFn (n := vt.cols.toNat) fun c => cellOfVT (vt.grid (l.val : Int) (c.val : Int))

/-- Equality of what two cells show; in the xterm configuration on glyph, background and reverse video. -/
def sameCell (x : Bool) (a b : Cell) : Bool :=
  if x then a.glyph == b.glyph && a.bg == b.bg && a.rv == b.rv else decide (a = b)

/-! ### specification -/

/-- The pen `_do_expose` establishes for a window: its own pen over its ancestors'. -/
def effPen (t : Tree) (pens : Array (Option Pen)) : Nat → Id → Pen
  | 0, _ => {}
  | fuel + 1, id =>
    let parentEff : Pen := match (t.wins[id]?).bind (·.parent) with
      | some p => effPen t pens fuel p
      | none => {}
    match winPen pens id with
    | some p => Pen.copy (Pen.copy {} p true) parentEff false
    | none => parentEff

def specC01 (d : DSt) (pens : Array (Option Pen)) (o : ImplObs) : String :=
  match o.grid with
  | none => "no grid in the observation of a flush"
  | some g =>
    let t := o.tree
    let content : Id → Int → Int → Cell := fun w l c =>
      Cell.ofPen (effPen t pens (t.wins.size + 1) w) (glyphAt w (d.shifts.getD w []) l c % 1000)
    let bad := (List.range g.size).findSome? fun (l : Nat) =>
      (List.range (g.getD l #[]).size).findSome? fun (c : Nat) =>
        match WinSpec.compose t content (l : Int) (c : Int) with
        | none => none
        | some want =>
          let got := (g.getD l #[]).getD c Cell.never
          if sameCell (d.mode = 4) got want then none
          else some s!"cell ({l},{c}) shows {String.ofList (cellChars got)}, the composition says {String.ofList (cellChars want)} (window {((WinSpec.ownerAt t (l : Int) (c : Int)).map (·.1)).getD 0})"
    bad.getD ""

def pairwiseDisjoint : List Rect → Bool
  | [] => true
  | r :: rs => rs.all (fun q => !(r.intersects q)) && pairwiseDisjoint rs

def specC02 (d : DSt) (o : ImplObs) : String :=
  let t := o.tree
  -- handed rectangles: inside the window, and per window pairwise disjoint
  let e1 := o.evs.findSome? fun (id, r) =>
    match t.wins[id]? with
    | none => some s!"event for unknown window {id}"
    | some w =>
      if 0 < r.lines ∧ 0 < r.cols ∧ 0 ≤ r.top ∧ 0 ≤ r.left ∧ r.bottom ≤ w.rect.lines ∧ r.right ≤ w.rect.cols then none
      else some s!"window {id} ({w.rect.lines}x{w.rect.cols}) was handed the rectangle {r.top},{r.left},{r.lines},{r.cols} outside its bounds"
  match e1 with
  | some m => m
  | none =>
    let ids := (o.evs.map (·.1)).eraseDups
    let e2 := ids.findSome? fun id =>
      if pairwiseDisjoint ((o.evs.filter (·.1 = id)).map (·.2)) then none
      else some s!"window {id} was handed overlapping rectangles in one flush"
    match e2 with
    | some m => m
    | none =>
      match o.grid, d.prevGrid with
      | some g, some pg =>
        let damaged := (o.evs.filter (·.1 = 0)).map (·.2)
        let bad := (List.range g.size).findSome? fun (l : Nat) =>
          (List.range (g.getD l #[]).size).findSome? fun (c : Nat) =>
            let got := (g.getD l #[]).getD c Cell.never
            let was := (pg.getD l #[]).getD c Cell.never
            if got = was then none
            else
              let writer : Int := (if d.mode = 4 then got.bg else got.fg) - 1
              let own := (WinSpec.ownerAt t (l : Int) (c : Int)).map (·.1)
              if !(damaged.any (·.memb (l : Int) (c : Int))) then some s!"cell ({l},{c}) changed outside the damaged region"
              else if own.map (fun (x : Nat) => (x : Int)) ≠ some writer then
                some s!"cell ({l},{c}) was changed by window {writer} but belongs to {match own with | some x => toString x | none => "nobody"}"
              else none
        bad.getD ""
      | _, _ => ""

/-- C02, the clause itself, on what every handler invocation changed in the render buffer (`W=`: read from the raw state
    of the buffer before and after the handler ran): "whatever an expose handler draws, the only cells that can change are
    cells inside the damaged region that belong to that window in the composition".  `dmg`: the abstract damage region. -/
def specWriters (dmg : List Rect) (o : ImplObs) : String :=
  match o.wtok with
  | none => "no W= token in the observation of a flush (C02)"
  | some w =>
    match parseWrites w with
    | none => "malformed W= token"
    | some ws =>
      let t := o.tree
      if ws.map (·.1) ≠ o.evs.map (·.1) then "the W= token does not list the handler invocations of the E= token"
      else
        let damaged := (o.evs.filter (·.1 = 0)).map (·.2)
        let bad := ws.findSome? fun (id, runs) =>
          runs.findSome? fun (l, c0, n) =>
            (List.range n.toNat).findSome? fun (j : Nat) =>
              let c := c0 + (j : Int)
              let own := (WinSpec.ownerAt t l c).map (·.1)
              if own ≠ some id then
                some s!"the expose handler of window {id} changed render-buffer cell ({l},{c}), which belongs to {match own with | some x => toString x | none => "nobody"}"
              else if !(damaged.any (·.memb l c)) ∨ !(dmg.any (·.memb l c)) then
                some s!"the expose handler of window {id} changed render-buffer cell ({l},{c}) outside the damaged region"
              else none
        bad.getD ""

/-- Does the region `reg` of window `id` (in its own coordinates) stick out of some ancestor's bounds? -/
def sticksOut (t : Tree) : Nat → Id → Rect → Bool
  | 0, _, _ => false
  | fuel + 1, id, reg =>
    match t.wins[id]? with
    | none => false
    | some w =>
      match w.parent with
      | none => false
      | some p =>
        match t.wins[p]? with
        | none => false
        | some pw =>
          let r := reg.translate w.rect.top w.rect.left
          if !(Rect.contains ⟨0, 0, pw.rect.lines, pw.rect.cols⟩ r) then true else sticksOut t fuel p r

def scrollSticksOut (t : Tree) (id : Id) (rect : Option Rect) : Bool :=
  match t.wins[id]? with
  | none => false
  | some w =>
    let self : Rect := ⟨0, 0, w.rect.lines, w.rect.cols⟩
    match (match rect with | some r => Rect.intersect self r | none => some self) with
    | none => false
    | some reg => sticksOut t (t.wins.size + 1) id reg

/-! ### abstract z-order: restack requests take effect in the order they were made -/

def reqKind? (op : String) : Option Change :=
  if op = "raise" then some .raise else if op = "raisefront" then some .raiseFront
  else if op = "lower" then some .lower else if op = "lowerback" then some .lowerBack else none

def reqName : Change → String
  | .raise => "raise" | .raiseFront => "raisefront" | .lower => "lower" | .lowerBack => "lowerback"
  | .insertFirst => "insert-first" | .insertLast => "insert-last" | .remove => "remove"

/-- An observed window that is not closed. -/
def liveWin? (t : Tree) (id : Id) : Option Win :=
  match t.wins[id]? with
  | some w => if w.isClosed then none else some w
  | none => none

def kidsOf (t : Tree) : Array (List Id) := t.wins.map (·.children)

def setKids (a : Array (List Id)) (i : Nat) (v : List Id) : Array (List Id) :=
  let a := if i < a.size then a else a ++ Array.replicate (i + 1 - a.size) []
  a.setIfInBounds i v

/-- Was the window, or an ancestor of it, closed?  (A closed window is observed as a hidden orphan: `parseTree`.) -/
def closedAbove (t : Tree) : Nat → Id → Bool
  | 0, _ => true
  | fuel + 1, id =>
    match t.wins[id]? with
    | none => true
    | some w =>
      if w.isClosed then true
      else match w.parent with
        | some p => closedAbove t fuel p
        | none => false

/-- The abstract meaning of one restack request on the child list of the window's parent. -/
def restackList (ch : Change) (cs : List Id) (w : Id) : List Id :=
  if !cs.contains w then cs else
  match ch with
  | .raise => match listRaise cs w with | .ok x => x | .ub _ => cs     -- one step towards the front
  | .lower => listLower cs w                                            -- one step towards the back
  | .raiseFront => w :: cs.erase w
  | .lowerBack => cs.erase w ++ [w]
  | _ => cs

/-- Is the request still standing at the flush (`t`: the tree observed just before it)? -/
def reqStands (t : Tree) (w : Id) : Bool := !(closedAbove t (t.wins.size + 1) w)

def applyReqs (t : Tree) (kids : Array (List Id)) (reqs : List (Change × Id)) : Array (List Id) :=
  reqs.foldl (fun kids (ch, w) =>
    if !(reqStands t w) then kids else
    match (t.wins[w]?).bind (·.parent) with
    | none => kids
    | some p => setKids kids p (restackList ch (kids.getD p []) w)) kids

def showIds (l : List Id) : String := if l.isEmpty then "-" else ".".intercalate (l.map toString)

/-- At a flush: the child lists the implementation reports are the abstract lists with the requests applied in the order
    made.  `pre` is the implementation's tree as observed just before the flush. -/
def specZOrder (d : DSt) (pre : Tree) (o : ImplObs) : String :=
  let want := applyReqs pre d.zKids d.zReqs
  let bad := (List.range o.tree.wins.size).findSome? fun i =>
    match liveWin? o.tree i with
    | none => none
    | some w =>
      let exp := want.getD i []
      if w.children = exp then none
      else
        let rs := d.zReqs.filter (fun (_, x) => reqStands pre x)
        let made := if rs.isEmpty then "no restack request is pending"
          else "the restack requests in the order made (" ++ ", ".intercalate (rs.map fun (ch, x) => s!"{reqName ch} {x}") ++ ")"
        some s!"children of window {i} are {showIds w.children} after the flush; the list before the requests ({showIds (d.zKids.getD i [])}) and {made} give {showIds exp}"
  bad.getD ""

/-- The abstract child lists after an operation other than `new` / `flush` (`pre`, `t`: the implementation's tree as
    observed before and after it). -/
def zStep (kids : Array (List Id)) (pre t : Tree) (ts : List String) : Array (List Id) :=
  match ts with
  | ["win", id, _, _, _, _, _, flags, _] =>
    match id.toNat? with
    | some id =>
      let kids := setKids kids id []
      match (t.wins[id]?).bind (·.parent) with
      | some p =>
        let cs := (kids.getD p []).erase id
        setKids kids p (if flags.toList.contains 'l' then cs ++ [id] else id :: cs)
      | none => kids
    | none => kids
  | ["close", id] =>
    match id.toNat? with
    | some id =>
      match (pre.wins[id]?).bind (·.parent) with
      | some p => setKids kids p ((kids.getD p []).erase id)
      | none => kids
    | none => kids
  | _ => kids

/-! ### abstract damage: what the operations since the previous flush damaged, by the property's own definition -/

/-- Executable `WinTree.ExposedRegion`: an expose of `e` (`none`: everything) in window `id` damages `e ∩ id`, translated
    up and clipped to the bounds of every ancestor, in root coordinates; nothing when `id` or an ancestor is hidden or
    the chain does not end in the root window. -/
def exposedRegion (t : Tree) : Nat → Id → Option Rect → Option Rect
  | 0, _, _ => none
  | fuel + 1, id, e =>
    match liveWin? t id with
    | none => none
    | some w =>
      let self : Rect := ⟨0, 0, w.rect.lines, w.rect.cols⟩
      match (match e with | some e => Rect.intersect self e | none => some self) with
      | none => none
      | some dmg =>
        if !w.isVisible then none
        else match w.parent with
          | some p => exposedRegion t fuel p (some (dmg.translate w.rect.top w.rect.left))
          | none => if id = 0 then some dmg else none

def regionOf (t : Tree) (id : Id) (e : Option Rect) : List Rect :=
  match exposedRegion t (t.wins.size + 1) id e with
  | some r => [r]
  | none => []

/-- Window `w`'s rectangle `r` (in its parent's coordinates) exposed in its parent. -/
def inParent (t : Tree) (w : Win) (r : Rect) : List Rect :=
  match w.parent with
  | some p => regionOf t p (some r)
  | none => []

/-- What a visible window's own area damages in its parent (creation, closing, restacking). -/
def ownArea (t : Tree) (id : Id) : List Rect :=
  match liveWin? t id with
  | some w => if w.isVisible then inParent t w w.rect else []
  | none => []

/-- The damage of one operation other than `new` / `flush` (`pre`, `t`: the implementation's tree as observed before and
    after it).  Scrolls: the scrolled rectangle clipped to every ancestor (what is repainted lies inside it, and pending
    damage inside it only moves within it).  Restack requests: the window's area when the request is made, and again at
    the flush (`flushDamage`). -/
def opDamage (pre t : Tree) (ts : List String) : List Rect :=
  match ts with
  | ["win", id, _, _, _, _, _, _, _] =>
    match id.toNat? with
    | some id => ownArea t id
    | none => []
  | ["resize", lines, cols] =>
    match ints? [lines, cols], liveWin? pre 0 with
    | some [l, c], some ow =>
      -- the strips `on_term_resize` exposes: together exactly the cells the terminal gained
      (if l > ow.rect.lines then regionOf t 0 (some ⟨ow.rect.lines, 0, l - ow.rect.lines, c⟩) else []) ++
      (if c > ow.rect.cols then regionOf t 0 (some ⟨0, ow.rect.cols, ow.rect.lines, c - ow.rect.cols⟩) else [])
    | _, _ => []
  | op :: idS :: rest =>
    match idS.toNat? with
    | none => []
    | some id =>
      if op = "close" ∧ rest.isEmpty then ownArea pre id
      else if op = "show" ∧ rest.isEmpty then regionOf t id none
      else if op = "hide" ∧ rest.isEmpty then
        match liveWin? t id with
        | some w => inParent t w w.rect
        | none => []
      else if (reqKind? op).isSome ∧ rest.isEmpty then ownArea t id
      else if op = "expose" ∧ rest.isEmpty then regionOf t id none
      else if (op = "scroll" ∨ op = "scrollch") ∧ rest.length = 2 then regionOf pre id none
      else
        match rest with
        | a :: b :: c :: e :: more =>
          match ints? [a, b, c, e] with
          | some [a, b, c, e] =>
            let r : Rect := ⟨a, b, c, e⟩
            if op = "expose" ∧ more.isEmpty then regionOf t id (some r)
            else if op = "geom" ∧ more.isEmpty then
              match liveWin? pre id, liveWin? t id with
              | some ow, some nw => inParent t nw ow.rect ++ inParent t nw r
              | _, _ => []
            else if op = "scrollrect" ∧ more.length = 3 then regionOf pre id (some r)
            else []
          | _ => []
        | _ => []
  | _ => []

/-- The damage the flush itself adds before it renders: every standing restack request exposes its window's area. -/
def flushDamage (pre : Tree) (reqs : List (Change × Id)) : List Rect :=
  reqs.flatMap fun (_, w) => if reqStands pre w then ownArea pre w else []

/-- Per-cell table of a region over the `lines × cols` grid. -/
structure Mask where
  lines : Nat := 0
  cols : Nat := 0
  bits : Array Bool := #[]

def Mask.get (m : Mask) (l c : Nat) : Bool := l < m.lines && c < m.cols && m.bits.getD (l * m.cols + c) false

def Mask.ofRects (lines cols : Nat) (rs : List Rect) : Mask := Id.run do
  let mut bits : Array Bool := Array.replicate (lines * cols) false
  for r in rs do
    let t := (max r.top 0).toNat
    let b := (min r.bottom (lines : Int)).toNat
    let lft := (max r.left 0).toNat
    let rgt := (min r.right (cols : Int)).toNat
    for l in [t:b] do
      for c in [lft:rgt] do
        bits := bits.setIfInBounds (l * cols + c) true
  return { lines := lines, cols := cols, bits := bits }

def showRects (rs : List Rect) : String :=
  if rs.isEmpty then "nothing" else
  "; ".intercalate ((rs.take 8).map fun r => s!"{r.top},{r.left},{r.lines},{r.cols}") ++ (if rs.length > 8 then "; ..." else "")

/-- C02, the damaged region stated independently of what the implementation chose to repaint: every rectangle handed to
    a window (the root window is handed every rectangle the flush repaints), and every cell the flush changed, lies inside
    the abstract damage region `dmg`. -/
def specDamage (d : DSt) (dmg : List Rect) (o : ImplObs) : String :=
  match o.grid with
  | none => ""
  | some g =>
    let m := Mask.ofRects g.size (g.getD 0 #[]).size dmg
    let e := o.evs.findSome? fun (id, r) =>
      -- the window's top-left corner in root coordinates
      let (ot, ol) := ((id :: ancestors o.tree (o.tree.wins.size + 1) id).filterMap (o.tree.wins[·]?)).foldl
        (fun (a : Int × Int) w => (a.1 + w.rect.top, a.2 + w.rect.left)) (0, 0)
      (List.range r.lines.toNat).findSome? fun (i : Nat) =>
        (List.range r.cols.toNat).findSome? fun (j : Nat) =>
          let l := ot + r.top + (i : Int)
          let c := ol + r.left + (j : Int)
          if 0 ≤ l ∧ 0 ≤ c ∧ m.get l.toNat c.toNat then none
          else some s!"window {id} was handed the rectangle {r.top},{r.left},{r.lines},{r.cols} but its cell ({r.top + (i : Int)},{r.left + (j : Int)}) (terminal cell ({l},{c})) is outside the region damaged since the previous flush (the operations damaged: {showRects dmg})"
    match e with
    | some msg => msg
    | none =>
      match d.prevGrid with
      | none => ""
      | some pg =>
        let bad := (List.range g.size).findSome? fun (l : Nat) =>
          (List.range (g.getD l #[]).size).findSome? fun (c : Nat) =>
            if (g.getD l #[]).getD c Cell.never = (pg.getD l #[]).getD c Cell.never ∨ m.get l c then none
            else some s!"cell ({l},{c}) changed outside the region damaged since the previous flush (the operations damaged: {showRects dmg})"
        bad.getD ""

/-- The exposes the handlers made during a flush (events as the implementation reports them): damage for the next one. -/
def handlerDamage (behs : Array (Option (List Instr))) (closed : Array Bool) (t : Tree) (evs : List Ev) : List Rect :=
  evs.flatMap fun (id, rect) => (mkBehExp behs closed id rect).flatMap fun (i, r) => regionOf t i r

/-! ### stepping -/

def parsePen (tok : String) : Option Pen :=
  if !tok.startsWith "pen=" then some {} else
  let body := (tok.drop 4).toString
  if body = "N" then none else
  match body.splitOn ":" with
  | [f, b, o] =>
    match field? f, field? b, field? o with
    | some f, some b, some o => some { fg := f, bg := b, b := o.map (· ≠ 0) }
    | _, _, _ => some {}
  | [f, b, o, r] =>
    match field? f, field? b, field? o, field? r with
    | some f, some b, some o, some r => some { fg := f, bg := b, b := o.map (· ≠ 0), rv := r.map (· ≠ 0) }
    | _, _, _, _ => some {}
  | _ => some {}

def modeOf (s : String) : Nat :=
  if s.startsWith "a" then 0 else if s.startsWith "p" then 1 else if s.startsWith "m" then 3 else if s.startsWith "x" then 4 else 2

/-- Re-tabulate the screen and store the state. -/
def commit (d : DSt) (st : St) : DSt :=
  let scr := Tab.ofFn st.tlines.toNat st.tcols.toNat st.screen
  { d with scr := scr, st := some { st with screen := scr.get } }

def finishOk (d : DSt) (st : St) (ret : Nat) (evs : Option (List Ev)) (grid : Bool) : DSt × String :=
  let d := commit d st
  (d, showObs ret st.tree evs (if grid ∧ d.mode ≠ 4 then some d.scr else none))

def fail (d : DSt) (what : String) : DSt × String :=
  ({ d with dead := some what, st := none }, s!"ub:{what}")

def runOp (d : DSt) (ts : List String) : DSt × String :=
  match ts with
  | ["new", prop, lines, cols, mode, pen] =>
    match ints? [lines, cols] with
    | some [l, c] =>
      if l < 1 ∨ c < 1 ∨ l > 64 ∨ c > 200 then (d, "bad-op") else
      let st := St.init l c (parsePen pen)
      let d : DSt := { prop := if prop = "C02" then 2 else 1, mode := modeOf mode, behs := #[none], shifts := #[[]], closed := #[false] }
      finishOk d st 0 none true
    | _ => (d, "bad-op")
  | _ =>
  match d.dead with
  | some w => (d, s!"ub:{w}")
  | none =>
  match d.st with
  | none => (d, "bad-op")
  | some st =>
    let nw := st.tree.wins.size
    let live (id : Nat) : Bool := id < nw && !(d.closed.getD id true)
    match ts with
    | ["win", id, parent, t, l, n, k, flags, pen] =>
      match ints? [id, parent, t, l, n, k] with
      | some [id, parent, t, l, n, k] =>
        if id ≠ nw ∨ id ≥ 24 ∨ parent < 0 ∨ !(live parent.toNat) then (d, "bad-op") else
        let has (ch : Char) : Bool := flags.toList.contains ch
        match newWin st parent.toNat ⟨t, l, n, k⟩ (has 'r') (has 'h') (has 'l') (has 's') (parsePen pen) with
        | .ub w => fail d w
        | .ok (st, _) =>
          finishOk { d with behs := d.behs.push none, shifts := d.shifts.push [], closed := d.closed.push false } st 0 none false
      | _ => (d, "bad-op")
    | "beh" :: id :: prog =>
      match id.toNat? with
      | some id =>
        if id ≥ nw then (d, "bad-op") else
        let p : Option (List Instr) := if prog.isEmpty then none else some (prog.filterMap parseInstr)
        finishOk { d with behs := d.behs.setIfInBounds id p } st 0 none false
      | none => (d, "bad-op")
    | ["flush"] =>
      let t' := match flushQueue st with | .ok t => t | .ub _ => st.tree
      match flushX (mkBeh d.behs d.shifts t') (mkBehExp d.behs d.closed) st with
      | .ub w => fail d w
      | .ok (st, shots) => finishOk d st 0 (some (shots.map Shot.ev)) true
    | ["resize", lines, cols] =>
      match ints? [lines, cols] with
      | some [l, c] =>
        if l < 1 ∨ c < 1 ∨ l > 64 ∨ c > 200 then (d, "bad-op") else
        match termResize st l c with
        | .ub w => fail d w
        | .ok st => finishOk d st 0 none true
      | _ => (d, "bad-op")
    | ["scrollmode", m] => if d.mode = 3 ∨ d.mode = 4 then (d, "bad-op") else finishOk { d with mode := modeOf m } st 0 none false
    | op :: idS :: rest =>
      match idS.toNat? with
      | none => (d, "bad-op")
      | some id =>
        if !(live id) then (d, "bad-op") else
        let fuel := st.fuel
        let treeOp (r : Res Tree) (d : DSt) : DSt × String :=
          match r with
          | .ub w => fail d w
          | .ok t => finishOk d { st with tree := t } 0 none false
        match op, rest with
        | "close", [] => treeOp (close st.tree fuel id) { d with closed := d.closed.setIfInBounds id true }
        | "show", [] => treeOp (WinTree.show st.tree fuel id) d
        | "hide", [] => treeOp (hide st.tree fuel id) d
        | "raise", [] => treeOp (requestHierarchyChange st.tree fuel .raise id) d
        | "raisefront", [] => treeOp (requestHierarchyChange st.tree fuel .raiseFront id) d
        | "lower", [] => treeOp (requestHierarchyChange st.tree fuel .lower id) d
        | "lowerback", [] => treeOp (requestHierarchyChange st.tree fuel .lowerBack id) d
        | "expose", [] => treeOp (expose st.tree fuel id none) d
        | "expose", [t, l, n, k] =>
          match ints? [t, l, n, k] with
          | some [t, l, n, k] => treeOp (expose st.tree fuel id (some ⟨t, l, n, k⟩)) d
          | _ => (d, "bad-op")
        | gop, [t, l, n, k] =>
          if gop ≠ "geom" ∧ gop ≠ "geomraw" then (d, "bad-op") else
          if id = 0 then (d, "bad-op") else
          match ints? [t, l, n, k] with
          | some [t, l, n, k] =>
            let r : Res Tree := do
              let w ← get st.tree id
              let old := w.rect
              let (tr, _) ← setGeometry st.tree id ⟨t, l, n, k⟩
              match gop, w.parent with
              | "geom", some p => do
                let tr ← expose tr fuel p (some old)
                expose tr fuel p (some ⟨t, l, n, k⟩)
              | _, _ => pure tr
            treeOp r d
          | _ => (d, "bad-op")
        | sop, [dS, rS] =>
          if sop ≠ "scroll" ∧ sop ≠ "scrollch" then (d, "bad-op") else
          match ints? [dS, rS] with
          | some [dd, rr] =>
            let r : Res (St × Bool × Rect) := do
              let w ← get st.tree id
              let self : Rect := ⟨0, 0, w.rect.lines, w.rect.cols⟩
              if sop = "scroll" then
                let (st', ret) ← scrollWindow (oracleOf d.mode) st id dd rr
                pure (st', ret, self)
              else
                -- the compound step of `Props.C01.scrollch_step_full`: the call, then the application moves the children
                let (st', ret) ← scrollWithChildrenMoved (oracleOf d.mode) st id dd rr
                pure (st', ret, self)
            match r with
            | .ub w => fail d w
            | .ok (st', ret, self) =>
              let sh := (self, dd, rr) :: (d.shifts.getD id []).take 63
              finishOk { d with shifts := d.shifts.setIfInBounds id sh, unclipped := d.unclipped || scrollSticksOut st.tree id none } st' (if ret then 1 else 0) none true
          | _ => (d, "bad-op")
        | "scrollrect", [t, l, n, k, dS, rS, pen] =>
          match ints? [t, l, n, k, dS, rS] with
          | some [t, l, n, k, dd, rr] =>
            let rect : Rect := ⟨t, l, n, k⟩
            let r : Res (St × Bool × Option Rect) := do
              let w ← get st.tree id
              let (st', ret) ← scrollRect (oracleOf d.mode) st id rect dd rr (if pen = "pen=N" then none else parsePen pen)
              pure (st', ret, Rect.intersect ⟨0, 0, w.rect.lines, w.rect.cols⟩ rect)
            match r with
            | .ub w => fail d w
            | .ok (st', ret, inter) =>
              let d := { d with unclipped := d.unclipped || scrollSticksOut st.tree id (some rect) }
              let d := match inter with
                | some i => { d with shifts := d.shifts.setIfInBounds id ((i, dd, rr) :: (d.shifts.getD id []).take 63) }
                | none => d
              finishOk d st' (if ret then 1 else 0) none true
          | _ => (d, "bad-op")
        | _, _ => (d, "bad-op")
    | _ => (d, "bad-op")

/-- The terminal-to-screen difference at a flush in the xterm configuration: the screen the bytes produce must be the
    model's screen (the previous interpreted screen overlaid with the model's flushed render buffer). -/
def specBytes (model : Tab) (g : Array (Array Cell)) : String :=
  let bad := (List.range g.size).findSome? fun (l : Nat) =>
    (List.range (g.getD l #[]).size).findSome? fun (c : Nat) =>
      let got := (g.getD l #[]).getD c Cell.never
      let want := model.get (l : Int) (c : Int)
      if sameCell true got want then none
      else some s!"after the bytes of this flush (VT interpreter) terminal cell ({l},{c}) shows glyph {got.glyph} bg {got.bg} rv {got.rv}; the flushed render buffer over the previous screen gives glyph {want.glyph} bg {want.bg} rv {want.rv}"
  bad.getD ""

def step (d : DSt) (ts : List String) (impl : String) : DSt × String × String :=
  let isFlush := ts = ["flush"]
  let isNew := ts.head? = some "new"
  let pens : Array (Option Pen) := match d.st with | some st => st.pens | none => #[]
  let (d', m) := runOp d ts
  let pens' : Array (Option Pen) := match d'.st with | some st => st.pens | none => pens
  let o := parseImpl impl
  -- the xterm configuration: interpret the bytes; the screen they produce is the implementation's grid
  let xm := d'.mode = 4
  let vt' : Option VT.VTState :=
    if !xm then none else
    match o, d'.st with
    | some o, some st =>
      let vt0 : VT.VTState :=
        if isNew then VT.VTState.init st.tlines st.tcols (fun _ _ => ⟨32, -1, false⟩)
        else match d.vt with
          | some vt => if vt.lines = st.tlines ∧ vt.cols = st.tcols then vt else vt.resize st.tlines st.tcols (fun _ _ => ⟨32, -1, false⟩)
          | none => VT.VTState.init st.tlines st.tcols (fun _ _ => ⟨32, -1, false⟩)
      some (vtFeed vt0 ((o.xtok.bind hexBytes?).getD [])).compact
    | _, _ => d.vt
  let o : Option ImplObs := match o, vt' with
    | some o, some vt => if xm then some { o with grid := some (gridOfVT vt) } else some o
    | o, _ => o
  -- what the model does not predict is repeated from the implementation's observation: the cells every handler changed
  -- (C02, at a flush) and the bytes sent to the terminal (xterm configuration)
  let plain := m ≠ "bad-op" ∧ !(m.startsWith "ub:")
  let m := if d'.prop = 2 ∧ isFlush ∧ plain then m ++ " W=" ++ ((o.bind (·.wtok)).getD "?") else m
  let m := if xm ∧ plain then m ++ " X=" ++ ((o.bind (·.xtok)).getD "?") else m
  let sv : String :=
    match o with
    | none =>
      if impl = "bad-op" then ""
      else if impl.startsWith "CRASH" then s!"the implementation did not complete the operation ({impl})"
      else "unparsable implementation observation"
    | some o =>
      if xm ∧ (o.xtok.bind hexBytes?).isNone then "no (or malformed) X= bytes in an observation of the xterm configuration"
      else if !isFlush then ""
      else
        -- the implementation's tree as observed just before this flush
        let pre := d.obsTree.getD o.tree
        let own :=
          if d'.prop = 1 then
            let m := specC01 d' pens' o
            if m ≠ "" ∧ d'.unclipped then m ++ " [the history scrolled a region extending beyond an ancestor's bounds]" else m
          else
            let m := specC02 d o
            let m := if m ≠ "" then m else specDamage d (flushDamage pre d.zReqs ++ d.dmg) o
            if m ≠ "" then m else specWriters (flushDamage pre d.zReqs ++ d.dmg) o
        let own := if own = "" ∧ xm then (match o.grid with | some g => specBytes d'.scr g | none => "") else own
        if own ≠ "" then own else specZOrder d pre o
  -- remember the implementation's grid for the next flush
  let d' := match o with
    | some o => (match o.grid with | some g => { d' with prevGrid := some g } | none => d')
    | none => d'
  let d' := if isNew then (match o with | some o => { d' with prevGrid := o.grid } | none => { d' with prevGrid := none }) else d'
  -- the xterm configuration: the model's screen follows the interpreted screen
  let d' := if xm then
      (match vt', d'.st with
       | some vt, some st =>
         let scr := Tab.ofFn st.tlines.toNat st.tcols.toNat (fun l c => cellOfVT (vt.grid l c))
         { d' with vt := some vt, scr := scr, st := some { st with screen := scr.get } }
       | _, _ => { d' with vt := vt' })
    else d'
  -- the specification state: from the operation line and the implementation's observations
  let d' := match o with
    | none => d'
    | some o =>
      let t := o.tree
      if isNew then
        { d' with obsTree := some t, zKids := kidsOf t, zReqs := [], dmg := regionOf t 0 none }    -- a new root starts fully damaged
      else if isFlush then
        { d' with obsTree := some t, zKids := kidsOf t, zReqs := [], dmg := handlerDamage d'.behs d'.closed t o.evs }
      else
        let pre := d.obsTree.getD t
        let reqs := match ts with
          | [op, id] =>
            match reqKind? op, id.toNat? with
            | some ch, some id => if ((t.wins[id]?).bind (·.parent)).isSome then d.zReqs ++ [(ch, id)] else d.zReqs
            | _, _ => d.zReqs
          | _ => d.zReqs
        { d' with obsTree := some t, zKids := zStep d.zKids pre t ts, zReqs := reqs, dmg := opDamage pre t ts ++ d.dmg }
  (d', m, sv)

def engine : Engine := { σ := DSt, init := {}, step := step }

end Tickit.Driver.WinEngine
