import Tickit.Model.TermPen
import Tickit.Model.TermSuspend
import Tickit.Model.SgrStrict
import Tickit.Model.SgrBuf
import Tickit.Gen.TermBuf
import Tickit.Driver.Common
/-
  Engine `sgr` (C10).
    new x <rgb8> <colon> <reply|ctl> [<pen>] | new g <colors> <rgb8> <colon> [<pen>] | new t     (renew … = the same, mid-history)
        with <pen>: the history starts with <pen> in force (a `setpen <pen>` issued as part of the construction and judged like
        any other request; observation `<construction> init <request>`)
    setpen <pen> | chpen <pen> | palette
    suspend        tickit_term_pause then tickit_term_resume (`Model/TermSuspend.lean`); the logical pen is unchanged, so the
                   terminal — after the bytes of pause (which reset the rendering attributes) and of resume — must again render
                   with it.  Configuration `g`: the harness's driver stands for the xterm driver, whose `pause` writes `ESC [ m`.
    print <word>   tickit_term_printf(tt, "%s", word): the text goes to the terminal as it is (x: `b=` its bytes; g: `t=` what the
                   driver's `print` was handed); not a pen request — the rendering attributes must stay what the logical pen asks for.
    outbuf <n>     (x) tickit_term_set_output_buffer(tt, n);   flush   (x) tickit_term_flush(tt).  With a buffer the bytes of a
                   request reach the terminal later (when the buffer is full, or on flush): the model sends every string through
                   `Model/TermBuf.lean`'s `write_str`; the specification interprets what the output function RECEIVED, in the
                   order it received it, and judges the terminal against the logical pen when the output has been flushed
                   (while bytes may be pending the terminal lawfully lags behind).
  Model observation = what harness/sgr.c prints.  Specification verdict: the SGR interpreter of
  `Model/Sgr.lean` is run on the bytes the *implementation* emitted (configuration `x`), or on the
  bytes the modelled xterm encoder produces from the (delta, final) pens the *implementation* handed
  to the driver (configuration `g`); the resulting rendering attributes must equal
  `expected cfg (logical pen)`, and a request that leaves the logical pen unchanged must be silent.
  "change-pen overlays only the attributes present in its argument" is also judged on its own (`frameDiff`): the bytes of a
  `chpen` must leave every rendering attribute whose pen attribute is absent from the argument as it was — whatever state the
  terminal was in (so also when an earlier request could not be encoded).
  "The rendering state is determined by the SGR bytes emitted for setpen/chpen" also means that a pen request emits SGR
  sequences and nothing else (`Model/SgrStrict.lean`, `strictDiff`): a byte that reaches the terminal outside a control sequence
  is printed at the cursor or executed as a C0 control — the pen request drew something — and a sequence that is not an SGR
  changes some other state.  Judged on the implementation's bytes of every request (configuration `x`); for `suspend` only the
  bytes outside sequences are judged (which mode sequences pause and resume write is C12's business).
-/
namespace Tickit.Driver.SgrEngine
open Tickit Tickit.Driver Tickit.TermPen Tickit.Sgr

/-! ### text of pens -/

def showColour (c : Colour) : String :=
  toString c.idx ++ (match c.rgb with
    | some x => "#" ++ hexOfNat2 x.r ++ hexOfNat2 x.g ++ hexOfNat2 x.b
    | none => "")

def showB (b : Bool) : String := if b then "1" else "0"

def showPen (p : Pen) : String :=
  let fs : List (Option String) := [
    p.fg.map (fun c => "fg=" ++ showColour c), p.bg.map (fun c => "bg=" ++ showColour c),
    p.bold.map (fun v => "b=" ++ showB v), p.under.map (fun v => "u=" ++ toString v),
    p.italic.map (fun v => "i=" ++ showB v), p.reverse.map (fun v => "rv=" ++ showB v),
    p.strike.map (fun v => "strike=" ++ showB v), p.altfont.map (fun v => "af=" ++ toString v),
    p.blink.map (fun v => "blink=" ++ showB v), p.sizepos.map (fun v => "sizepos=" ++ toString v)]
  let l := fs.filterMap id
  if l.isEmpty then "-" else ",".intercalate l

def parseColour (s : String) : Option Colour :=
  match s.splitOn "#" with
  | [i] => (int? i).map (fun n => { idx := n, rgb := none })
  | [i, h] => do
    let n ← int? i
    match ← hexBytes? h with
    | [r, g, b] => some { idx := n, rgb := some ⟨r.toNat, g.toNat, b.toNat⟩ }
    | _ => none
  | _ => none

def parseBool (s : String) : Option Bool := (int? s).map (· ≠ 0)

def parsePen (s : String) : Option Pen :=
  if s = "-" then some {} else
  (s.splitOn ",").foldlM (init := ({} : Pen)) fun p item =>
    match item.splitOn "=" with
    | ["fg", v] => (parseColour v).map fun c => { p with fg := some c }
    | ["bg", v] => (parseColour v).map fun c => { p with bg := some c }
    | ["b", v] => (parseBool v).map fun c => { p with bold := some c }
    | ["u", v] => (int? v).map fun c => { p with under := some c }
    | ["i", v] => (parseBool v).map fun c => { p with italic := some c }
    | ["rv", v] => (parseBool v).map fun c => { p with reverse := some c }
    | ["strike", v] => (parseBool v).map fun c => { p with strike := some c }
    | ["af", v] => (int? v).map fun c => { p with altfont := some c }
    | ["blink", v] => (parseBool v).map fun c => { p with blink := some c }
    | ["sizepos", v] => (int? v).map fun c => { p with sizepos := some c }
    | _ => none

def bytesHexN (bs : List Nat) : String := bytesHex (bs.map UInt8.ofNat)

/-! ### state -/

structure DState where
  mode : String := ""
  cfg : Cfg := { colors := 256, caps := ⟨false, false⟩, cap := Tickit.Gen.Sgr.paramsCap }
  /-- model: cached pen; `dead` after an overflow of `params[]` -/
  cache : Pen := {}
  dead : Bool := false
  /-- specification: the logical pen and the terminal as driven by the implementation -/
  logical : Pen := {}
  vt : VT := {}
  /-- does `tickit_term_resume` hand the cached pen to the driver's `chpen` (read from the source) -/
  resend : Bool := Tickit.Gen.TermBuf.term_resume_resends_pen
  /-- model: the output buffer of term.c -/
  tb : Tickit.TermBuf.State := Tickit.SgrBuf.init
  /-- specification: has the program asked for an output buffer (`outbuf n`, n > 0)?  Then verdicts wait for `flush`. -/
  buffered : Bool := false
deriving Inhabited

def showColr : Colr → String
  | .dflt => "default"
  | .idx n => s!"index {n}"
  | .rgb r g b => s!"rgb({r},{g},{b})"

def showSizePos : SizePos → String
  | .normal => "normal" | .small => "small" | .super => "superscript" | .sub => "subscript"

/-- Every field in which the terminal differs from what the logical pen asks for (joined by `; also `): a verdict names ALL
    of them, so that a difference a known finding explains cannot stand in for one it does not explain. -/
def diffAttrs (have_ want : Attrs) : String :=
  let ds : List String :=
    (if have_.fg ≠ want.fg then [s!"fg: terminal has {showColr have_.fg}, logical pen wants {showColr want.fg}"] else []) ++
    (if have_.bg ≠ want.bg then [s!"bg: terminal has {showColr have_.bg}, logical pen wants {showColr want.bg}"] else []) ++
    (if have_.bold ≠ want.bold then [s!"bold: terminal has {have_.bold}, logical pen wants {want.bold}"] else []) ++
    (if have_.under ≠ want.under then [s!"under: terminal has {have_.under}, logical pen wants {want.under}"] else []) ++
    (if have_.faint ≠ want.faint then [s!"faint: terminal has {have_.faint}, no pen attribute asks for it"] else []) ++
    (if have_.italic ≠ want.italic then [s!"italic: terminal has {have_.italic}, logical pen wants {want.italic}"] else []) ++
    (if have_.reverse ≠ want.reverse then [s!"reverse: terminal has {have_.reverse}, logical pen wants {want.reverse}"] else []) ++
    (if have_.strike ≠ want.strike then [s!"strike: terminal has {have_.strike}, logical pen wants {want.strike}"] else []) ++
    (if have_.font ≠ want.font then [s!"altfont: terminal has font {have_.font}, logical pen wants {want.font}"] else []) ++
    (if have_.blink ≠ want.blink then [s!"blink: terminal has {have_.blink}, logical pen wants {want.blink}"] else []) ++
    (if have_.sizepos ≠ want.sizepos then
      [s!"sizepos: terminal has {showSizePos have_.sizepos}, logical pen wants {showSizePos want.sizepos}"] else []) ++
    (if have_.junk ≠ want.junk then [s!"{have_.junk} SGR parameter(s) not understood by the reference interpreter"] else [])
  "; also ".intercalate ds

/-- "change-pen overlays only the attributes present in its argument": first rendering attribute, absent from the argument
    `p` of a `chpen`, that the bytes of the request changed on the terminal. -/
def frameDiff (p : Pen) (before after : Attrs) : String :=
  let chg (what : String) (absent differs : Bool) (b a : String) : Option String :=
    if absent && differs then some s!"chpen changed {what} on the terminal ({b} -> {a}) although its argument has no {what}" else none
  let cs : List (Option String) := [
    chg "fg" p.fg.isNone (before.fg ≠ after.fg) (showColr before.fg) (showColr after.fg),
    chg "bg" p.bg.isNone (before.bg ≠ after.bg) (showColr before.bg) (showColr after.bg),
    chg "bold" p.bold.isNone (before.bold ≠ after.bold) (toString before.bold) (toString after.bold),
    chg "under" p.under.isNone (before.under ≠ after.under) (toString before.under) (toString after.under),
    chg "italic" p.italic.isNone (before.italic ≠ after.italic) (toString before.italic) (toString after.italic),
    chg "reverse" p.reverse.isNone (before.reverse ≠ after.reverse) (toString before.reverse) (toString after.reverse),
    chg "strike" p.strike.isNone (before.strike ≠ after.strike) (toString before.strike) (toString after.strike),
    chg "altfont" p.altfont.isNone (before.font ≠ after.font) (toString before.font) (toString after.font),
    chg "blink" p.blink.isNone (before.blink ≠ after.blink) (toString before.blink) (toString after.blink),
    chg "sizepos" p.sizepos.isNone (before.sizepos ≠ after.sizepos) (showSizePos before.sizepos) (showSizePos after.sizepos)]
  (cs.filterMap id).headD ""

/-- A pen request (or pause + resume) must put nothing on the terminal but control sequences, and a pen request nothing but
    SGR sequences: `bytes` arrive at the terminal `vt`. -/
def strictDiff (what : String) (bytes : List Nat) (vt : VT) (seqs : Bool) : String :=
  let ss := strays bytes vt
  if !ss.isEmpty then
    s!"{what} sent {ss.length} byte(s) outside any control sequence (hex {bytesHexN (ss.take 12)}): the terminal prints them at the cursor or executes them; only SGR sequences may be emitted"
  else if seqs && foreign bytes vt ≠ 0 then
    s!"{what} sent a control sequence that is not an SGR ({foreign bytes vt} offending byte(s))"
  else ""

/-- value of `key=` in an observation -/
def field? (ts : List String) (key : String) : Option String :=
  (ts.find? (·.startsWith (key ++ "="))).map (fun t => (t.drop (key.length + 1)).toString)

def specAfter (st : DState) (vt' : VT) (l' : Pen) (bytes : List Nat) (noopCheck : Bool) (chArg : Option Pen := none)
    (strict : String := "") : String :=
  if vt'.st ≠ .ground then "the terminal is left inside an unterminated control sequence"
  else
    let fr := match chArg with
      | some p => frameDiff p st.vt.attrs vt'.attrs
      | none => ""
    let d := diffAttrs vt'.attrs (expected st.cfg l')
    -- the verdict names what the logical pen wants; the frame clause is added when it fails too
    if d ≠ "" then (if fr ≠ "" then d ++ "; " ++ fr else d)
    else if fr ≠ "" then fr
    else if strict ≠ "" then strict
    else if noopCheck && l' = st.logical && !bytes.isEmpty then
      s!"request leaves the logical pen unchanged but emits {bytes.length} bytes"
    else ""

def palettePairs : List String :=
  (List.range Tickit.Gen.Palette.size).map fun i =>
    s!"{Tickit.Gen.Palette.as16.getD i 0}/{Tickit.Gen.Palette.as8.getD i 0}"

def penOp (st : DState) (op : Op) (impl : String) : DState × String × String :=
  let its := toks impl
  let l' := logicalStep st.logical op
  let chArg : Option Pen := if op.isSet then none else some op.pen
  -- model
  let delta := termDelta op.isSet st.cfg.colors st.cache op.pen
  let cache' := termCache op.isSet st.cfg.colors st.cache op.pen
  if st.mode = "x" then
    let (mobs, dead') : String × Bool :=
      if st.dead then ("ub after-overflow", true) else
      match xtermChpen st.cfg.caps st.cfg.cap delta cache' with
      | .overflow n => (s!"ub params-overflow needed={n} cap={st.cfg.cap}", true)
      | .bytes bs => (s!"b={bytesHexN (Tickit.SgrBuf.received (Tickit.SgrBuf.write (Tickit.SgrBuf.clear st.tb) bs))} pen={showPen cache'}", false)
    let tb' : Tickit.TermBuf.State :=
      match xtermChpen st.cfg.caps st.cfg.cap delta cache' with
      | .bytes bs => if st.dead then st.tb else Tickit.SgrBuf.write (Tickit.SgrBuf.clear st.tb) bs
      | _ => st.tb
    -- specification on the implementation's bytes
    let (vt', sv) : VT × String :=
      match (field? its "b").bind hexBytes? with
      | some bs =>
        let bytes := bs.map (·.toNat)
        let vt' := run bytes st.vt
        (vt', if st.buffered then "" else specAfter st vt' l' bytes true chArg (strictDiff "the pen request" bytes st.vt true))
      | none =>
        (st.vt, if impl.startsWith "CRASH" then s!"the implementation aborted under the sanitizers ({impl})"
                else s!"no bytes to interpret: implementation said '{impl}'")
    ({ st with cache := cache', dead := dead', logical := l', vt := vt', tb := tb' }, mobs, sv)
  else
    let mobs := s!"n=1 d={showPen delta} f={showPen cache'} pen={showPen cache'}"
    let (vt', sv) : VT × String :=
      match (field? its "d").bind parsePen, (field? its "f").bind parsePen with
      | some d, some f =>
        match xtermChpen st.cfg.caps st.cfg.cap d f with
        | .bytes bytes =>
          let vt' := run bytes st.vt
          (vt', specAfter st vt' l' bytes true chArg)
        | .overflow n => (st.vt, s!"the xterm encoder would need {n} parameters")
      | _, _ =>
        (st.vt, if impl.startsWith "CRASH" then s!"the implementation aborted under the sanitizers ({impl})"
                else s!"no (delta, final) to interpret: implementation said '{impl}'")
    ({ st with cache := cache', logical := l', vt := vt' }, mobs, sv)

/-- `suspend`: pause + resume. -/
def suspendOp (st : DState) (impl : String) : DState × String × String :=
  let its := toks impl
  let crash := if impl.startsWith "CRASH" then s!"the implementation aborted under the sanitizers ({impl})"
               else s!"nothing to interpret: implementation said '{impl}'"
  let pre (s : String) : String := if s = "" then "" else "after pause + resume: " ++ s
  if st.mode = "x" then
    -- tickit_term_pause: the driver's strings, then (read from the source) a flush; tickit_term_resume likewise
    let tb1 :=
      let t := Tickit.SgrBuf.write (Tickit.SgrBuf.clear st.tb) xtermPauseBytes
      if Tickit.Gen.TermBuf.term_pause_flushes then Tickit.TermBuf.flush t else t
    let resumed (bs : List Nat) : Tickit.TermBuf.State :=
      let t := Tickit.SgrBuf.write (Tickit.SgrBuf.clear tb1) (xtermResumeBytes ++ bs)
      if Tickit.Gen.TermBuf.term_resume_flushes then Tickit.TermBuf.flush t else t
    let (mobs, dead') : String × Bool :=
      if st.dead then ("ub after-overflow", true) else
      match resumeChpen st.cfg.caps st.cfg.cap st.resend st.cache with
      | .overflow n => (s!"ub params-overflow needed={n} cap={st.cfg.cap}", true)
      | .bytes bs => (s!"p={bytesHexN (Tickit.SgrBuf.received tb1)} b={bytesHexN (Tickit.SgrBuf.received (resumed bs))} pen={showPen st.cache}", false)
    let tb' : Tickit.TermBuf.State :=
      match resumeChpen st.cfg.caps st.cfg.cap st.resend st.cache with
      | .bytes bs => if st.dead then st.tb else resumed bs
      | _ => st.tb
    let (vt', sv) : VT × String :=
      match (field? its "p").bind hexBytes?, (field? its "b").bind hexBytes? with
      | some ps, some bs =>
        let bytes := bs.map (·.toNat)
        let pbytes := ps.map (·.toNat)
        let vt' := run bytes (run pbytes st.vt)
        (vt', if st.buffered then "" else pre (specAfter st vt' st.logical bytes false none (strictDiff "pause + resume" (pbytes ++ bytes) st.vt false)))
      | _, _ => (st.vt, crash)
    ({ st with dead := dead', vt := vt', tb := tb' }, mobs, sv)
  else
    let mobs :=
      if st.resend then s!"pause=1 resume=1 order=prc n=1 d={showPen st.cache} f={showPen st.cache} pen={showPen st.cache}"
      else s!"pause=1 resume=1 order=pr n=0 d=? f=? pen={showPen st.cache}"
    let vt1 := run xtermResumeBytes (run xtermPauseBytes st.vt)
    let (vt', sv) : VT × String :=
      match field? its "n" with
      | some "0" => (vt1, pre (specAfter st vt1 st.logical [] false))
      | some _ =>
        match (field? its "d").bind parsePen, (field? its "f").bind parsePen with
        | some d, some f =>
          match xtermChpen st.cfg.caps st.cfg.cap d f with
          | .bytes bytes =>
            let vt' := run bytes vt1
            (vt', pre (specAfter st vt' st.logical bytes false))
          | .overflow n => (st.vt, s!"the xterm encoder would need {n} parameters")
        | _, _ => (st.vt, crash)
      | none => (st.vt, crash)
    ({ st with vt := vt' }, mobs, sv)

/-- `outbuf <n>`: tickit_term_set_output_buffer.  (Whatever was pending is dropped by the library: C11's business; the
    generator asks for a buffer only when nothing is pending.) -/
def outbufOp (st : DState) (n : Nat) (impl : String) : DState × String × String :=
  let tb' := Tickit.TermBuf.setOutputBuffer (Tickit.SgrBuf.clear st.tb) n
  let mobs := if st.dead then "ub after-overflow" else s!"b={bytesHexN []} pen={showPen st.cache}"
  ({ st with tb := tb', buffered := n ≠ 0 }, mobs,
    if impl.startsWith "CRASH" then s!"the implementation aborted under the sanitizers ({impl})" else "")

/-- `flush`: tickit_term_flush.  Everything the requests so far have emitted is now with the terminal: the rendering
    attributes in force there, as determined by the bytes received in the order they were received, must equal the
    logical pen. -/
def flushOp (st : DState) (impl : String) : DState × String × String :=
  let tb' := Tickit.TermBuf.flush (Tickit.SgrBuf.clear st.tb)
  let mobs := if st.dead then "ub after-overflow" else s!"b={bytesHexN (Tickit.SgrBuf.received tb')} pen={showPen st.cache}"
  let (vt', sv) : VT × String :=
    match (field? (toks impl) "b").bind hexBytes? with
    | some bs =>
      let bytes := bs.map (·.toNat)
      let vt' := run bytes st.vt
      let s := specAfter st vt' st.logical bytes false
      (vt', if s = "" then "" else "after flush (all output of the requests so far delivered, in the order the output function received it): " ++ s)
    | none => (st.vt, if impl.startsWith "CRASH" then s!"the implementation aborted under the sanitizers ({impl})"
                      else s!"no bytes to interpret: implementation said '{impl}'")
  ({ st with vt := vt', tb := tb' }, mobs, sv)

/-- `print <word>`: text between pen requests. -/
def printOp (st : DState) (word : String) (impl : String) : DState × String × String :=
  let text := word.toUTF8.toList.map (·.toNat)
  if st.mode = "x" then
    let tb' := if st.dead then st.tb else Tickit.SgrBuf.write (Tickit.SgrBuf.clear st.tb) text
    let mobs := if st.dead then "ub after-overflow" else s!"b={bytesHexN (Tickit.SgrBuf.received tb')} pen={showPen st.cache}"
    let (vt', sv) : VT × String :=
      match (field? (toks impl) "b").bind hexBytes? with
      | some bs =>
        let bytes := bs.map (·.toNat)
        let vt' := run bytes st.vt
        let s := if st.buffered then "" else specAfter st vt' st.logical bytes false
        (vt', if s = "" then "" else "after printing text: " ++ s)
      | none => (st.vt, if impl.startsWith "CRASH" then s!"the implementation aborted under the sanitizers ({impl})" else "")
    ({ st with vt := vt', tb := tb' }, mobs, sv)
  else
    (st, s!"t={bytesHexN text} pen={showPen st.cache}",
      if impl.startsWith "CRASH" then s!"the implementation aborted under the sanitizers ({impl})" else "")

def stepBase (st : DState) (ts : List String) (impl : String) : DState × String × String :=
  match ts with
  | ["new", "x", rgb8, colon, how] =>
    match int? rgb8, int? colon with
    | some r, some c =>
      if how ≠ "reply" ∧ how ≠ "ctl" then ({}, "bad-op", "") else
      let caps : Caps := ⟨r ≠ 0, c ≠ 0⟩
      let st' : DState := { mode := "x", cfg := { colors := 256, caps := caps, cap := Tickit.Gen.Sgr.paramsCap } }
      let mobs := s!"x rgb8={showB caps.rgb8} colon={showB caps.colon} b={bytesHexN xtermStart} pen=-"
      let (vt', sv) : VT × String :=
        match (field? (toks impl) "b").bind hexBytes? with
        | some bs =>
          let bytes := bs.map (·.toNat)
          let vt' := run bytes st'.vt
          (vt', specAfter st' vt' {} bytes false)
        | none => (st'.vt, s!"no bytes to interpret: implementation said '{impl}'")
      ({ st' with vt := vt' }, mobs, sv)
    | _, _ => ({}, "bad-op", "")
  | ["new", "g", colors, rgb8, colon] =>
    match int? colors, int? rgb8, int? colon with
    | some n, some r, some c =>
      -- the harness-owned driver has no params[]: the composed encoder is given room for everything
      ({ mode := "g", cfg := { colors := n, caps := ⟨r ≠ 0, c ≠ 0⟩, cap := 64 } }, s!"g colors={n} pen=-", "")
    | _, _, _ => ({}, "bad-op", "")
  | ["new", "t"] => ({ mode := "t" }, "t", "")
  | ["palette"] =>
    if st.mode = "t" then
      let m := " ".intercalate (toString Tickit.Gen.Palette.size :: palettePairs)
      (st, m, if impl = m then "" else "Gen/Palette differs from the table the C compiler sees")
    else (st, "bad-op", "")
  | ["suspend"] =>
    if st.mode ≠ "x" ∧ st.mode ≠ "g" then (st, "bad-op", "") else suspendOp st impl
  | ["flush"] => if st.mode ≠ "x" then (st, "bad-op", "") else flushOp st impl
  | ["outbuf", n] =>
    if st.mode ≠ "x" then (st, "bad-op", "") else
    match int? n with
    | some k => outbufOp st k.toNat impl
    | none => (st, "bad-op", "")
  | ["print", word] =>
    if st.mode ≠ "x" ∧ st.mode ≠ "g" then (st, "bad-op", "") else printOp st word impl
  | [opname, pen] =>
    if st.mode ≠ "x" ∧ st.mode ≠ "g" then (st, "bad-op", "") else
    match opname, parsePen pen with
    | "setpen", some p => penOp st (.set p) impl
    | "chpen", some p => penOp st (.ch p) impl
    | _, _ => (st, "bad-op", "")
  | _ => (st, "bad-op", "")

/-- text after the first ` init ` of an observation (the part about the initial request), and the text before it -/
def splitInit (impl : String) : String × String :=
  match impl.splitOn " init " with
  | a :: b :: rest => (a, " init ".intercalate (b :: rest))
  | _ => (impl, "")

def step (st : DState) (ts0 : List String) (impl : String) : DState × String × String :=
  -- `renew …` = `new …` inside a running history: a fresh terminal, a fresh model
  let ts := match ts0 with
    | "renew" :: rest => "new" :: rest
    | _ => ts0
  match ts with
  | ["new", kind, a, b, c, pen] =>
    -- a history that starts with `pen` in force: construction, then `setpen pen`
    if kind ≠ "x" ∧ kind ≠ "g" then ({}, "bad-op", "") else
    match parsePen pen with
    | none => ({}, "bad-op", "")
    | some p =>
      let (i1, i2) := splitInit impl
      let (st1, m1, s1) := stepBase st ["new", kind, a, b, c] i1
      if m1 = "bad-op" then ({}, "bad-op", "") else
      let (st2, m2, s2) := penOp st1 (.set p) i2
      (st2, m1 ++ " init " ++ m2,
        if s1 ≠ "" then s1 else if s2 ≠ "" then "pen in force at the start (setpen): " ++ s2 else "")
  | _ => stepBase st ts impl

def engine : Engine := { σ := DState, init := {}, step := step }

end Tickit.Driver.SgrEngine
