import Tickit.Model.EvLoop
import Tickit.Model.EvLoopMulti
import Tickit.Model.EvLoopFb
import Tickit.Model.EvLoopSpec
import Tickit.Model.EvLoopTerm
import Tickit.Model.EvLoopUnbind
import Tickit.Gen.EvLoop
import Tickit.Driver.Common
/-
  Engine `evloop` (C17, C18).  Operation and observation vocabulary: see harness/evloop.c.
  The model observation is printed from `Tickit.EvLoop.World.step` (Model/EvLoopMulti.lean: `Tickit.EvLoop.applyOp`
  on the instance operated on); the specification verdict comes from
  `Tickit.EvLoop.Spec.step` (Model/EvLoopSpec.lean) evaluated on the *implementation's* observation.
-/
namespace Tickit.Driver.EvLoopEngine
open Tickit Tickit.Driver Tickit.EvLoop

/-! ### parsing -/

def nat? (s : String) : Option Nat := s.toNat?

def parseAct (tok : String) : Act :=
  match tok.splitOn "," with
  | c :: rest =>
    match ints? rest with
    | none => .nop
    | some v =>
      match c, v with
      | "T", [k, ms, f] => if ms ≥ 0 then .timer k ms f.toNat else .nop
      | "A", [k, s, u, f] => if u ≥ 0 then .timerAt k s u f.toNat else .nop
      | "L", [k, f] => .later k f.toNat
      | "I", [k, fd, c, f] => .io k fd c.toNat f.toNat
      | "S", [k, s, f] => if validSig s then .signal k s f.toNat else .nop
      | "P", [k, p, f] => if validPid p then .process k p f.toNat else .nop
      | "C", [k] => .cancel k
      | "E", [e] => .errno e
      | "R", [s] => if validSig s then .raise s else .nop
      | "X", [p, s] => if validPid p then .exit p s else .nop
      | "K", [] => .stop
      | _, _ => .nop
  | [] => .nop

def parseOp (ts : List String) : Op :=
  match ts with
  | ["new"] => .new 0
  | ["new", "C17"] => .new 17
  | ["new", "C18"] => .new 18
  | ["end"] => .finish
  | "beh" :: k :: n :: acts =>
    match int? k, nat? n with
    | some k, some n => .beh { k := k, n := n, acts := acts.map parseAct }
    | _, _ => .bad
  | op :: rest =>
    match ints? rest with
    | none => .bad
    | some v =>
      match op, v with
      | "timer", [k, ms, f] => if ms ≥ 0 then .act (.timer k ms f.toNat) else .bad
      | "timer_at", [k, s, u, f] => if u ≥ 0 then .act (.timerAt k s u f.toNat) else .bad
      | "later", [k, f] => .act (.later k f.toNat)
      | "io", [k, fd, c, f] => .act (.io k fd c.toNat f.toNat)
      | "signal", [k, s, f] => if validSig s then .act (.signal k s f.toNat) else .bad
      | "process", [k, p, f] => if validPid p then .act (.process k p f.toNat) else .bad
      | "cancel", [k] => .act (.cancel k)
      | "clock", [us] => if us ≥ 0 then .clock us else .bad
      | "ready", [fd, b] => if FD0 ≤ fd && fd < FD0 + NFD then .ready fd b.toNat else .bad
      | "raise", [s] => if validSig s then .act (.raise s) else .bad
      | "inpoll", [s] => if validSig s then .inpoll s else .bad
      | "exit", [p, s] => if validPid p then .act (.exit p s) else .bad
      | "tick", [] => .tick
      | "tickhang", [] => .tickhang
      | "run", [] => .run
      | "destroy", [] => .destroy
      | _, _ => .bad
  | [] => .bad

def parseWOp (ts : List String) : WOp :=
  match ts with
  | ["inst", i] => match nat? i with | some i => if i < NINST then .inst i else .op .bad | none => .op .bad
  | ["use", i] => match nat? i with | some i => if i < NINST then .use i else .op .bad | none => .op .bad
  | _ => .op (parseOp ts)

/-! ### printing -/

def showInfo : Info → String
  | .none => "-"
  | .io fd c => s!"{fd}/{c}"
  | .proc p w => s!"{p}/{w}"

def showEv : Ev → String
  | .g => "g"
  | .poll t slots ret =>
    let ts := match t with | some ms => toString ms | none => "inf"
    let ss := if slots.isEmpty then "-" else ",".intercalate (slots.map fun (fd, e) => s!"{fd}/{e}")
    let rs := match ret with | some n => toString n | none => "eintr"
    s!"poll:{ts}:{ss}:{rs}"
  | .cb k f i => s!"cb:{k}:{f}:{showInfo i}"
  | .skip k => s!"skip:{k}"
  | .dup k => s!"dup:{k}"
  | .a => "a"
  | .hstop => "hstop"

def showSet (l : List Int) : String :=
  let m := SIGS.filter l.contains
  if m.isEmpty then "-" else ",".intercalate (m.map toString)

def trailer (st : St) (fb : Bool := false) : String :=
  s!"; b={showSet st.blocked} h={showSet st.handled} p={showSet st.kpending}" ++
  (if fb then (if st.pipesMade > 0 then s!" q={st.pipeBytes}" else " q=-") else "")

def ubName : Ub → String
  | .timerInsertWalk => "tickit_watch_timer_at_tv walks t->timers through a freed timer"
  | .insertWalk => "insert_watch walks a list through a freed watch"
  | .cancelType => "tickit_watch_cancel reads the type of a freed watch"
  | .cancelWalk => "tickit_watch_cancel walks a list through a freed watch"
  | .timerLoopThis => "tickit_evloop_invoke_timers reads a timer its callback freed"
  | .laterLoopThis => "tickit_evloop_invoke_timers reads a freed later"
  | .invokeWatchType => "invoke_watch reads the type of a watch its callback freed"
  | .invokeWatchWalk => "invoke_watch walks a list through a freed watch"
  | .sigLoopThis => "tickit_evloop_invoke_sigwatches reads a signal watch its callback freed"
  | .procLoopThis => "on_sigchld reads a freed process watch"
  | .destroyWalk => "destroy_watchlist reads a freed watch"
  | .nextTimerHead => "tickit_evloop_next_timer_msec reads a freed timer"
  | .doubleFree => "double free"

def isNew : Op → Bool
  | .new _ => true
  | _ => false

/-- Which property a crash the model predicts belongs to (17, 18). -/
def ubOwner : Ub → Nat
  | .invokeWatchType => 18
  | .sigLoopThis => 18
  | _ => 17

def showObs (st : St) (op : Op) (dead : Bool) (leaks : List Nat) (fb : Bool := false) : String :=
  let evs := String.join (st.log.reverse.map fun e => showEv e ++ " ")
  let cut (crash : String) : String := if st.log.isEmpty then crash else evs ++ " <cut>"
  match st.status with
  | .ub _ => cut "CRASH exit=1"
  | .killed s => cut s!"CRASH signal={s}"
  | .outOfFuel => "MODEL-OUT-OF-FUEL"
  | .ok =>
    match op with
    | .finish => s!"leaks={if leaks.isEmpty then 0 else 1}"
    | .bad => if dead then "dead" else "bad-op"
    | _ =>
      if dead && !isNew op then "dead"
      else
        evs ++ "ok " ++ trailer st fb

/-! ### the engine -/

structure DSt where
  m : World
  s : Spec.SSt
  started : Bool
  /-- the history runs in the self-pipe configuration (`new … fb`): `m.st` is a state of Model/EvLoopFb.lean -/
  fb : Bool := false
  /-- `new … tt`: a stand-alone terminal (number 0) observes SIGWINCH from before the instance was built -/
  ttmode : Bool := false
  /-- the observer list of term.c (`first_sigwinch_observer` …) -/
  tobs : List Nat := []
  /-- unbind handlers (`ubeh k …`, Model/EvLoopUnbind.lean) -/
  ubehs : List Beh := []

def cfgOfSource : Config :=
  { ioFlagMask := Gen.EvLoop.ioFlagMask, timersPop := Gen.EvLoop.timersPop, errnoSaved := Gen.EvLoop.errnoSaved,
    pendingInit := Gen.EvLoop.pendingInit, reventsCleared := Gen.EvLoop.reventsCleared,
    invokeTypeSaved := Gen.EvLoop.invokeTypeSaved, sigSnapshot := Gen.EvLoop.sigSnapshot,
    procSnapshot := Gen.EvLoop.procSnapshot, laterCancelMarks := Gen.EvLoop.laterCancelMarks,
    processLinked := Gen.EvLoop.processLinked, sigpipeViaInvoke := Gen.EvLoop.sigpipeViaInvoke }

/-- One operation line in the self-pipe configuration (one instance, number 0; Model/EvLoopFb.lean). -/
def stepFb (d : DSt) (ts : List String) (impl : String) : DSt × String × String :=
  let wop := parseWOp ts
  let op := match wop with | .op o => o | _ => .bad
  let named := match wop with | .op _ => false | _ => true
  let other := match wop with | .inst i => i ≠ 0 | .use i => i ≠ 0 | _ => false
  let st0 : St := if isNew op then Fb.build cfgOfSource else d.m.st
  let dead := !named && !st0.alive
  let st : St :=
    if isNew op then st0
    else match wop with
      | .op o => Fb.applyOp st0 o
      | .inst _ =>
        if other || !st0.isOk then { st0 with log := [] }
        else if st0.alive then { st0 with log := [] }
        else Fb.buildOn { st0 with log := [] }
      | .use _ => { st0 with log := [] }
  let leaks := Tickit.EvLoop.leaked st
  let obs :=
    if other then (match st.status with | .ok => "bad-op" | _ => showObs st .bad false [] true)
    else if named then showObs st (.clock 0) false [] true
    else showObs st op dead leaks true
  let why := match st.status with
    | .ub .sigLoopThis =>
      if cfgOfSource.sigpipeViaInvoke then ubName .sigLoopThis
      else "on_sigpipe_readable (self-pipe signal fallback of tickit.c) reads this->next of a signal watch its callback cancelled and freed"
    | .ub x => ubName x
    | .killed s => s!"killed by signal {s}"
    | _ =>
      if op = .finish then
        ", ".intercalate (leaks.map fun a =>
          let x := st.getW a
          s!"{Spec.kindName x.type} {x.slot} was never released")
      else ""
  let owner := match st.status with
    | .ub x => ubOwner x
    | _ => 0
  let (s, verdict) := Spec.step d.s wop (toks impl) why owner
  let s := if isNew op then { s with fb := true } else s
  ({ d with m := { d.m with st := st }, s := s, started := true, fb := true }, obs, verdict)

/-- `obs 0|1`: `tickit_term_observe_sigwinch` of the second stand-alone terminal (Model/EvLoopTerm.lean). -/
def stepObs (d : DSt) (observe : Bool) (impl : String) : DSt × String × String :=
  let w0 := d.m
  if !w0.st.alive then (d, showObs { w0.st with log := [] } (.clock 0) true [], "")
  else if !d.ttmode then (d, showObs { w0.st with log := [] } .bad false [], "")
  else
    let r := termObserve d.tobs { w0.st with log := [] } 1 observe
    let w := if w0.st.isOk then w0.sync r.2 else { w0 with st := { w0.st with log := [] } }
    let tobs := if w0.st.isOk then r.1 else d.tobs
    let why := match w.st.status with
      | .killed s => s!"killed by signal {s}"
      | _ => ""
    let (s, verdict) := Spec.step d.s (.op (.clock 0)) (toks impl) why 0
    ({ d with m := w, s := s, tobs := tobs }, showObs w.st (.clock 0) false [], verdict)

/-- `ubeh k a1 a2 …`: the unbind handler of watch slot `k`. -/
def stepUbeh (d : DSt) (k : Int) (acts : List String) : DSt × String × String :=
  let w0 := d.m
  let st := { w0.st with log := [] }
  if !w0.st.alive then (d, showObs st (.clock 0) true [], "")
  else if d.ubehs.any (fun (b : Beh) => b.k = k) || !w0.st.isOk then (d, showObs st (.clock 0) false [], "")
  else
    let b : Beh := { k := k, n := 0, acts := acts.map fun t => match parseAct t with | .cancel _ => .nop | x => x }
    ({ d with ubehs := d.ubehs ++ [b], s := { d.s with ubehs := d.s.ubehs ++ [b] } }, showObs st (.clock 0) false [], "")

/-- A top-level `cancel k` of a watch that has an unbind handler (Model/EvLoopUnbind.lean). -/
def stepCancelU (d : DSt) (k : Int) (impl : String) : DSt × String × String :=
  let w0 := d.m
  let dead := !w0.st.alive
  let w := w0.sync (applyCancelU d.ubehs w0.st k)
  let m := w.st
  let why := match m.status with
    | .ub x => ubName x
    | .killed s => s!"killed by signal {s}"
    | _ => ""
  let owner := match m.status with
    | .ub x => ubOwner x
    | _ => 0
  let (s, verdict) := Spec.step d.s (.op (.act (.cancel k))) (toks impl) why owner
  ({ d with m := w, s := s }, showObs m (.act (.cancel k)) dead [], verdict)

def step (d : DSt) (ts : List String) (impl : String) : DSt × String × String :=
  -- `new [Cnn] fb` starts a history in the self-pipe configuration
  let startsFb := ts.head? = some "new" && ts.contains "fb"
  let startsNew := ts.head? = some "new"
  let startsTt := startsNew && !startsFb && ts.contains "tt"
  let d := if startsNew then { d with ttmode := startsTt, tobs := if startsTt then [0] else [], ubehs := [] } else d
  -- `new … blk=s1,s2`: signals the application has blocked when the instance is built (default hooks only)
  let blk : List Int := if startsNew && !startsFb then
      (ts.filter (·.startsWith "blk=")).flatMap fun t => ((t.splitOn "=").getD 1 "" |>.splitOn ",").filterMap fun x => (int? x).filter validSig
    else []
  let ts := if startsNew then ts.filter (fun t => t ≠ "tt" && !t.startsWith "blk=") else ts
  if startsFb || (d.fb && !startsNew) then stepFb d (ts.filter (· ≠ "fb")) impl else
  let d := { d with fb := false }
  if !d.fb && ts = ["obs", "1"] then stepObs d true impl else
  if !d.fb && ts = ["obs", "0"] then stepObs d false impl else
  let ub? : Option (Int × List String) := match ts with
    | "ubeh" :: k :: acts => (int? k).map fun k => (k, acts)
    | _ => none
  if let some (k, acts) := ub? then stepUbeh d k acts else
  let cu? : Option Int := match ts with
    | ["cancel", k] => (int? k).bind fun k => if d.ubehs.any (fun (b : Beh) => b.k = k) then some k else none
    | _ => none
  if let some k := cu? then stepCancelU d k impl else
  let wop := parseWOp ts
  let op := match wop with | .op o => o | _ => .bad
  let named := match wop with | .op _ => false | _ => true
  let w0 := if isNew op then
      -- the process-wide signal mask the application starts the library with; `evloop_init` starts its `ppoll` mask
      -- empty (sigemptyset(&defmask)), which is what `Tickit.EvLoop.ppoll` mirrors: every pending signal is delivered
      let w := World.init cfgOfSource
      { w with st := { w.st with blocked := blk.foldl (fun l s => setInsert s l) w.st.blocked } }
    else d.m
  -- an operation on an instance that does not exist (never built, destroyed) does nothing
  let dead := !named && !w0.st.alive
  let w := if isNew op then w0 else w0.step wop
  let m := w.st
  let obs := if named then showObs m (.clock 0) false [] else showObs m op dead w.leaked
  let why := match m.status with
    | .ub x => ubName x
    | .killed s => s!"killed by signal {s}"
    | _ =>
      if op = .finish then
        ", ".intercalate (w.leaked.map fun a =>
          let x := m.getW a
          s!"{Spec.kindName x.type} {x.slot} was never released")
      else ""
  let owner := match m.status with
    | .ub x => ubOwner x
    | _ => 0
  let (s, verdict) := Spec.step d.s wop (toks impl) why owner
  ({ d with m := w, s := s, started := true, fb := false }, obs, verdict)

/-- When several signals whose default action ends the process become deliverable at the same instant (raised while
    blocked inside the wait, none of them watched), which one the kernel delivers first is the kernel's choice (Linux: the
    lowest number), not the order in which they were raised, which is what `pollRaise` folds over. Model and implementation
    agree that the process was killed by a signal; the number is taken from the implementation. -/
def killedAlike (model impl : String) : Bool :=
  match model.splitOn "CRASH signal=", impl.splitOn "CRASH signal=" with
  | [a, _], [b, _] => a == b
  | _, _ => false

def stepK (d : DSt) (ts : List String) (impl : String) : DSt × String × String :=
  let (d', obs, v) := step d ts impl
  (d', if killedAlike obs impl then impl else obs, v)

def engine : Engine :=
  { σ := DSt, init := { m := { st := { cfg := cfgOfSource } }, s := Spec.init, started := false }, step := stepK }

end Tickit.Driver.EvLoopEngine
