import Tickit.Model.LifeOut
import Tickit.Model.LifeTmp
import Tickit.Model.LifeKids
import Tickit.Model.LifeProc
import Tickit.Gen.Life
import Tickit.Driver.Common
import Tickit.Driver.Sgr
/-
  Engine `life` (C08).  Operation vocabulary: see harness/life.c.  One observation per operation:
      [H<w>k | H<w>m<type>@<line>,<col>]* <result> | W … | P … | S … | B … | T …        (`end`: … leak=0|1)
  or `CRASH exit=1` (sanitizer abort) / `CRASH signal=6` (abort()) for the rest of the history.

  The output operations (tbuf, tprint, tgoto, tflush, tcaps, tsetpen, tchpen: `Model/LifeOut.lean`) answer
      ok out=<hex of each chunk handed to the output function, comma separated | -> [pen=<cached pen>] | W …
  with the pen written as in engine `sgr` (`Driver/Sgr.lean`: `parsePen`, `showPen`, reused).

  The model runs with the configuration extracted from the source tree (`Gen.Life`): it mirrors the tree it is
  compared with, before or after the repairs.

  Specification evaluated on the implementation's observations (independent of the model's prediction of
  liveness; it uses only the application's own bookkeeping of what it holds):
    * no history dies (the harness issues documented calls only: nothing but ref/unref/close on a window that is
      closed or lies below a closed one — `tickit_window_close(3)`);
    * nothing the application still references is freed (pens, strings, buffers, the terminal);
    * a copy-out call leaves the byte behind a zero-length buffer alone;
    * no byte the terminal is sent by `tickit_renderbuffer_flush_to_term` comes from memory nobody has written (`fresh=0`);
    * at `end`, after every reference was dropped, every object is gone and LeakSanitizer finds nothing.
-/
namespace Tickit.Driver.LifeEngine
open Tickit Tickit.Driver Tickit.Life

def cfg0 : Cfg :=
  ⟨Gen.Life.closePurges, Gen.Life.destroyClosesChildren, Gen.Life.spanExactFit, Gen.Life.mouseKeepsRoot, Gen.Life.lastPressInit,
   Gen.Life.dragForgottenOnClose, Gen.Life.snapshotRouting, Gen.Life.penCopyKeepsSrc⟩

def cfg : TCfg :=
  { base := cfg0, rootForgetsTickit := Gen.Life.rootForgetsTickit, sigwinchClearsNext := Gen.Life.sigwinchClearsNext,
    setInputFdClearsTermkey := Gen.Life.setInputFdClearsTermkey }

structure DSt where
  otop : OTop := {}
  crashed : Option String := none      -- the model's prediction: the process is dead
  implDead : Bool := false             -- the implementation has printed CRASH in this history
  mock : Bool := false
  proc : ProcSt := {}                  -- the process watches of the instance (`Model/LifeProc.lean`)

instance : Inhabited DSt := ⟨{}⟩

def nat? (s : String) : Option Nat := s.toNat?

def parseAct (s : String) : Option Act :=
  match s.toList with
  | ['f'] => some .flush
  | ['x'] => some .unbindSelf
  | k :: rest =>
    match (String.ofList rest).toNat? with
    | none => none
    | some w =>
      match k with
      | 'u' => some (.unref w) | 'r' => some (.ref w) | 'c' => some (.close w)
      | 'R' => some (.restack .raise w) | 'F' => some (.restack .raiseFront w)
      | 'L' => some (.restack .lower w) | 'B' => some (.restack .lowerBack w)
      | 'h' => some (.hide w) | 's' => some (.«show» w)
      | _ => none
  | [] => none

def optPen (s : String) : Option (Option Nat) := if s = "-" then some none else (nat? s).map some

def parseOp (ts : List String) : Option Op :=
  match ts with
  | ["new", l, c] => do some (.newTerm (← int? l) (← int? c) false)
  | ["newmock", l, c] => do some (.newTerm (← int? l) (← int? c) true)
  | ["win", p, t, l, n, c, f] => do some (.win (← nat? p) ⟨← int? t, ← int? l, ← int? n, ← int? c⟩ (← nat? f))
  | ["unref", w] => do some (.act (.unref (← nat? w)))
  | ["ref", w] => do some (.act (.ref (← nat? w)))
  | ["close", w] => do some (.act (.close (← nat? w)))
  | ["raise", w] => do some (.act (.restack .raise (← nat? w)))
  | ["raisefront", w] => do some (.act (.restack .raiseFront (← nat? w)))
  | ["lower", w] => do some (.act (.restack .lower (← nat? w)))
  | ["lowerback", w] => do some (.act (.restack .lowerBack (← nat? w)))
  | ["hide", w] => do some (.act (.hide (← nat? w)))
  | ["show", w] => do some (.act (.«show» (← nat? w)))
  | "flush" :: _ => some (.act .flush)
  | ["geom", w, t, l, n, c] => do some (.geom (← nat? w) ⟨← int? t, ← int? l, ← int? n, ← int? c⟩)
  | ["focus", w] => do some (.focus (← nat? w))
  | ["expose", w] => do some (.expose (← nat? w))
  | "bind" :: w :: ev :: r :: acts => do
    let ev ← if ev = "key" then some Ev.key else if ev = "mouse" then some Ev.mouse else none
    some (.bind (← nat? w) ev ((← int? r) ≠ 0) (← acts.mapM parseAct))
  | ["unbind", w, id] => do some (.unbind (← nat? w) (← int? id))
  | ["key"] => some .key
  | ["mouse", t, b, l, c] => do some (.mouse ⟨← int? t, ← int? b, ← int? l, ← int? c⟩)
  | ["pen"] => some .pen
  | ["pref", k] => do some (.pref (← nat? k))
  | ["punref", k] => do some (.punref (← nat? k))
  | ["pset", k, v] => do some (.pset (← nat? k) (← int? v))
  | ["pdesc", k, h] => do some (.pdesc (← nat? k) (← hexBytes? h))
  | ["pcopy", d, s, ow] => do some (.pcopy (← nat? d) (← nat? s) ((← int? ow) ≠ 0))
  | ["pcopyattr", d, s] => do some (.pcopyattr (← nat? d) (← nat? s))
  | "pbind" :: k :: acts => do
    let pa (t : String) : Option PAct :=
      match t.toList with
      | 'q' :: r => (String.ofList r).toNat?.map PAct.unref
      | 'Q' :: r => (String.ofList r).toNat?.map PAct.ref
      | _ => none
    some (.pbind (← nat? k) (← acts.mapM pa))
  | ["punbind", k, id] => do some (.punbind (← nat? k) (← int? id))
  | ["setpen", w, p] => do some (.setpen (← nat? w) (← optPen p))
  | ["tref"] => some .tref
  | ["tunref"] => some .tunref
  | ["str", h] => do some (.str (← hexBytes? h))
  | ["sref", k] => do some (.sref (← nat? k))
  | ["sunref", k] => do some (.sunref (← nat? k))
  | ["sget", k] => do some (.sget (← nat? k))
  | ["rb", l, c] => do some (.rb (← int? l) (← int? c))
  | ["bref", k] => do some (.bref (← nat? k))
  | ["bunref", k] => do some (.bunref (← nat? k))
  | ["btext", k, l, c, h] => do some (.btext (← nat? k) (← int? l) (← int? c) (← hexBytes? h))
  -- the same text through tickit_renderbuffer_textf_at("%s") and through goto + tickit_renderbuffer_textn
  | ["btextf", k, l, c, h] => do some (.btext (← nat? k) (← int? l) (← int? c) (← hexBytes? h))
  | ["btextc", k, l, c, h] => do some (.btext (← nat? k) (← int? l) (← int? c) (← hexBytes? h))
  | ["berase", k, l, c, n] => do some (.berase (← nat? k) (← int? l) (← int? c) (← int? n))
  | ["bskip", k, l, c, n] => do some (.bskip (← nat? k) (← int? l) (← int? c) (← int? n))
  | ["bchar", k, l, c, cp] => do some (.bchar (← nat? k) (← int? l) (← int? c) (← int? cp))
  | ["bhline", k, l, a, b] => do some (.bhline (← nat? k) (← int? l) (← int? a) (← int? b))
  | ["bclear", k] => do some (.bclear (← nat? k))
  | ["breset", k] => do some (.breset (← nat? k))
  | ["bsave", k] => do some (.bsave (← nat? k))
  | ["bsavepen", k] => do some (.bsavepen (← nat? k))
  | ["brestore", k] => do some (.brestore (← nat? k))
  | ["bsetpen", k, p] => do some (.bsetpen (← nat? k) (← optPen p))
  | ["bflush", k] => do some (.bflush (← nat? k))
  | ["bcell", k, l, c, n] => do some (.bcell (← nat? k) (← int? l) (← int? c) (← int? n))
  | ["bspan", k, l, c, n] => do some (.bspan (← nat? k) (← int? l) (← int? c) (← int? n))
  | ["mdisp", n, l, c, w] => do some (.mdisp (← int? n) (← int? l) (← int? c) (← int? w))
  | ["end"] => some .«end»
  | _ => none

def parseTAct (s : String) : Option TAct :=
  if s = "t" then some .tunref else if s = "T" then some .tref
  else if s = "l" then some .later
  else if s.startsWith "a" then ((s.drop 1).toString.toInt?).map TAct.timerAt
  else match parseAct s with
    | some .unbindSelf => none
    | some a => some (.win a)
    | none => none

def parsePos (s : String) : Option (Int × Int) :=
  match s.splitOn "," with
  | [l, c] => do some (← int? l, ← int? c)
  | _ => none

def parseTok (s : String) : Option Tok :=
  match s.toList with
  | ['a'] => some .chr | ['A'] => some .alt | ['U'] => some .up | ['E'] => some .esc
  | 'P' :: r => (parsePos (String.ofList r)).map (fun p => .press p.1 p.2)
  | 'D' :: r => (parsePos (String.ofList r)).map (fun p => .drag p.1 p.2)
  | 'R' :: r => (parsePos (String.ofList r)).map (fun p => .release p.1 p.2)
  | _ => none

def parseXOp (ts : List String) : Option XOp :=
  match ts with
  | ["mprint", l, c, h] => do some (.mprint (← int? l) (← int? c) (← hexBytes? h))
  | ["newin", l, c] => do some (.newin (← int? l) (← int? c))
  | "tbind" :: ev :: r :: acts => do
    let ev ← if ev = "key" then some Ev.key else if ev = "mouse" then some Ev.mouse else none
    some (.tbind ev ((← int? r) ≠ 0) (← acts.mapM parseTAct))
  | ["tunbind", id] => do some (.tunbind (← int? id))
  | "tpush" :: toks => do some (.tpush (← toks.mapM parseTok))
  | "tread" :: toks => do some (.tread (← toks.mapM parseTok))
  | "twait" :: toks => do some (.twait (← toks.mapM parseTok) false)
  | "twaitv" :: toks => do some (.twait (← toks.mapM parseTok) true)
  | ["tcheck"] => some .tcheck
  | ["tick", ms] => do some (.tick (← int? ms))
  | ["newtop", l, c] => do some (.newtop (← int? l) (← int? c))
  | ["iref"] => some .iref
  | ["iunref"] => some .iunref
  | "ilater" :: acts => do some (.ilater (← acts.mapM parseTAct))
  | "itimer" :: ms :: acts => do some (.itimer (← int? ms) (← acts.mapM parseTAct))
  | "itimerat" :: ms :: acts => do some (.itimerat (← int? ms) (← acts.mapM parseTAct))
  | ["icancel", k] => do some (.icancel (← nat? k))
  | "itick" :: toks => do some (.itick (← toks.mapM parseTok))
  | ["mresize", l, c] => do some (.mresize (← int? l) (← int? c))
  | ["xnew"] => some .xnew
  | ["xref", k] => do some (.xref (← nat? k))
  | ["xunref", k] => do some (.xunref (← nat? k))
  | ["xobs", k, b] => do some (.xobs (← nat? k) ((← int? b) ≠ 0))
  | ["tobs", b] => do some (.tobs ((← int? b) ≠ 0))
  | ["winch"] => some .winch
  | ["tsetin"] => some .tsetin
  | _ => (parseOp ts).map .base

def parseIAct (s : String) : Option IAct :=
  match s.toList with
  | ['x'] => some .cancelSelf
  | 'i' :: r => ((String.ofList r).toNat?).map (fun v => .reg (v ≠ 0))
  | 'k' :: r => ((String.ofList r).toNat?).map .cancel
  | _ => none

/-- `linemask_to_char[]`: every entry is a box-drawing character of U+2500..U+257F (three bytes each); which one it is
    belongs to C03/C04.  The scratch block does not depend on it. -/
def lineGlyph (_mask : Int) : Nat := 0x2500

/-- `fresh=<n>`: how many of the bytes `tickit_renderbuffer_flush_to_term` sends for its runs of LINE cells have the value
    the allocator leaves in memory nobody has written (the harness counts them in what the output function is handed).
    The model of the scratch block (`Model/LifeTmp.lean`) says which bytes are sent; reading one that was never written
    is a failure there. -/
def freshText (b : RBObj) : String :=
  match flushLineRuns lineGlyph b {} with
  | .ok (_, bs) => s!" fresh={(bs.filter (· = 0xFE)).length}"
  | _ => " fresh=uninitialised"

/-- The operations of the output layer (`Model/LifeOut.lean`); a pen is written as in engine `sgr`
    (`fg=200#0a0b0c,bg=-1,b=1,u=2,…` or `-`). -/
def parseYOp (ts : List String) : Option YOp :=
  match ts with
  | ["tbuf", n] => do some (.tbuf (← nat? n))
  | ["tprint", h] => do some (.tprint (← hexBytes? h))
  | ["tgoto", l, c] => do some (.tgoto (← int? l) (← int? c))
  | ["tflush"] => some .tflush
  | ["tcaps", r, c, how] => do
    let via ← if how = "ctl" then some true else if how = "reply" then some false else none
    some (.tcaps ((← int? r) ≠ 0) ((← int? c) ≠ 0) via)
  | ["tsetpen", p] => do some (.tsetpen true (← SgrEngine.parsePen p))
  | ["tchpen", p] => do some (.tsetpen false (← SgrEngine.parsePen p))
  | "iio" :: r :: acts => do some (.iio ((← int? r) ≠ 0) (← acts.mapM parseIAct))
  | ["iiocancel", k] => do some (.iiocancel (← nat? k))
  | _ => (parseXOp ts).map .x

/-- The liveness columns of an implementation observation: (windows alive?, pens, strings, buffers, term). -/
structure ImplDump where
  wins : List Bool
  pens : List Bool
  strs : List Bool
  rbs : List Bool
  term : Bool
  inst : Bool := false
  xterms : List Bool := []

def parseBits (s : String) : List Bool := if s = "-" then [] else s.toList.map (· = '1')

def parseDump (impl : String) : Option ImplDump :=
  let field (x : String) : String := ((x.splitOn " ").filter (· ≠ "")).getD 1 "-"
  let letter (x : String) : String := ((x.splitOn " ").filter (· ≠ "")).getD 0 ""
  match impl.splitOn " | " with
  | _ :: w :: p :: s :: b :: t :: more =>
    if more.length > 2 then none else
    let wtoks := (w.splitOn " ").filter (fun x => x ≠ "" ∧ x ≠ "W")
    let wins := wtoks.map (fun x => !(x.endsWith ":x"))
    let i := (more.find? (fun x => letter x = "I")).map (fun x => (field x).startsWith "1")
    let x := (more.find? (fun x => letter x = "X")).map (fun x => parseBits (field x))
    if more.any (fun x => letter x ≠ "I" ∧ letter x ≠ "X") then none else
    some ⟨wins, parseBits (field p), parseBits (field s), parseBits (field b), (field t).startsWith "1", i.getD false, x.getD []⟩
  | _ => none

/-- Specification on one implementation observation, given the application's bookkeeping after the step. -/
def specCheck (d : DSt) (stAfter : St) (instRefs : Nat) (xRefs : List Nat) (op : Op) (impl : String) : String :=
  if impl.startsWith "CRASH" then
    if d.implDead then ""
    else s!"the library died ({impl}) in a history of documented calls"
  else
    match parseDump impl with
    | none => if impl = "bad-op" then "" else "unparsable implementation observation"
    | some dump =>
      let held {α : Type} (objs : List α) (refs : α → Nat) (alive : List Bool) : Option Nat :=
        ((List.range objs.length).zip (objs.zip alive)).findSome? (fun (i, o, a) => if refs o > 0 && !a then some i else none)
      -- handler log tokens `H<w>m<type>@<line>,<col>`: positions are terminal-sized
      let wild := (((impl.splitOn " | ").headD "").splitOn " ").any (fun tok =>
        match tok.splitOn "@" with
        | [h, pos] => h.startsWith "H" && (pos.splitOn ",").any (fun x => match x.toInt? with
            | some v => v > 1000000 || v < -1000000
            | none => false)
        | _ => false)
      if wild then "a mouse handler was handed a position read from uninitialised memory"
      else if (impl.splitOn "canary-overwritten").length > 1 then "copy-out call wrote behind a zero-length buffer"
      else if (match impl.splitOn " fresh=" with
          | _ :: rest :: _ => !(rest.startsWith "0 ")
          | _ => false) then "bytes of memory nobody has written were sent to the terminal as text"
      else match op with
        | .«end» =>
          if (impl.splitOn "leak=1").length > 1 then "allocations remain after the last reference was dropped (LeakSanitizer)"
          else if dump.wins.any id || dump.pens.any id || dump.strs.any id || dump.rbs.any id || dump.term || dump.inst || dump.xterms.any id then
            "an object is still alive after the application dropped every reference"
          else ""
        | _ =>
          match held stAfter.pens.toList (·.appRefs) dump.pens with
          | some k => s!"pen {k} was freed while the application holds a reference"
          | none =>
          match held stAfter.strs.toList (·.appRefs) dump.strs with
          | some k => s!"string {k} was freed while the application holds a reference"
          | none =>
          match held stAfter.rbs.toList (·.appRefs) dump.rbs with
          | some k => s!"buffer {k} was freed while the application holds a reference"
          | none =>
            if instRefs > 0 && !dump.inst then "the toplevel instance was freed while the application holds a reference"
            else if (xRefs.zip dump.xterms).any (fun (r, a) => r > 0 && !a) then "a further terminal was freed while the application holds a reference"
            else if stAfter.term.appRefs > 0 && !dump.term then "the terminal was freed while the application holds a reference"
            else if dump.wins.head?.getD false && !dump.term then "the terminal was freed while the root window is alive"
            else ""

def crashText : UB → String
  | .mem => "CRASH exit=1"
  | .abort => "CRASH signal=6"

def instRefs (top : Top) : Nat :=
  match top.inst with
  | some i => if i.freed then 0 else i.appRefs
  | none => 0

def xRefs (top : Top) : List Nat := top.xterms.toList.map (fun x => if x.freed then 0 else x.appRefs)

def dumpTop (top : Top) : String :=
  dump top.st ++ (match top.inst with
    | some i => s!" | I {if i.freed then 0 else 1}"
    | none => "") ++
  (if top.xterms.isEmpty then "" else " | X " ++ String.join (top.xterms.toList.map (fun x => if x.freed then "0" else "1")))

/-- `kids <w> <n>`: `tickit_window_get_children` into an array of exactly `n` slots (`Model/LifeKids.lean`); the state
    stays as it is. SPEC, in addition to the clauses of every step: the call reports no more slots than the length given. -/
def stepKids (d : DSt) (w n : Nat) (impl : String) : DSt × String × String :=
  let implDeadNow := impl.startsWith "CRASH"
  let top := d.otop.top
  let sv := specCheck d top.st (instRefs top) (xRefs top) (.focus w) impl
  let sv := if sv ≠ "" then sv else
    match (impl.splitOn " ").head? with
    | some tok => match (tok.splitOn "ret=") with
      | ["", r] => match r.toNat? with
        | some r => if r > n then s!"tickit_window_get_children reports {r} windows stored into an array of {n}" else ""
        | none => ""
      | _ => ""
    | none => ""
  let d' := { d with implDead := d.implDead || implDeadNow }
  match d.crashed with
  | some c => (d', c, sv)
  | none =>
    if n > 64 then (d', "skip" ++ dumpTop top, sv) else
    match kidsText top.st w n with
    | some r => (d', r ++ dumpTop top, sv)
    | none => ({ d' with crashed := some "CRASH exit=1" }, "CRASH exit=1", sv)

/-- `tickit_watch_cancel` of a process watch cancels the pending delivery (`if(this->process.notify) …` stands outside the
    `if(t->evhooks->cancel_process)` block: it is reached with the default loop, which has no such hook). -/
def cancelsNote : Bool := true

/-- `iproc <exited>` / `iproccancel <k>`: `tickit_watch_process` on a child of the harness's that has exited already or
    is still running, `tickit_watch_cancel` of such a watch. -/
def stepProc (d : DSt) (f : ProcSt → Option ProcSt) (impl : String) : DSt × String × String :=
  let implDeadNow := impl.startsWith "CRASH"
  let top := d.otop.top
  let sv := specCheck d top.st (instRefs top) (xRefs top) .pen impl
  let d' := { d with implDead := d.implDead || implDeadNow }
  match d.crashed with
  | some c => (d', c, sv)
  | none =>
    if !instHeld top then (d', "skip" ++ dumpTop top, sv) else
    match f d.proc with
    | some p => ({ d' with proc := p }, "ok" ++ dumpTop top, sv)
    | none => (d', "skip" ++ dumpTop top, sv)

def step (d : DSt) (ts : List String) (impl : String) : DSt × String × String :=
  match ts with
  | ["iproc", e] =>
    match nat? e with
    | some e => stepProc d (fun p => if p.recs.size < procCap then some (p.watch (e ≠ 0)) else none) impl
    | none => (d, "bad-op", "")
  | ["iproccancel", k] =>
    match nat? k with
    | some k => stepProc d (fun p => if p.pending k then some (p.cancel cancelsNote k) else none) impl
    | none => (d, "bad-op", "")
  | ["kids", w, n] =>
    match nat? w, nat? n with
    | some w, some n => stepKids d w n impl
    | _, _ => (d, "bad-op", "")
  | _ =>
  match parseYOp ts with
  | none => (d, "bad-op", "")
  | some yop =>
    let op := yop.specOp
    let d : DSt := if yop.isNew then ({ otop := {}, crashed := none, implDead := false, mock := false } : DSt) else d
    let implDeadNow := impl.startsWith "CRASH"
    match d.crashed with
    | some c =>
      let sv := specCheck d d.otop.top.st (instRefs d.otop.top) (xRefs d.otop.top) op impl
      ({ d with implDead := d.implDead || implDeadNow }, c, sv)
    | none =>
      let o0 := d.otop
      let top0 := o0.top
      match Life.ystep cfg o0 yop with
      | .ok (o1, res) =>
        let top := o1.top
        match top.fail with
        | some c =>
          -- the process has died in the SIGWINCH machinery (freed observer, NULL link, endless walk)
          ({ d with otop := o0, crashed := some c, implDead := d.implDead || implDeadNow }, c, specCheck d top0.st (instRefs top0) (xRefs top0) op impl)
        | none =>
        let st := top.st
        let logs := String.join (st.log.map (· ++ " "))
        let st := { st with log := [] }
        let top := { top with st := st }
        let instLeft := match top.inst with
          | some i => !i.freed
          | none => false
        let tail := match op with
          | .«end» => s!" leak={if anythingLeft st || instLeft || top.xterms.any (fun x => !x.freed) then 1 else 0}"
          | _ => ""
        -- tickit_term_setpen / chpen: the pen the terminal has cached afterwards
        let res := match yop with
          | .tsetpen .. => if res.startsWith "ok" then res ++ " pen=" ++ SgrEngine.showPen o1.o.cache else res
          | .x (.base (.bflush k)) => if res = "ok" then res ++ freshText (top0.st.rbs[k]?.getD {}) else res
          | _ => res
        let logs := logs ++ String.join (o1.io.log.map (· ++ " "))
        let o1 := { o1 with io := { o1.io with log := [] } }
        let ticked := match yop with
          | .x (.itick _) => res = "ok"
          | _ => false
        match procAfter top ticked d.proc with
        | .ub k _ => ({ d with otop := o0, crashed := some (crashText k), implDead := d.implDead || implDeadNow }, crashText k, specCheck d top0.st (instRefs top0) (xRefs top0) op impl)
        | .fuel => ({ d with crashed := some "MODEL-OUT-OF-FUEL", implDead := d.implDead || implDeadNow }, "MODEL-OUT-OF-FUEL", specCheck d top0.st (instRefs top0) (xRefs top0) op impl)
        | .ok proc =>
        let logs := logs ++ String.join (proc.log.map (· ++ " "))
        let proc := { proc with log := [] }
        let m := logs ++ res ++ dumpTop top ++ tail
        let sv := specCheck d st (instRefs top) (xRefs top) op impl
        ({ d with otop := { o1 with top := top }, proc := proc, implDead := d.implDead || implDeadNow }, m, sv)
      | .ub k what =>
        let c := crashText k
        let sv := specCheck d top0.st (instRefs top0) (xRefs top0) op impl
        let _ := what
        ({ d with otop := o0, crashed := some c, implDead := d.implDead || implDeadNow }, c, sv)
      | .fuel =>
        ({ d with crashed := some "MODEL-OUT-OF-FUEL", implDead := d.implDead || implDeadNow }, "MODEL-OUT-OF-FUEL", specCheck d top0.st (instRefs top0) (xRefs top0) op impl)

def engine : Engine := { σ := DSt, init := {}, step := step }

end Tickit.Driver.LifeEngine
