import Tickit.Model.RB
import Tickit.Model.RBCopy
import Tickit.Driver.Common
import Tickit.Driver.RB
/-
  Engine `rbcopy` (C13).  Operations and observation format: see harness/rbcopy.c.
  The printing functions (`showRB`, …) and the pen parser are those of engine `rb` (Driver/RB.lean).
  The model run by the driver is the *repaired* text of `copyrect` (`Variant.repaired`: fixes/C13_1_*.patch and fixes/C13_2_*.patch);
  on a tree without the repair the differential check reports the violation.
-/
namespace Tickit.Driver.RBCopyEngine
open Tickit Tickit.RB Tickit.Driver
open Tickit.Driver.RBEngine (showRB showRet showCells showPen showCell showFrame parsePenBody garbage)

/-- Which text of `copyrect` the driver runs (see Model/RBCopy.lean). -/
def fx : RBCopy.Variant := RBCopy.Variant.repaired

structure St where
  bufs : Array RB := #[]
  cur : Nat := 0
  /-- the buffers as the *implementation* last dumped them (`none`: no usable dump, e.g. after a crash) -/
  impl : Array (Option RB) := #[]

/-! ### Parsing the implementation's dump back into a concrete buffer
    (same format as `showRB` prints; adapted from the parser of engine `rb`) -/

/-- Split `s` at the first occurrence of `sep`. -/
def splitFirst (s sep : String) : Option (String × String) :=
  match s.splitOn sep with
  | [] => none
  | [_] => none
  | a :: rest => some (a, sep.intercalate rest)

/-- `{...}` prefix of `s` → pen and the rest. -/
def parseBracedPen (s : String) : Option (Pen × String) :=
  if !s.startsWith "{" then none else
  match splitFirst (s.drop 1).toString "}" with
  | none => none
  | some (body, rest) => (parsePenBody body).map fun p => (p, rest)

def parseCellTok (t : String) : Option Cell :=
  match t.toList with
  | [] => none
  | st :: _ =>
    let body := (t.drop 1).toString
    match splitFirst body "m" with
    | none => none
    | some (colsS, rest) =>
      match int? colsS with
      | none => none
      | some cols =>
        let mdS := (rest.takeWhile (· ≠ '{')).toString
        let after := (rest.drop mdS.length).toString
        match int? mdS with
        | none => none
        | some md =>
          let base : Cell := { cols := cols, maskdepth := md }
          match st with
          | 'S' => if after = "" then some { base with state := .skip } else none
          | 'C' => if after = "" then some { base with state := .cont } else none
          | 'E' => match parseBracedPen after with
            | some (p, "") => some { base with state := .erase, pen := p }
            | _ => none
          | 'T' => match parseBracedPen after with
            | some (p, r) => match r.splitOn "+" with
              | [h, o] => match hexBytes? h, int? o with
                | some bs, some offs => some { base with state := .text, pen := p, text := bs, offs := offs }
                | _, _ => none
              | _ => none
            | none => none
          | 'L' => match parseBracedPen after with
            | some (p, r) => if r.startsWith "x" then (int? (r.drop 1).toString).map fun m => { base with state := .line, pen := p, lmask := m.toNat } else none
            | none => none
          | 'H' => match parseBracedPen after with
            | some (p, r) => if r.startsWith "u" then (int? (r.drop 1).toString).map fun cp => { base with state := .char, pen := p, cp := cp } else none
            | none => none
          | _ => none

def parseFrame (t : String) : Option Frame :=
  if t.startsWith "P" then
    match parseBracedPen (t.drop 1).toString with
    | some (p, "") => some { penOnly := true, pen := p }
    | _ => none
  else if t.startsWith "F" then
    let body := (t.drop 1).toString
    let nums := (body.takeWhile (· ≠ '{')).toString
    match ints? (nums.splitOn ","), parseBracedPen (body.drop nums.length).toString with
    | some [a, b, c, d, e, f, g, h], some (p, "") =>
      some { penOnly := false, vcLine := a, vcCol := b, xlLine := c, xlCol := d, clip := ⟨e, f, g, h⟩, pen := p }
    | _, _ => none
  else none

def kv? (key tok : String) : Option String :=
  if tok.startsWith (key ++ "=") then some (tok.drop (key.length + 1)).toString else none

/-- `sz=.. vc=.. xl=.. clip=.. pen={..} depth=.. stack=[..] cells=<rows>` → buffer. -/
def parseDump (line : String) : Option RB := do
  let (hd, cellsS) ← splitFirst line " cells="
  match hd.splitOn " " with
  | [sz, vc, xl, clipS, penS, depthS, stackS] =>
    let szv ← ints? ((← kv? "sz" sz).splitOn ",")
    let vcv ← ints? ((← kv? "vc" vc).splitOn ",")
    let xlv ← ints? ((← kv? "xl" xl).splitOn ",")
    let cv ← ints? ((← kv? "clip" clipS).splitOn ",")
    let (pen, rest) ← parseBracedPen (← kv? "pen" penS)
    if rest ≠ "" then none
    let depth ← int? (← kv? "depth" depthS)
    let stS ← kv? "stack" stackS
    if !(stS.startsWith "[" && stS.endsWith "]") then none
    let inner := ((stS.drop 1).dropEnd 1).toString
    let frames ← if inner = "" then some [] else (inner.splitOn ";").mapM parseFrame
    match szv, vcv, xlv, cv with
    | [nl, nc], [vs, vl, vcc], [xa, xb], [ct, cl, cn, cc] =>
      let rows ← (if cellsS = "" then some [] else (cellsS.splitOn "/").mapM fun row => (row.splitOn " ").mapM parseCellTok)
      let tab : Array (Array Cell) := (rows.map List.toArray).toArray
      if tab.size ≠ nl.toNat || tab.any (fun row => row.size ≠ nc.toNat) then none
      let cells : Int → Row := fun l =>
        if 0 ≤ l then
          match tab[l.toNat]? with
          | some row => ⟨fun c => if 0 ≤ c then (row[c.toNat]?).getD default else default⟩
          | none => ⟨fun _ => default⟩
        else ⟨fun _ => default⟩
      some { lines := nl, cols := nc, cells := cells, vcSet := vs ≠ 0, vcLine := vl, vcCol := vcc, xlLine := xa, xlCol := xb,
             clip := ⟨ct, cl, cn, cc⟩, pen := pen, depth := depth, stack := frames }
    | _, _, _, _ => none
  | _ => none

/-- An observation `r=<..> <dump>[ | <dump>]` → the dumps. -/
def parseObs (line : String) : Option (RB × Option RB) :=
  match splitFirst line " " with
  | none => none
  | some (_, rest) =>
    match splitFirst rest " | " with
    | none => (parseDump rest).map fun a => (a, none)
    | some (a, b) => match parseDump a, parseDump b with
      | some a, some b => some (a, some b)
      | _, _ => none

/-! ### The executable specification (SPEC verdict) -/

open Tickit.RBCopy in
def showContent : Content → String
  | .skip => "skip"
  | .text p s k => s!"text{showPen p}{bytesHex s}@{k}"
  | .erase p => "erase" ++ showPen p
  | .line p m => s!"line{showPen p}x{m}"
  | .char p cp => s!"char{showPen p}u{cp}"

/-- The cells of the buffer. -/
def gridCells (rb : RB) : List (Int × Int) :=
  (List.range rb.lines.toNat).flatMap fun (l : Nat) => (List.range rb.cols.toNat).map fun (c : Nat) => ((l : Int), (c : Int))

/-- Run structure of a dumped buffer: runs tile every line, CONT cells point at their start, LINE/CHAR cells are
    one column wide, mask depths lie in [-1, depth], depth = number of frames. -/
def wfCheck (rb : RB) : String :=
  let bad := (gridCells rb).find? fun (l, c) =>
    let x := rb.cell l c
    let okMask := decide (-1 ≤ x.maskdepth ∧ x.maskdepth ≤ rb.depth)
    let okShape :=
      if x.state = .cont then
        decide (0 ≤ x.cols ∧ x.cols < c) && (rb.cell l x.cols).state ≠ .cont && decide (c < x.cols + (rb.cell l x.cols).cols)
      else
        decide (1 ≤ x.cols ∧ c + x.cols ≤ rb.cols) &&
        (if x.state = .line ∨ x.state = .char then decide (x.cols = 1) else true) &&
        (List.range (x.cols - 1).toNat).all fun (j : Nat) =>
          let y := rb.cell l (c + 1 + j)
          y.state = .cont && decide (y.cols = c)
    !(okMask && okShape)
  match bad with
  | some (l, c) => s!"cell ({l},{c}) breaks the run structure: {showCell (rb.cell l c)}"
  | none => if rb.depth ≠ rb.stack.length then s!"depth {rb.depth} but {rb.stack.length} frames" else ""

def showAux (rb : RB) : String :=
  s!"vc={if rb.vcSet then 1 else 0},{rb.vcLine},{rb.vcCol} xl={rb.xlLine},{rb.xlCol} " ++
  s!"clip={rb.clip.top},{rb.clip.left},{rb.clip.lines},{rb.clip.cols} pen=" ++ showPen rb.pen ++
  s!" depth={rb.depth} stack=[" ++ ";".intercalate (rb.stack.map showFrame) ++ "]"

/-- "None of these operations disturbs the buffer's saved-state stack, cursor, clip or translation" (nor pen,
    depth, masks, size). -/
def auxCheck (before after : RB) : String :=
  if before.lines ≠ after.lines ∨ before.cols ≠ after.cols then "size changed"
  else if showAux before ≠ showAux after then s!"auxiliary state disturbed: was {showAux before}, is {showAux after}"
  else match (gridCells before).find? (fun (l, c) => (before.cell l c).maskdepth ≠ (after.cell l c).maskdepth) with
    | some (l, c) => s!"mask depth of cell ({l},{c}) changed from {(before.cell l c).maskdepth} to {(after.cell l c).maskdepth}"
    | none => ""

open Tickit.RBCopy in
/-- Compare every cell of the dumped buffer with the cell-wise specification. -/
def contentCheck (after : RB) (expect : Int → Int → Content) : String :=
  match (gridCells after).find? (fun (l, c) => !(absContent after l c).same (expect l c)) with
  | some (l, c) => s!"cell ({l},{c}) shows {showContent (absContent after l c)}, specification says {showContent (expect l c)}"
  | none => ""

def firstFail (l : List String) : String := (l.find? (· ≠ "")).getD ""

/-- The operations of engine `rb` on one buffer: new buffer and the `r=` part. -/
def rbOp (rb : RB) (op : String) (args : List String) : Option (RB × String) :=
  let ia := ints? args
  match op, args, ia with
  | "text_at", [_, _, h], _ => do
      let l ← int? args[0]!; let c ← int? args[1]!; let bs ← hexBytes? h
      pure (textAt rb l c bs, showRet (some (putStringRet bs)))
  | "textf_at", [_, _, h], _ => do
      let l ← int? args[0]!; let c ← int? args[1]!; let bs ← hexBytes? h
      let bs := bs.takeWhile (· ≠ 0)
      pure (textAt rb l c bs, showRet (some (putStringRet bs)))
  | "text", [h], _ => do
      let bs ← hexBytes? h
      pure (text rb bs, showRet (some (textRet rb bs)))
  | "textf", [h], _ => do
      let bs ← hexBytes? h
      let bs := bs.takeWhile (· ≠ 0)
      pure (text rb bs, showRet (some (textRet rb bs)))
  | "erase_at", _, some [l, c, n] => some (eraseAt rb l c n, "r=-")
  | "erase", _, some [n] => some (erase rb n, "r=-")
  | "erase_to", _, some [c] => some (eraseTo rb c, "r=-")
  | "skip_at", _, some [l, c, n] => some (skipAt rb l c n, "r=-")
  | "skip", _, some [n] => some (skip rb n, "r=-")
  | "skip_to", _, some [c] => some (skipTo rb c, "r=-")
  | "char_at", _, some [l, c, cp] => some (charAt rb l c cp, "r=-")
  | "char", _, some [cp] => some (char rb cp, "r=-")
  | "hline", _, some [l, c1, c2, st, caps] => some (hlineAt rb l c1 c2 st.toNat caps.toNat, "r=-")
  | "vline", _, some [l1, l2, c, st, caps] => some (vlineAt rb l1 l2 c st.toNat caps.toNat, "r=-")
  | "clear", [], _ => some (clear rb, "r=-")
  | "eraserect", _, some [t, l, n, c] => some (eraserect rb ⟨t, l, n, c⟩, "r=-")
  | "skiprect", _, some [t, l, n, c] => some (skiprect rb ⟨t, l, n, c⟩, "r=-")
  | "goto", _, some [l, c] => some (goto rb l c, "r=-")
  | "ungoto", [], _ => some (ungoto rb, "r=-")
  | "xl", _, some [d, r] => some (translate rb d r, "r=-")
  | "clip", _, some [t, l, n, c] => some (clip rb ⟨t, l, n, c⟩, "r=-")
  | "mask", _, some [t, l, n, c] => some (mask rb ⟨t, l, n, c⟩, "r=-")
  | "setpen", ["NULL"], _ => some (setpen rb none, "r=-")
  | "setpen", [p], _ => (parsePenBody p).map fun pen => (setpen rb (some pen), "r=-")
  | "save", [], _ => some (save rb, "r=-")
  | "savepen", [], _ => some (savepen rb, "r=-")
  | "restore", [], _ => some (restore rb, "r=-")
  | "reset", [], _ => some (reset rb, "r=-")
  | "getcur", [], _ =>
    let r := match getCursor rb with
      | some (l, c) => s!"r=1,{l},{c}"
      | none => "r=0,-77,-77"
    some (rb, r)
  | "getcells", [], _ => some (rb, "r=" ++ showCells rb)
  | _, _, _ => none

/-- The harness' guard: a source rectangle with positive extent must lie inside the buffer. -/
def srcOk (rb : RB) (sr : Rect) : Bool :=
  decide (sr.lines ≤ 0 ∨ sr.cols ≤ 0) ||
  (decide (0 ≤ sr.top) && decide (0 ≤ sr.left) && decide (sr.bottom ≤ rb.lines) && decide (sr.right ≤ rb.cols))

/-- Record the implementation's dump(s) of this observation: the current buffer and, for `blit k`, buffer `k`. -/
def recordImpl (st : St) (implObs : String) (other : Option Nat) : St :=
  match parseObs implObs with
  | none => { st with impl := (st.impl.setIfInBounds st.cur none) }
  | some (a, b) =>
    let impl := st.impl.setIfInBounds st.cur (some a)
    let impl := match other, b with
      | some k, some b => if k = st.cur then impl else impl.setIfInBounds k (some b)
      | _, _ => impl
    { st with impl := impl }

open Tickit.RBCopy in
/-- SPEC of `copy` / `move`: evaluated on the implementation's dumps before and after the call. -/
def specCopyMove (isMove : Bool) (before : Option RB) (implObs : String) (dr sr : Rect) : String :=
  match before, parseObs implObs with
  | none, _ => ""                                     -- no usable dump before (reported at the earlier operation)
  | some _, none => "the call did not return a buffer (crash)"
  | some b, some (a, _) =>
    let expect := if isMove then moveExpect b dr sr else selfCopyExpect b dr sr
    firstFail [wfCheck a, auxCheck b a,
      -- the cell-wise clause is stated for "no translation in force" and rectangles with extent
      if b.xlLine = 0 ∧ b.xlCol = 0 ∧ sr.lines > 0 ∧ sr.cols > 0 then contentCheck a expect else ""]

open Tickit.RBCopy in
/-- SPEC of `blit k`. -/
def specBlit (same : Bool) (before srcBefore : Option RB) (implObs : String) : String :=
  match before, srcBefore, parseObs implObs with
  | none, _, _ => ""
  | _, none, _ => ""
  | some _, some _, none => "the call did not return a buffer (crash)"
  | some b, some sb, some (a, sa) =>
    firstFail [wfCheck a, auxCheck b a,
      (match sa with
       | some sa => if same then "" else if showRB sa ≠ showRB sb then "the source buffer changed" else ""
       | none => "no dump of the source buffer"),
      if same then contentCheck a (absContent b) else contentCheck a (blitExpect b sb)]

/-- `copy` / `move` on the current buffer `rb`: model run, bookkeeping, SPEC. -/
def copyMove (st : St) (rb : RB) (before : Option RB) (implObs : String) (isMove : Bool) (dr sr : Rect) :
    St × String × String :=
  if !srcOk rb sr then (st, "bad-op", "")
  else
    let rb' := (if isMove then RBCopy.move fx rb dr sr else RBCopy.copy fx rb dr sr).compact
    (recordImpl { st with bufs := st.bufs.setIfInBounds st.cur rb' } implObs none, "r=- " ++ showRB rb',
     specCopyMove isMove before implObs dr sr)

def step (st : St) (ts : List String) (implObs : String) : St × String × String :=
  match ts with
  | ["new", l, c] =>
    match int? l, int? c with
    | some l, some c =>
      let rb := (RB.new l c garbage garbage).compact
      (recordImpl { bufs := #[rb], cur := 0, impl := #[none] } implObs none, "r=- " ++ showRB rb, "")
    | _, _ => (st, "bad-op", "")
  | op :: args =>
    match st.bufs[st.cur]? with
    | none => (st, "bad-op", "")
    | some rb =>
      let before : Option RB := (st.impl[st.cur]?).getD none
      match op, ints? args with
      | "addbuf", some [l, c] =>
        if st.bufs.size ≥ 4 then (st, "bad-op", "")
        else
          let nb := (RB.new l c garbage garbage).compact
          ({ st with bufs := st.bufs.push nb, impl := st.impl.push (some nb) }, "r=- " ++ showRB rb, "")
      | "sel", some [k] =>
        if 0 ≤ k ∧ k.toNat < st.bufs.size then
          (recordImpl { st with cur := k.toNat } implObs none, "r=- " ++ showRB (st.bufs[k.toNat]?.getD rb), "")
        else (st, "bad-op", "")
      | "copy", some [dt, dl, st_, sl, n, c] => copyMove st rb before implObs false ⟨dt, dl, n, c⟩ ⟨st_, sl, n, c⟩
      | "move", some [dt, dl, st_, sl, n, c] => copyMove st rb before implObs true ⟨dt, dl, n, c⟩ ⟨st_, sl, n, c⟩
      -- the destination rectangle with a size of its own (only its position is meaningful)
      | "copy", some [dt, dl, st_, sl, n, c, dn, dc] => copyMove st rb before implObs false ⟨dt, dl, dn, dc⟩ ⟨st_, sl, n, c⟩
      | "move", some [dt, dl, st_, sl, n, c, dn, dc] => copyMove st rb before implObs true ⟨dt, dl, dn, dc⟩ ⟨st_, sl, n, c⟩
      | "blit", some [k] =>
        if 0 ≤ k ∧ k.toNat < st.bufs.size then
          let same := k.toNat == st.cur
          let src := st.bufs[k.toNat]?.getD rb
          let rb' := (RBCopy.blit fx same rb src).compact
          let st' := { st with bufs := st.bufs.setIfInBounds st.cur rb' }
          let src' := st'.bufs[k.toNat]?.getD rb'
          let srcBefore : Option RB := (st.impl[k.toNat]?).getD none
          (recordImpl st' implObs (some k.toNat), "r=- " ++ showRB rb' ++ " | " ++ showRB src',
           specBlit same before srcBefore implObs)
        else (st, "bad-op", "")
      | _, _ =>
        match rbOp rb op args with
        | none => (st, "bad-op", "")
        | some (rb', r) =>
          let rb' := rb'.compact
          (recordImpl { st with bufs := st.bufs.setIfInBounds st.cur rb' } implObs none, r ++ " " ++ showRB rb', "")
  | [] => (st, "bad-op", "")

def engine : Engine := { σ := St, init := {}, step := step }

end Tickit.Driver.RBCopyEngine
