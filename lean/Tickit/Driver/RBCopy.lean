import Tickit.Model.RB
import Tickit.Model.RBCopy
import Tickit.Driver.Common
import Tickit.Driver.RB
/-
  Engine `rbcopy` (C13).  Operations and observation format: see harness/rbcopy.c.
  The printing functions (`showRB`, …) and the pen parser are those of engine `rb` (Driver/RB.lean).
  The model run by the driver is the *repaired* text of `copyrect` (`fx = true`, fixes/C13_copyrect_run_state.patch);
  on a tree without the repair the differential check reports the violation.
-/
namespace Tickit.Driver.RBCopyEngine
open Tickit Tickit.RB Tickit.Driver
open Tickit.Driver.RBEngine (showRB showRet showCells parsePenBody garbage)

/-- Which text of `copyrect` the driver runs (see Model/RBCopy.lean). -/
def fx : Bool := false

structure St where
  bufs : Array RB := #[]
  cur : Nat := 0

/-- The operations of engine `rb` on one buffer: new buffer and the `r=` part. -/
def rbOp (rb : RB) (op : String) (args : List String) : Option (RB × String) :=
  let ia := ints? args
  match op, args, ia with
  | "text_at", [_, _, h], _ => do
      let l ← int? args[0]!; let c ← int? args[1]!; let bs ← hexBytes? h
      pure (textAt rb l c bs, showRet (some (putStringRet bs)))
  | "textf_at", [_, _, h], _ => do
      let l ← int? args[0]!; let c ← int? args[1]!; let bs ← hexBytes? h
      let bs := bs.takeWhile (· ≠ 0)
      pure (textAt rb l c bs, showRet (some (putStringRet bs)))
  | "text", [h], _ => do
      let bs ← hexBytes? h
      pure (text rb bs, showRet (some (textRet rb bs)))
  | "textf", [h], _ => do
      let bs ← hexBytes? h
      let bs := bs.takeWhile (· ≠ 0)
      pure (text rb bs, showRet (some (textRet rb bs)))
  | "erase_at", _, some [l, c, n] => some (eraseAt rb l c n, "r=-")
  | "erase", _, some [n] => some (erase rb n, "r=-")
  | "erase_to", _, some [c] => some (eraseTo rb c, "r=-")
  | "skip_at", _, some [l, c, n] => some (skipAt rb l c n, "r=-")
  | "skip", _, some [n] => some (skip rb n, "r=-")
  | "skip_to", _, some [c] => some (skipTo rb c, "r=-")
  | "char_at", _, some [l, c, cp] => some (charAt rb l c cp, "r=-")
  | "char", _, some [cp] => some (char rb cp, "r=-")
  | "hline", _, some [l, c1, c2, st, caps] => some (hlineAt rb l c1 c2 st.toNat caps.toNat, "r=-")
  | "vline", _, some [l1, l2, c, st, caps] => some (vlineAt rb l1 l2 c st.toNat caps.toNat, "r=-")
  | "clear", [], _ => some (clear rb, "r=-")
  | "eraserect", _, some [t, l, n, c] => some (eraserect rb ⟨t, l, n, c⟩, "r=-")
  | "skiprect", _, some [t, l, n, c] => some (skiprect rb ⟨t, l, n, c⟩, "r=-")
  | "goto", _, some [l, c] => some (goto rb l c, "r=-")
  | "ungoto", [], _ => some (ungoto rb, "r=-")
  | "xl", _, some [d, r] => some (translate rb d r, "r=-")
  | "clip", _, some [t, l, n, c] => some (clip rb ⟨t, l, n, c⟩, "r=-")
  | "mask", _, some [t, l, n, c] => some (mask rb ⟨t, l, n, c⟩, "r=-")
  | "setpen", ["NULL"], _ => some (setpen rb none, "r=-")
  | "setpen", [p], _ => (parsePenBody p).map fun pen => (setpen rb (some pen), "r=-")
  | "save", [], _ => some (save rb, "r=-")
  | "savepen", [], _ => some (savepen rb, "r=-")
  | "restore", [], _ => some (restore rb, "r=-")
  | "reset", [], _ => some (reset rb, "r=-")
  | "getcur", [], _ =>
    let r := match getCursor rb with
      | some (l, c) => s!"r=1,{l},{c}"
      | none => "r=0,-77,-77"
    some (rb, r)
  | "getcells", [], _ => some (rb, "r=" ++ showCells rb)
  | _, _, _ => none

/-- The harness' guard: a source rectangle with positive extent must lie inside the buffer. -/
def srcOk (rb : RB) (sr : Rect) : Bool :=
  decide (sr.lines ≤ 0 ∨ sr.cols ≤ 0) ||
  (decide (0 ≤ sr.top) && decide (0 ≤ sr.left) && decide (sr.bottom ≤ rb.lines) && decide (sr.right ≤ rb.cols))

def step (st : St) (ts : List String) (_impl : String) : St × String × String :=
  match ts with
  | ["new", l, c] =>
    match int? l, int? c with
    | some l, some c =>
      let rb := (RB.new l c garbage garbage).compact
      ({ bufs := #[rb], cur := 0 }, "r=- " ++ showRB rb, "")
    | _, _ => (st, "bad-op", "")
  | op :: args =>
    match st.bufs[st.cur]? with
    | none => (st, "bad-op", "")
    | some rb =>
      match op, ints? args with
      | "addbuf", some [l, c] =>
        if st.bufs.size ≥ 4 then (st, "bad-op", "")
        else ({ st with bufs := st.bufs.push (RB.new l c garbage garbage).compact }, "r=- " ++ showRB rb, "")
      | "sel", some [k] =>
        if 0 ≤ k ∧ k.toNat < st.bufs.size then
          ({ st with cur := k.toNat }, "r=- " ++ showRB (st.bufs[k.toNat]?.getD rb), "")
        else (st, "bad-op", "")
      | "copy", some [dt, dl, st_, sl, n, c] =>
        let sr : Rect := ⟨st_, sl, n, c⟩
        if !srcOk rb sr then (st, "bad-op", "")
        else
          let rb' := (RBCopy.copy fx rb ⟨dt, dl, n, c⟩ sr).compact
          ({ st with bufs := st.bufs.setIfInBounds st.cur rb' }, "r=- " ++ showRB rb', "")
      | "move", some [dt, dl, st_, sl, n, c] =>
        let sr : Rect := ⟨st_, sl, n, c⟩
        if !srcOk rb sr then (st, "bad-op", "")
        else
          let rb' := (RBCopy.move fx rb ⟨dt, dl, n, c⟩ sr).compact
          ({ st with bufs := st.bufs.setIfInBounds st.cur rb' }, "r=- " ++ showRB rb', "")
      | "blit", some [k] =>
        if 0 ≤ k ∧ k.toNat < st.bufs.size then
          let src := st.bufs[k.toNat]?.getD rb
          let rb' := (RBCopy.blit fx (k.toNat == st.cur) rb src).compact
          let st' := { st with bufs := st.bufs.setIfInBounds st.cur rb' }
          let src' := st'.bufs[k.toNat]?.getD rb'
          (st', "r=- " ++ showRB rb' ++ " | " ++ showRB src', "")
        else (st, "bad-op", "")
      | _, _ =>
        match rbOp rb op args with
        | none => (st, "bad-op", "")
        | some (rb', r) =>
          let rb' := rb'.compact
          ({ st with bufs := st.bufs.setIfInBounds st.cur rb' }, r ++ " " ++ showRB rb', "")
  | [] => (st, "bad-op", "")

def engine : Engine := { σ := St, init := {}, step := step }

end Tickit.Driver.RBCopyEngine
