import Tickit.Model.WinInput
import Tickit.Model.WinInputTerm
import Tickit.Gen.WinInputCfg
import Tickit.Gen.InputXlate
import Tickit.Driver.Common
/-
  Engine `input` (C14).  Operations and observation format: see harness/input.c.
  The model observation is printed from `Model/WinInput.lean`; the specification (`Spec` below) is evaluated on
  the implementation's observation line.
-/
namespace Tickit.Driver.InputEngine
open Tickit Tickit.Driver Tickit.WinTree Tickit.WinInput

/-- Which repairs are present in the working tree (extracted from src/window.c). -/
def cfg : Cfg := Tickit.Gen.WinInputCfg.cfg

/-- The shape of `got_key` (src/term.c) in the working tree, as the C20 extractor reads it. -/
def xcfg : InputXlate.Cfg :=
  { dropUnknownMouse := Tickit.Gen.InputXlate.dropUnknownMouse, pushLoops := Tickit.Gen.InputXlate.pushLoops }

/-! ### printing -/

def b01 (b : Bool) : String := if b then "1" else "0"

def actChar : Act → String
  | .close => "c" | .unref => "u" | .keep => "k" | .hide => "h" | .unhide => "s"
  | .raise => "r" | .raiseFront => "R" | .lower => "l" | .lowerBack => "L" | .focus => "f"
  | .stealOn => "t" | .stealOff => "T" | .geom .. => "g"

def showItem : LogItem → Option String
  | .offer _ _ _ _ => none
  | .call .key w i e r ev => some s!"K{w}.{i}/{e}{if r then "+" else "-"}:{ev.type},{ev.mod}"
  | .call .mouse w i e r ev => some s!"M{w}.{i}/{e}{if r then "+" else "-"}:{ev.type},{ev.button},{ev.line},{ev.col},{ev.mod}"
  | .destroyed w => some s!"D{w}"
  | .refused a => some s!"x{actChar a.act}{a.win}"
  | .unhandled => some "T"

def showWin (i : Nat) (w : Win) : String :=
  let p := match w.parent with | some p => toString p | none => "-"
  let cs := if w.children.isEmpty then "-" else ".".intercalate (w.children.map toString)
  s!" {i}:p{p}:v{b01 w.isVisible}:f{b01 w.isFocused}:s{b01 w.stealInput}:{w.rect.top},{w.rect.left},{w.rect.lines},{w.rect.cols}:c{cs}"

def dump (t : Tree) : String :=
  String.join ((List.range t.wins.size).filterMap fun i =>
    match t.wins[i]? with
    | some w => if w.freed then none else some (showWin i w)
    | none => none)

/-- The observation line: items (oldest first), `|`, dump. -/
def obsLine (items : List String) (t : Tree) : String :=
  let head := " ".intercalate items
  (if items.isEmpty then "" else head ++ " ") ++ "|" ++ dump t

def logItems (log : List LogItem) : List String := log.reverse.filterMap showItem

/-! ### parsing -/

def parseAct : Char → Option Act
  | 'c' => some .close | 'u' => some .unref | 'k' => some .keep | 'h' => some .hide | 's' => some .unhide
  | 'r' => some .raise | 'R' => some .raiseFront | 'l' => some .lower | 'L' => some .lowerBack | 'f' => some .focus
  | 't' => some .stealOn | 'T' => some .stealOff
  | _ => none

def parseAction (s : String) : Option Action :=
  match s.toList with
  | 'g' :: rest =>
    -- g<id>@<dtop>@<dleft>@<dlines>@<dcols>
    match (String.ofList rest).splitOn "@" with
    | [w, a, b, c, d] => do
      let n ← w.toNat?
      match ints? [a, b, c, d] with
      | some [a, b, c, d] => pure { act := .geom a b c d, win := n }
      | _ => none
    | _ => none
  | c :: rest => do
    let a ← parseAct c
    let n ← (String.ofList rest).toNat?
    pure { act := a, win := n }
  | [] => none

def parseEntry (s : String) : Option Entry :=
  match s.splitOn "," with
  | r :: acts => do
    let ret ← if r = "1" then some true else if r = "0" then some false else none
    let unbind := acts.head? = some "!"
    let as ← (if unbind then acts.drop 1 else acts).mapM parseAction
    pure { ret := ret, actions := as, unbind := unbind }
  | [] => none

/-- `k` / `m`, with `o` for `TICKIT_BIND_ONESHOT`. -/
def parseKind (k : String) : Option (Kind × Bool) :=
  if k = "k" then some (.key, false) else if k = "m" then some (.mouse, false)
  else if k = "ko" then some (.key, true) else if k = "mo" then some (.mouse, true) else none

/-! ### the engine -/

structure Drag where
  button : Int := 0
  line : Int := 0
  col : Int := 0
  dragging : Bool := false
  source : Option Id := none
deriving Repr, Inhabited


structure DSt where
  st : St := newSt 0 0
  started : Bool := false
  dead : Option String := none        -- the model reached `ub` / ran out of fuel earlier in this history
  drag : Drag := {}                   -- the specification's own press memory and drag state
  held : Nat := 0                     -- model: `tt->mouse_buttons_held`
  sheld : List Nat := []              -- specification: the set of buttons held (pressed or dragged, not released since)

def finishRes (d : DSt) (r : Res St) (pre : List String := []) : DSt × String :=
  match r with
  | .ok st => ({ d with st := { st with log := [] } }, obsLine (pre ++ logItems st.log) st.tree)
  | .ub w => ({ d with dead := some w }, s!"ub:{w}")

def finishOut (d : DSt) (r : Out St) : DSt × String :=
  match r with
  | .ok st => ({ d with st := { st with log := [] } }, obsLine (logItems st.log) st.tree)
  | .ub w => ({ d with dead := some w }, s!"ub:{w}")
  | .fuel => ({ d with dead := some "fuel" }, "fuel")

def crashed (impl : String) : Bool := impl.startsWith "CRASH" || impl.endsWith "<cut>"

def modelStep (d : DSt) (ts : List String) : DSt × String :=
  match ts with
  | ["new", l, c] =>
    match ints? [l, c] with
    | some [l, c] => let st := newSt l c; ({ st := st, started := true }, obsLine [] st.tree)
    | _ => (d, "bad-op")
  | _ =>
  if !d.started then (d, "bad-op") else
  match d.dead with
  | some _ => (d, "ub:earlier")
  | none =>
  let st := d.st
  match ts with
  | ["win", p, t, l, n, c, f] =>
    match ints? [p, t, l, n, c, f] with
    | some [p, t, l, n, c, f] =>
      let p := p.toNat
      let f := f.toNat
      if !isAlive st.tree p then (d, obsLine ["skip"] st.tree) else
      match newWin st p ⟨t, l, n, c⟩ (f &&& 4 != 0) (f &&& 1 != 0) (f &&& 2 != 0) (f &&& 8 != 0) with
      | .ok (st, id) => ({ d with st := st }, obsLine [s!"w{id}"] st.tree)
      | .ub w => ({ d with dead := some w }, s!"ub:{w}")
    | _ => (d, "bad-op")
  | "bind" :: w :: k :: es =>
    match w.toNat?, parseKind k, es.mapM parseEntry with
    | some w, some (k, oneshot), some es =>
      if es.isEmpty then (d, "bad-op") else
      if !isAlive st.tree w then (d, obsLine ["skip"] st.tree) else
      let (st, idx) := addBinding st w k es oneshot
      ({ d with st := st }, obsLine [s!"b{idx}"] st.tree)
    | _, _, _ => (d, "bad-op")
  | ["act", a] =>
    match parseAction a with
    | some a => finishRes d (doAction st a)
    | none => (d, "bad-op")
  | ["geom", w, t, l, n, c] =>
    match ints? [w, t, l, n, c] with
    | some [w, t, l, n, c] =>
      let w := w.toNat
      if !isAlive st.tree w then (d, obsLine ["skip"] st.tree) else
      finishRes d (do let (t, _) ← setGeometry st.tree w ⟨t, l, n, c⟩; pure { st with tree := t })
    | _ => (d, "bad-op")
  | ["flush"] => finishRes d (flushSt st)
  | ["key", t, m] =>
    match ints? [t, m] with
    | some [t, m] => finishOut d (emitKey cfg st { type := t, mod := m })
    | _ => (d, "bad-op")
  | ["mouse", t, b, l, c, m] =>
    match ints? [t, b, l, c, m] with
    | some [t, b, l, c, m] => finishOut d (emitMouse cfg st { type := t, button := b, line := l, col := c, mod := m })
    | _ => (d, "bad-op")
  | ["x10", code, l, c] =>
    match code.toNat?, l.toNat?, c.toNat? with
    | some code, some l, some c =>
      if code ≥ 96 ∨ l ≥ 94 ∨ c ≥ 94 then (d, "bad-op") else
      match pushX10 cfg xcfg { st := st, held := d.held } code l c with
      | .ok ts => ({ d with st := { ts.st with log := [] }, held := ts.held }, obsLine (logItems ts.st.log) ts.st.tree)
      | .ub w => ({ d with dead := some w }, s!"ub:{w}")
      | .fuel => ({ d with dead := some "fuel" }, "fuel")
    | _, _, _ => (d, "bad-op")
  | _ => (d, "bad-op")

/-! ### the executable specification, evaluated on the implementation's observation

  The reference (property text): a key is offered to the stealing front-most child, then down the focus chain
  innermost first, then to the window itself, then to the other children (`keyOrder`); a mouse event to the
  front-most visible windows under the pointer or stealing, depth first, then the window (`mouseVisits`), with
  the position relative to the receiver; every window's handlers run in binding order; everything stops at the
  first claim; no handler of a hidden window or of a descendant of one runs; DRAG_START (press button and cell)
  precedes the first DRAG, DRAG_DROP at the release cell precedes DRAG_STOP, STOP and OUTSIDE go to the window
  that claimed START, OUTSIDE exactly when the DRAG was not claimed by that window.
  Mutations from inside handlers: the monitor replays the behaviour tables on its own copy of the tree.  The
  windows *affected* by a mutation (the subtree of the target of close / unref / hide / show / steal; the stealing
  sibling that becomes the front-most child when the front-most one is unlinked; for focus
  the top-level subtrees holding the old and the new focus chain) are exempt from the order check; all the
  others must still be offered the event, in the reference order of the tree as it was when dispatch began. -/

structure Call where
  kind : Kind
  win : Id
  idx : Nat
  entry : Nat
  ret : Bool
  ev : Ev
deriving Repr, Inhabited

inductive Item where
  | call (c : Call)
  | destroyed (w : Id)
  | unhandled
  | other
deriving Repr, Inhabited

def parseItem (s : String) : Item :=
  match s.toList with
  | 'T' :: [] => .unhandled
  | 'D' :: rest => match (String.ofList rest).toNat? with | some w => .destroyed w | none => .other
  | k :: rest =>
    if k ≠ 'K' ∧ k ≠ 'M' then .other else
    match (String.ofList rest).splitOn ":" with
    | [hd, fields] =>
      match hd.splitOn ".", ints? (fields.splitOn ",") with
      | [w, r], some fs =>
        match r.splitOn "/" with
        | [i, es] =>
          let ret := es.endsWith "+"
          match w.toNat?, i.toNat?, (es.dropEnd 1).toString.toNat? with
          | some w, some i, some e =>
            if k = 'K' then
              match fs with
              | [t, m] => .call { kind := .key, win := w, idx := i, entry := e, ret := ret, ev := { type := t, mod := m } }
              | _ => .other
            else
              match fs with
              | [t, b, l, c, m] => .call { kind := .mouse, win := w, idx := i, entry := e, ret := ret, ev := { type := t, button := b, line := l, col := c, mod := m } }
              | _ => .other
          | _, _, _ => .other
        | _ => .other
      | _, _ => .other
    | _ => .other
  | [] => .other

structure Mon where
  cur : St
  affected : List Id := []
  /-- the windows moved or resized (themselves, or an ancestor) by a handler since the dispatch began -/
  moved : List Id := []
  err : String := ""

def Mon.fail (m : Mon) (e : String) : Mon := if m.err.isEmpty then { m with err := e } else m

def okOr {α : Type} (r : Res α) (dflt : α) : α := match r with | .ok a => a | .ub _ => dflt

def topAncestor (t : Tree) : Nat → Id → Id
  | 0, id => id
  | f + 1, id =>
    match t.wins[id]? with
    | some w => (match w.parent with
      | some p => (match t.wins[p]? with
        | some pw => if pw.parent.isNone then id else topAncestor t f p
        | none => id)
      | none => id)
    | none => id

/-- Unlinking the front-most child `x` of a window makes the next sibling the front-most one: if that sibling steals
    input it is offered keys first from now on (before the focus chain and the parent) — delivery to it and to its
    subtree *is* affected by the mutation.  (Found by the proof of `delivery_unaffected_key`: its side condition
    `Base.stealFront`; probe corpus/C14/steal_front_sibling_closed.ops.) -/
def headSteal (t : Tree) (x : Id) : List Id :=
  match t.wins[x]? with
  | some w => (match w.parent with
    | some p => (match t.wins[p]? with
      | some pw => (match pw.children with
        | h :: y :: _ => if h = x && stealAt t y then subtree t (treeFuel t) y else []
        | _ => [])
      | none => [])
    | none => [])
  | none => []

/-- Apply one action of a handler the implementation ran to the monitor's copy of the application state.
    A reference dropped by `unref` does not destroy here: destruction is taken from the `D` items of the log. -/
def specApply (m : Mon) (kind : Kind) (a : Action) : Mon :=
  let st := m.cur
  if !allowed st a then m else
  let t := st.tree
  let f := treeFuel t
  let sub := subtree t f a.win
  match a.act with
  | .unref => { m with cur := { st with owned := st.owned.setIfInBounds a.win (st.owned.getD a.win 0 - 1) }, affected := m.affected ++ sub }
  | .close => { m with cur := okOr (doAction st a) st, affected := m.affected ++ sub ++ headSteal t a.win }
  | .hide | .unhide | .stealOn | .stealOff =>
    { m with cur := okOr (doAction st a) st, affected := m.affected ++ sub }
  | .focus =>
    let aff := if kind = Kind.key then
        subtree t f (topAncestor t f a.win) ++ (match t.wins[0]? with
          | some r => (match r.focusedChild with | some fc => subtree t f fc | none => [])
          | none => [])
      else []
    { m with cur := okOr (doAction st a) st, affected := m.affected ++ aff }
  -- a window that is moved / resized from inside the dispatch: whether it and the windows below it are (still) under
  -- the pointer, and from which of its positions their coordinates are counted, is left open; every other window must
  -- be offered the event as before, at the position relative to itself
  | .geom .. => { m with cur := okOr (doAction st a) st, affected := m.affected ++ sub, moved := m.moved ++ sub }
  | _ => { m with cur := okOr (doAction st a) st }

def specDestroy (st : St) (w : Id) : St :=
  let t := st.tree
  let t := okOr (WinTree.close t (treeFuel t) w) t
  let t := okOr (modify t w (fun x => { x with freed := true })) t
  { st with tree := t }

def findBinding (st : St) (kind : Kind) (win : Id) (idx : Nat) : Option (Nat × Binding) :=
  ((List.range st.binds.size).filterMap fun i =>
    match st.binds[i]? with
    | some b => if b.win = win ∧ b.kind = kind ∧ b.idx = idx then some (i, b) else none
    | none => none).head?

def ancestorsOrSelf (t : Tree) (id : Id) : List Id := id :: ancestors t (treeFuel t) id

/-- The per-call clauses: behaviour table followed, hidden_never, mouse_relative, event fields; then the call's
    actions are applied. -/
def checkCall (m : Mon) (what : String) (origin : Id) (absL absC : Int) (button mod : Option Int) (blockStart : Bool) (c : Call)
    (following : List Item) : Mon :=
  let st := m.cur
  match findBinding st c.kind c.win c.idx with
  | none => m.fail s!"a handler ran that was never bound: window {c.win} index {c.idx}"
  | some (bi, b) =>
    let e := b.entries.getD c.entry { ret := false }
    let m := if entryIndex b ≠ c.entry ∨ e.ret ≠ c.ret then m.fail s!"harness did not follow the behaviour table of window {c.win} handler {c.idx}" else m
    let m := if b.gone then m.fail s!"{what}: handler {c.idx} of window {c.win} ran although it is no longer bound (a one-shot binding that has fired, or one that unbound itself)" else m
    let t := st.tree
    -- the offer to a window is the run of its handlers: eligibility is judged when the offer begins
    let m := if !blockStart ∨ visibleChain t (treeFuel t) c.win then m
      else m.fail s!"hidden_never ({what}): window {c.win} was offered the event while it or one of its ancestors is hidden (or destroyed)"
    let m :=
      if c.kind = Kind.mouse ∧ blockStart ∧ (ancestorsOrSelf t c.win).contains origin ∧ !m.moved.contains c.win then
        match absGeometry t (treeFuel t) c.win with
        | .ok g =>
          if c.ev.line = absL - g.top ∧ c.ev.col = absC - g.left then m
          else m.fail s!"mouse_relative: window {c.win} at absolute ({g.top},{g.left}) was given ({c.ev.line},{c.ev.col}) for the event at ({absL},{absC})"
        | .ub _ => m
      else m
    let m := match button with
      | some bt => if c.kind = Kind.mouse ∧ c.ev.button ≠ bt then m.fail s!"window {c.win} was given button {c.ev.button}, expected {bt}" else m
      | none => m
    let m := match mod with
      | some md => if c.ev.mod ≠ md then m.fail s!"window {c.win} was given modifiers {c.ev.mod}, expected {md}" else m
      | none => m
    let st := { st with binds := st.binds.setIfInBounds bi b.fired }
    -- a reference dropped by this handler that was the last one destroys the window at once (its `D` item follows
    -- before the next call): later actions of the same entry see the tree without it
    let goneNow (w : Id) : Bool := following.any fun it => match it with | .destroyed x => x = w | _ => false
    e.actions.foldl (fun m a =>
      let m' := specApply m c.kind a
      if a.act = Act.unref ∧ allowed m.cur a ∧ goneNow a.win then
        { m' with cur := specDestroy m'.cur a.win, affected := m'.affected ++ headSteal m'.cur.tree a.win } else m')
      { m with cur := st }

def isCall : Item → Bool
  | .call _ => true
  | _ => false

/-- The handlers of `win` that are (still) bound, by their index, in binding order. -/
def liveIdxs (st : St) (kind : Kind) (win : Id) : List Nat :=
  (bindingsOf st.binds kind win).filterMap fun i =>
    match st.binds[i]? with
    | some b => if b.gone then none else some b.idx
    | none => none

/-- The bound handler of the window that follows handler `idx`. -/
def nextLive (st : St) (kind : Kind) (win : Id) (idx : Nat) : Option Nat := (liveIdxs st kind win).find? (· > idx)

/-- One dispatch (`_handle_key` / `_handle_mouse` from `origin`): returns the monitor and the claiming window. -/
def checkSegment (m : Mon) (kind : Kind) (what : String) (origin : Option Id) (absL absC : Int) (button mod : Option Int)
    (items : List Item) (exempt : List Id := []) : Mon × Option Id :=
  let t0 := m.cur.tree
  let f0 := treeFuel t0
  let hasB (w : Id) : Bool := !(liveIdxs m.cur kind w).isEmpty
  let refOrder : List Id := match origin with
    | none => []
    | some o =>
      if !visibleChain t0 f0 o then [] else
      match kind with
      | .key => (keyOrder t0 (routeFuel t0) o).getD []
      | .mouse =>
        match absGeometry t0 f0 o with
        | .ok g => ((mouseVisits t0 (routeFuel t0) o { type := 0, line := absL - g.top, col := absC - g.left }).getD []).map (·.1)
        | .ub _ => []
  let refOrder := refOrder.filter hasB
  let m := { m with affected := exempt, moved := [] }
  -- walk the items
  let step := fun (acc : Mon × List Id × Option Call × Option Id) (iti : Item × Nat) =>
    let (it, idx) := iti
    let following := (items.drop (idx + 1)).takeWhile fun x => !isCall x
    let (m, seen, prev, claimer) := acc
    match it with
    | .destroyed w => ({ m with cur := specDestroy m.cur w, affected := m.affected ++ headSteal m.cur.tree w }, seen, prev, claimer)
    | .call c =>
      let m := if claimer.isSome then m.fail s!"{what}: a handler of window {c.win} ran after window {claimer.getD 0} had claimed the event" else m
      -- binding order inside a window's block
      -- every bound handler of the window, in binding order (handlers no longer bound are passed over)
      let first := (liveIdxs m.cur kind c.win).head?
      let m := match prev with
        | some p =>
          match nextLive m.cur kind p.win p.idx with
          | some n =>
            if p.win = c.win then
              (if c.idx = n then m else m.fail s!"{what}: handlers of window {c.win} not run in binding order (handler {c.idx} after handler {p.idx}, expected {n})")
            else m.fail s!"{what}: window {p.win} was offered the event but not all its handlers ran (none had claimed; handler {n} is still bound)"
          | none =>
            if some c.idx ≠ first then m.fail s!"{what}: handlers of window {c.win} did not start with the first bound handler" else m
        | none => if some c.idx ≠ first then m.fail s!"{what}: handlers of window {c.win} did not start with the first bound handler" else m
      let blockStart := match prev with
        | some p => !(p.win = c.win ∧ (nextLive m.cur kind p.win p.idx).isSome)
        | none => true
      -- all handlers of one offer see the same event
      let m := match prev with
        | some p => if !blockStart ∧ (p.ev.line ≠ c.ev.line ∨ p.ev.col ≠ c.ev.col ∨ p.ev.type ≠ c.ev.type) then
            m.fail s!"{what}: the handlers of window {c.win} were given different events within one offer" else m
        | none => m
      let m := checkCall m what (origin.getD 0) absL absC button mod blockStart c following
      let seen := if seen.contains c.win then seen else seen ++ [c.win]
      (m, seen, some c, if c.ret then some c.win else claimer)
    | _ => acc
  let (m, seen, prev, claimer) := items.zipIdx.foldl step (m, [], none, none)
  let m := match prev with
    | some p => if !p.ret ∧ (nextLive m.cur kind p.win p.idx).isSome then
        m.fail s!"{what}: window {p.win} was offered the event but not all its handlers ran (none had claimed)" else m
    | none => m
  -- order of the unaffected windows
  let unaff := fun (w : Id) => !m.affected.contains w
  let got := seen.filter unaff
  let want := refOrder.filter unaff
  let m :=
    if !got.isPrefixOf want then
      m.fail s!"{what}: windows offered (first occurrences, unaffected by mutations) {got} but the reference order is {want}"
    else if claimer.isNone ∧ got ≠ want then
      m.fail s!"{what}: nobody claimed, yet windows {want.drop got.length} were never offered the event (offered {got}, reference {want})"
    else m
  (m, claimer)

def isCallOfType (ty : Int) : Item → Bool
  | .call c => c.ev.type = ty
  | _ => false

/-- Split off the leading items that belong to a dispatch of event type `ty` (its calls and the `D` items among them).
    All handlers of one dispatch are given the same button: a call with another button than the first call of the
    segment begins the next dispatch (two RELEASE events in a row, when a button-less X10 release ends two held buttons). -/
def takeSegment (ty : Int) (items : List Item) : List Item × List Item :=
  let rec go : List Item → List Item → Option Int → List Item × List Item
    | [], acc, _ => (acc.reverse, [])
    | it :: rest, acc, btn =>
      match it with
      | .call c =>
        if c.ev.type = ty ∧ (btn.isNone ∨ btn = some c.ev.button) then go rest (it :: acc) (some c.ev.button)
        else (acc.reverse, it :: rest)
      | .unhandled => (acc.reverse, it :: rest)
      | _ => go rest (it :: acc) btn
  go items [] none

def specKey (st : St) (ev : Ev) (items : List Item) : String :=
  let calls := items.filter (fun i => match i with | .unhandled => false | _ => true)
  let (m, claimer) := checkSegment { cur := st } .key "key_order" (some 0) 0 0 none (some ev.mod) calls
  let m := match items.find? (fun i => match i with | .call c => c.kind ≠ Kind.key ∨ c.ev.type ≠ ev.type | _ => false) with
    | some _ => m.fail "a handler was given an event of another type"
    | none => m
  let unh := items.any (fun i => match i with | .unhandled => true | _ => false)
  let m := if unh = claimer.isNone then m else m.fail "the event must reach the terminal's next binding exactly when no window claimed it"
  m.err

/-- One mouse event as `on_term_mouse` sees it: the monitor afterwards, the drag state, and the items left over
    (those of later events of the same operation). -/
def specMouseM (m : Mon) (dr : Drag) (ev : Ev) (items : List Item) : Mon × Drag × List Item :=
  let live (m : Mon) (o : Option Id) : Option Id := match o with
    | some w => if isAlive m.cur.tree w then some w else none
    | none => none
  -- a drag source that was closed (but is still referenced by the application) is no longer part of the tree:
  -- whether it still hears about the drag is left open (its subtree is exempt from the order check)
  let detached (m : Mon) (o : Option Id) : List Id := match o with
    | some w => if isAlive m.cur.tree w ∧ !attached m.cur.tree (treeFuel m.cur.tree) w then subtree m.cur.tree (treeFuel m.cur.tree) w else []
    | none => []
  -- synthesised events before the event itself
  let (m, dr, items) :=
    if ev.type = evPress then (m, { dr with button := ev.button, line := ev.line, col := ev.col }, items)
    else if ev.type = evDrag ∧ !dr.dragging then
      let (seg, rest) := takeSegment evDragStart items
      let (m, claimer) := checkSegment m .mouse "drag_consistent(DRAG_START)" (some 0) dr.line dr.col (some dr.button) none seg
      (m, { dr with dragging := true, source := claimer }, rest)
    else if ev.type = evRelease ∧ dr.dragging then
      let (seg, rest) := takeSegment evDragDrop items
      let (m, _) := checkSegment m .mouse "drag_consistent(DRAG_DROP)" (some 0) ev.line ev.col (some ev.button) none seg
      let (seg, rest) := takeSegment evDragStop rest
      let (m, _) := checkSegment m .mouse "drag_consistent(DRAG_STOP)" (live m dr.source) ev.line ev.col (some ev.button) none seg (detached m dr.source)
      (m, { dr with dragging := false }, rest)
    else (m, dr, items)
  -- the event itself
  let (seg, rest) := takeSegment ev.type items
  let (m, handled) := checkSegment m .mouse "mouse_target" (some 0) ev.line ev.col (some ev.button) (some ev.mod) seg
  -- DRAG_OUTSIDE
  let (m, rest) :=
    if ev.type = evDrag then
      let (seg, rest) := takeSegment evDragOutside rest
      let src := live m dr.source
      let origin := if src.isSome ∧ handled ≠ src then src else none
      let (m, _) := checkSegment m .mouse "drag_consistent(DRAG_OUTSIDE)" origin ev.line ev.col (some ev.button) none seg (detached m dr.source)
      (m, rest)
    else (m, rest)
  -- the terminal's next binding hears of the event exactly when no window claimed it
  -- (a `T` that follows a claimed event is left over: it belongs to the next event of the operation, or to none)
  if handled.isSome then (m, dr, rest) else
  match rest with
  | .unhandled :: r => (m, dr, r)
  | r => (m.fail "the event must reach the terminal's next binding exactly when no window claimed it", dr, r)

/-- Nothing but what the events account for may have been delivered. -/
def noMore (m : Mon) (rest : List Item) : Mon :=
  let m := match rest.find? isCall with
    | some (.call c) => m.fail s!"drag_consistent: unexpected event of type {c.ev.type} (button {c.ev.button}) delivered to window {c.win} (out of sequence)"
    | _ => m
  if rest.any (fun i => match i with | .unhandled => true | _ => false) then
    m.fail "the event must reach the terminal's next binding exactly when no window claimed it (once)" else m

def specMouse (st : St) (dr : Drag) (ev : Ev) (items : List Item) : String × Drag :=
  let (m, dr, rest) := specMouseM { cur := st } dr ev items
  ((noMore m rest).err, dr)

/-- A mouse report that arrived as X10 bytes.  The reference: the events the report stands for, with the set of
    buttons held (pressed or dragged and not released since) naming the button(s) of a button-less release
    (`InputXlate.Spec.keyEvents`, the specification of C20); each of them is then judged as a mouse event of its own,
    in order — so DRAG_DROP / DRAG_STOP carry the button of the press that began the drag, and every report reaches the
    window under the pointer exactly once. -/
def specX10 (st : St) (dr : Drag) (sheld : List Nat) (code line col : Nat) (items : List Item) : String × Drag × List Nat :=
  let (sheld, evs) := InputXlate.Spec.keyEvents sheld (x10Key code line col)
  let (m, dr, rest) := evs.foldl (fun (acc : Mon × Drag × List Item) e =>
      match e with
      | .mouse type button l c mods =>
        let (m, dr, items) := acc
        specMouseM m dr { type := type, button := button, line := l, col := c, mod := mods } items
      | _ => acc) (({ cur := st } : Mon), dr, items)
  ((noMore m rest).err, dr, sheld)

def step (d : DSt) (ts : List String) (impl : String) : DSt × String × String :=
  let (d', m) := modelStep d ts
  if crashed impl then (d', m, "mutation_safe: the implementation crashed (sanitizer report, abort or signal)") else
  match ts with
  | ["new", _, _] => ({ d' with drag := {}, sheld := [] }, m, "")
  | _ =>
  if d.dead.isSome ∨ !d.started then (d', m, "") else
  let items := ((impl.splitOn " |").headD "").splitOn " " |>.filter (· ≠ "") |>.map parseItem
  match ts with
  | ["key", t, md] =>
    match ints? [t, md] with
    | some [t, md] => (d', m, specKey d.st { type := t, mod := md } items)
    | _ => (d', m, "")
  | ["mouse", t, b, l, c, md] =>
    match ints? [t, b, l, c, md] with
    | some [t, b, l, c, md] =>
      let (e, dr) := specMouse d.st d.drag { type := t, button := b, line := l, col := c, mod := md } items
      ({ d' with drag := dr }, m, e)
    | _ => (d', m, "")
  | ["x10", code, l, c] =>
    match code.toNat?, l.toNat?, c.toNat? with
    | some code, some l, some c =>
      if code ≥ 96 ∨ l ≥ 94 ∨ c ≥ 94 then (d', m, "") else
      let (e, dr, sheld) := specX10 d.st d.drag d.sheld code l c items
      ({ d' with drag := dr, sheld := sheld }, m, e)
    | _, _, _ => (d', m, "")
  | _ => (d', m, "")

def engine : Engine := { σ := DSt, init := {}, step := step }

end Tickit.Driver.InputEngine
