import Tickit.Model.WinInput
import Tickit.Driver.Common
/-
  Engine `input` (C14).  Operations and observation format: see harness/input.c.
  The model observation is printed from `Model/WinInput.lean`; the specification (`Spec` below) is evaluated on
  the implementation's observation line.
-/
namespace Tickit.Driver.InputEngine
open Tickit Tickit.Driver Tickit.WinTree Tickit.WinInput

/-! ### printing -/

def b01 (b : Bool) : String := if b then "1" else "0"

def actChar : Act → String
  | .close => "c" | .unref => "u" | .keep => "k" | .hide => "h" | .unhide => "s"
  | .raise => "r" | .raiseFront => "R" | .lower => "l" | .lowerBack => "L" | .focus => "f"
  | .stealOn => "t" | .stealOff => "T"

def showItem : LogItem → Option String
  | .offer _ _ _ => none
  | .call .key w i e r ev => some s!"K{w}.{i}/{e}{if r then "+" else "-"}:{ev.type},{ev.mod}"
  | .call .mouse w i e r ev => some s!"M{w}.{i}/{e}{if r then "+" else "-"}:{ev.type},{ev.button},{ev.line},{ev.col},{ev.mod}"
  | .destroyed w => some s!"D{w}"
  | .refused a => some s!"x{actChar a.act}{a.win}"
  | .unhandled => some "T"

def showWin (i : Nat) (w : Win) : String :=
  let p := match w.parent with | some p => toString p | none => "-"
  let cs := if w.children.isEmpty then "-" else ".".intercalate (w.children.map toString)
  s!" {i}:p{p}:v{b01 w.isVisible}:f{b01 w.isFocused}:s{b01 w.stealInput}:{w.rect.top},{w.rect.left},{w.rect.lines},{w.rect.cols}:c{cs}"

def dump (t : Tree) : String :=
  String.join ((List.range t.wins.size).filterMap fun i =>
    match t.wins[i]? with
    | some w => if w.freed then none else some (showWin i w)
    | none => none)

/-- The observation line: items (oldest first), `|`, dump. -/
def obsLine (items : List String) (t : Tree) : String :=
  let head := " ".intercalate items
  (if items.isEmpty then "" else head ++ " ") ++ "|" ++ dump t

def logItems (log : List LogItem) : List String := log.reverse.filterMap showItem

/-! ### parsing -/

def parseAct : Char → Option Act
  | 'c' => some .close | 'u' => some .unref | 'k' => some .keep | 'h' => some .hide | 's' => some .unhide
  | 'r' => some .raise | 'R' => some .raiseFront | 'l' => some .lower | 'L' => some .lowerBack | 'f' => some .focus
  | 't' => some .stealOn | 'T' => some .stealOff
  | _ => none

def parseAction (s : String) : Option Action :=
  match s.toList with
  | c :: rest => do
    let a ← parseAct c
    let n ← (String.ofList rest).toNat?
    pure { act := a, win := n }
  | [] => none

def parseEntry (s : String) : Option Entry :=
  match s.splitOn "," with
  | r :: acts => do
    let ret ← if r = "1" then some true else if r = "0" then some false else none
    let as ← acts.mapM parseAction
    pure { ret := ret, actions := as }
  | [] => none

/-! ### the engine -/

structure DSt where
  st : St := newSt 0 0
  started : Bool := false
  dead : Option String := none        -- the model reached `ub` / ran out of fuel earlier in this history

def finishRes (d : DSt) (r : Res St) (pre : List String := []) : DSt × String :=
  match r with
  | .ok st => ({ d with st := { st with log := [] } }, obsLine (pre ++ logItems st.log) st.tree)
  | .ub w => ({ d with dead := some w }, s!"ub:{w}")

def finishOut (d : DSt) (r : Out St) : DSt × String :=
  match r with
  | .ok st => ({ d with st := { st with log := [] } }, obsLine (logItems st.log) st.tree)
  | .ub w => ({ d with dead := some w }, s!"ub:{w}")
  | .fuel => ({ d with dead := some "fuel" }, "fuel")

def crashed (impl : String) : Bool := impl.startsWith "CRASH" || impl.endsWith "<cut>"

def modelStep (d : DSt) (ts : List String) : DSt × String :=
  match ts with
  | ["new", l, c] =>
    match ints? [l, c] with
    | some [l, c] => let st := newSt l c; ({ st := st, started := true }, obsLine [] st.tree)
    | _ => (d, "bad-op")
  | _ =>
  if !d.started then (d, "bad-op") else
  match d.dead with
  | some _ => (d, "ub:earlier")
  | none =>
  let st := d.st
  match ts with
  | ["win", p, t, l, n, c, f] =>
    match ints? [p, t, l, n, c, f] with
    | some [p, t, l, n, c, f] =>
      let p := p.toNat
      let f := f.toNat
      if !isAlive st.tree p then (d, obsLine ["skip"] st.tree) else
      match newWin st p ⟨t, l, n, c⟩ (f &&& 4 != 0) (f &&& 1 != 0) (f &&& 2 != 0) (f &&& 8 != 0) with
      | .ok (st, id) => ({ d with st := st }, obsLine [s!"w{id}"] st.tree)
      | .ub w => ({ d with dead := some w }, s!"ub:{w}")
    | _ => (d, "bad-op")
  | "bind" :: w :: k :: es =>
    match w.toNat?, (if k = "k" then some Kind.key else if k = "m" then some Kind.mouse else none), es.mapM parseEntry with
    | some w, some k, some es =>
      if es.isEmpty then (d, "bad-op") else
      if !isAlive st.tree w then (d, obsLine ["skip"] st.tree) else
      let (st, idx) := addBinding st w k es
      ({ d with st := st }, obsLine [s!"b{idx}"] st.tree)
    | _, _, _ => (d, "bad-op")
  | ["act", a] =>
    match parseAction a with
    | some a => finishRes d (doAction st a)
    | none => (d, "bad-op")
  | ["geom", w, t, l, n, c] =>
    match ints? [w, t, l, n, c] with
    | some [w, t, l, n, c] =>
      let w := w.toNat
      if !isAlive st.tree w then (d, obsLine ["skip"] st.tree) else
      finishRes d (do let (t, _) ← setGeometry st.tree w ⟨t, l, n, c⟩; pure { st with tree := t })
    | _ => (d, "bad-op")
  | ["flush"] => finishRes d (flushSt st)
  | ["key", t, m] =>
    match ints? [t, m] with
    | some [t, m] => finishOut d (emitKey st { type := t, mod := m })
    | _ => (d, "bad-op")
  | ["mouse", t, b, l, c, m] =>
    match ints? [t, b, l, c, m] with
    | some [t, b, l, c, m] => finishOut d (emitMouse st { type := t, button := b, line := l, col := c, mod := m })
    | _ => (d, "bad-op")
  | _ => (d, "bad-op")

def step (d : DSt) (ts : List String) (impl : String) : DSt × String × String :=
  let (d', m) := modelStep d ts
  let sv := if crashed impl then "the implementation crashed (sanitizer report, abort or signal)" else ""
  (d', m, sv)

def engine : Engine := { σ := DSt, init := {}, step := step }

end Tickit.Driver.InputEngine
