import Tickit.Model.InputXlate
import Tickit.Gen.InputXlate
import Tickit.Driver.Common
/-
  Engine `input20` (C20).  Operations (see harness/input20.c):
    new <utf8> [<usec0> [<kmous>]] | reset <utf8> | push <hex> <cuts|-> | check <ms>
  Implementation observation of push/check:
    W <ev>* | F <ev>* | K <key>* end=<res> acc=<n>/<len> [| K2 <key>* end=<res> acc=<n>/<len>] | T <w> <f>
  The K section is the trusted tokenization (the harness' own TermKey instance, fed as the unchanged
  term.c feeds its own); K2 (printed when it differs) is the instance that is handed every byte.  The model
  follows K or K2 according to `Gen.InputXlate.pushLoops`; the specification always follows K2.  The driver replays it
  through a scripted `Tokenizer` and runs the *model* `inputPushBytes` / `inputCheckTimeoutMsec` on it; the
  model observation repeats the K section verbatim and prints the model's events for W and for F (the
  model is fragmentation independent by theorem, so both are the same list) and the model's deadline.
  `CRASH exit=77` (a fault inside libtermkey, recognised by the harness' fault handler) is echoed and not judged.
  SPEC (evaluated on the implementation's observation): F's events = W's events; both report the same
  deadline; W's events are what `Spec.run` (held buttons as a set, no loop) says for the logged keys; the
  logged keys satisfy what the property trusts of the tokenizer (`Key.WF`).
-/
namespace Tickit.Driver.Input20Engine
open Tickit Tickit.Driver Tickit.InputXlate

/-! ### a tokenizer that replays a logged key sequence -/

structure Script where
  queue : List Key
  endRes : Res
  forceRes : Res
  wait : Int

def replay : Tokenizer where
  σ := Script
  push s bytes := (s, bytes.length)
  getkey s := match s.queue with
    | k :: rest => (Res.key k, { s with queue := rest })
    | [] => (if s.endRes.isKey then Res.none else s.endRes, s)
  getkeyForce s := (s.forceRes, s)
  waittime s := s.wait
  pending s := s.queue.length
  getkey_consumes := by
    intro s k s' h
    cases hq : s.queue with
    | nil =>
      simp only [hq] at h
      have h1 := congrArg Prod.fst h
      simp only at h1
      split at h1
      · cases h1
      · rename_i hk
        rw [h1] at hk
        simp [Res.isKey] at hk
    | cons k' rest =>
      simp only [hq] at h
      have h2 := congrArg Prod.snd h
      simp only at h2
      subst h2
      simp

/-! ### parsing -/

def colon (s : String) : List String := s.splitOn ":"

def parseKey (t : String) : Option Key :=
  match colon t with
  | ["M", ev, b, l, c, m] => do
    let ev ← int? ev; let b ← int? b; let l ← int? l; let c ← int? c; let m ← int? m
    pure (Key.mouse ev b l c m)
  | ["U", m, u, n] => do
    let m ← int? m; let u ← hexBytes? u; let n ← hexBytes? n
    pure (Key.unicode m u n)
  | ["F", m, n] => do
    let m ← int? m; let n ← hexBytes? n
    pure (Key.function m n)
  | ["S", m, n] => do
    let m ← int? m; let n ← hexBytes? n
    pure (Key.keysym m n)
  | ["R", i, mo, v] => do
    let i ← int? i; let mo ← int? mo; let v ← int? v
    pure (Key.modereport i mo v)
  | ["D", "!"] => some (Key.dcs none)
  | ["D", h] => do
    let h ← hexBytes? h
    pure (Key.dcs (some h))
  | ["X", ty] => do
    let ty ← int? ty
    pure (Key.other ty)
  | _ => none

def parseEvent (t : String) : Option Event :=
  match colon t with
  | ["k", ty, m, s] => do
    let ty ← int? ty; let m ← int? m; let s ← hexBytes? s
    pure (Event.key ty m s)
  | ["m", ty, b, l, c, m] => do
    let ty ← int? ty; let b ← int? b; let l ← int? l; let c ← int? c; let m ← int? m
    pure (Event.mouse ty b l c m)
  | ["r", i, mo, v] => do
    let i ← int? i; let mo ← int? mo; let v ← int? v
    pure (Event.modereport i mo v)
  | ["q", h] => do
    let h ← hexBytes? h
    pure (Event.decrqss h)
  | _ => none

def showEvent : Event → String
  | .key ty m s => s!"k:{ty}:{m}:{bytesHex s}"
  | .mouse ty b l c m => s!"m:{ty}:{b}:{l}:{c}:{m}"
  | .modereport i mo v => s!"r:{i}:{mo}:{v}"
  | .decrqss a => s!"q:{bytesHex a}"

def showEvents (evs : List Event) : String :=
  String.join (evs.map fun e => " " ++ showEvent e)

def parseRes (s : String) : Option Res :=
  match s with
  | "NONE" => some Res.none
  | "EOF" => some Res.eof
  | "AGAIN" => some Res.again
  | "ERROR" => some Res.error
  | _ => none

structure KSec where
  keys : List Key
  endTok : String
  /-- `acc=<accepted by the first termkey_push_bytes>/<length of the push>` -/
  acc : Nat := 0
  len : Nat := 0

structure ImplObs where
  wSec : String
  fSec : String
  /-- the K (and K2) sections, verbatim -/
  kRaw : String
  wEvents : Option (List Event)
  k1 : KSec
  k2 : KSec
  tW : Int
  tF : Int

def parseKSec (tag : String) (sec : String) : Option KSec :=
  match toks sec with
  | t :: krest =>
    if t ≠ tag then none else
    let keyToks := krest.filter fun x => !(x.startsWith "end=" || x.startsWith "acc=")
    let endTok := match krest.find? (·.startsWith "end=") with
      | some e => (e.drop 4).toString
      | none => "?"
    let accLen : Nat × Nat := match krest.find? (·.startsWith "acc=") with
      | some e => match (e.drop 4).toString.splitOn "/" with
        | [x, y] => (x.toNat?.getD 0, y.toNat?.getD 0)
        | _ => (0, 0)
      | none => (0, 0)
    (keyToks.mapM parseKey).map fun keys => { keys := keys, endTok := endTok, acc := accLen.1, len := accLen.2 }
  | [] => none

/-- `W … | F … | K … end=… acc=… [| K2 …] | T w f` -/
def parseObs (line : String) : Option ImplObs :=
  let build (w f k : String) (k2 : Option String) (t : String) : Option ImplObs :=
    match toks w, toks f, toks t with
    | "W" :: wev, "F" :: _, ["T", tw, tf] => do
      let k1 ← parseKSec "K" k
      let k2s ← match k2 with
        | some x => parseKSec "K2" x
        | none => some k1
      let tw ← int? tw
      let tf ← int? tf
      pure { wSec := w, fSec := f, kRaw := match k2 with | some x => k ++ " | " ++ x | none => k,
             wEvents := wev.mapM parseEvent, k1 := k1, k2 := k2s, tW := tw, tF := tf }
    | _, _, _ => none
  match line.splitOn " | " with
  | [w, f, k, t] => build w f k none t
  | [w, f, k, k2, t] => build w f k (some k2) t
  | _ => none

/-! ### state -/

structure St where
  held : Nat := 0
  timeoutAt : TimeVal := ⟨-1, 0⟩
  now : TimeVal := ⟨1000, 0⟩
  wait : Int := 50
  specHeld : List Nat := []

/-- the harness' driver has both optional callbacks; the two shape facts come from the source -/
def cfg : Cfg :=
  { pushLoops := Gen.InputXlate.pushLoops, dropUnknownMouse := Gen.InputXlate.dropUnknownMouse }

/-- the tokenization the model follows -/
def modelK (o : ImplObs) : KSec := if cfg.pushLoops then o.k2 else o.k1
/-- fuel for the X10 release loop: more than any shift count that is defined -/
def x10Fuel : Nat := 64

def advance (now : TimeVal) (ms : Int) : TimeVal :=
  let total := now.sec * 1000000 + now.usec + ms * 1000
  ⟨total / 1000000, total % 1000000⟩

def mkTerm (st : St) (sc : Script) : Term replay :=
  { tk := sc, held := st.held, timeoutAt := st.timeoutAt }

def tail1 (s : String) : String := (s.drop 1).toString

/-- Every clause of the executable specification that fails, joined by `; ` (empty = holds). -/
def specVerdict (st : St) (o : ImplObs) : List Nat × String :=
  let r := Spec.run st.specHeld o.k2.keys
  let lost : List String :=
    if !cfg.pushLoops && o.k1.acc < o.k1.len then
      [s!"bytes lost: termkey_push_bytes accepted {o.k1.acc} of {o.k1.len} and the rest is dropped"]
    else []
  let frag : List String :=
    if tail1 o.fSec ≠ tail1 o.wSec then
      [s!"fragmentation changes the events: whole [{tail1 o.wSec}] fragmented [{tail1 o.fSec}]"]
    else []
  let tmo : List String :=
    if o.tW ≠ o.tF then [s!"timeout deadline differs: whole {o.tW} fragmented {o.tF}"] else []
  let wf : List String := match o.k2.keys.find? (fun k => !(decide k.WF)) with
    | some k => [s!"tokenizer assumption violated by key {repr k}"]
    | none => []
  let evs : List String := match o.wEvents with
    | none => ["unparsable event in W"]
    | some evs =>
      if evs = r.2 then []
      else match evs.find? (fun e => match e with
          | .mouse ty _ _ _ _ => !(ty = MOUSEEV_PRESS ∨ ty = MOUSEEV_DRAG ∨ ty = MOUSEEV_RELEASE ∨ ty = MOUSEEV_WHEEL)
          | _ => false) with
        | some e => [s!"mouse event of no kind (press/drag/release/wheel): {showEvent e}"]
        | none => [s!"events differ from the specification: expected [{showEvents r.2}]"]
  (r.1, "; ".intercalate (lost ++ frag ++ tmo ++ wf ++ evs))

/-- What the scaffolding prints for an operation when the harness left with its exit code for "fault inside
    libtermkey": the stream is one the trusted tokenizer does not survive, so the property says nothing. -/
def tkCrash : String := "CRASH exit=77"

def step (st : St) (ts : List String) (impl : String) : St × String × String :=
  if impl = tkCrash then (st, tkCrash, "") else
  match ts with
  | "new" :: _ :: rest | "reset" :: _ :: rest =>
    let wait : Int := match toks impl with
      | ["ok", w] => ((w.drop 5).toString.toInt?).getD 50
      | _ => 50
    let now : TimeVal :=
      if ts.head? = some "new" then ⟨1000, (rest.head?.bind int?).getD 0⟩ else st.now
    ({ now := now, wait := wait }, s!"ok wait={wait}", "")
  | ["push", _, _] =>
    match parseObs impl with
    | none => (st, "unparsable-impl-observation", "unparsable implementation observation")
    | some o =>
      let mk := modelK o
      let endRes := (parseRes mk.endTok).getD Res.none
      let sc : Script := { queue := mk.keys, endRes := endRes, forceRes := Res.none, wait := st.wait }
      let (specHeld, sv) := specVerdict st o
      match inputPushBytes replay cfg x10Fuel st.now (mkTerm st sc) [] with
      | .ok r =>
        let tt := r.1
        let t := getTimeout tt.timeoutAt st.now
        let evs := showEvents r.2
        ({ st with held := tt.held, timeoutAt := tt.timeoutAt, specHeld := specHeld },
         s!"W{evs} | F{evs} | {o.kRaw} | T {t} {t}", sv)
      | .ub w => ({ st with specHeld := specHeld }, s!"UB {w}", sv)
      | .outOfFuel => ({ st with specHeld := specHeld }, "OUT-OF-FUEL", sv)
  | ["check", ms] =>
    match parseObs impl, int? ms with
    | some o, some ms =>
      let now := advance st.now ms
      let mk := modelK o
      let forceRes : Res := match mk.keys with
        | k :: _ => Res.key k
        | [] => (parseRes mk.endTok).getD Res.none
      let sc : Script := { queue := [], endRes := Res.none, forceRes := forceRes, wait := st.wait }
      let st := { st with now := now }
      let (specHeld, sv) := specVerdict st o
      match inputCheckTimeoutMsec replay cfg x10Fuel now (mkTerm st sc) with
      | .ok r =>
        let tt := r.1
        let evs := showEvents r.2.1
        ({ st with held := tt.held, timeoutAt := tt.timeoutAt, specHeld := specHeld },
         s!"W{evs} | F{evs} | {o.kRaw} | T {r.2.2} {r.2.2}", sv)
      | .ub w => ({ st with specHeld := specHeld }, s!"UB {w}", sv)
      | .outOfFuel => ({ st with specHeld := specHeld }, "OUT-OF-FUEL", sv)
    | _, _ => (st, "unparsable-impl-observation", "unparsable implementation observation")
  | _ => (st, "bad-op", "")

def engine : Engine := { σ := St, init := {}, step := step }

end Tickit.Driver.Input20Engine
