import Tickit.Model.RectSet
import Tickit.Driver.Common
import Tickit.Driver.Rect
/-
  Engine `rectset` (C05).
    new | add r | sub r | xl d k | clear | contains r | intersects r        (r = top left lines cols)
  Observation: after a mutating op the whole array `n r1 … rn` (order as stored); queries `0`/`1`.
  Specification state: the operations so far, each rectangle kept in *current* coordinates (later
  translations applied), so that the reference region is a backwards fold without translation.
-/
namespace Tickit.Driver.RectSetEngine
open Tickit Tickit.Driver Tickit.Driver.RectEngine

inductive K | add | sub | clr
deriving DecidableEq

structure St where
  set : Option (List Rect) := some []     -- model state; `none` after running out of fuel
  hist : List (K × Rect) := []            -- newest first, current coordinates

def fuel : Nat := 100000

/-- Reference region membership: newest operation that mentions the cell decides. -/
def refMem : List (K × Rect) → Int → Int → Bool
  | [], _, _ => false
  | (.clr, _) :: _, _, _ => false
  | (.add, r) :: rest, l, c => r.memb l c || refMem rest l c
  | (.sub, r) :: rest, l, c => !r.memb l c && refMem rest l c

def histRects (h : List (K × Rect)) : List Rect :=
  h.filterMap fun (k, r) => if k = .clr then none else some r

def checkDump (h : List (K × Rect)) (out : List Rect) : String :=
  if out.any (fun r => !(decide r.Nonempty)) then "empty rectangle stored"
  else
    let sorted := (out.zip out.tail).all fun (a, b) => decide (a.top < b.top ∨ (a.top = b.top ∧ a.left < b.left))
    if !sorted then "not sorted by top then left"
    else
      let cells := probeCells (histRects h ++ out)
      match cells.find? (fun (l, c) => (out.filter (fun r => r.memb l c)).length ≠ (if refMem h l c then 1 else 0)) with
      | some (l, c) =>
        s!"cell ({l},{c}) stored {(out.filter (fun r => r.memb l c)).length} times, reference region says {refMem h l c}"
      | none => ""

def showOpt : Option (List Rect) → String
  | none => "out-of-fuel"
  | some rs => showRects rs

def step (st : St) (ts : List String) (impl : String) : St × String × String :=
  match ts with
  | "new" :: _ => ({}, "0", if impl = "0" then "" else "fresh set not empty")
  | [op, a, b, c, d] =>
    match ints? [a, b, c, d] with
    | some [t, l, n, k] =>
      let r : Rect := ⟨t, l, n, k⟩
      let implInts := ints? (toks impl)
      match op with
      | "add" | "sub" =>
        let set' := st.set.bind fun s => if op = "add" then RectSet.add fuel s r else RectSet.subtract fuel s r
        let hist' := ((if op = "add" then K.add else K.sub), r) :: st.hist
        let sv := match implInts with
          | some (cnt :: rest) => match parseRects rest with
            | some rs => if rs.length ≠ cnt.toNat then "malformed" else checkDump hist' rs
            | none => "malformed"
          | _ => "unparsable implementation observation"
        ({ set := set', hist := hist' }, showOpt set', sv)
      | "contains" =>
        let m := st.set.bind fun s => RectSet.contains fuel s r
        let cells := (probeCells (r :: histRects st.hist)).filter fun (l, c) => r.memb l c
        let want := cells.all fun (l, c) => refMem st.hist l c
        let sv := if implInts = some [if want then 1 else 0] then "" else s!"contains should be {want}"
        (st, match m with | none => "out-of-fuel" | some b => if b then "1" else "0", sv)
      | "intersects" =>
        let m := st.set.map fun s => RectSet.intersects s r
        let cells := (probeCells (r :: histRects st.hist)).filter fun (l, c) => r.memb l c
        let want := cells.any fun (l, c) => refMem st.hist l c
        let sv := if implInts = some [if want then 1 else 0] then "" else s!"intersects should be {want}"
        (st, match m with | none => "out-of-fuel" | some b => if b then "1" else "0", sv)
      | _ => (st, "bad-op", "")
    | _ => (st, "bad-op", "")
  | ["xl", a, b] =>
    match ints? [a, b] with
    | some [d, k] =>
      let set' := st.set.map fun s => RectSet.translate s d k
      let hist' := st.hist.map fun (kk, r) => (kk, r.translate d k)
      let sv := match ints? (toks impl) with
        | some (cnt :: rest) => match parseRects rest with
          | some rs => if rs.length ≠ cnt.toNat then "malformed" else checkDump hist' rs
          | none => "malformed"
        | _ => "unparsable implementation observation"
      ({ set := set', hist := hist' }, showOpt set', sv)
    | _ => (st, "bad-op", "")
  | ["clear"] =>
    let hist' := (K.clr, ⟨0, 0, 0, 0⟩) :: st.hist
    ({ set := st.set.map RectSet.clear, hist := hist' }, showOpt (st.set.map RectSet.clear),
      if impl = "0" then "" else "set not empty after clear")
  | _ => (st, "bad-op", "")

def engine : Engine := { σ := St, init := {}, step := step }

end Tickit.Driver.RectSetEngine
