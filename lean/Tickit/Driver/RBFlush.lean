import Tickit.Model.RBFlush
import Tickit.Model.RBFlushX
import Tickit.Driver.RB
/-
  Engine `rbflush` (C04).  Operations: everything of engine `rb` (drawing programs, see harness/rb.c) plus
    term TL TC ORACLE WS PEN SEED     a grid terminal TL x TC; ORACLE: bit k (mod 31) = "the cursor moves after the k-th
                                      erasech(…, MAYBE)"; WS=1: print goes through write_str; PEN: `NONE` or a pen set with
                                      tickit_term_setpen before the sentinel pattern (from SEED) is filled in
    termx TL TC BUF CAPS PEN SEED     third configuration: the real xterm driver behind an output buffer of BUF bytes and an
                                      output function that records the chunks; CAPS bit 0 = rgb8, bit 1 = ':' sub-parameters
    flush                             tickit_renderbuffer_flush_to_term (third configuration: + tickit_term_flush)
  Observation of `flush`: the requests the driver received, cursor, terminal pen, the grid, and the buffer dump.
  The SPEC verdict of `flush` is `overlay (content of the buffer before) (grid before)` evaluated on the
  implementation's grid, cell by cell, plus "the buffer is reset".
-/
namespace Tickit.Driver.RBFlushEngine
open Tickit Tickit.RB Tickit.RBFlush Tickit.RBFlushX Tickit.Driver Tickit.Driver.RBEngine

/-! ### Printing (must agree byte for byte with harness/rbflush.c) -/

def showGlyph : Glyph → String
  | .blank => "_"
  | .wcont => "~"
  | .chars bs => bytesHex bs

def showTCell (c : TCell) : String := showGlyph c.glyph ++ showPen c.pen ++ "w" ++ toString c.writes

def showGrid (t : GridTerm) (lines cols : Nat) : String :=
  "/".intercalate ((List.range lines).map fun (l : Nat) =>
    "|".intercalate ((List.range cols).map fun (c : Nat) => showTCell (t.cells (l : Int) (c : Int))))

/-- The log entries one request produces at the driver (`setpen` arrives as `chpen(delta, final)`). -/
def showReq (t : GridTerm) : Req → String
  | .goto l c => s!"g{l},{c}"
  | .setpen p => "p" ++ showPen (termSetpenDelta t.pen p) ++ showPen (termSetpen t.pen p)
  | .print s start len => "t" ++ bytesHex ((s.drop start).take len)
  | .erasech n m => s!"e{n},{m.toInt}"

def showLog (t : GridTerm) : List Req → List String
  | [] => []
  | r :: rs => showReq t r :: showLog (t.step r) rs

def showTerm (t : GridTerm) (lines cols : Nat) : String :=
  s!"cur={t.line},{t.col} pen=" ++ showPen t.pen ++ s!" nm={t.nmaybe} grid=" ++ showGrid t lines cols

/-! ### Parsing the implementation's grid -/

def parseGlyph (s : String) : Option Glyph :=
  if s = "_" then some .blank
  else if s = "~" then some .wcont
  else (hexBytes? s).map .chars

/-- `<glyph>{<pen>}w<writes>` -/
def parseTCell (s : String) : Option TCell :=
  match s.splitOn "{" with
  | [g, rest] =>
    match rest.splitOn "}w" with
    | [p, w] => do
      let g ← parseGlyph g
      let p ← parsePenBody p
      let w ← w.toNat?
      pure { glyph := g, pen := p, writes := w }
    | _ => none
  | _ => none

def parseGrid (s : String) : Option (Array (Array TCell)) :=
  ((s.splitOn "/").mapM fun (row : String) => ((row.splitOn "|").mapM parseTCell).map List.toArray).map List.toArray

/-- The value of `key=` among space-separated tokens. -/
def field (ts : List String) (key : String) : Option String :=
  (ts.find? (·.startsWith (key ++ "="))).map fun t => (t.drop (key.length + 1)).toString

/-! ### The executable specification of a flush -/

def showWant : Want → String
  | .keep => "keep"
  | .glyph g p => "glyph " ++ showGlyph g ++ showPen p
  | .line m p => s!"line x{m}" ++ showPen p
  | .unspecified => "unspecified"

/-- One cell: `""` when the obligation holds (`cellOK`, the predicate the theorems are about); otherwise why not. -/
def checkCell (w : Want) (old new : TCell) : String :=
  if cellOK w old new then ""
  else match w with
    | .keep => "touched"
    | .unspecified => "?"
    | .glyph g p =>
      if new.glyph != g then "wrong glyph"
      else if !penSame new.pen p then "wrong pen"
      else s!"written {new.writes - old.writes} times"
    | .line m p =>
      if !(match new.glyph with | .chars bs => lineGlyphOK m bs | _ => false) then "glyph lacks arms of the mask or has others"
      else if !penSame new.pen p then "wrong pen"
      else s!"written {new.writes - old.writes} times"

/-- All cells of the window, first failure reported. -/
def checkGrid (rb : RB) (old : GridTerm) (new : Array (Array TCell)) (lines cols : Nat) : String :=
  let cellsList := (List.range lines).flatMap fun l => (List.range cols).map fun c => (l, c)
  let bad := cellsList.findSome? fun (l, c) =>
    match new[l]? with
    | none => some s!"row {l} missing"
    | some row =>
      match row[c]? with
      | none => some s!"cell ({l},{c}) missing"
      | some x =>
        let w := want rb (l : Int) (c : Int)
        let o := old.cells (l : Int) (c : Int)
        let v := checkCell w o x
        if v = "" then none
        else some s!"cell ({l},{c}) {v}: want {showWant w} over {showTCell o}, terminal shows {showTCell x}"
  bad.getD ""

/-- The buffer after a flush: empty, auxiliary state reset (`vc_line`/`vc_col` keep their stale values, unset). -/
def resetExpected (rb : RB) : RB := (RB.new rb.lines rb.cols rb.vcLine rb.vcCol).compact

/-- Prefix of a failure on a buffer whose content reaches beyond the terminal (known finding `no_clip_to_terminal`). -/
def beyondPrefix : String := "content beyond the terminal (the flush does not clip): "

def specFlush (rb : RB) (old : GridTerm) (lines cols : Nat) (impl : String) : String :=
  match impl.splitOn " rb=" with
  | [head, dump] =>
    let ts := toks head
    -- the hypothesis of `flush_spec` minus the CHAR-width clause is C03's invariant: it must hold of every buffer a
    -- drawing program produces (tested here on every flush; proved in C03)
    if !flushWFPb (fun _ => true) rb then "the buffer is not well-formed (FlushWFP fails): C03 invariant broken?"
    else if field ts "r" != some "ok" then "flush did not complete"
    else match (field ts "grid").bind parseGrid with
      | none => "unparsable grid"
      | some g =>
        let v := checkGrid rb old g lines cols
        -- the hypothesis of `flush_spec_screen`: the content of the buffer lies within the terminal's columns (the grid
        -- is unbounded downwards).  A buffer larger than the terminal is fine as long as what it holds fits; when it
        -- does not, the cells of the terminal are still asked to show what the buffer holds there - and mostly do not
        -- (`C04_anysize_counterexample_width`: the flush does not clip; known finding `no_clip_to_terminal`)
        if v != "" then (if contentWithinB rb old.cols rb.lines then v else beyondPrefix ++ v)
        else if dump != showRB (resetExpected rb) then "buffer not reset after flush"
        else ""
  | _ => "malformed observation"

/-! ### The mock-terminal configuration -/

def sentinel (seed : Nat) (l c : Nat) : UInt8 := UInt8.ofNat (0x21 + (seed + 7 * l + 3 * c) % 94)

def showMStr : Option (List UInt8) → String
  | none => "-"
  | some bs => bytesHex bs

def showMCell (c : MCell) : String := showMStr c.str ++ showPen c.pen

def showMReq (t : MockTerm) : Req → String
  | .goto l c => s!"g{MockTerm.bound l 0 (t.lines - 1)},{MockTerm.bound c 0 (t.cols - 1)}"
  | .setpen p => "p" ++ showPen (termSetpen t.pen p)
  | .print s start len => "t" ++ bytesHex (((s.drop start).take len).takeWhile (· ≠ 0))
  | .erasech n m => s!"e{n},{m.toInt}"

def showMLog (t : MockTerm) : List Req → List String
  | [] => []
  | r :: rs => showMReq t r :: showMLog (t.step r) rs

def showMock (t : MockTerm) (log : List String) : String :=
  "log=" ++ (if log.isEmpty then "-" else ";".intercalate log) ++ s!" cur={t.line},{t.col} pen=" ++ showPen t.pen ++
  " grid=" ++ "/".intercalate ((List.range t.lines.toNat).map fun (l : Nat) =>
    "|".intercalate ((List.range t.cols.toNat).map fun (c : Nat) => showMCell (t.cells (l : Int) (c : Int))))

def parseMCell (s : String) : Option MCell :=
  match s.splitOn "{" with
  | [g, rest] =>
    match rest.splitOn "}" with
    | [p, ""] => do
      let str ← (if g = "-" then some none else (hexBytes? g).map some)
      let p ← parsePenBody p
      pure { str := str, pen := p }
    | _ => none
  | _ => none

def parseMGrid (s : String) : Option (Array (Array MCell)) :=
  ((s.splitOn "/").mapM fun (row : String) => ((row.splitOn "|").mapM parseMCell).map List.toArray).map List.toArray

/-- The mock terminal a `termm` operation sets up: pen, sentinel rows printed through the API, cursor. -/
def newMock (tl tc : Nat) (pen : Option Pen) (seed : Nat) : MockTerm :=
  let t := MockTerm.new tl tc
  let t := match pen with
    | none => t
    | some p => t.setpen p
  let t := (List.range tl).foldl (fun (t : MockTerm) (l : Nat) =>
    ((t.goto l 0).print ((List.range tc).map fun c => sentinel seed l c)).compact) t
  t.goto ((seed % tl : Nat) : Int) (((seed / 7) % tc : Nat) : Int)

/-- `overlay` evaluated on what the mock terminal displays (no write counts there). -/
def checkMGrid (rb : RB) (old : MockTerm) (new : Array (Array MCell)) : String :=
  let cellsList := (List.range old.lines.toNat).flatMap fun l => (List.range old.cols.toNat).map fun c => (l, c)
  let bad := cellsList.findSome? fun (l, c) =>
    match new[l]? with
    | none => some s!"row {l} missing"
    | some row =>
      match row[c]? with
      | none => some s!"cell ({l},{c}) missing"
      | some x =>
        let w := want rb (l : Int) (c : Int)
        let o := old.cells (l : Int) (c : Int)
        if mcellOK w o x then none
        else some s!"cell ({l},{c}): want {showWant w} over {showMCell o}, mock terminal shows {showMCell x}"
  bad.getD ""

def specMFlush (rb : RB) (old : MockTerm) (impl : String) : String :=
  match impl.splitOn " rb=" with
  | [head, dump] =>
    let ts := toks head
    if !flushWFPb (fun _ => true) rb then "the buffer is not well-formed (FlushWFP fails): C03 invariant broken?"
    else if field ts "r" != some "ok" then "flush did not complete"
    else match (field ts "grid").bind parseMGrid with
      | none => "unparsable grid"
      | some g =>
        let v := checkMGrid rb old g
        -- the mock terminal is a screen of `old.lines` x `old.cols` (positions are clamped to it); hypothesis of
        -- `flush_spec_screen`: the content of the buffer lies within it
        if v != "" then (if contentWithinB rb old.cols old.lines then v else beyondPrefix ++ v)
        else if dump != showRB (resetExpected rb) then "buffer not reset after flush"
        else ""
  | _ => if impl.startsWith "CRASH" then "the mock terminal crashed: " ++ impl else "malformed observation"

/-! ### The xterm-driver configuration -/

/-- The terminal of the third configuration: what its screen shows (the VT reading of every byte so far), the
    capabilities the driver probed, the size of the output buffer and `tt->pen`. -/
structure XTerm where
  screen : XScreen
  /-- C09's reference VT (Model/VT.lean) fed with the same bytes: the screen above must agree with it on what that
      interpreter tracks - base code point, background and reverse video of every cell, the cursor, the pending wrap -/
  vt : VT.VTState
  caps : TermPen.Caps
  buf : Nat
  pen : Pen

/-- `VT.run`, re-tabulated every 64 bytes (execution speed only). -/
def vtRunFrom (vt : VT.VTState) : Nat → List UInt8 → VT.VTState
  | _, [] => vt
  | k, b :: rest => vtRunFrom (if k % 64 = 63 then (VT.step vt b).compact else VT.step vt b) (k + 1) rest

def vtRun (vt : VT.VTState) (bs : List UInt8) : VT.VTState := (vtRunFrom vt 0 bs).compact

def colrToVT : Sgr.Colr → Int
  | .dflt => -1
  | .idx n => n
  | .rgb r g b => VT.rgbColour r g b

/-- What C09's VT shows for a cell of the screen: the base code point (32 blank, 0 second half of a wide character). -/
def xcellToVT (c : XCell) : Option VT.Cell :=
  match c.glyph with
  | .blank => some ⟨32, colrToVT c.attrs.bg, c.attrs.reverse⟩
  | .wcont => some ⟨0, colrToVT c.attrs.bg, c.attrs.reverse⟩
  | .chars bs => (Tickit.RB.Utf8.nextUtf8 bs 0 (some bs.length)).map fun d => ⟨d.cp, colrToVT c.attrs.bg, c.attrs.reverse⟩

def showChunks (cs : List (List UInt8)) : String :=
  if cs.isEmpty then "-" else ",".intercalate (cs.map fun c => if c.isEmpty then "." else bytesHex c)

def parseChunks (s : String) : Option (List (List UInt8)) :=
  if s = "-" then some [] else (s.splitOn ",").mapM fun c => if c = "." then some [] else hexBytes? c

def showColr : Sgr.Colr → String
  | .dflt => "default"
  | .idx n => toString n
  | .rgb r g b => s!"rgb({r},{g},{b})"

/-- Rendering attributes on one line; only what differs from the default is listed besides the colours. -/
def showXAttrs (a : Sgr.Attrs) : String :=
  "<fg=" ++ showColr a.fg ++ ",bg=" ++ showColr a.bg ++
  (if a.bold then ",bold" else "") ++ (if a.faint then ",faint" else "") ++ (if a.italic then ",italic" else "") ++
  (if a.under != 0 then s!",under={a.under}" else "") ++ (if a.blink then ",blink" else "") ++
  (if a.reverse then ",reverse" else "") ++ (if a.strike then ",strike" else "") ++
  (if a.font != 0 then s!",font={a.font}" else "") ++
  (match a.sizepos with | .normal => "" | .small => ",small" | .super => ",super" | .sub => ",sub") ++
  (if a.junk != 0 then s!",junk={a.junk}" else "") ++ ">"

def showXCell (c : XCell) : String := showGlyph c.glyph ++ " " ++ showXAttrs c.attrs ++ s!" w{c.writes}"

/-- Self-check of the machinery: the screen of Model/RBFlushX.lean against C09's reference VT after the same bytes. -/
def checkAgainstVT (s : XScreen) (vt : VT.VTState) : String :=
  if s.row != vt.row || s.col != vt.col || s.pending != vt.pendingWrap then
    s!"machinery: cursor ({s.row},{s.col},{s.pending}) but C09's reference VT has ({vt.row},{vt.col},{vt.pendingWrap})"
  else
    let cellsList := (List.range s.lines.toNat).flatMap fun l => (List.range s.cols.toNat).map fun c => (l, c)
    let bad := cellsList.findSome? fun (l, c) =>
      if xcellToVT (s.cells (l : Int) (c : Int)) == some (vt.grid (l : Int) (c : Int)) then none
      else some s!"machinery: cell ({l},{c}) is [{showXCell (s.cells (l : Int) (c : Int))}] but C09's reference VT shows glyph {(vt.grid (l : Int) (c : Int)).glyph} bg {(vt.grid (l : Int) (c : Int)).bg} rv {(vt.grid (l : Int) (c : Int)).rv}"
    bad.getD ""


/-- The requests of the set-up of `termx`: the prior pen, the sentinel rows, the cursor. -/
def xSetupReqs (tl tc : Nat) (pen : Option Pen) (seed : Nat) : List Req :=
  (match pen with | none => [] | some p => [Req.setpen p]) ++
  ((List.range tl).flatMap fun (l : Nat) =>
    [Req.goto (l : Int) 0, Req.print ((List.range tc).map fun (c : Nat) => sentinel seed l c) 0 tc]) ++
  [Req.goto ((seed % tl : Nat) : Int) (((seed / 7) % tc : Nat) : Int)]

def newXTerm (tl tc buf : Nat) (caps : TermPen.Caps) (pen : Option Pen) (seed : Nat) : XTerm × String :=
  let r := xflush caps 0 Pen.empty (xSetupReqs tl tc pen seed)
  let scr := ((XScreen.fresh tl tc).run r.stream).zeroWrites.compact
  let vt := vtRun (VT.VTState.init tl tc fun _ _ => VT.Cell.blank (-1)) r.stream
  ({ screen := scr, vt := vt, caps := caps, buf := buf, pen := r.pen }, bytesHex r.stream)

/-- `overlay` evaluated on the screen a VT shows after reading the bytes the output function was handed. -/
def checkXGrid (caps : TermPen.Caps) (rb : RB) (old new : XScreen) : String :=
  let cellsList := (List.range old.lines.toNat).flatMap fun l => (List.range old.cols.toNat).map fun c => (l, c)
  let bad := cellsList.findSome? fun (l, c) =>
    let w := want rb (l : Int) (c : Int)
    let o := old.cells (l : Int) (c : Int)
    let x := new.cells (l : Int) (c : Int)
    if xcellOK caps w o x then none
    else some (s!"cell ({l},{c}): want {showWant w}" ++
      (match w with
       | .glyph _ p => " = " ++ showXAttrs (expectAttrs caps p)
       | .line _ p => " = " ++ showXAttrs (expectAttrs caps p)
       | _ => "") ++
      s!" over [{showXCell o}], the terminal shows [{showXCell x}]")
  bad.getD ""

def specXFlush (rb : RB) (t : XTerm) (impl : String) : String :=
  match impl.splitOn " rb=" with
  | [head, dump] =>
    let ts := toks head
    if !flushWFPb (fun _ => true) rb then "the buffer is not well-formed (FlushWFP fails): C03 invariant broken?"
    else if field ts "r" != some "ok" then "flush did not complete"
    else match (field ts "out").bind parseChunks, (field ts "fl").bind parseChunks with
      | some during, some final =>
        -- what the terminal has received, in the order it received it
        let stream := during.flatten ++ final.flatten
        let new := t.screen.run stream
        if new.ps != .ground then "the byte stream ends inside a control sequence or a UTF-8 sequence"
        else if new.unknown != t.screen.unknown then "the byte stream contains a control sequence the terminal does not know"
        else if checkAgainstVT new (vtRun t.vt stream) != "" then checkAgainstVT new (vtRun t.vt stream)
        else
          let v := checkXGrid t.caps rb t.screen new
          if v != "" then (if contentWithinB rb t.screen.cols t.screen.lines then v else beyondPrefix ++ v)
          else if dump != showRB (resetExpected rb) then "buffer not reset after flush"
          else ""
      | _, _ => "unparsable chunks"
  | _ => if impl.startsWith "CRASH" then "the flush crashed: " ++ impl else "malformed observation"

/-- Pause + resume draw nothing: the bytes are complete control sequences the terminal knows, and every cell of the
    screen ("every prior terminal content") is what it was. -/
def specXSuspend (t : XTerm) (impl : String) : String :=
  let ts := toks impl
  match (field ts "pa").bind parseChunks, (field ts "re").bind parseChunks, (field ts "fl").bind parseChunks with
  | some pa, some re, some fl =>
    let stream := pa.flatten ++ re.flatten ++ fl.flatten
    let new := t.screen.run stream
    if new.ps != .ground then "the byte stream of pause + resume ends inside a control sequence"
    else if new.unknown != t.screen.unknown then "pause + resume send a control sequence the terminal does not know"
    else if checkAgainstVT new (vtRun t.vt stream) != "" then checkAgainstVT new (vtRun t.vt stream)
    else
      let cellsList := (List.range t.screen.lines.toNat).flatMap fun l => (List.range t.screen.cols.toNat).map fun c => (l, c)
      let bad := cellsList.findSome? fun (l, c) =>
        let o := t.screen.cells (l : Int) (c : Int)
        let x := new.cells (l : Int) (c : Int)
        if x == o then none else some s!"pause + resume changed cell ({l},{c}): [{showXCell o}] became [{showXCell x}]"
      bad.getD ""
  | _, _, _ => if impl.startsWith "CRASH" then "pause + resume crashed: " ++ impl else "malformed observation"

/-! ### One step -/

structure St where
  rb : Option RB := none
  term : Option GridTerm := none
  mterm : Option MockTerm := none
  xterm : Option XTerm := none
  tl : Nat := 0
  tc : Nat := 0
  /-- the harness process of this history is dead (a sanitizer abort): every further operation answers `CRASH` -/
  crashed : Bool := false


/-- The grid a `term` operation sets up. -/
def newTerm (tl tc : Nat) (oracle : Nat) (ws : Bool) (pen : Option Pen) (seed : Nat) : GridTerm :=
  let p := match pen with
    | none => Pen.empty
    | some p => termSetpen Pen.empty p
  { cells := fun l c => { glyph := .chars [sentinel seed l.toNat c.toNat], pen := p, writes := 0 }
    line := (seed % (if tl = 0 then 1 else tl) : Nat)
    col := ((seed / 7) % (if tc = 0 then 1 else tc) : Nat)
    cols := tc
    pen := p
    oracle := fun k => (oracle >>> (k % 31)) % 2 == 1
    viaWriteStr := ws }

/-! ### Execution speed on wide buffers

  `hlineAt` draws one cell after the other, each through `make_span`; on the function representation of a row every
  cell adds a layer of closures and a 300-cell line takes minutes.  Here the grid is re-tabulated every few cells
  (`RB.compact` is the identity on the grid); the calls of `linecell` are the same as in `Tickit.RB.hlineAt`. -/

def lineLoopC (cellAt : Int → Int × Int) (bits : Nat) (rb : RB) (from_ : Int) : Nat → RB
  | 0 => rb
  | n + 1 =>
    let rb' := linecell rb (cellAt from_).1 (cellAt from_).2 bits
    lineLoopC cellAt bits (if n % 8 = 0 then rb'.compact else rb') (from_ + 1) n

open Tickit.Gen.RBWidth in
def hlineAtC (rb : RB) (line startcol endcol : Int) (style caps : Nat) : RB :=
  let east := style <<< c_EAST_SHIFT
  let west := style <<< c_WEST_SHIFT
  let rb := linecell rb line startcol (east ||| (if caps &&& c_TICKIT_LINECAP_START ≠ 0 then west else 0))
  let rb := lineLoopC (fun col => (line, col)) (east ||| west) rb (startcol + 1) (endcol - 1 - startcol).toNat
  linecell rb line endcol ((if caps &&& c_TICKIT_LINECAP_END ≠ 0 then east else 0) ||| west)

/-- `RB.step`, with the re-tabulating `hlineAt` on buffers wider than 40 columns. -/
def stepC (rb : RB) (o : Op) : RB :=
  match o with
  | .hlineAt l c1 c2 st caps => if rb.cols > 40 then hlineAtC rb l c1 c2 st caps else RB.step rb o
  | _ => RB.step rb o

def showOutcome : Outcome → String
  | .ok => "ok" | .aborted => "ABORT" | .fuelOut => "OUT-OF-FUEL"

def step (st : St) (ts : List String) (impl : String) : St × String × String :=
  if st.crashed ∧ ts.head? != some "new" then (st, "CRASH exit=1", "") else
  match ts with
  | ["new", l, c] =>
    match int? l, int? c with
    | some l, some c =>
      let rb := (RB.new l c garbage garbage).compact
      ({ st with rb := some rb, crashed := false, term := none, mterm := none, xterm := none }, "r=- " ++ showRB rb, "")
    | _, _ => (st, "bad-op", "")
  | ["term", tl, tc, oracle, ws, pen, seed] =>
    match tl.toNat?, tc.toNat?, oracle.toNat?, ws.toNat?, seed.toNat? with
    | some tl, some tc, some oracle, some ws, some seed =>
      let pen? : Option (Option Pen) := if pen = "NONE" then some none else (parsePenBody pen).map some
      match pen? with
      | none => (st, "bad-op", "")
      | some pen =>
        let t := (newTerm tl tc oracle (ws != 0) pen seed).compact tl tc
        ({ st with term := some t, mterm := none, xterm := none, tl := tl, tc := tc }, "r=- " ++ showTerm t tl tc, "")
    | _, _, _, _, _ => (st, "bad-op", "")
  | ["termm", tl, tc, pen, seed] =>
    match tl.toNat?, tc.toNat?, seed.toNat? with
    | some tl, some tc, some seed =>
      let pen? : Option (Option Pen) := if pen = "NONE" then some none else (parsePenBody pen).map some
      match pen? with
      | none => (st, "bad-op", "")
      | some pen =>
        if tl = 0 ∨ tc = 0 then (st, "bad-op", "") else
        let t := (newMock tl tc pen seed).compact
        ({ st with mterm := some t, term := none, xterm := none, tl := tl, tc := tc }, "r=- " ++ showMock t [], "")
    | _, _, _ => (st, "bad-op", "")
  | ["termx", tl, tc, buf, caps, pen, seed] =>
    match tl.toNat?, tc.toNat?, buf.toNat?, caps.toNat?, seed.toNat? with
    | some tl, some tc, some buf, some caps, some seed =>
      let pen? : Option (Option Pen) := if pen = "NONE" then some none else (parsePenBody pen).map some
      match pen? with
      | none => (st, "bad-op", "")
      | some pen =>
        if tl = 0 ∨ tc = 0 ∨ tl > 1000 ∨ tc > 1000 ∨ buf > 1000000 then (st, "bad-op", "") else
        let c : TermPen.Caps := ⟨caps % 2 = 1, caps / 2 % 2 = 1⟩
        let (t, out) := newXTerm tl tc buf c pen seed
        ({ st with xterm := some t, term := none, mterm := none, tl := tl, tc := tc },
          "r=- out=" ++ out ++ " pen=" ++ showPen t.pen ++ s!" caps={caps % 4}", "")
    | _, _, _, _, _ => (st, "bad-op", "")
  | ["suspend"] =>
    match st.xterm with
    | some t =>
      let x := xsuspend Tickit.Gen.TermBuf.term_resume_resends_pen t.caps t.buf t.pen
      let m := "r=-" ++ (if x.ok then "" else "UB") ++ " pa=" ++ showChunks x.paused ++ " re=" ++ showChunks x.resumed ++
        " fl=" ++ showChunks (if x.final.isEmpty then [] else [x.final]) ++ " pen=" ++ showPen t.pen
      let t' := { t with screen := t.screen.run x.stream, vt := vtRun t.vt x.stream }
      ({ st with xterm := some t' }, m, specXSuspend t impl)
    | none => (st, "bad-op", "")
  | ["flush"] =>
    match st.rb, st.xterm with
    | some rb, some t =>
      let res := flushToTerm rb
      let x := xflush t.caps t.buf t.pen res.reqs
      let rb' := res.rb.compact
      let m := "r=" ++ showOutcome res.out ++ (if x.ok then "" else "-UB") ++ " out=" ++ showChunks x.during ++
        " fl=" ++ showChunks (if x.final.isEmpty then [] else [x.final]) ++ " pen=" ++ showPen x.pen ++ " rb=" ++ showRB rb'
      let t' := { t with screen := t.screen.run x.stream, vt := vtRun t.vt x.stream, pen := x.pen }
      ({ st with rb := some rb', xterm := some t' }, m, specXFlush rb t impl)
    | _, _ =>
    match st.rb, st.mterm with
    | some rb, some t =>
      let res := flushToTerm rb
      let t' := (t.run res.reqs).compact
      let rb' := res.rb.compact
      if t'.hung then
        ({ st with crashed := true }, "CRASH exit=1", specMFlush rb t impl)
      else
        let m := "r=" ++ showOutcome res.out ++ " " ++ showMock t' (showMLog t res.reqs) ++ " rb=" ++ showRB rb'
        ({ st with rb := some rb', mterm := some t' }, m, specMFlush rb t impl)
    | _, _ =>
    match st.rb, st.term with
    | some rb, some t =>
      let res := flushToTerm rb
      let t' := (t.run res.reqs).compact st.tl st.tc
      let rb' := res.rb.compact
      let log := showLog t res.reqs
      let m := "r=" ++ showOutcome res.out ++ " log=" ++ (if log.isEmpty then "-" else ";".intercalate log) ++ " " ++
        showTerm t' st.tl st.tc ++ " rb=" ++ showRB rb'
      ({ st with rb := some rb', term := some t' }, m, specFlush rb t st.tl st.tc impl)
    | _, _ => (st, "bad-op", "")
  | op :: args =>
    match st.rb with
    | none => (st, "bad-op", "")
    | some rb =>
      match op, args with
      | "getcur", [] =>
        let r := match getCursor rb with
          | some (l, c) => s!"r=1,{l},{c}"
          | none => "r=0,-77,-77"
        (st, r ++ " " ++ showRB rb, "")
      | "getcells", [] => (st, "r=" ++ showCells rb ++ " " ++ showRB rb, "")
      | _, _ =>
        match parseOp op args with
        | none => (st, "bad-op", "")
        | some o =>
          let rb' := (stepC rb o).compact
          ({ st with rb := some rb' }, modelRet rb o ++ " " ++ showRB rb', "")
  | [] => (st, "bad-op", "")

def engine : Engine := { σ := St, init := {}, step := step }

end Tickit.Driver.RBFlushEngine
