import Tickit.Model.XTermDrv
import Tickit.Gen.XTermFacts
import Tickit.Driver.Common
/-
  Engine `xterm` (C09).
    new L C slrm colon rgb [vis blink] (slrm / vis / blink = DECRPM reply values 0..4 for modes 69 / 25 / 12)
    resize L C | goto l c | move d r | print <hex> | printn <hex> n | erasech n moveend | clear
    scroll top left lines cols downward rightward | setpen [bg=N] [rv=B] | chpen [bg=N] [rv=B]
  Model observation: `<hex bytes> ret=<r>` (exactly what harness/xterm.c prints).
  SPEC verdict: the VT reference interpreter (Model/VT.lean) is run on the *implementation's* bytes from the screen
  state reached so far (which also follows the implementation's bytes), and the resulting screen is compared with
  the request's specification (`XTermDrv.Spec`): cell by cell over the whole screen, cursor, pending wrap, margins,
  SGR state, tokenizer back in the ground state, no control sequence unknown to the reference terminal.
  Requests outside the in-range contract of DESIGN.md Appendix C are compared byte for byte but not judged.
-/
namespace Tickit.Driver.XTermEngine
open Tickit Tickit.Driver Tickit.XTermDrv Tickit.VT

structure St where
  drv : Drv
  vt : VTState
  live : Bool
  /-- the reference terminal does not change DECLRMM on `CSI ? 69 h / l` (mode not recognised, or permanent) -/
  locked : Bool

instance : Inhabited St :=
  ⟨{ drv := default, vt := VTState.init 0 0 (fun _ _ => default), live := false, locked := false }⟩

/-- Interpret the implementation's bytes on the reference terminal of this history: as `VT.run`, except that a
    terminal whose mode 69 is not recognised or permanent keeps its DECLRMM state (and, if that is "set", its
    left/right margins) whatever `CSI ? 69 h / l` asks. -/
def runOn (st : St) (bytes : List UInt8) : VTState :=
  if st.locked then
    bytes.foldl (fun vt b =>
      let vt' := VT.step vt b
      if vt'.declrmm = vt.declrmm then vt' else { vt' with declrmm := vt.declrmm, left := vt.left, right := vt.right }) st.vt
  else run bytes st.vt

/-- Pre-existing screen content: a distinct glyph in every cell, so that any misplaced cell is visible. -/
def initialGrid (cols : Int) : Int → Int → Cell := fun l c => ⟨0x100000 + (l * cols + c).toNat, -1, false⟩

def showCell (x : Cell) : String := s!"<{x.glyph} bg={x.bg} rv={x.rv}>"

/-- First in-screen cell where `got` differs from `want`. -/
def gridDiff (lines cols : Int) (got want : Int → Int → Cell) : Option String :=
  let nl := lines.toNat
  let nc := cols.toNat
  let rec goRow (l : Nat) (fuel : Nat) : Option String :=
    match fuel with
    | 0 => none
    | fuel + 1 =>
      if l ≥ nl then none else
      let rec goCol (c : Nat) (fuelc : Nat) : Option String :=
        match fuelc with
        | 0 => none
        | fuelc + 1 =>
          if c ≥ nc then none else
          let g := got l c
          let w := want l c
          if g ≠ w then some s!"cell ({l},{c}) is {showCell g}, expected {showCell w}"
          else goCol (c + 1) fuelc
      match goCol 0 (nc + 1) with
      | some e => some e
      | none => goRow (l + 1) fuel
  goRow 0 (nl + 1)

/-- Number of control sequences in `bytes` (interpreted from state `vt`) that the reference terminal does not know. -/
def unknownSeqs (bytes : List UInt8) (vt : VTState) : Nat :=
  (bytes.foldl (fun (acc : VTState × Nat) b =>
    let vt := acc.1
    let bad := match vt.ps with
      | .csi a => if 0x40 ≤ b ∧ b ≤ 0x7e ∧ ¬ isDigit b ∧ !(csiKnown a.priv a.inter b) then 1 else 0
      | .csiIgnore => if 0x40 ≤ b ∧ b ≤ 0x7e then 1 else 0
      | .esc => if b = 0x5b ∨ b = 0x5d ∨ b = 0x50 ∨ b = 0x3d ∨ b = 0x3e ∨ b = 0x37 ∨ b = 0x38 ∨ b = 0x5c then 0 else 1
      | _ => 0
    (step vt b, acc.2 + bad)) (vt, 0)).2

/-- UTF-8 decoding of a requested text (independent of the VT's own decoder); `none` if malformed. -/
def decodeUtf8 : List UInt8 → Option (List Nat)
  | [] => some []
  | b :: rest =>
    if b < 0x80 then (decodeUtf8 rest).map (b.toNat :: ·)
    else if 0xc2 ≤ b ∧ b ≤ 0xdf then
      match rest with
      | c1 :: r => if 0x80 ≤ c1 ∧ c1 ≤ 0xbf then (decodeUtf8 r).map (((b.toNat - 0xc0) * 64 + (c1.toNat - 0x80)) :: ·) else none
      | _ => none
    else if 0xe0 ≤ b ∧ b ≤ 0xef then
      match rest with
      | c1 :: c2 :: r =>
        if 0x80 ≤ c1 ∧ c1 ≤ 0xbf ∧ 0x80 ≤ c2 ∧ c2 ≤ 0xbf then
          (decodeUtf8 r).map ((((b.toNat - 0xe0) * 64 + (c1.toNat - 0x80)) * 64 + (c2.toNat - 0x80)) :: ·) else none
      | _ => none
    else if 0xf0 ≤ b ∧ b ≤ 0xf4 then
      match rest with
      | c1 :: c2 :: c3 :: r =>
        if 0x80 ≤ c1 ∧ c1 ≤ 0xbf ∧ 0x80 ≤ c2 ∧ c2 ≤ 0xbf ∧ 0x80 ≤ c3 ∧ c3 ≤ 0xbf then
          (decodeUtf8 r).map (((((b.toNat - 0xf0) * 64 + (c1.toNat - 0x80)) * 64 + (c2.toNat - 0x80)) * 64 + (c3.toNat - 0x80)) :: ·)
        else none
      | _ => none
    else none

/-- Cells a text occupies (shared with the theorem `print_utf8_effect`). -/
def textCells (cps : List Nat) : List Nat := Spec.textCells cps

def printable (cp : Nat) : Bool := cp ≥ 0x20 ∧ cp ≠ 0x7f ∧ ¬ (0x80 ≤ cp ∧ cp ≤ 0x9f)

def cursorStr (vt : VTState) : String := s!"({vt.row},{vt.col}{if vt.pendingWrap then ",wrap" else ""})"

/-- Conditions every drawing request must leave behind. -/
def commonCheck (vt vt' : VTState) : String :=
  if vt'.ps ≠ .ground then "output ends inside an escape sequence"
  else if ¬ Spec.marginsReset vt' then s!"margins left set: rows {vt'.top}..{vt'.bottom} cols {vt'.left}..{vt'.right}"
  else if vt'.bg ≠ vt.bg ∨ vt'.rv ≠ vt.rv then "rendering attributes changed by a drawing request"
  else if vt'.declrmm ≠ vt.declrmm then "DECLRMM changed"
  else if ¬ (0 ≤ vt'.row ∧ vt'.row < vt'.lines ∧ 0 ≤ vt'.col ∧ vt'.col < vt'.cols) then "cursor outside the screen"
  else ""

def firstNonEmpty (l : List String) : String := (l.find? (· ≠ "")).getD ""

def gridCheck (vt' : VTState) (want : Int → Int → Cell) : String :=
  (gridDiff vt'.lines vt'.cols vt'.grid want).getD ""

def cursorCheck (vt' : VTState) (row col : Int) (pw : Bool) : String :=
  if vt'.row = row ∧ vt'.col = col ∧ vt'.pendingWrap = pw then ""
  else s!"cursor at {cursorStr vt'}, requested ({row},{col}{if pw then ",wrap" else ""})"

/-- The specification verdict for one request; `vt'` is the screen after the implementation's bytes.
    Second component: was the request inside the in-range contract? -/
def specCheck (req : Request) (vt vt' : VTState) (ret : Int) (bytes : List UInt8) : String × Bool :=
  let inside := ¬ vt.pendingWrap
  match req with
  | .goto l c =>
    if (l = -1 ∨ (0 ≤ l ∧ l < vt.lines)) ∧ (c = -1 ∨ (0 ≤ c ∧ c < vt.cols)) then
      let w := Spec.goto l c vt
      (firstNonEmpty [if ret = 1 then "" else "goto reports failure", commonCheck vt vt',
         cursorCheck vt' w.row w.col w.pendingWrap, gridCheck vt' vt.grid], true)
    else ("", false)
  | .move d r =>
    if inside ∧ 0 ≤ vt.row + d ∧ vt.row + d < vt.lines ∧ 0 ≤ vt.col + r ∧ vt.col + r < vt.cols then
      let w := Spec.move d r vt
      (firstNonEmpty [commonCheck vt vt', cursorCheck vt' w.row w.col w.pendingWrap, gridCheck vt' vt.grid], true)
    else ("", false)
  | .print s n =>
    let want := s.take n
    match decodeUtf8 want with
    | none => ("", false)
    | some cps =>
      let cells := textCells cps
      let w : Int := cells.length
      if inside ∧ cps.all printable ∧ vt.col + w ≤ vt.cols then
        let grid : Int → Int → Cell := fun l c =>
          if l = vt.row ∧ vt.col ≤ c ∧ c < vt.col + w then ⟨cells.getD (c - vt.col).toNat 32, vt.bg, vt.rv⟩ else vt.grid l c
        let cur := if w = 0 then cursorCheck vt' vt.row vt.col vt.pendingWrap
                   else if vt.col + w < vt.cols then cursorCheck vt' vt.row (vt.col + w) false
                   else cursorCheck vt' vt.row (vt.cols - 1) true
        (firstNonEmpty [commonCheck vt vt', gridCheck vt' grid, cur], true)
      else ("", false)
  | .erasech n me =>
    if inside ∧ vt.col + n ≤ vt.cols then
      if n < 1 then
        (firstNonEmpty [commonCheck vt vt', gridCheck vt' vt.grid, cursorCheck vt' vt.row vt.col false], true)
      else
        let cur := match me with
          | .no =>
            let base := cursorCheck vt' vt.row vt.col false
            if base = "" then "" else
            -- diagnostic context (lets a known-finding signature be specific)
            let delta := vt'.col - vt.col
            let dstr := if delta > 0 ∧ delta % 64 = 0 then s!"+{delta}=64x{delta / 64}" else if delta ≥ 0 then s!"+{delta}" else s!"{delta}"
            s!"{base} [erase {if vt.col + n = vt.cols then "to-last-col" else "mid-row"} row-delta={vt'.row - vt.row} col-delta={dstr}]"
          | .yes =>
            if vt.col + n < vt.cols then cursorCheck vt' vt.row (vt.col + n) false
            else if vt'.row = vt.row ∧ vt'.col = vt.cols - 1 then ""     -- requested column `cols` is not on the screen
            else s!"cursor at {cursorStr vt'}, requested the end of row {vt.row}"
          | .maybe => ""
        (firstNonEmpty [commonCheck vt vt', gridCheck vt' (Spec.eraseGrid n vt), cur], true)
    else ("", false)
  | .clear =>
    (firstNonEmpty [commonCheck vt vt', gridCheck vt' (Spec.clearGrid vt), cursorCheck vt' vt.row vt.col vt.pendingWrap], true)
  | .scroll rect d r =>
    if ret = 0 then
      (if bytes = [] then "" else "scroll reports failure but emitted bytes", true)
    else if rect.lines ≥ 1 ∧ rect.cols ≥ 1 ∧ 0 ≤ rect.top ∧ rect.bottom ≤ vt.lines ∧ 0 ≤ rect.left ∧ rect.right ≤ vt.cols ∧
            -rect.lines < d ∧ d < rect.lines ∧ -rect.cols < r ∧ r < rect.cols then
      (firstNonEmpty [commonCheck vt vt', gridCheck vt' (Spec.scrollGrid rect d r vt)], true)
    else ("", false)

def parsePen : List String → Option PenReq
  | [] => some ⟨none, none⟩
  | t :: rest => do
    let p ← parsePen rest
    if t.startsWith "bg=" then
      let v ← (t.drop 3).toString.toInt?
      some { p with bg := some v }
    else if t.startsWith "rv=" then
      let v ← (t.drop 3).toString.toInt?
      some { p with rv := some (v ≠ 0) }
    else none

/-- Implementation observation `<hex> ret=<n>` → bytes and return value. -/
def parseObs (impl : String) : Option (List UInt8 × Int) :=
  match toks impl with
  | [h, r] => do
    let bs ← hexBytes? h
    if r.startsWith "ret=" then
      let v ← (r.drop 4).toString.toInt?
      some (bs, v)
    else none
  | _ => none

def b01 (b : Bool) : String := if b then "1" else "0"

def doRequest (st : St) (req : Request) (impl : String) : St × String × String :=
  let (ret, bytes) := request ⟨Gen.XTermFacts.scrollGuard, Gen.XTermFacts.eraseKeepsCount, Gen.XTermFacts.printnGuard⟩ st.drv req
  let mobs := s!"{bytesHex bytes} ret={b01 ret}"
  match parseObs impl with
  | none => (st, mobs, "")     -- CRASH / malformed: the comparison reports it
  | some (ibytes, iret) =>
    let vt' := runOn st ibytes
    let unk := unknownSeqs ibytes st.vt
    let (verdict, inContract) := specCheck req st.vt vt' iret ibytes
    let verdict := if verdict = "" ∧ inContract ∧ unk > 0 then s!"{unk} control sequence(s) unknown to the reference terminal" else verdict
    ({ st with vt := vt'.compact }, mobs, verdict)

def doPen (st : St) (isSet : Bool) (pen : PenReq) (impl : String) : St × String × String :=
  let (cache', bytes) := if isSet then setpen st.drv.caps st.drv.pen pen else chpen st.drv.caps st.drv.pen pen
  let mobs := s!"{bytesHex bytes} ret=1"
  let st1 := { st with drv := { st.drv with pen := cache' } }
  match parseObs impl with
  | none => (st1, mobs, "")
  | some (ibytes, _) =>
    let vt' := runOn st ibytes
    let unk := unknownSeqs ibytes st.vt
    let verdict := firstNonEmpty [
      if vt'.ps ≠ .ground then "output ends inside an escape sequence" else "",
      if unk > 0 then s!"{unk} control sequence(s) unknown to the reference terminal" else "",
      match cache'.bg with | some v => if vt'.bg = v then "" else s!"terminal background {vt'.bg}, pen background {v}" | none => "",
      match cache'.rv with | some v => if vt'.rv = v then "" else s!"terminal reverse {vt'.rv}, pen reverse {v}" | none => "",
      gridCheck vt' st.vt.grid,
      cursorCheck vt' st.vt.row st.vt.col st.vt.pendingWrap]
    ({ st1 with vt := vt'.compact }, mobs, verdict)

/-- `resize L C`: the emulator's window changes first (`VTState.resize`), then the library is told; the driver has
    nothing to send, the screen must stay as the resize left it, and `tickit_term_get_size` must report the new size
    (which every later `scrollrect` decision has to be made with). -/
def doResize (st : St) (l c : Int) (impl : String) : St × String × String :=
  let st1 := { st with drv := { st.drv with lines := l, cols := c } }
  let mobs := s!"- size={l}x{c}"
  let vtr := st.vt.resize l c (freshGrid c)
  match toks impl with
  | [h, sz] =>
    match hexBytes? h with
    | none => ({ st1 with vt := vtr.compact }, mobs, "")
    | some ibytes =>
      let vt' := runOn { st with vt := vtr } ibytes
      let unk := unknownSeqs ibytes vtr
      let verdict := if l < 1 ∨ c < 1 then "" else firstNonEmpty [
        if sz = s!"size={l}x{c}" then "" else s!"terminal size reported as {sz} after a resize to {l}x{c}",
        commonCheck vtr vt',
        if unk > 0 then s!"{unk} control sequence(s) unknown to the reference terminal" else "",
        gridCheck vt' vtr.grid,
        cursorCheck vt' vtr.row vtr.col vtr.pendingWrap]
      ({ st1 with vt := vt'.compact }, mobs, verdict)
  | _ => ({ st1 with vt := vtr.compact }, mobs, "")

def step (st : St) (ts : List String) (impl : String) : St × String × String :=
  match ts with
  | "new" :: l :: c :: slrm :: colon :: rgb :: more =>
    match ints? [l, c, slrm, colon, rgb], (if more = [] then some [1, 2] else ints? more) with
    | some [l, c, slrm, colon, rgb], some [vis, blink] =>
      if slrm < 0 ∨ slrm > 4 ∨ vis < 0 ∨ vis > 4 ∨ blink < 0 ∨ blink > 4 then (st, "bad-op", "") else
      let caps : Caps := ⟨slrmCap Gen.XTermFacts.slrmAccept slrm.toNat, colon ≠ 0, rgb ≠ 0⟩
      let drv : Drv := ⟨caps, l, c, PenCache.empty⟩
      let mobs := s!"{bytesHex startBytes} caps={b01 caps.slrm} {b01 caps.colon} {b01 caps.rgb8} size={l} {c} modes={b01 (cursorvisOfReply vis.toNat)} {b01 (cursorblinkOfReply blink.toNat)}"
      let vt0 := VTState.init l c (initialGrid c)
      -- the start-up bytes as the implementation sent them
      let itoks := toks impl
      let ibytes := match itoks with | h :: _ => (hexBytes? h).getD [] | [] => []
      let vt1 := run ibytes vt0
      let unk := unknownSeqs ibytes vt0
      -- the terminal's DECLRMM is what its DECRPM reply says it is (after the start-up `CSI ? 69 h`)
      let vt2 := { vt1 with declrmm := declrmmOfReply slrm.toNat }
      -- the capability as the implementation reports it
      let implSlrm : Bool := match itoks with | _ :: t :: _ => t == "caps=1" | _ => false
      let verdict := firstNonEmpty [
        if vt1.ps ≠ .ground then "start-up output ends inside an escape sequence" else "",
        if unk > 0 then s!"{unk} start-up control sequence(s) unknown to the reference terminal" else "",
        if ¬ Spec.marginsReset vt1 then "margins set by start-up" else "",
        if vt1.bg ≠ -1 ∨ vt1.rv then "start-up leaves rendering attributes set" else "",
        if slrm = 1 ∧ ¬ vt1.declrmm then "DECLRMM not enabled by start-up" else "",
        if implSlrm ∧ vt2.declrmm = false then s!"DECSLRM capability claimed but DECLRMM is reset (DECRPM reply ?69;{slrm}$y)" else ""]
      ({ drv := drv, vt := vt2.compact, live := true, locked := modeLockedOfReply slrm.toNat }, mobs, verdict)
    | _, _ => (st, "bad-op", "")
  | op :: rest =>
    if ¬ st.live then (st, "bad-op", "") else
    match op, rest with
    | "goto", [l, c] =>
      match ints? [l, c] with
      | some [l, c] => doRequest st (.goto l c) impl
      | _ => (st, "bad-op", "")
    | "move", [d, r] =>
      match ints? [d, r] with
      | some [d, r] => doRequest st (.move d r) impl
      | _ => (st, "bad-op", "")
    | "print", [h] =>
      match hexBytes? h with
      | some bs => doRequest st (.print bs bs.length) impl
      | none => (st, "bad-op", "")
    | "printn", [h, n] =>
      match hexBytes? h, n.toNat? with
      | some bs, some n => if n ≤ bs.length then doRequest st (.print bs n) impl else (st, "bad-op", "")
      | _, _ => (st, "bad-op", "")
    | "erasech", [n, me] =>
      match ints? [n, me] with
      | some [n, me] => doRequest st (.erasech n (MoveEnd.ofInt me)) impl
      | _ => (st, "bad-op", "")
    | "clear", [] => doRequest st .clear impl
    | "resize", [l, c] =>
      match ints? [l, c] with
      | some [l, c] => doResize st l c impl
      | _ => (st, "bad-op", "")
    | "scroll", [t, l, n, c, d, r] =>
      match ints? [t, l, n, c, d, r] with
      | some [t, l, n, c, d, r] => doRequest st (.scroll ⟨t, l, n, c⟩ d r) impl
      | _ => (st, "bad-op", "")
    | "setpen", ps =>
      match parsePen ps with
      | some p => doPen st true p impl
      | none => (st, "bad-op", "")
    | "chpen", ps =>
      match parsePen ps with
      | some p => doPen st false p impl
      | none => (st, "bad-op", "")
    | _, _ => (st, "bad-op", "")
  | [] => (st, "bad-op", "")

def engine : Engine := { σ := St, init := default, step := step }

end Tickit.Driver.XTermEngine
