import Tickit.Model.XTermDrv
import Tickit.Model.XTermOut
import Tickit.Model.XTermPenRgb
import Tickit.Gen.XTermFacts
import Tickit.Gen.TermBuf
import Tickit.Driver.Common
/-
  Engine `xterm` (C09).
    new L C slrm colon rgb [vis blink] (slrm / vis / blink = DECRPM reply values 0..4 for modes 69 / 25 / 12)
    resize L C | goto l c | move d r | print <hex> | printn <hex> n | erasech n moveend | clear
    scroll top left lines cols downward rightward | setpen [bg=N] [bgrgb=RRGGBB] [rv=B] | chpen [bg=N] [bgrgb=RRGGBB] [rv=B]
    printf <hex> [d] | outbuf N | flush | pause | resume | stop | start
  Model observation: `<hex bytes> ret=<r>` (exactly what harness/xterm.c prints); the bytes are those the OUTPUT
  FUNCTION receives during the operation (Model/XTermOut.lean: the driver's bytes behind term.c's output buffer).
  SPEC verdict: the VT reference interpreter (Model/VT.lean) is run on the *implementation's* bytes from the screen
  state reached so far (which also follows the implementation's bytes), and the resulting screen is compared with
  the request's specification (`XTermDrv.Spec`): cell by cell over the whole screen, cursor, pending wrap, margins,
  SGR state, tokenizer back in the ground state, no control sequence unknown to the reference terminal.
  Requests outside the in-range contract of DESIGN.md Appendix C are compared byte for byte but not judged.

  With an output buffer (`outbuf N`, N > 0) the terminal sees a request's bytes only when the buffer fills up or is
  flushed.  The oracle then keeps the screen the requests issued so far ASK FOR (`want`, each request's specification
  applied to it: a direct grid model of the requests, independent of the driver model) next to the screen the
  reference terminal has reached on the bytes actually received, and compares the two at every point where the
  library's interface promises that everything has been delivered (`flush`, `pause`, `stop`, and every operation of
  an unbuffered terminal).  Whether a buffer is configured is known from the operations alone.
-/
namespace Tickit.Driver.XTermEngine
open Tickit Tickit.Driver Tickit.XTermDrv Tickit.VT

structure St where
  drv : Drv
  /-- the RGB8 value the cached pen's background carries next to its index (`tt->pen`: `valid.bg_rgb8`, `bg_rgb8`) -/
  bgRgb : Option RGB8 := none
  /-- the reference terminal's screen after every byte the output function has received so far -/
  vt : VTState
  live : Bool
  /-- the reference terminal does not change DECLRMM on `CSI ? 69 h / l` (mode not recognised, or permanent) -/
  locked : Bool
  /-- model of term.c's output layer (for the model observation only) -/
  out : XTermOut.OutState
  /-- size of the output buffer the operations have configured (0 = none) -/
  bufN : Nat
  /-- the interface promises that everything requested so far has reached the terminal -/
  synced : Bool
  /-- the screen the requests issued so far ask for (= `vt` while `synced`) -/
  want : VTState
  /-- the requested cursor position is determined (not after a scroll / `erasech … MAYBE`, whose specifications
      leave the cursor free) -/
  curKnown : Bool
  /-- no request since the last synchronisation point was outside the in-range contract -/
  valid : Bool
  /-- control sequences unknown to the reference terminal since the last synchronisation point -/
  unk : Nat
  /-- between `pause` / `stop` and `resume` / `start`: the cached pen need not describe the terminal -/
  paused : Bool
  /-- the DECSLRM capability as the implementation last reported it -/
  claim : Bool
  /-- requested output was thrown away by a change of the output buffer while it was pending (outside the contract):
      the terminal may be left inside a control sequence or with margins set, nothing can be demanded of the rest of
      the history -/
  dead : Bool
  /-- the implementation died in an earlier operation of this history -/
  crashed : Bool := false

instance : Inhabited St :=
  ⟨{ drv := default, vt := VTState.init 0 0 (fun _ _ => default), live := false, locked := false,
     out := XTermOut.fresh 0, bufN := 0, synced := true, want := VTState.init 0 0 (fun _ _ => default),
     curKnown := true, valid := true, unk := 0, paused := false, claim := false, dead := false }⟩

/-- The version of the code the working tree contains (flags regenerated from the source on every run). -/
def fx : Fixes :=
  ⟨Gen.XTermFacts.scrollGuard, Gen.XTermFacts.eraseKeepsCount, Gen.XTermFacts.printnGuard,
   Gen.TermBuf.term_resume_resends_pen, Gen.XTermFacts.scrollCellGuard⟩

/-- The drawing requests of the working tree: `XTermDrv.request` for the version of the code the tree contains (the
    repair `fixes/C09_scroll_one_cell.patch` - the refusal of the one-line ICH/DCH path whose right margin would be
    column 1, `if(right < term_cols && right < 2) return false;` - is part of the proved model: `fx.scrollCellGuard`). -/
def requestT (d : Drv) (req : Request) : Bool × List UInt8 := request fx d req

/-- Interpret the implementation's bytes on the reference terminal of this history: as `VT.run`, except that a
    terminal whose mode 69 is not recognised or permanent keeps its DECLRMM state (and, if that is "set", its
    left/right margins) whatever `CSI ? 69 h / l` asks. -/
def runOn (st : St) (bytes : List UInt8) : VTState :=
  if st.locked then
    bytes.foldl (fun vt b =>
      let vt' := VT.step vt b
      if vt'.declrmm = vt.declrmm then vt' else { vt' with declrmm := vt.declrmm, left := vt.left, right := vt.right }) st.vt
  else run bytes st.vt

/-- Pre-existing screen content: a distinct glyph in every cell, so that any misplaced cell is visible. -/
def initialGrid (cols : Int) : Int → Int → Cell := fun l c => ⟨0x100000 + (l * cols + c).toNat, -1, false⟩

def showCell (x : Cell) : String := s!"<{x.glyph} bg={x.bg} rv={x.rv}>"

/-- First in-screen cell where `got` differs from `want`. -/
def gridDiff (lines cols : Int) (got want : Int → Int → Cell) : Option String :=
  let nl := lines.toNat
  let nc := cols.toNat
  let rec goRow (l : Nat) (fuel : Nat) : Option String :=
    match fuel with
    | 0 => none
    | fuel + 1 =>
      if l ≥ nl then none else
      let rec goCol (c : Nat) (fuelc : Nat) : Option String :=
        match fuelc with
        | 0 => none
        | fuelc + 1 =>
          if c ≥ nc then none else
          let g := got l c
          let w := want l c
          if g ≠ w then some s!"cell ({l},{c}) is {showCell g}, expected {showCell w}"
          else goCol (c + 1) fuelc
      match goCol 0 (nc + 1) with
      | some e => some e
      | none => goRow (l + 1) fuel
  goRow 0 (nl + 1)

/-- Number of control sequences in `bytes` (interpreted from state `vt`) that the reference terminal does not know. -/
def unknownSeqs (bytes : List UInt8) (vt : VTState) : Nat :=
  (bytes.foldl (fun (acc : VTState × Nat) b =>
    let vt := acc.1
    let bad := match vt.ps with
      | .csi a => if 0x40 ≤ b ∧ b ≤ 0x7e ∧ ¬ isDigit b ∧ !(csiKnown a.priv a.inter b) then 1 else 0
      | .csiIgnore => if 0x40 ≤ b ∧ b ≤ 0x7e then 1 else 0
      | .esc => if b = 0x5b ∨ b = 0x5d ∨ b = 0x50 ∨ b = 0x3d ∨ b = 0x3e ∨ b = 0x37 ∨ b = 0x38 ∨ b = 0x5c then 0 else 1
      | _ => 0
    (step vt b, acc.2 + bad)) (vt, 0)).2

/-- UTF-8 decoding of a requested text (independent of the VT's own decoder); `none` if malformed. -/
def decodeUtf8 : List UInt8 → Option (List Nat)
  | [] => some []
  | b :: rest =>
    if b < 0x80 then (decodeUtf8 rest).map (b.toNat :: ·)
    else if 0xc2 ≤ b ∧ b ≤ 0xdf then
      match rest with
      | c1 :: r => if 0x80 ≤ c1 ∧ c1 ≤ 0xbf then (decodeUtf8 r).map (((b.toNat - 0xc0) * 64 + (c1.toNat - 0x80)) :: ·) else none
      | _ => none
    else if 0xe0 ≤ b ∧ b ≤ 0xef then
      match rest with
      | c1 :: c2 :: r =>
        if 0x80 ≤ c1 ∧ c1 ≤ 0xbf ∧ 0x80 ≤ c2 ∧ c2 ≤ 0xbf then
          (decodeUtf8 r).map ((((b.toNat - 0xe0) * 64 + (c1.toNat - 0x80)) * 64 + (c2.toNat - 0x80)) :: ·) else none
      | _ => none
    else if 0xf0 ≤ b ∧ b ≤ 0xf4 then
      match rest with
      | c1 :: c2 :: c3 :: r =>
        if 0x80 ≤ c1 ∧ c1 ≤ 0xbf ∧ 0x80 ≤ c2 ∧ c2 ≤ 0xbf ∧ 0x80 ≤ c3 ∧ c3 ≤ 0xbf then
          (decodeUtf8 r).map (((((b.toNat - 0xf0) * 64 + (c1.toNat - 0x80)) * 64 + (c2.toNat - 0x80)) * 64 + (c3.toNat - 0x80)) :: ·)
        else none
      | _ => none
    else none

/-- Cells a text occupies (shared with the theorem `print_utf8_effect`). -/
def textCells (cps : List Nat) : List Nat := Spec.textCells cps

def printable (cp : Nat) : Bool := cp ≥ 0x20 ∧ cp ≠ 0x7f ∧ ¬ (0x80 ≤ cp ∧ cp ≤ 0x9f)

def cursorStr (vt : VTState) : String := s!"({vt.row},{vt.col}{if vt.pendingWrap then ",wrap" else ""})"

/-- Conditions every drawing request must leave behind. -/
def commonCheck (vt vt' : VTState) : String :=
  if vt'.ps ≠ .ground then "output ends inside an escape sequence"
  else if ¬ Spec.marginsReset vt' then s!"margins left set: rows {vt'.top}..{vt'.bottom} cols {vt'.left}..{vt'.right}"
  else if vt'.bg ≠ vt.bg ∨ vt'.rv ≠ vt.rv then "rendering attributes changed by a drawing request"
  else if vt'.declrmm ≠ vt.declrmm then "DECLRMM changed"
  else if ¬ (0 ≤ vt'.row ∧ vt'.row < vt'.lines ∧ 0 ≤ vt'.col ∧ vt'.col < vt'.cols) then "cursor outside the screen"
  else ""

def firstNonEmpty (l : List String) : String := (l.find? (· ≠ "")).getD ""

def gridCheck (vt' : VTState) (want : Int → Int → Cell) : String :=
  (gridDiff vt'.lines vt'.cols vt'.grid want).getD ""

def cursorCheck (vt' : VTState) (row col : Int) (pw : Bool) : String :=
  if vt'.row = row ∧ vt'.col = col ∧ vt'.pendingWrap = pw then ""
  else s!"cursor at {cursorStr vt'}, requested ({row},{col}{if pw then ",wrap" else ""})"

/-- The specification verdict for one request; `vt'` is the screen after the implementation's bytes.
    Second component: was the request inside the in-range contract? -/
def specCheck (req : Request) (vt vt' : VTState) (ret : Int) (bytes : List UInt8) : String × Bool :=
  let inside := ¬ vt.pendingWrap
  match req with
  | .goto l c =>
    if (l = -1 ∨ (0 ≤ l ∧ l < vt.lines)) ∧ (c = -1 ∨ (0 ≤ c ∧ c < vt.cols)) then
      let w := Spec.goto l c vt
      (firstNonEmpty [if ret = 1 then "" else "goto reports failure", commonCheck vt vt',
         cursorCheck vt' w.row w.col w.pendingWrap, gridCheck vt' vt.grid], true)
    else ("", false)
  | .move d r =>
    if inside ∧ 0 ≤ vt.row + d ∧ vt.row + d < vt.lines ∧ 0 ≤ vt.col + r ∧ vt.col + r < vt.cols then
      let w := Spec.move d r vt
      (firstNonEmpty [commonCheck vt vt', cursorCheck vt' w.row w.col w.pendingWrap, gridCheck vt' vt.grid], true)
    else ("", false)
  | .print s n =>
    let want := s.take n
    match decodeUtf8 want with
    | none => ("", false)
    | some cps =>
      let cells := textCells cps
      let w : Int := cells.length
      if inside ∧ cps.all printable ∧ vt.col + w ≤ vt.cols then
        let grid : Int → Int → Cell := fun l c =>
          if l = vt.row ∧ vt.col ≤ c ∧ c < vt.col + w then ⟨cells.getD (c - vt.col).toNat 32, vt.bg, vt.rv⟩ else vt.grid l c
        let cur := if w = 0 then cursorCheck vt' vt.row vt.col vt.pendingWrap
                   else if vt.col + w < vt.cols then cursorCheck vt' vt.row (vt.col + w) false
                   else cursorCheck vt' vt.row (vt.cols - 1) true
        (firstNonEmpty [commonCheck vt vt', gridCheck vt' grid, cur], true)
      else ("", false)
  | .erasech n me =>
    if inside ∧ vt.col + n ≤ vt.cols then
      if n < 1 then
        (firstNonEmpty [commonCheck vt vt', gridCheck vt' vt.grid, cursorCheck vt' vt.row vt.col false], true)
      else
        let cur := match me with
          | .no =>
            let base := cursorCheck vt' vt.row vt.col false
            if base = "" then "" else
            -- diagnostic context (lets a known-finding signature be specific)
            let delta := vt'.col - vt.col
            let dstr := if delta > 0 ∧ delta % 64 = 0 then s!"+{delta}=64x{delta / 64}" else if delta ≥ 0 then s!"+{delta}" else s!"{delta}"
            s!"{base} [erase {if vt.col + n = vt.cols then "to-last-col" else "mid-row"} row-delta={vt'.row - vt.row} col-delta={dstr}]"
          | .yes =>
            if vt.col + n < vt.cols then cursorCheck vt' vt.row (vt.col + n) false
            else if vt'.row = vt.row ∧ vt'.col = vt.cols - 1 then ""     -- requested column `cols` is not on the screen
            else s!"cursor at {cursorStr vt'}, requested the end of row {vt.row}"
          | .maybe => ""
        (firstNonEmpty [commonCheck vt vt', gridCheck vt' (Spec.eraseGrid n vt), cur], true)
    else ("", false)
  | .clear =>
    (firstNonEmpty [commonCheck vt vt', gridCheck vt' (Spec.clearGrid vt), cursorCheck vt' vt.row vt.col vt.pendingWrap], true)
  | .scroll rect d r =>
    if ret = 0 then
      (if bytes = [] then "" else "scroll reports failure but emitted bytes", true)
    else if rect.lines ≥ 1 ∧ rect.cols ≥ 1 ∧ 0 ≤ rect.top ∧ rect.bottom ≤ vt.lines ∧ 0 ≤ rect.left ∧ rect.right ≤ vt.cols then
      -- any offsets: a cell whose source falls outside the rectangle is vacated (an offset as large as the rectangle
      -- vacates all of it; in particular a one-line rectangle scrolled vertically must end up blank, or be refused)
      (firstNonEmpty [commonCheck vt vt', gridCheck vt' (Spec.scrollGrid rect d r vt)], true)
    else ("", false)

def hexNat? (s : String) : Option Nat :=
  s.toList.foldl (fun acc ch => do
    let a ← acc
    let d ← (if '0' ≤ ch ∧ ch ≤ '9' then some (ch.toNat - 48) else if 'a' ≤ ch ∧ ch ≤ 'f' then some (ch.toNat - 87)
             else if 'A' ≤ ch ∧ ch ≤ 'F' then some (ch.toNat - 55) else none)
    some (a * 16 + d)) (some 0)

def parsePen : List String → Option PenReqX
  | [] => some ⟨⟨none, none⟩, none⟩
  | t :: rest => do
    let p ← parsePen rest
    if t.startsWith "bg=" then
      let v ← (t.drop 3).toString.toInt?
      some { p with base := { p.base with bg := some v } }
    else if t.startsWith "bgrgb=" then
      let h := (t.drop 6).toString
      if h.length ≠ 6 then none else
      let v ← hexNat? h
      some { p with bgRgb := some ⟨v / 65536, v / 256 % 256, v % 256⟩ }
    else if t.startsWith "rv=" then
      let v ← (t.drop 3).toString.toInt?
      some { p with base := { p.base with rv := some (v ≠ 0) } }
    else none

/-- The cached pen with its RGB8 background. -/
def St.cacheX (st : St) : PenCacheX := ⟨st.drv.pen, st.bgRgb⟩

/-- The cached pen as the specification reads it (background = the colour asked for). -/
def St.specPen (st : St) : PenCache := st.cacheX.spec st.drv.caps

/-- Implementation observation `<hex> ret=<n>` → bytes and return value. -/
def parseObs (impl : String) : Option (List UInt8 × Int) :=
  match toks impl with
  | [h, r] => do
    let bs ← hexBytes? h
    if r.startsWith "ret=" then
      let v ← (r.drop 4).toString.toInt?
      some (bs, v)
    else none
  | _ => none

/-- Implementation observation `<hex> [closed=<k>] slrm=<c>` → bytes and the capability as reported. -/
def parseObsSlrm (impl : String) : Option (List UInt8 × Bool) :=
  match toks impl with
  | h :: rest => do
    let bs ← hexBytes? h
    let c ← rest.find? (·.startsWith "slrm=")
    some (bs, c == "slrm=1")
  | _ => none

def b01 (b : Bool) : String := if b then "1" else "0"

/-! ### The requests' specifications as a function on screens (the direct grid model of the requests) -/

/-- The screen `req` asks for when the screen asked for so far is `w`; `known` = the requested cursor position is
    determined.  `none`: the request is outside the in-range contract (nothing is demanded of it).  `ret` is the
    value the implementation returned (a scroll may refuse; it must then leave the screen alone). -/
def specApply (req : Request) (w : VTState) (known : Bool) (ret : Int) : Option (VTState × Bool) :=
  match req with
  | .goto l c =>
    if (l = -1 ∨ (0 ≤ l ∧ l < w.lines)) ∧ (c = -1 ∨ (0 ≤ c ∧ c < w.cols)) then
      some (Spec.goto l c w, known || (decide (l ≠ -1) && decide (c ≠ -1)))
    else none
  | .move d r =>
    if known ∧ ¬ w.pendingWrap ∧ 0 ≤ w.row + d ∧ w.row + d < w.lines ∧ 0 ≤ w.col + r ∧ w.col + r < w.cols then
      some (Spec.move d r w, true)
    else none
  | .print s n =>
    match decodeUtf8 (s.take n) with
    | none => none
    | some cps =>
      let cells := textCells cps
      if known ∧ ¬ w.pendingWrap ∧ cps.all printable ∧ w.col + (cells.length : Int) ≤ w.cols then
        if cells.length = 0 then some (w, true) else some (Spec.placeCells cells w, true)
      else none
  | .erasech n me =>
    if known ∧ ¬ w.pendingWrap ∧ w.col + n ≤ w.cols then
      if n < 1 then some (w, true)
      else
        let w1 := { w with grid := Spec.eraseGrid n w }
        match me with
        | .no => some (w1, true)
        | .yes => if w.col + n < w.cols then some ({ w1 with col := w.col + n }, true) else some (w1, false)
        | .maybe => some (w1, false)
    else none
  | .clear => some ({ w with grid := Spec.clearGrid w }, known)
  | .scroll rect d r =>
    if ret = 0 then some (w, known)
    else if rect.lines ≥ 1 ∧ rect.cols ≥ 1 ∧ 0 ≤ rect.top ∧ rect.bottom ≤ w.lines ∧ 0 ≤ rect.left ∧ rect.right ≤ w.cols then
      some ({ w with grid := Spec.scrollGrid rect d r w }, false)
    else none

/-- What the pen cache demands of the terminal's rendering attributes (`Spec.PenInv`), as a screen. -/
def penApply (cache : PenCache) (w : VTState) : VTState :=
  { w with bg := cache.bg.getD w.bg, rv := match cache.rv with | some v => v | none => w.rv }

/-- Comparison at a synchronisation point: `vt'` is the reference terminal's screen on the bytes received, `want`
    the screen asked for.  `attrs` / `modes`: also compare the rendering attributes / DECLRMM (not across a pause,
    which may reset them). -/
def syncCheck (st : St) (vt' : VTState) (want : VTState) (known : Bool) (unk : Nat) (attrs modes : Bool) : String :=
  firstNonEmpty [
    if vt'.ps ≠ .ground then "output ends inside an escape sequence" else "",
    if ¬ Spec.marginsReset vt' then s!"margins left set: rows {vt'.top}..{vt'.bottom} cols {vt'.left}..{vt'.right}" else "",
    if attrs ∧ (vt'.bg ≠ want.bg ∨ vt'.rv ≠ want.rv) then
      s!"rendering attributes bg={vt'.bg} rv={vt'.rv}, requested bg={want.bg} rv={want.rv}" else "",
    if modes ∧ vt'.declrmm ≠ want.declrmm then "DECLRMM changed" else "",
    if modes ∧ st.claim ∧ ¬ st.paused ∧ vt'.declrmm = false then
      "DECSLRM capability claimed but DECLRMM is reset (CSI Pl;Pr s is save-cursor there: a partial-width scroll would move cells outside its rectangle)" else "",
    if ¬ (0 ≤ vt'.row ∧ vt'.row < vt'.lines ∧ 0 ≤ vt'.col ∧ vt'.col < vt'.cols) then "cursor outside the screen" else "",
    if unk > 0 then s!"{unk} control sequence(s) unknown to the reference terminal" else "",
    gridCheck vt' want.grid,
    if known then cursorCheck vt' want.row want.col want.pendingWrap else ""]

/-- State after a synchronisation point: the screen asked for is the screen reached. -/
def resync (st : St) (vt' : VTState) : St :=
  let v := vt'.compact
  { st with vt := v, want := v, curKnown := true, valid := true, unk := 0, synced := true }

/-- Run `f` on the model of the output layer and return what it delivers to the output function meanwhile. -/
def emit (o : XTermOut.OutState) (f : XTermOut.OutState → XTermOut.Outcome) : XTermOut.OutState × Option (List UInt8) :=
  match f { o with out := [] } with
  | .ok o' => (o', some (XTermOut.delivered o'))
  | _ => (o, none)

def showDelivered (d : Option (List UInt8)) (rest : String) : String :=
  match d with
  | some bs => s!"{bytesHex bs} {rest}"
  | none => "model-ub"

/-- Common tail of every operation that is not judged on the spot: `want'` is the screen now asked for.  On an
    unbuffered terminal the operation's bytes must have arrived, so this is a synchronisation point. -/
def deferred (st : St) (vt' : VTState) (unk : Nat) (want' : VTState) (known' valid' : Bool) : St × String :=
  if st.bufN = 0 then
    let verdict := if valid' then syncCheck st vt' want' known' unk true true else ""
    (resync st vt', verdict)
  else
    ({ st with vt := vt'.compact, want := want'.compact, curKnown := known', valid := valid', unk := unk, synced := false }, "")

/-- A drawing request; `viaPrintf = some s`: it is `tickit_term_printf` with formatted result `s` (the request is
    then `print s`). -/
def doRequest (st : St) (req : Request) (viaPrintf : Option (List UInt8)) (impl : String) : St × String × String :=
  let (ret, bytes) := requestT st.drv req
  let (out', del) := emit st.out fun o => match viaPrintf with
    | some s => XTermOut.printf o s
    | none => XTermOut.send o bytes
  let mobs := showDelivered del s!"ret={b01 ret}"
  let st := { st with out := out' }
  match parseObs impl with
  | none =>
    -- the call did not come back with an observation (the process died in it): for a request inside the contract
    -- that is a failure of the property as well — the request did not have its effect
    let inContract : Bool :=
      if st.synced ∧ st.bufN = 0 then (specCheck req st.vt st.vt 1 []).2
      else st.valid && (specApply req st.want st.curKnown 1).isSome
    ({ st with crashed := true }, mobs,
      if inContract then s!"the request did not complete (implementation: {impl})" else "")
  | some (ibytes, iret) =>
    let vt' := runOn st ibytes
    let unk := st.unk + unknownSeqs ibytes st.vt
    if st.synced ∧ st.bufN = 0 then
      -- unbuffered and up to date: judged on the spot against the screen actually reached
      let (verdict, inContract) := specCheck req st.vt vt' iret ibytes
      let verdict := if verdict = "" ∧ inContract ∧ unk > 0 then s!"{unk} control sequence(s) unknown to the reference terminal" else verdict
      (resync st vt', mobs, verdict)
    else
      match (if st.valid then specApply req st.want st.curKnown iret else none) with
      | some (w, k) => let (st', v) := deferred st vt' unk w k true; (st', mobs, v)
      | none => let (st', v) := deferred st vt' unk st.want st.curKnown false; (st', mobs, v)

def doPen (st : St) (isSet : Bool) (pen : PenReqX) (impl : String) : St × String × String :=
  let (cacheX', bytes) := if isSet then setpenX st.drv.caps st.cacheX pen else chpenX st.drv.caps st.cacheX pen
  -- the specification's reading of the new cache: the background is the colour asked for (RGB8 if the terminal can)
  let cache' := cacheX'.spec st.drv.caps
  let (out', del) := emit st.out fun o => XTermOut.send o bytes
  let mobs := showDelivered del "ret=1"
  let st1 := { st with drv := { st.drv with pen := cacheX'.base }, bgRgb := cacheX'.bgRgb, out := out' }
  match parseObs impl with
  | none => (st1, mobs, "")
  | some (ibytes, _) =>
    let vt' := runOn st ibytes
    let unk := st.unk + unknownSeqs ibytes st.vt
    if st.synced ∧ st.bufN = 0 then
      let verdict := firstNonEmpty [
        if vt'.ps ≠ .ground then "output ends inside an escape sequence" else "",
        if unk > 0 then s!"{unk} control sequence(s) unknown to the reference terminal" else "",
        if st.paused then "" else
          match cache'.bg with | some v => if vt'.bg = v then "" else s!"terminal background {vt'.bg}, pen background {v}" | none => "",
        if st.paused then "" else
          match cache'.rv with | some v => if vt'.rv = v then "" else s!"terminal reverse {vt'.rv}, pen reverse {v}" | none => "",
        gridCheck vt' st.vt.grid,
        cursorCheck vt' st.vt.row st.vt.col st.vt.pendingWrap]
      (resync st1 vt', mobs, verdict)
    else
      -- a pen change while the terminal is paused is not judged (the cache need not describe the terminal then)
      let (st', v) := deferred st1 vt' unk (penApply cache' st.want) st.curKnown (st.valid && !st.paused)
      (st', mobs, v)

/-- `resize L C`: the emulator's window changes first (`VTState.resize`), then the library is told; the driver has
    nothing to send, the screen must stay as the resize left it, and `tickit_term_get_size` must report the new size
    (which every later `scrollrect` decision has to be made with).  A resize while requested output may still be
    buffered is outside the contract (the bytes would be interpreted on a screen they were not computed for). -/
def doResize (st : St) (l c : Int) (impl : String) : St × String × String :=
  let st1 := { st with drv := { st.drv with lines := l, cols := c } }
  let mobs := s!"- size={l}x{c}"
  let vtr := st.vt.resize l c (freshGrid c)
  match toks impl with
  | [h, sz] =>
    match hexBytes? h with
    | none => (resync st1 vtr, mobs, "")
    | some ibytes =>
      let vt' := runOn { st with vt := vtr } ibytes
      let unk := unknownSeqs ibytes vtr
      if st.synced then
        let verdict := if l < 1 ∨ c < 1 then "" else firstNonEmpty [
          if sz = s!"size={l}x{c}" then "" else s!"terminal size reported as {sz} after a resize to {l}x{c}",
          commonCheck vtr vt',
          if unk > 0 then s!"{unk} control sequence(s) unknown to the reference terminal" else "",
          gridCheck vt' vtr.grid,
          cursorCheck vt' vtr.row vtr.col vtr.pendingWrap]
        (resync st1 vt', mobs, verdict)
      else
        ({ st1 with vt := vt'.compact, want := (st.want.resize l c (freshGrid c)).compact, valid := false, unk := st.unk + unk }, mobs, "")
  | _ => (resync st1 vtr, mobs, "")

/-- `flush` (`tickit_term_flush`): everything requested so far must have reached the terminal. -/
def doFlush (st : St) (impl : String) : St × String × String :=
  let (out', del) := emit st.out fun o => .ok (TermBuf.flush o)
  let mobs := showDelivered del "ret=1"
  let st1 := { st with out := out' }
  match parseObs impl with
  | none => (st1, mobs, "")
  | some (ibytes, _) =>
    let vt' := runOn st ibytes
    let unk := st.unk + unknownSeqs ibytes st.vt
    let verdict := if st.valid then syncCheck st vt' st.want st.curKnown unk true true else ""
    (resync st1 vt', mobs, verdict)

/-- `outbuf N` (`tickit_term_set_output_buffer`): changing the buffer while requested output may still be pending
    is outside the contract (the interface's own proviso, as in C11: the pending bytes are dropped). -/
def doOutbuf (st : St) (n : Nat) (impl : String) : St × String × String :=
  let (out', del) := emit st.out fun o => .ok (TermBuf.setOutputBuffer o n)
  let mobs := showDelivered del "ret=1"
  let st1 := { st with out := out', bufN := n }
  match parseObs impl with
  | none => (st1, mobs, "")
  | some (ibytes, _) =>
    let vt' := runOn st ibytes
    let unk := st.unk + unknownSeqs ibytes st.vt
    if st.synced then
      let verdict := syncCheck st vt' st.want st.curKnown unk true true
      (resync st1 vt', mobs, verdict)
    else
      ({ st1 with vt := vt'.compact, unk := unk, valid := false, dead := true }, mobs, "")

/-- `pause` (`tickit_term_pause`) / `stop` (`tickit_term_teardown`): a synchronisation point (both end with a
    flush).  Screen content, cursor and margins are as the requests so far ask; the rendering attributes and the
    modes may have been reset (they are the business of `resume` / `start`). -/
def doPause (st : St) (stop : Bool) (impl : String) : St × String × String :=
  let (out', del) := emit st.out fun o => if stop then TermBuf.termTeardown o else XTermOut.pause o
  let mobs := showDelivered del "ret=1"
  let st1 := { st with out := out' }
  match parseObs impl with
  | none => ({ st1 with paused := true }, mobs, "")
  | some (ibytes, _) =>
    let vt' := runOn st ibytes
    let unk := st.unk + unknownSeqs ibytes st.vt
    let verdict := if st.valid then syncCheck st vt' st.want st.curKnown unk false false else ""
    ({ resync st1 vt' with paused := true }, mobs, verdict)

/-- `resume` (`tickit_term_resume`): afterwards the terminal must again be what the driver takes it for — rendering
    attributes as the cached pen says (`Spec.PenInv`), and DECLRMM set if the DECSLRM capability is (still) claimed
    (`Spec.CapsOK`); screen content and cursor untouched. -/
def doResume (st : St) (impl : String) : St × String × String :=
  let (out', del) := emit st.out fun o => (TermBuf.termResume o).bind fun o => XTermOut.send o (resumeBytesX fx st.drv.caps st.cacheX)
  let mobs := showDelivered del s!"slrm={b01 st.drv.caps.slrm}"
  let st1 := { st with out := out' }
  match parseObsSlrm impl with
  | none => ({ st1 with paused := false }, mobs, "")
  | some (ibytes, islrm) =>
    let vt' := runOn st ibytes
    let unk := st.unk + unknownSeqs ibytes st.vt
    let st2 := { st1 with paused := false, claim := islrm }
    -- what resume asks for: the cached pen's attributes; DECLRMM whatever it is now, subject to the claim
    let w := penApply st.specPen { st.want with rv := false }
    if st.bufN = 0 then
      let verdict := if st.valid then syncCheck st2 vt' { w with declrmm := vt'.declrmm } st.curKnown unk true true else ""
      (resync st2 vt', mobs, verdict)
    else
      ({ st2 with vt := vt'.compact, want := { w with declrmm := vt'.declrmm }.compact, unk := unk, synced := false }, mobs, "")

/-- `start` (`tickit_term_set_output_func` on a stopped terminal): the driver's start-up string again.  Like `new`,
    not judged cell by cell (start-up clears the cursor's line); the screen asked for is the screen reached. -/
def doStart (st : St) (impl : String) : St × String × String :=
  let (out', del) := emit st.out fun o => TermBuf.setOutputFunc o
  let mobs := showDelivered del s!"closed={XTermOut.closes out'} slrm={b01 st.drv.caps.slrm}"
  let st1 := { st with out := out' }
  match parseObsSlrm impl with
  | none => ({ st1 with paused := false }, mobs, "")
  | some (ibytes, islrm) =>
    let vt' := runOn st ibytes
    let unk := unknownSeqs ibytes st.vt
    let verdict := firstNonEmpty [
      if vt'.ps ≠ .ground then "start-up output ends inside an escape sequence" else "",
      if unk > 0 then s!"{unk} start-up control sequence(s) unknown to the reference terminal" else "",
      if ¬ Spec.marginsReset vt' then "margins set by start-up" else "",
      if islrm ∧ vt'.declrmm = false then "DECSLRM capability claimed but DECLRMM is reset" else ""]
    ({ resync st1 vt' with paused := false, claim := islrm }, mobs, verdict)

def step1 (st : St) (ts : List String) (impl : String) : St × String × String :=
  match ts with
  | "new" :: l :: c :: slrm :: colon :: rgb :: more =>
    match ints? [l, c, slrm, colon, rgb], (if more = [] then some [1, 2] else ints? more) with
    | some [l, c, slrm, colon, rgb], some [vis, blink] =>
      if slrm < 0 ∨ slrm > 4 ∨ vis < 0 ∨ vis > 4 ∨ blink < 0 ∨ blink > 4 then (st, "bad-op", "") else
      let caps : Caps := ⟨slrmCap Gen.XTermFacts.slrmAccept slrm.toNat, colon ≠ 0, rgb ≠ 0⟩
      let drv : Drv := ⟨caps, l, c, PenCache.empty⟩
      let mobs := s!"{bytesHex startBytes} caps={b01 caps.slrm} {b01 caps.colon} {b01 caps.rgb8} size={l} {c} modes={b01 (cursorvisOfReply vis.toNat)} {b01 (cursorblinkOfReply blink.toNat)}"
      let vt0 := VTState.init l c (initialGrid c)
      -- the start-up bytes as the implementation sent them
      let itoks := toks impl
      let ibytes := match itoks with | h :: _ => (hexBytes? h).getD [] | [] => []
      let vt1 := run ibytes vt0
      let unk := unknownSeqs ibytes vt0
      -- the terminal's DECLRMM is what its DECRPM reply says it is (after the start-up `CSI ? 69 h`)
      let vt2 := { vt1 with declrmm := declrmmOfReply slrm.toNat }
      -- the capability as the implementation reports it
      let implSlrm : Bool := match itoks with | _ :: t :: _ => t == "caps=1" | _ => false
      let verdict := firstNonEmpty [
        if vt1.ps ≠ .ground then "start-up output ends inside an escape sequence" else "",
        if unk > 0 then s!"{unk} start-up control sequence(s) unknown to the reference terminal" else "",
        if ¬ Spec.marginsReset vt1 then "margins set by start-up" else "",
        if vt1.bg ≠ -1 ∨ vt1.rv then "start-up leaves rendering attributes set" else "",
        if slrm = 1 ∧ ¬ vt1.declrmm then "DECLRMM not enabled by start-up" else "",
        if implSlrm ∧ vt2.declrmm = false then s!"DECSLRM capability claimed but DECLRMM is reset (DECRPM reply ?69;{slrm}$y)" else ""]
      let v := vt2.compact
      ({ drv := drv, vt := v, live := true, locked := modeLockedOfReply slrm.toNat,
         out := XTermOut.fresh 0, bufN := 0, synced := true, want := v, curKnown := true, valid := true, unk := 0,
         paused := false, claim := implSlrm, dead := false }, mobs, verdict)
    | _, _ => (st, "bad-op", "")
  | op :: rest =>
    if ¬ st.live then (st, "bad-op", "") else
    match op, rest with
    | "goto", [l, c] =>
      match ints? [l, c] with
      | some [l, c] => doRequest st (.goto l c) none impl
      | _ => (st, "bad-op", "")
    | "move", [d, r] =>
      match ints? [d, r] with
      | some [d, r] => doRequest st (.move d r) none impl
      | _ => (st, "bad-op", "")
    | "print", [h] =>
      match hexBytes? h with
      | some bs => doRequest st (.print bs bs.length) none impl
      | none => (st, "bad-op", "")
    | "printn", [h, n] =>
      match hexBytes? h, n.toNat? with
      | some bs, some n => if n ≤ bs.length then doRequest st (.print bs n) none impl else (st, "bad-op", "")
      | _, _ => (st, "bad-op", "")
    | "printf", [h] =>
      match hexBytes? h with
      | some bs => let s := XTermOut.formatted bs none; doRequest st (.print s s.length) (some s) impl
      | none => (st, "bad-op", "")
    | "printf", [h, d] =>
      match hexBytes? h, d.toInt? with
      | some bs, some d => let s := XTermOut.formatted bs (some d); doRequest st (.print s s.length) (some s) impl
      | _, _ => (st, "bad-op", "")
    | "erasech", [n, me] =>
      match ints? [n, me] with
      | some [n, me] => doRequest st (.erasech n (MoveEnd.ofInt me)) none impl
      | _ => (st, "bad-op", "")
    | "clear", [] => doRequest st .clear none impl
    | "resize", [l, c] =>
      match ints? [l, c] with
      | some [l, c] => doResize st l c impl
      | _ => (st, "bad-op", "")
    | "scroll", [t, l, n, c, d, r] =>
      match ints? [t, l, n, c, d, r] with
      | some [t, l, n, c, d, r] => doRequest st (.scroll ⟨t, l, n, c⟩ d r) none impl
      | _ => (st, "bad-op", "")
    | "setpen", ps =>
      match parsePen ps with
      | some p => doPen st true p impl
      | none => (st, "bad-op", "")
    | "chpen", ps =>
      match parsePen ps with
      | some p => doPen st false p impl
      | none => (st, "bad-op", "")
    | "flush", [] => doFlush st impl
    | "outbuf", [n] =>
      match n.toNat? with
      | some n => if n ≤ 1000000 then doOutbuf st n impl else (st, "bad-op", "")
      | none => (st, "bad-op", "")
    | "pause", [] => doPause st false impl
    | "stop", [] => doPause st true impl
    | "resume", [] => doResume st impl
    | "start", [] => doStart st impl
    | _, _ => (st, "bad-op", "")
  | [] => (st, "bad-op", "")

def step (st : St) (ts : List String) (impl : String) : St × String × String :=
  let (st', mobs, verdict) := step1 st ts impl
  (st', mobs, if st'.dead ∨ (st.crashed ∧ st'.crashed) then "" else verdict)

def engine : Engine := { σ := St, init := default, step := step }

end Tickit.Driver.XTermEngine
