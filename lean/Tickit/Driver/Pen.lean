import Tickit.Model.Pen
import Tickit.Driver.Common
/-
  Engine `pen` (C19).  Operations and observation format: see harness/pen.c.

  Model observation: the `PenObj` model of src/pen.c run on the same operations, printed like the harness.
  Specification (SPEC verdict): a *dictionary* per pen (`PenDict`, the partial map of the property),
  updated by the abstract meaning of each operation, against which the implementation's own getter dump is
  checked after every operation:
    * presence, the value read through the attribute's own getter, RGB8 presence and value, nondefault,
      is_nonempty / is_nondefault, for every attribute of every pen;
    * the 3x3 matrix of tickit_pen_equiv equals "every attribute reads the same" and is an equivalence;
    * a description string either returns false and changes nothing, or returns true and the pen is the
      dictionary after `set_colour idx` (+ `set_rgb8 rgb`) for some idx, rgb; for strings of the documented
      grammar idx and rgb are the documented ones.
  A value that is not representable in the attribute's bit-field (widths from Gen.PenLayout) is outside the
  property: the dictionary then adopts whatever value the implementation reads back (presence is still checked).
-/
namespace Tickit.Driver.PenEngine
open Tickit Tickit.Bitfield Tickit.Driver Tickit.Gen.PenLayout

def NPEN : Nat := 3
def DUMP_ATTRS : Nat := 12

/-! ### printing the model's observation -/

def b01 (b : Bool) : String := if b then "1" else "0"

def showRgb (c : RGB8) : String := hexOfNat2 c.r.toNat ++ hexOfNat2 c.g.toNat ++ hexOfNat2 c.b.toNat

def attrTok (p : Pen) (c : Int) : String :=
  s!"{b01 (p.hasAttrC c)},{b01 (p.nondefaultAttrC c)},{b01 (p.getBoolAttrC c)},{p.getIntAttrC c},{p.getColourAttrC c}," ++
  (if p.hasColourAttrRgb8C c then showRgb (p.getColourAttrRgb8C c) else "-")

def penDump (o : PenObj) : String :=
  s!" |{o.events} {b01 o.pen.isNonempty} {b01 o.pen.isNondefault}" ++
  String.join ((List.range DUMP_ATTRS).map fun c => " " ++ attrTok o.pen (Int.ofNat c))

def dump (objs : Array PenObj) : String :=
  String.join (objs.toList.map penDump) ++ " |E" ++
  String.join (objs.toList.map fun a => " " ++ String.join (objs.toList.map fun b => b01 (a.pen.equiv b.pen)))

/-! ### parsing the implementation's observation -/

structure AttrObs where
  has : Bool
  nd : Bool
  b : Bool
  i : Int
  c : Int
  rgb : Option RGB8
  rgbBad : Bool := false
deriving Inhabited

structure PenObs where
  ev : Int
  ne : Bool
  nd : Bool
  attrs : Array AttrObs
deriving Inhabited

structure Obs where
  ret : String
  pens : Array PenObs
  eq : Array (Array Bool)
deriving Inhabited

def bool? (s : String) : Option Bool := if s = "1" then some true else if s = "0" then some false else none

def rgb? (s : String) : Option RGB8 :=
  match hexBytes? s with
  | some [r, g, b] => some ⟨r, g, b⟩
  | _ => none

def attrObs? (s : String) : Option AttrObs :=
  match s.splitOn "," with
  | [h, nd, b, i, c, rgb] => do
    let h ← bool? h; let nd ← bool? nd; let b ← bool? b; let i ← int? i; let c ← int? c
    if rgb = "-" then pure { has := h, nd := nd, b := b, i := i, c := c, rgb := none }
    else if rgb.startsWith "!" then pure { has := h, nd := nd, b := b, i := i, c := c, rgb := none, rgbBad := true }
    else
      let v ← rgb? rgb
      pure { has := h, nd := nd, b := b, i := i, c := c, rgb := some v }
  | _ => none

def penObs? (s : String) : Option PenObs :=
  match toks s with
  | ev :: ne :: nd :: rest => do
    let ev ← int? ev; let ne ← bool? ne; let nd ← bool? nd
    let attrs ← rest.mapM attrObs?
    if attrs.length ≠ DUMP_ATTRS then none else pure { ev := ev, ne := ne, nd := nd, attrs := attrs.toArray }
  | _ => none

def obs? (s : String) : Option Obs :=
  match s.splitOn " |" with
  | [ret, p0, p1, p2, e] => do
    let p0 ← penObs? p0; let p1 ← penObs? p1; let p2 ← penObs? p2
    match toks e with
    | ["E", r0, r1, r2] =>
      let row (r : String) : Option (Array Bool) := (r.toList.mapM (fun ch => bool? (String.singleton ch))).map List.toArray
      let r0 ← row r0; let r1 ← row r1; let r2 ← row r2
      if r0.size ≠ 3 ∨ r1.size ≠ 3 ∨ r2.size ≠ 3 then none
      else pure { ret := ret.trimAscii.toString, pens := #[p0, p1, p2], eq := #[r0, r1, r2] }
    | _ => none
  | _ => none

/-! ### the specification -/

/-- A dictionary as data (the driver's state): the values of `PenAttr.all` in order.  `PenDict` is a function
    type, so it is re-tabulated after every operation to keep evaluation linear. -/
abbrev DictTab := Array (Option PenVal)

def DictTab.toDict (t : DictTab) : PenDict := fun a => (t[PenAttr.all.idxOf a]?).getD none
def tabulate (d : PenDict) : DictTab := (PenAttr.all.map d).toArray
def DictTab.empty : DictTab := tabulate PenDict.empty

/-- The values the header documents for an attribute (Props/C19 `documented_values_representable` proves them
    representable in the extracted layout; the run-time oracle insists on them independently of the layout, so a
    narrowed bit-field is reported with a concrete input). -/
def documented (a : PenAttr) (v : Int) : Bool :=
  match a with
  | .fg | .bg => decide (COLOUR_DEFAULT ≤ v ∧ v ≤ 255)
  | .under => decide (-1 ≤ v ∧ v < TICKIT_N_PEN_UNDERS)
  | .altfont => decide (-1 ≤ v ∧ v ≤ 10)
  | .sizepos => decide (TICKIT_PEN_SIZEPOS_NORMAL ≤ v ∧ v ≤ TICKIT_PEN_SIZEPOS_SUBSCRIPT)
  | _ => decide (v = 0 ∨ v = 1)

/-- Values for which the property demands an exact read-back. -/
def representable (a : PenAttr) (v : Int) : Bool := decide (a.Representable v) || documented a v

/-- What the implementation's dump says attribute `a` reads as through its own getter. -/
def typedRead (po : PenObs) (a : PenAttr) : PenVal :=
  let o := po.attrs[a.code.toNat]!
  match a.type with
  | .bool => .b o.b
  | .int => .i o.i
  | .colour => .c o.c o.rgb

def showVal : PenVal → String
  | .b v => s!"bool {v}"
  | .i v => s!"int {v}"
  | .c idx none => s!"colour {idx}"
  | .c idx (some rgb) => s!"colour {idx} #{showRgb rgb}"

def dictNondefault (d : PenDict) (a : PenAttr) : Bool :=
  match d a with
  | some (.b v) => v
  | some (.i v) => decide (v > 0)
  | some (.c idx _) => decide (idx ≠ COLOUR_DEFAULT)
  | none => false

/-- Check one pen's dump against its dictionary. -/
def checkPen (k : Nat) (d : PenDict) (po : PenObs) : String :=
  let errs := PenAttr.all.filterMap fun a =>
    let o := po.attrs[a.code.toNat]!
    if o.rgbBad then some s!"pen {k} attr {a.code}: RGB8 getter not black although has_rgb8 is false"
    else if o.has ≠ (d a).isSome then some s!"pen {k} attr {a.code}: has={o.has}, dictionary says {(d a).isSome}"
    else if typedRead po a ≠ d.read a then
      some s!"pen {k} attr {a.code}: reads {showVal (typedRead po a)}, dictionary says {showVal (d.read a)}"
    else if a.type ≠ .colour ∧ o.rgb.isSome then some s!"pen {k} attr {a.code}: non-colour attribute has an RGB8"
    else if o.nd ≠ dictNondefault d a then some s!"pen {k} attr {a.code}: nondefault={o.nd}, dictionary says {dictNondefault d a}"
    else none
  match errs with
  | e :: _ => e
  | [] =>
    if po.ne ≠ PenAttr.all.any (fun a => (d a).isSome) then s!"pen {k}: is_nonempty={po.ne}"
    else if po.nd ≠ PenAttr.all.any (dictNondefault d) then s!"pen {k}: is_nondefault={po.nd}"
    else ""

def firstErr (l : List String) : String := (l.find? (· ≠ "")).getD ""

/-- Equivalence matrix: equals "every attribute reads the same" (on the implementation's own reads and on the
    dictionaries), reflexive, symmetric, transitive. -/
def checkEquiv (dicts : Array PenDict) (o : Obs) : String :=
  let idx := [0, 1, 2]
  let e (i j : Nat) : Bool := (o.eq[i]!)[j]!
  firstErr <| idx.flatMap fun i => idx.flatMap fun j =>
    let same := PenAttr.all.all fun a => typedRead o.pens[i]! a == typedRead o.pens[j]! a
    [ if e i j ≠ same then s!"equiv({i},{j})={e i j} but getters agree={same}" else "",
      if e i j ≠ PenDict.equiv dicts[i]! dicts[j]! then s!"equiv({i},{j})={e i j}, dictionaries say {PenDict.equiv dicts[i]! dicts[j]!}" else "",
      if i = j ∧ !e i j then s!"equiv({i},{i}) false" else "",
      if e i j ≠ e j i then s!"equiv({i},{j}) ≠ equiv({j},{i})" else "" ] ++
    idx.map fun k => if e i j ∧ e j k ∧ !e i k then s!"equiv not transitive on {i},{j},{k}" else ""

/-! #### the documented grammar of colour descriptions (man/tickit_pen_get_colour_attr.3) -/

def isHexDigit (c : UInt8) : Bool := PenScan.isXDigit c

/-- `#` + exactly six hexadecimal characters. -/
def docRgb? (s : List UInt8) : Option RGB8 :=
  match s with
  | [35, a, b, c, d, e, f] =>
    if [a, b, c, d, e, f].all isHexDigit then
      some ⟨UInt8.ofNat (PenScan.xval a * 16 + PenScan.xval b), UInt8.ofNat (PenScan.xval c * 16 + PenScan.xval d),
            UInt8.ofNat (PenScan.xval e * 16 + PenScan.xval f)⟩
    else none
  | _ => none

/-- base part: decimal integer (no sign, at most 9 digits) or a colour name, optionally `hi-` before one of the
    eight VGA names. -/
def docBase? (s : List UInt8) : Option Int :=
  let isHi := s.take 3 == Pen.hiPrefix
  let body := if isHi then s.drop 3 else s
  if !isHi ∧ !body.isEmpty ∧ body.length ≤ 9 ∧ body.all PenScan.isDigit then
    some (Int.ofNat (body.foldl (fun acc d => acc * 10 + (d.toNat - 48)) 0))
  else match Pen.colourNames.find? (fun e => e.1 == body) with
    | some e => if isHi then (if e.2 < 8 then some (e.2 + 8) else none) else some e.2
    | none => none

/-- `some (idx, rgb)` for a string of the documented grammar `base [spaces #rrggbb]`. -/
def docDesc? (s : List UInt8) : Option (Int × Option RGB8) :=
  match s.findIdx? (· == 35) with
  | none => (docBase? s).map fun i => (i, none)
  | some k =>
    let base := (s.take k).reverse.dropWhile (· == 32) |>.reverse
    match docBase? base, docRgb? (s.drop k) with
    | some i, some rgb => some (i, some rgb)
    | _, _ => none

/-! ### one step -/

structure St where
  objs : Array PenObj := #[]
  dicts : Array DictTab := #[]

def slot? (s : String) : Option Nat :=
  match s.toNat? with
  | some n => if n < NPEN then some n else none
  | none => none

def bytes? (s : String) : Option (List UInt8) :=
  (hexBytes? s).map fun l => l.takeWhile (· ≠ 0)

/-- Dictionary meaning of `tickit_pen_new_attrs` on (attr, value) pairs with valid attributes (the generator's
    contract): the sequence of direct calls on an empty dictionary.  A value outside the property's range is taken
    as the model stores it; a description is taken as the model parses it (its own clauses are checked by `desc`). -/
def newAttrsDict (pairs : List (Int × String)) : Option (Pen × PenDict) :=
  pairs.foldlM (init := (Pen.new, PenDict.empty)) fun (p, d) (ac, v) =>
    if ac = TICKIT_PEN_FG_DESC ∨ ac = TICKIT_PEN_BG_DESC then do
      let a ← PenAttr.ofCode? (ac - 0x100)
      let s ← bytes? v
      let r := Pen.setColourAttrDesc glibcScanf p a s
      let d' := if r.1 then
          let d1 := d.setColour a (r.2.getColourAttr a)
          if r.2.hasColourAttrRgb8 a then d1.setRgb8 a (r.2.getColourAttrRgb8 a) else d1
        else d
      pure (r.2, d')
    else do
      let a ← PenAttr.ofCode? ac
      let n ← int? v
      match a.type with
      | .bool => pure (p.setBoolAttr a (n ≠ 0), d.setBool a (n ≠ 0))
      | .int => pure (p.setIntAttr a n, d.setInt a (if representable a n then n else (p.setIntAttr a n).getIntAttr a))
      | .colour => pure (p.setColourAttr a n, d.setColour a (if representable a n then n else (p.setColourAttr a n).getColourAttr a))

/-- The variadic argument list the harness passes: the pairs, then the terminating 0. -/
def vaArgs (pairs : List (Int × String)) : Option (List VaArg) := do
  let l ← pairs.mapM fun (ac, v) =>
    if ac = TICKIT_PEN_FG_DESC ∨ ac = TICKIT_PEN_BG_DESC then (bytes? v).map fun s => [VaArg.int ac, VaArg.str s]
    else (int? v).map fun n => [VaArg.int ac, VaArg.int n]
  pure (l.flatten ++ [VaArg.int 0])

def pairsOf : List String → Option (List (Int × String))
  | [] => some []
  | a :: v :: rest => do
    let a ← int? a
    let r ← pairsOf rest
    pure ((a, v) :: r)
  | _ => none

def tablesObs : String :=
  let nameOf (c : Int) : String :=
    match PenAttr.ofCode? c with
    | some .fg => "fg" | some .bg => "bg" | some .bold => "b" | some .under => "u" | some .italic => "i"
    | some .reverse => "rv" | some .strike => "strike" | some .altfont => "af" | some .blink => "blink"
    | some .sizepos => "sizepos" | none => "-"
  s!"n={TICKIT_N_PEN_ATTRS}" ++ String.join ((List.range (TICKIT_N_PEN_ATTRS.toNat + 1)).map fun k =>
    let c := Int.ofNat k
    let ty := (penattr_type.lookup c).getD (-99)     -- the generated table …
    let ty' := penattrTypeC c                         -- … must agree with the hand model
    s!" {c}:{if ty = ty' then toString ty else "gen" ++ toString ty ++ "/model" ++ toString ty'}:{nameOf c}:{if (PenAttr.ofCode? c).isSome then c else -1}")

/-- Result of running the model and the dictionary on one operation:
    new state, the operation's return token, and the spec's expectation about the return token. -/
structure StepOut where
  st : St
  ret : String := "-"
  /-- extra spec reason computed by the operation itself (e.g. description clauses) -/
  why : String := ""

def bad (st : St) : St × String × String := (st, "bad-op", "")

def step (st : St) (ts : List String) (impl : String) : St × String × String :=
  let io := obs? impl
  -- finish: print model, evaluate the spec on the implementation's observation
  let finish (objs : Array PenObj) (dtabs : Array DictTab) (ret : String) (specRet : Option String) (why : String) :
      St × String × String :=
    let dicts : Array PenDict := dtabs.map DictTab.toDict
    let m := ret ++ dump objs
    let sv :=
      match io with
      | none => "unparsable implementation observation"
      | some o =>
        firstErr [ why,
          (match specRet with
           | some r => if o.ret ≠ r then s!"returned {o.ret}, specification says {r}" else ""
           | none => ""),
          firstErr ((List.range NPEN).map fun k => checkPen k dicts[k]! o.pens[k]!),
          checkEquiv dicts o ]
    ({ objs := objs, dicts := dtabs }, m, sv)
  match ts with
  | ["new"] =>
    finish (Array.replicate NPEN PenObj.new) (Array.replicate NPEN DictTab.empty) "-" (some "-") ""
  | ["tables"] => if st.objs.size = NPEN then (st, tablesObs, "") else bad st
  | op :: is :: rest =>
    if st.objs.size ≠ NPEN then bad st else
    match slot? is with
    | none => bad st
    | some i =>
      let o := st.objs[i]!
      let d : PenDict := st.dicts[i]!.toDict
      let dict (j : Nat) : PenDict := st.dicts[j]!.toDict
      let setO (o' : PenObj) := st.objs.set! i o'
      let setD (d' : PenDict) := st.dicts.set! i (tabulate d')
      -- what the implementation reads back for attribute a of pen i (for unrepresentable stores)
      let implRead (a : PenAttr) : Option PenVal := io.map fun ob => typedRead ob.pens[i]! a
      match op, rest with
      | "setb", [a, v] =>
        match int? a, int? v with
        | some ac, some v =>
          match PenAttr.ofCode? ac with
          | some a => finish (setO (o.setBoolAttr a (v ≠ 0))) (setD (d.setBool a (v ≠ 0))) "-" (some "-") ""
          | none => finish st.objs st.dicts "-" (some "-") ""
        | _, _ => bad st
      | "seti", [a, v] =>
        match int? a, int? v with
        | some ac, some v =>
          match PenAttr.ofCode? ac with
          | some a =>
            let v' : Int := if representable a v then v else
              match implRead a with | some (.i x) => x | _ => v
            finish (setO (o.setIntAttr a v)) (setD (d.setInt a v')) "-" (some "-") ""
          | none => finish st.objs st.dicts "-" (some "-") ""
        | _, _ => bad st
      | "setc", [a, v] =>
        match int? a, int? v with
        | some ac, some v =>
          match PenAttr.ofCode? ac with
          | some a =>
            let v' : Int := if representable a v then v else
              match implRead a with | some (.c x _) => x | _ => v
            finish (setO (o.setColourAttr a v)) (setD (d.setColour a v')) "-" (some "-") ""
          | none => finish st.objs st.dicts "-" (some "-") ""
        | _, _ => bad st
      | "setrgb", [a, r, g, b] =>
        match int? a, int? r, int? g, int? b with
        | some ac, some r, some g, some b =>
          let rgb : RGB8 := ⟨UInt8.ofNat r.toNat, UInt8.ofNat g.toNat, UInt8.ofNat b.toNat⟩
          match PenAttr.ofCode? ac with
          | some a => finish (setO (o.setColourAttrRgb8 a rgb)) (setD (d.setRgb8 a rgb)) "-" (some "-") ""
          | none => finish st.objs st.dicts "-" (some "-") ""
        | _, _, _, _ => bad st
      | "desc", [a, h] =>
        match int? a, bytes? h with
        | some ac, some s =>
          match PenAttr.ofCode? ac with
          | some a =>
            let r := o.setColourAttrDesc glibcScanf a s
            -- specification, evaluated on the implementation's observation
            let (d', why) : PenDict × String :=
              match io with
              | none => (d, "")
              | some ob =>
                if ob.ret = "0" then (d, "")      -- rejected: the dump must equal the old dictionary
                else if ob.ret ≠ "1" then (d, s!"description returned {ob.ret}")
                else if a.type ≠ .colour then (d, "")   -- direct colour calls on a non-colour attribute do nothing
                else
                  -- accepted: some idx (+ some rgb); take them from what the implementation reads back
                  let d1 := match implRead a with
                    | some (.c idx none) => d.setColour a idx
                    | some (.c idx (some rgb)) => (d.setColour a idx).setRgb8 a rgb
                    | _ => d
                  (d1, "")
            let why2 :=
              match io, docDesc? s with
              | some ob, some (idx, rgb) =>
                if ob.ret ≠ "1" then s!"documented description rejected"
                else if a.type = .colour ∧ representable a idx ∧ implRead a ≠ some (.c idx rgb) then
                  s!"documented description should give {showVal (.c idx rgb)}"
                else ""
              | _, _ => ""
            finish (setO r.2) (setD d') (b01 r.1) none (firstErr [why, why2])
          | none =>
            finish st.objs st.dicts (b01 (o.setColourAttrDescNoAttr glibcScanf s)) none ""
        | _, _ => bad st
      | "clear", [a] =>
        match int? a with
        | some ac =>
          match PenAttr.ofCode? ac with
          | some a => finish (setO (o.clearAttr a)) (setD (d.erase a)) "-" (some "-") ""
          | none => finish (setO (o.clearAttrC ac)) st.dicts "-" (some "-") ""
        | none => bad st
      | "clearall", [] => finish (setO o.clear) (setD PenDict.empty) "-" (some "-") ""
      | "copy", [s, ow] =>
        match slot? s, int? ow with
        | some j, some ow =>
          let ow := ow ≠ 0
          let o' := if i = j then o.copySelf ow else o.copy st.objs[j]!.pen ow
          finish (setO o') (setD (PenDict.copy d (dict j) ow)) "-" (some "-") ""
        | _, _ => bad st
      | "copyattr", [s, a] =>
        match slot? s, int? a with
        | some j, some ac =>
          match PenAttr.ofCode? ac with
          | some a =>
            let o' := if i = j then o.copyAttrSelf a else o.copyAttr st.objs[j]!.pen a
            finish (setO o') (setD (PenDict.copyAttr d (dict j) a)) "-" (some "-") ""
          | none => finish st.objs st.dicts "-" (some "-") ""
        | _, _ => bad st
      | "clone", [s] =>
        match slot? s with
        | some j => finish (setO { pen := Pen.clone st.objs[j]!.pen }) (st.dicts.set! i st.dicts[j]!) "-" (some "-") ""
        | none => bad st
      | "equiv", [s] =>
        match slot? s with
        | some j =>
          finish st.objs st.dicts (b01 (o.pen.equiv st.objs[j]!.pen)) (some (b01 (PenDict.equiv d (dict j)))) ""
        | none => bad st
      | "equivattr", [s, a] =>
        match slot? s, int? a with
        | some j, some ac =>
          let specR := match PenAttr.ofCode? ac with
            | some a => some (b01 (d.read a == (dict j).read a))
            | none => none
          finish st.objs st.dicts (b01 (o.pen.equivAttrC st.objs[j]!.pen ac)) specR ""
        | _, _ => bad st
      | "mkattrs", n :: prs =>
        match n.toNat?, pairsOf prs with
        | some n, some pairs =>
          if pairs.length ≠ n then bad st else
          match vaArgs pairs >>= Pen.newAttrs glibcScanf, newAttrsDict pairs with
          | some p, some (_, d') => finish (setO { pen := p }) (setD d') "-" (some "-") ""
          | _, _ => bad st
        | _, _ => bad st
      | _, _ => bad st
  | _ => bad st

def engine : Engine := { σ := St, init := {}, step := step }

end Tickit.Driver.PenEngine
