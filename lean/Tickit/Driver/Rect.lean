import Tickit.Model.Rect
import Tickit.Driver.Common
/-
  Engine `rect` (C06): every operation is independent.
    isect a b | add a b | sub a b | contains a b | intersects a b      (a, b = top left lines cols)
  Observation: `<n> r1 r2 ...` for list results, `0`/`1 r` for isect, `0`/`1` for predicates.
-/
namespace Tickit.Driver.RectEngine
open Tickit Tickit.Driver

def rectOf : List Int → Option Rect
  | [t, l, n, c] => some ⟨t, l, n, c⟩
  | _ => none

def showRect (r : Rect) : String := s!"{r.top} {r.left} {r.lines} {r.cols}"

def showRects (rs : List Rect) : String :=
  " ".intercalate (toString rs.length :: rs.map showRect)

def parseRects : List Int → Option (List Rect)
  | [] => some []
  | t :: l :: n :: c :: rest => (parseRects rest).map (⟨t, l, n, c⟩ :: ·)
  | _ => none

/-- The cells worth looking at: membership in any of the rectangles mentioned is constant between
    consecutive edges, so probing every edge coordinate and its two neighbours is exhaustive. -/
def probeCells (rs : List Rect) : List (Int × Int) :=
  let rows := (rs.flatMap fun r => [r.top - 1, r.top, r.top + 1, r.bottom - 1, r.bottom, r.bottom + 1]).eraseDups
  let cols := (rs.flatMap fun r => [r.left - 1, r.left, r.left + 1, r.right - 1, r.right, r.right + 1]).eraseDups
  rows.flatMap fun l => cols.map fun c => (l, c)

/-- Cell-wise check that `out` is a list of ≤ `cap` non-empty pairwise disjoint rectangles
    whose union is `{cell | want cell}`. -/
def checkPieces (cap : Nat) (inputs out : List Rect) (want : Int → Int → Bool) : String :=
  if out.length > cap then s!"more than {cap} pieces"
  else if out.any (fun r => !(decide r.Nonempty)) then "empty piece"
  else
    let cells := probeCells (inputs ++ out)
    match cells.find? (fun (l, c) => (out.filter (fun r => r.memb l c)).length ≠ (if want l c then 1 else 0)) with
    | some (l, c) =>
      let k := (out.filter (fun r => r.memb l c)).length
      s!"cell ({l},{c}) covered {k} times, expected {if want l c then 1 else 0}"
    | none => ""

def spec (op : String) (a b : Rect) (obs : List Int) : String :=
  match op with
  | "isect" =>
    let anyCommon := (probeCells [a, b]).any (fun (l, c) => a.memb l c && b.memb l c)
    match obs with
    | [0] => if anyCommon then "reported no intersection but cells are shared" else ""
    | [1, t, l, n, c] =>
      checkPieces 1 [a, b] [⟨t, l, n, c⟩] (fun l c => a.memb l c && b.memb l c)
    | _ => "malformed"
  | "add" =>
    match obs with
    | n :: rest => match parseRects rest with
      | some rs => if rs.length ≠ n.toNat then "malformed" else
          checkPieces 3 [a, b] rs (fun l c => a.memb l c || b.memb l c)
      | none => "malformed"
    | _ => "malformed"
  | "sub" =>
    match obs with
    | n :: rest => match parseRects rest with
      | some rs => if rs.length ≠ n.toNat then "malformed" else
          checkPieces 4 [a, b] rs (fun l c => a.memb l c && !b.memb l c)
      | none => "malformed"
    | _ => "malformed"
  | "contains" =>
    let want := (probeCells [a, b]).all (fun (l, c) => !b.memb l c || a.memb l c)
    if obs = [if want then 1 else 0] then "" else s!"contains should be {want}"
  | "intersects" =>
    let want := (probeCells [a, b]).any (fun (l, c) => a.memb l c && b.memb l c)
    if obs = [if want then 1 else 0] then "" else s!"intersects should be {want}"
  | _ => "unknown op"

def model (op : String) (a b : Rect) : String :=
  match op with
  | "isect" => match Rect.intersect a b with
    | none => "0"
    | some r => "1 " ++ showRect r
  | "add" => showRects (Rect.add a b)
  | "sub" => showRects (Rect.subtract a b)
  | "contains" => if Rect.contains a b then "1" else "0"
  | "intersects" => if Rect.intersects a b then "1" else "0"
  | _ => "bad-op"

def step (_ : Unit) (ts : List String) (impl : String) : Unit × String × String :=
  match ts with
  | ["new"] => ((), "ok", "")
  | op :: rest =>
    match ints? rest with
    | some [t1, l1, n1, c1, t2, l2, n2, c2] =>
      let a : Rect := ⟨t1, l1, n1, c1⟩
      let b : Rect := ⟨t2, l2, n2, c2⟩
      let sv := match ints? (toks impl) with
        | some obs => spec op a b obs
        | none => "unparsable implementation observation"
      ((), model op a b, sv)
    | _ => ((), "bad-op", "")
  | _ => ((), "bad-op", "")

def engine : Engine := { σ := Unit, init := (), step := step }

end Tickit.Driver.RectEngine
