import Tickit.Model.Modes
import Tickit.Driver.Common
/-
  Engine `modes` (C12).  Operations: see harness/modes.c.

  Model observation = what the harness prints: return value, the bytes that had reached the output function
  when the call returned, the bytes still held in the terminal's output buffer at that moment, every
  control read back through `getctl_int`, the cached pen.

  Specification (evaluated on the *implementation's* observation): a VT mode-state interpreter is fed
  the implementation's bytes; a ghost record keeps the values the program last set successfully and the
  pen it asked for.  While the terminal is running the VT's modes and rendition must equal the ghost
  (`shadow_inv`, `resume_reestablishes`, `pen_survives_pause`); after pause, teardown and destruction
  they must equal the VT's initial ones (`teardown_restores`) - the mode state at hand-over is a parameter of
  the history (`new … vis=0`: the cursor is hidden; the replies fed must be those of such a terminal, and the
  program then leaves cursor visibility alone: `handoverOk`); every read-back must equal the ghost
  (`getctl_last_set`).  The contract is tracked explicitly (`phaseNextW`): the program may go on setting controls,
  changing the pen and writing between pause and resume (the property quantifies over these in any order relative to
  pause/resume cycles) - the terminal then shows a mixture of the restored state and what was set since, so only
  the read-backs are judged until the next resume (running clauses) or teardown / destruction (restoration
  clause); no second pause while paused, no resume without pause, after teardown nothing but unref, mouse modes 0…3, text
  payloads without control bytes; the RGB8 capability does not change while the pen asked for holds an RGB8
  colour.  Outside the contract only model = implementation is compared.

  Output buffer: after pause, teardown and destruction the terminal is judged on the bytes that had reached
  the output function when the call returned, and nothing may be left in the buffer.  Shared terminal: when
  the toplevel instance is destroyed while another holder still references the terminal, the terminal must
  be restored by that destruction (`Sys.dropOwner`).
-/
namespace Tickit.Driver.ModesEngine
open Tickit Tickit.Driver Tickit.Modes

/-- Driver state: the model's system, the specification's terminal (fed with the implementation's
    bytes), its initial modes, the phase of the documented protocol, the ghost, and whether the
    history is still inside the contract. -/
structure St where
  sys   : Option Sys := none
  gone  : Bool := false
  phase : PhaseW := .running
  vt    : VT := {}
  vt0   : VModes := {}
  lg    : Ghost := {}
  ua    : Option Int := none
  inContract : Bool := true
  /-- the terminal's output buffer (empty between operations: the harness flushes after each) -/
  obuf  : OBuf := {}
  /-- the owner's reference is alive; references taken by `termref` -/
  owner : Bool := true
  extra : Nat := 0
  /-- `xterm.cap_rgb8` as last read back from the implementation -/
  capRgb : Bool := false

/-! ### printing / parsing -/

def attrName : Attr → String
  | .fg => "fg" | .bg => "bg" | .bold => "b" | .under => "u" | .italic => "i" | .reverse => "rv"
  | .strike => "s" | .altfont => "af" | .blink => "bl" | .sizepos => "sp"

def attrOfName (s : String) : Option Attr := Attr.all.find? (fun a => attrName a == s)

def showColour (v : Int) : String :=
  if hasRgb v then s!"{colIndex v}#{hexOfNat2 (colR v).toNat}{hexOfNat2 (colG v).toNat}{hexOfNat2 (colB v).toNat}"
  else toString v

def showPen (p : PenMap) : String :=
  let parts := Attr.all.filterMap fun a => (p a).map fun v =>
    s!"{attrName a}={if a.kind == .colour then showColour v else toString v}"
  if parts.isEmpty then "-" else ",".intercalate parts

/-- `<index>` or `<index>#rrggbb`. -/
def parseColour (s : String) : Option Int :=
  match s.splitOn "#" with
  | [i] => i.toInt?
  | [i, h] => do
    let idx ← i.toInt?
    match hexBytes? h with
    | some [r, g, b] => if -1 ≤ idx ∧ idx ≤ 255 then some (rgbEnc idx r.toNat g.toNat b.toNat) else none
    | _ => none
  | _ => none

def parsePen (s : String) : Option PenMap :=
  if s = "-" then some PenMap.empty else
  (s.splitOn ",").foldlM (init := PenMap.empty) fun p f =>
    match f.splitOn "=" with
    | [k, v] => do
      let a ← attrOfName k
      let n ← if a.kind == .colour then parseColour v else v.toInt?
      let n := if a.kind == .bool then bool01 n else n
      pure (fun x => if x = a then some n else p x)
    | _ => none

def ctlOfName (s : String) : Option Ctl :=
  if s.startsWith "#" then (s.drop 1).toInt?.bind Ctl.ofInt else
  match s with
  | "altscreen" => some .altscreen | "cursorvis" => some .cursorvis | "mouse" => some .mouse
  | "cursorblink" => some .cursorblink | "cursorshape" => some .cursorshape | "icon_text" => some .iconText
  | "title_text" => some .titleText | "icontitle_text" => some .iconTitleText | "keypad_app" => some .keypadApp
  | "colors" => some .colors | "xterm.cap_cursorshape" => some .capCursorshape | "xterm.cap_slrm" => some .capSlrm
  | "xterm.cap_csi_sub_colon" => some .capCsiSubColon | "xterm.cap_rgb8" => some .capRgb8
  | _ => none

def natsHex (bs : List Nat) : String :=
  if bs.isEmpty then "-" else String.join (bs.map hexOfNat2)

def hexNats? (s : String) : Option (List Nat) := (hexBytes? s).map (·.map UInt8.toNat)

def showOpt : Option Int → String
  | none => "!"
  | some v => toString v

def ctlDump (d : XDrv) : String :=
  ",".intercalate <| [Ctl.altscreen, .cursorvis, .mouse, .cursorblink, .cursorshape, .keypadApp, .colors,
    .capCursorshape, .capSlrm, .capCsiSubColon, .capRgb8].map fun c => showOpt (getctlInt d (some c))

def showRet : Option Bool → String
  | none => "-"
  | some true => "1"
  | some false => "0"

def modelObs (s : Sys) (ret : Option Bool) (out held : Out) : String :=
  let base := s!"ret={showRet ret} out={natsHex out} held={natsHex held} ctl={ctlDump s.term.drv} pen={showPen s.term.pen}"
  match s.top with
  | some top => base ++ s!" ua={top.useAlt}"
  | none => base

/-- The operation a line denotes (`none`: not an operation of the model — answered `bad-op`). -/
def parseOp : List String → Option Op
  | ["ctl", c, v] => v.toInt?.map fun n => .ctl (ctlOfName c) n
  | ["setstr", c, h] => (hexNats? h).map fun b => .setstr (ctlOfName c) b
  | ["setpen", p] => (parsePen p).map .setpen
  | ["chpen", p] => (parsePen p).map .chpen
  | ["print", h] => (hexNats? h).map .print
  | "clear" :: _ => some .clear
  | "flush" :: _ => some .flush
  | ["reply", "mode", m, v] => do pure (.replyMode (← m.toInt?) (← v.toInt?))
  | ["reply", "shape", v] => v.toInt?.map .replyShape
  | ["reply", "sgr", c, r] => do pure (.replySgr ((← c.toInt?) ≠ 0) ((← r.toInt?) ≠ 0))
  | ["await", m] => m.toInt?.map .await
  | "pause" :: _ => some .pause
  | "resume" :: _ => some .resume
  | "teardown" :: _ => some .teardown
  | ["tick"] => some (.tick false)
  | ["tick", "nosetup"] => some (.tick true)
  | ["tick", _] => some (.tick false)
  | ["usealt", v] => v.toInt?.map .usealt
  | _ => none

/-! ### the implementation's observation -/

structure ImplObs where
  ret : String
  out : List Nat         -- delivered when the call returned
  held : List Nat        -- still in the output buffer then
  ctl : List String      -- empty when gone
  ua  : Option Int

def field (ts : List String) (key : String) : Option String :=
  (ts.find? (·.startsWith key)).map (·.drop key.length |>.toString)

def parseImpl (line : String) : Option ImplObs := do
  let ts := toks line
  let ret ← field ts "ret="
  let out ← (field ts "out=").bind hexNats?
  let held ← (field ts "held=").bind hexNats?
  let ctl := match field ts "ctl=" with
    | some c => c.splitOn ","
    | none => []
  let ua := (field ts "ua=").bind String.toInt?
  pure { ret, out, held, ctl, ua }

/-! ### the executable specification -/

def b2s (b : Bool) : String := if b then "on" else "off"

def clause (bad : Bool) (msg : String) : List String := if bad then [msg] else []

/-- A rendition value of the VT (colours `≥ 1000` are RGB triples). -/
def showAttr (a : Attr) (v : Int) : String :=
  if a.kind == .colour && decide (v ≥ 1000) then
    let n := (v - 1000).toNat
    s!"rgb#{hexOfNat2 (n / 65536 % 256)}{hexOfNat2 (n / 256 % 256)}{hexOfNat2 (n % 256)}"
  else toString v

def showPenVal (a : Attr) (v : Int) : String := if a.kind == .colour then showColour v else toString v

/-- Terminal modes against the logical ones while running: every failing clause. -/
def checkRunning (rgb8 : Bool) (vt : VT) (lg : Ghost) : List String :=
  let m := vt.modes
  clause (m.altscreen ≠ decide (lg.alt ≠ 0)) s!"running: terminal altscreen is {b2s m.altscreen}, last set {lg.alt}" ++
  clause (m.cursorVisible ≠ decide (lg.vis ≠ 0)) s!"running: terminal cursor visibility is {b2s m.cursorVisible}, last set (or handed over with) {lg.vis}" ++
  clause ((m.mouse : Int) ≠ modeForMouse lg.mouse) s!"running: terminal mouse mode is {m.mouse}, last set {lg.mouse}" ++
  clause (m.sgrMouse ≠ decide (lg.mouse ≠ 0)) s!"running: terminal SGR mouse encoding is {b2s m.sgrMouse}, last mouse mode set {lg.mouse}" ++
  clause (m.keypadApp ≠ decide (lg.keypad ≠ 0)) s!"running: terminal keypad application mode is {b2s m.keypadApp}, last set {lg.keypad}" ++
  (match Attr.all.find? (fun a => match lg.pen a with
        | some v => inDomain a v && vt.attrs a ≠ sem rgb8 a v
        | none => false) with
    | some a => [s!"pen: terminal renders {attrName a}={showAttr a (vt.attrs a)}, logical pen has {attrName a}={showPenVal a ((lg.pen a).getD 0)} (terminal RGB8 capability {if rgb8 then "on" else "off"})"]
    | none => [])

/-- Terminal modes against the initial ones after pause / teardown / destruction. -/
def checkRestored (what : String) (vt : VT) (m0 : VModes) : List String :=
  let m := vt.modes
  clause (m.altscreen ≠ m0.altscreen) s!"after {what}: terminal altscreen is {b2s m.altscreen}, initially {b2s m0.altscreen}" ++
  clause (m.cursorVisible ≠ m0.cursorVisible) s!"after {what}: terminal cursor visibility is {b2s m.cursorVisible}, initially {b2s m0.cursorVisible}" ++
  clause (m.mouse ≠ m0.mouse) s!"after {what}: terminal mouse mode is {m.mouse}, initially {m0.mouse}" ++
  clause (m.sgrMouse ≠ m0.sgrMouse) s!"after {what}: terminal SGR mouse encoding is {b2s m.sgrMouse}, initially {b2s m0.sgrMouse}" ++
  clause (m.keypadApp ≠ m0.keypadApp) s!"after {what}: terminal keypad application mode is {b2s m.keypadApp}, initially {b2s m0.keypadApp}" ++
  (match Attr.all.find? (fun a => vt.attrs a ≠ dflt a) with
    | some a => [s!"after {what}: terminal still renders {attrName a}={showAttr a (vt.attrs a)}"]
    | none => [])

/-- Read-backs against the values last set. -/
def checkGetctl (visSet : Bool) (ctl : List String) (lg : Ghost) : List String :=
  match ctl with
  | [alt, vis, mouse, blink, shape, keypad, _, _, _, _, rgb8] =>
    clause (lg.rgb8.isSome ∧ rgb8 ≠ showOpt lg.rgb8) s!"getctl xterm.cap_rgb8 reads {rgb8}, last set {showOpt lg.rgb8}" ++
    clause (alt ≠ toString lg.alt) s!"getctl altscreen reads {alt}, last set {lg.alt}" ++
    clause (visSet ∧ vis ≠ toString lg.vis) s!"getctl cursorvis reads {vis}, last set {lg.vis}" ++
    clause (mouse ≠ toString lg.mouse) s!"getctl mouse reads {mouse}, last set {lg.mouse}" ++
    clause (keypad ≠ toString lg.keypad) s!"getctl keypad_app reads {keypad}, last set {lg.keypad}" ++
    clause (lg.blink.isSome ∧ blink ≠ showOpt lg.blink) s!"getctl cursorblink reads {blink}, last set {showOpt lg.blink}" ++
    clause (lg.shape.isSome ∧ shape ≠ showOpt lg.shape) s!"getctl cursorshape reads {shape}, last set {showOpt lg.shape}"
  | _ => ["malformed ctl read-back"]

/-- `xterm.cap_rgb8` as the implementation reads it back (`false` when the terminal is gone). -/
def capOf (ctl : List String) : Bool := ctl.getLast? == some "1"

/-- Phase / contract / ghost transition for one operation, given the implementation's return value
    and the toplevel's `use_altscreen` read-back before the operation. -/
def ghostStep (st : St) (op : Op) (implRet : String) : St :=
  let ret : Option Bool := if implRet = "1" then some true else if implRet = "0" then some false else none
  let lg := st.lg.step op ret st.ua
  match phaseNextW st.phase op with
  | some ph => { st with lg := lg, phase := ph, inContract := st.inContract && opOk op && handoverOk st.vt0 op }
  | none => { st with lg := lg, inContract := false }

/-- The contract about the RGB8 capability: it does not change while the pen asked for depends on it. -/
def capStep (st : St) (obs : ImplObs) : St :=
  if obs.ctl.isEmpty then st else
  let c := capOf obs.ctl
  { st with capRgb := c, inContract := st.inContract && !(c != st.capRgb && capSensitive st.lg.pen) }

/-- The verdict after an operation.  `st.vt` has read the bytes that had reached the output function when
    the call returned (`obs.out`), not yet the ones still held in the output buffer (`obs.held`). -/
def specAfter (st : St) (what : String) (obs : ImplObs) : String :=
  if !st.inContract then ""
  else
    -- on a terminal handed over with a hidden cursor the program (inside the contract) never sets cursor
    -- visibility: there is no "value last set" to read back
    let g := if obs.ctl.isEmpty then [] else checkGetctl st.vt0.cursorVisible obs.ctl st.lg
    let restored := st.gone || st.phase == .paused || st.phase == .stopped
    if !restored && st.phase == .pausedOps then
      -- paused, and the program has called the library since: what it switched on is on the terminal now (to be
      -- switched back by teardown / destruction, re-established by resume); only the read-backs are judged here
      let v := if (st.vt.feed obs.held).ps ≠ .ground then ["output ends inside an escape sequence"] else []
      "; ".intercalate (g ++ v)
    else if restored then
      -- pause / teardown / destruction: judged on what has reached the terminal when the call returns
      let h := clause (!obs.held.isEmpty) s!"after {what}: {obs.held.length} bytes written by the call are still in the output buffer when it returns"
      let v :=
        if st.vt.ps ≠ .ground then ["output ends inside an escape sequence"]
        else if restoredOk st.vt st.vt0 then [] else
          let c := checkRestored what st.vt st.vt0
          if c.isEmpty then ["restored: specification predicate false"] else c
      "; ".intercalate (g ++ h ++ v)
    else
      -- running: the bytes still buffered count (the program's next flush sends them)
      let vt := st.vt.feed obs.held
      let rgb8 := capOf obs.ctl
      let v :=
        if vt.ps ≠ .ground then ["output ends inside an escape sequence"]
        else if modesShown vt.modes st.lg && penShown rgb8 vt.attrs st.lg.pen then [] else
          let c := checkRunning rgb8 vt st.lg
          if c.isEmpty then ["running: specification predicate false"] else c
      "; ".intercalate (g ++ v)

/-! ### the step function -/

def initialModes (opts : List String) : VModes :=
  opts.foldl (init := ({} : VModes)) fun m o =>
    match o.splitOn "=" with
    | ["blink", v] => { m with cursorBlink := v ≠ "0" }
    | ["shape", v] => { m with cursorShape := v.toNat?.getD 0 }
    | ["vis", v] => { m with cursorVisible := v ≠ "0" }
    | _ => m

/-- `buf=N` on the `new` line; a toplevel instance that builds its own terminal gives it a buffer anyway. -/
def bufferOf (kind : String) (opts : List String) : Nat :=
  let n := opts.foldl (init := 0) fun n o =>
    match o.splitOn "=" with
    | ["buf", v] => v.toNat?.getD 0
    | _ => n
  if n = 0 && kind == "tickitb" then Gen.ModeLayout.top_default_bufsize else n

/-- The model's observation of a call that wrote `out` (ending with a flush iff `fl`) and left system `s`;
    the buffer afterwards is empty again (the harness flushes). -/
def callObs (st : St) (s : Sys) (ret : Option Bool) (out : Out) (fl : Bool) : String :=
  let r := st.obuf.call out fl
  modelObs s ret r.2 r.1.pend

/-- Judge the implementation's observation of one call; `st` is the state after the model's and the ghost's step. -/
def judge (st : St) (what : String) (impl : String) (m : String) : St × String × String :=
  match parseImpl impl with
  | none => (st, m, "unparsable implementation observation")
  | some obs =>
    let st1 := capStep st obs
    let st2 := { st1 with vt := st1.vt.feed obs.out, ua := obs.ua }
    let verdict := specAfter st2 what obs
    ({ st2 with vt := st2.vt.feed obs.held }, m, verdict)

def step (_st : St) (ts : List String) (impl : String) : St × String × String :=
  let st := _st
  let cfg := Cfg.tree
  match ts with
  | "new" :: rest =>
    -- a `new` line starts a fresh history (the harness forks a fresh process for it)
    let kind := rest.head?.getD "term"
    let b := Sys.build (kind == "tickit" || kind == "tickitb")
    let m0 := initialModes rest
    -- the driver is started (and its queries flushed) before the output buffer is installed
    -- the mode state at hand-over is a parameter of the history (`vis=0`: the cursor is hidden)
    let st1 : St := { sys := some b.1, vt := { modes := m0 }, vt0 := m0, inContract := m0.handover,
                      lg := Ghost.handover m0,
                      obuf := { cap := bufferOf kind rest } }
    judge st1 "build" impl (modelObs b.1 none b.2 [])
  | _ =>
    match st.sys with
    | none => (st, "dead", "")
    | some sys =>
      if ts = ["unref"] then
        if !st.owner then (st, "bad-op", "") else
        let r := sys.dropOwner st.extra
        let fl := !(sys.top.isNone && st.extra != 0)
        match r.1 with
        | none =>
          let d := st.obuf.call r.2 fl
          let m := s!"ret=- out={natsHex d.2} held={natsHex d.1.pend} gone closed=1"
          judge { st with sys := none, gone := true, owner := false } "destruction" impl m
        | some left =>
          let m := callObs st left none r.2 fl
          -- the toplevel instance is destroyed, the terminal lives on (torn down); a bare terminal just loses a reference
          let st1 := { st with sys := some left, owner := false }
          let st2 := if sys.top.isSome then { st1 with phase := .stopped } else st1
          judge st2 "destruction" impl m
      else if ts = ["termref"] then
        judge { st with extra := st.extra + 1 } "termref" impl (callObs st sys none [] false)
      else if ts = ["termunref"] then
        if st.extra = 0 then (st, "bad-op", "") else
        if st.extra = 1 && !st.owner then
          let d := st.obuf.call sys.destroy true
          let m := s!"ret=- out={natsHex d.2} held={natsHex d.1.pend} gone closed=1"
          judge { st with sys := none, gone := true, extra := 0 } "destruction" impl m
        else judge { st with extra := st.extra - 1 } "termunref" impl (callObs st sys none [] false)
      else
        match parseOp ts with
        | none => (st, "bad-op", "")
        | some op =>
          let r := sys.step cfg op
          if r.bad then (st, "bad-op", "") else
          let m := callObs st r.sys r.ret r.out r.flush
          let st1 := { st with sys := some r.sys }
          match parseImpl impl with
          | none => (st1, m, "unparsable implementation observation")
          | some obs => judge (ghostStep st1 op obs.ret) (ts.head?.getD "?") impl m

def engine : Engine := { σ := St, init := {}, step := step }

end Tickit.Driver.ModesEngine
