import Tickit.Model.Bindings
import Tickit.Model.BindingsRoot
import Tickit.Gen.Bindings
import Tickit.Driver.Common
/-
  Engine `bindings` (C16).  Operations and observations: see `harness/bindings.c`.

  Model side: `Tickit.Bindings.execOp` with the configuration the extractor read from the working
  tree (`Gen.Bindings.skipTomb/wfOneshot/notifyLast`); the observation is the observable part of
  the trace the operation appended.

  Specification side (`Spec`): an *abstract* machine — the list of live bindings in binding order,
  nothing else (no tombstones, no iteration guard) — that reads the implementation's call log token
  by token and checks every clause of C16 on it:
    fire_order, oneshot_at_most_once, no_fire_after_unbind, unbind_notify_once, destroy_notifies,
    live_ids_unique, no_ub (a `CRASH` observation).
-/
namespace Tickit.Driver.BindingsEngine
open Tickit Tickit.Driver Tickit.Bindings

def genCfg : Cfg := ⟨Gen.Bindings.skipTomb, Gen.Bindings.wfOneshot, Gen.Bindings.notifyLast⟩

def flagsOf (n : Nat) : Bool × BFlags :=
  (n % 2 = 1, ⟨n / 2 % 2 = 1, n / 4 % 2 = 1, n / 8 % 2 = 1⟩)

/-- the harness's template pens -/
def tmplOf : Nat → Option Tmpl
  | 0 => some ⟨some true, none, none⟩
  | 1 => some ⟨some false, none, none⟩
  | 2 => some ⟨none, some 3, some 0x102030⟩
  | 3 => some ⟨some true, some 2, none⟩
  | 4 => some ⟨none, some 3, none⟩
  | _ => none

def digit? (c : Char) : Option Nat := if '0' ≤ c ∧ c ≤ '9' then some (c.toNat - '0'.toNat) else none

/-- pen operation codes (see `harness/bindings.c`) -/
def parsePenOp (s : String) : Option PenOp :=
  match s.toList with
  | ['b', v] => (digit? v).map fun d => .setBool (d != 0)
  | 'c' :: rest => (String.ofList rest).toInt?.map .setCol
  | ['k', t, ow] => do
    let t ← digit? t
    let tm ← tmplOf t
    let o ← digit? ow
    some (.copy tm (o == 1))
  | ['a', t] => do
    let t ← digit? t
    let tm ← tmplOf t
    some (.copyAttr tm)
  | 'd' :: rest => (String.ofList rest).toInt?.map fun n => .desc n none
  | 'D' :: rest => (String.ofList rest).toInt?.map fun n => .desc n (some 0x112233)
  -- "hi-<n>": the high-intensity colour n + 8, rejected for n > 7
  | 'h' :: rest => (String.ofList rest).toNat?.map fun n => if n > 7 then .rejected else .desc (Int.ofNat n + 8) none
  -- colour names: n0 "red" (1), n1 "hi-red" (9), n2 "grey" (8), n3 "hi-grey" (8: only the first eight have a high-intensity form),
  -- n4 an unknown name (rejected), n5 "blue#112233"
  | ['n', '0'] => some (.desc 1 none)
  | ['n', '1'] => some (.desc 9 none)
  | ['n', '2'] => some (.desc 8 none)
  | ['n', '3'] => some (.desc 8 none)
  | ['n', '4'] => some .rejected
  | ['n', '5'] => some (.desc 4 (some 0x112233))
  | _ => none

def parseAction (s : String) : Option Action :=
  match s.splitOn ":" with
  | ["p", code] => (parsePenOp code).map .pen
  | ["us"] => some .unbindSelf
  | ["d"] => some .destroy
  | ["u", k] => k.toNat?.map .unbind
  | ["e", ev] => ev.toInt?.map .emit
  | ["b", ev, fl, h] => do
    let ev ← ev.toInt?
    let fl ← fl.toNat?
    let h ← h.toNat?
    let (first, bf) := flagsOf fl
    some (.bind ev first bf h)
  | _ => none

abbrev BehTable := List ((Nat × Nat) × Beh)

def behOf (t : BehTable) : Behaviour := fun h n =>
  match t.lookup (h, n) with
  | some b => b
  | none => ⟨[], 0⟩

/-! ### printing the observable part of a trace -/

def showEv : Ev → String
  | .enter key h n fl _ => s!" +{h}.{n}.{key}.{fl}"
  | .leave _ _ r => s!" -{r}"
  | .actBegin i => " {" ++ toString i
  | .actEnd => " }"
  | .bound _ id _ _ _ => s!" ={id}"
  | .unbindReq _ => ""
  | .fire _ _ => ""
  | .occBegin _ _ _ => ""
  | .occEnd _ => ""

/-- is the event part of the application's call log?  (the handlers window.c binds on the terminal are not the harness's) -/
def isUserEv (lib : List Nat) : Ev → Bool
  | .enter key .. => !lib.contains key
  | .leave key .. => !lib.contains key
  | .bound key .. => !lib.contains key
  | _ => true

def showSegment (newLog oldLog : List Ev) (lib : List Nat := []) : String :=
  let seg := (newLog.take (newLog.length - oldLog.length)).reverse
  String.join ((seg.filter (isUserEv lib)).map showEv)

/-! ### the executable specification -/

namespace Spec

structure ABind where
  slot : Nat
  id : Int
  ev : Int
  flags : BFlags
  h : Nat
  /-- bound with `TICKIT_BIND_FIRST` -/
  first : Bool := false
  deriving Repr

/-- the statements of a pen operation as the specification steps through them -/
inductive SStep
  | s (p : PenStep)
  | freeze
  | thaw
  deriving Repr

def regionOf (body : List PenStep) : List SStep := [.freeze] ++ body.map .s ++ [.thaw]

def progOf (op : PenOp) : List SStep := if op.isRegion then regionOf op.body else op.body.map .s

inductive Frame
  /-- an occurrence being delivered: bindings of the snapshot not yet reached, those already run here -/
  | occ (ev : Int) (wf : Bool) (pending : List Nat) (ran : List Nat) (claimed : Bool)
  /-- an unbind request in progress -/
  | unb (slot : Option Nat) (expectNotify : Bool) (notified : Bool)
  /-- destruction in progress: notifications still owed, in order -/
  | des (owed : List Nat)
  /-- a bind waiting for its identifier -/
  | bindw (ev : Int) (first : Bool) (flags : BFlags) (h : Nat)
  | nop
  /-- an operation of the library's own on the owner's bindings (a root window binding or unbinding its handlers on the
      terminal): no handler of the application may be called -/
  | quiet (what : String)
  /-- a pen operation in progress: the statements still to run (occurrences it delivers sit on top of it) -/
  | prog (steps : List SStep)
  /-- a running handler -/
  | inv (slot h n fl : Nat) (acts : List Action) (next : Nat) (ret : Int)
  deriving Repr

structure S where
  live : List ABind := []
  /-- slot → (id returned, handler) -/
  slots : List (Int × Nat) := []
  /-- one-shot slots that have fired -/
  consumed : List Nat := []
  inv : List (Nat × Nat) := []
  stack : List Frame := []
  /-- a handler dropped the last user reference while an emitter holds one: destruction is due when the
      outermost emission ends -/
  pendingDestroy : Bool := false
  /-- the handlers' own reference has been dropped (they drop it once) -/
  dropped : Bool := false
  /-- the owner has been destroyed: handlers take no further action on it -/
  gone : Bool := false
  /-- the pen's attributes, freeze count and pending-change flag, as the specification tracks them -/
  pen : PenSt := {}
  /-- harness bookkeeping: references the harness holds on the root window of the terminal (0: there is none) -/
  rootRefs : Nat := 0
  deriving Repr

def S.invOf (s : S) (h : Nat) : Nat := (s.inv.lookup h).getD 0
def S.bumpInv (s : S) (h : Nat) : S := { s with inv := (h, s.invOf h + 1) :: s.inv.filter (·.1 ≠ h) }
def S.isLive (s : S) (slot : Nat) : Bool := s.live.any (·.slot == slot)
def S.findLive (s : S) (slot : Nat) : Option ABind := s.live.find? (·.slot == slot)
def S.removeLive (s : S) (slot : Nat) : S := { s with live := s.live.filter (·.slot != slot) }

inductive Tok
  | enter (h n slot fl : Nat)
  | leave (r : Int)
  | abegin (i : Nat)
  | aend
  | ident (id : Int)
  | bad (s : String)
  deriving Repr

def parseTok (t : String) : Tok :=
  if t = "}" then .aend
  else match t.toList with
    | '+' :: rest =>
      match ((String.ofList rest).splitOn ".").map String.toNat? with
      | [some h, some n, some slot, some fl] => .enter h n slot fl
      | _ => .bad t
    | '-' :: rest => match (String.ofList rest).toInt? with
      | some r => .leave r
      | none => .bad t
    | '{' :: rest => match (String.ofList rest).toNat? with
      | some i => .abegin i
      | none => .bad t
    | '=' :: rest => match (String.ofList rest).toInt? with
      | some r => .ident r
      | none => .bad t
    | _ => .bad t

/-- Begin an abstract operation (top-level or a handler's action): push its context frame. -/
def beginUnbindId (s : S) (id : Int) : S :=
  match s.live.find? (·.id == id) with
  | none => { s with stack := .unb none false false :: s.stack }
  | some b => { (s.removeLive b.slot) with stack := .unb (some b.slot) b.flags.unbind false :: s.stack }

def beginUnbindSlot (s : S) (slot : Nat) : S :=
  match s.slots[slot]? with
  | none => { s with stack := .nop :: s.stack }
  | some (id, _) => beginUnbindId s id

/-- Run the statements of the pen operation on top of the stack up to (and including) the next one that emits the
    change event: then an occurrence frame is pushed.  A change inside a frozen region is only remembered; the region's
    `thaw` delivers one batched occurrence iff something was remembered. -/
def advance : Nat → S → S
  | 0, s => s
  | fuel + 1, s =>
    match s.stack with
    | .prog (step :: rest) :: below =>
      let p := s.pen
      let emit (p' : PenSt) (rest' : List SStep) : S :=
        { s with pen := p', stack := .occ 1 false ((s.live.filter (·.ev == 1)).map (·.slot)) [] false :: .prog rest' :: below }
      let go (p' : PenSt) (rest' : List SStep) : S := advance fuel { s with pen := p', stack := .prog rest' :: below }
      let changed (p' : PenSt) : S := if p'.freeze = 0 then emit p' rest else go { p' with changed := true } rest
      match step with
      | .s (.setBool v) => changed { p with bold := some v }
      | .s (.setCol n) => emit { p with fg := some n, rgb := none } rest
      | .s (.setRgb r) => if p.fg.isSome then changed { p with rgb := some r } else go p rest
      | .freeze => go { p with freeze := p.freeze + 1 } rest
      | .thaw =>
        if p.freeze = 0 then go p rest
        else if p.freeze = 1 && p.changed then emit { p with freeze := 0, changed := false } rest
        else go { p with freeze := p.freeze - 1 } rest
      | .s (.copyAttrFg t) => go p (regionOf (attrFgBody t) ++ rest)
      | .s (.loopFg t ow) => if loopCopiesFg p t ow then go p (regionOf (attrFgBody t) ++ rest) else go p rest
      | .s (.loopBold t ow) => if loopCopiesBold p t ow then changed { p with bold := some (t.bold.getD false) } else go p rest
    | _ => s

def beginPen (s : S) (steps : List SStep) : S :=
  advance 64 { s with stack := .prog steps :: s.stack }

def beginEmit (own : Owner) (s : S) (ev : Int) : S :=
  if own.canEmit ev then
    match own.penEmitFg with
    | some n => beginPen s [.s (.setCol n)]
    | none => { s with stack := .occ ev (own.wf ev) ((s.live.filter (·.ev == ev)).map (·.slot)) [] false :: s.stack }
  else { s with stack := .nop :: s.stack }

def asked (b : ABind) : Bool := b.ev == 0 || b.flags.unbind || b.flags.destroy

def owedAtDestroy (s : S) : List Nat := (s.live.reverse.filter asked).map (·.slot)

def beginDestroy (s : S) : S :=
  { s with stack := .des (owedAtDestroy s) :: s.stack }

def Frame.isOcc : Frame → Bool
  | .occ .. => true
  | _ => false

/-- Close the context frame on top of the stack; error text or the new state. -/
def closeCtx1 (s : S) : Except String S :=
  match s.stack with
  | .occ _ _ pending _ claimed :: rest =>
    match (if claimed then none else pending.find? s.isLive) with
    | some k => .error s!"fire_order: binding of slot {k} was live for the whole occurrence and never ran"
    | none =>
      -- the outermost emission ends: a destruction that was waiting for it happens now
      if s.pendingDestroy && !(rest.any Frame.isOcc) then
        match owedAtDestroy s with
        | k :: _ => .error s!"destroy_notifies: slot {k} was owed a destroy notification"
        | [] => .ok { s with stack := rest, live := [], pendingDestroy := false, gone := true }
      else .ok { s with stack := rest }
  | .unb (some k) true false :: _ => .error s!"unbind_notify_once: slot {k} asked for an unbind notification and got none"
  | .unb _ _ _ :: rest => .ok { s with stack := rest }
  | .des (k :: _) :: _ => .error s!"destroy_notifies: slot {k} was owed a destroy notification"
  | .des [] :: rest => .ok { s with stack := rest, live := [], gone := true }
  | .bindw .. :: _ => .error "bind returned no identifier"
  | .nop :: rest => .ok { s with stack := rest }
  | .quiet _ :: rest => .ok { s with stack := rest }
  | .inv .. :: _ => .error "malformed log: handler still running at the end of its context"
  | .prog _ :: _ => .error "malformed log: pen operation"
  | [] => .error "malformed log: no open context"

/-- Close the context on top of the stack; a pen operation is closed by running it to its end, every occurrence it
    still delivers having to find no live binding. -/
def closeCtxN : Nat → S → Except String S
  | 0, _ => .error "malformed log: pen operation does not end"
  | fuel + 1, s =>
    match s.stack with
    | .occ .. :: .prog _ :: _ =>
      match closeCtx1 s with
      | .error e => .error e
      | .ok s1 => closeCtxN fuel (advance 64 s1)
    | .prog [] :: rest => .ok { s with stack := rest }
    | .prog _ :: rest => if s.gone then .ok { s with stack := rest } else closeCtxN fuel (advance 64 s)
    | .des _ :: .prog _ :: _ =>
      -- the owner was destroyed at the end of the operation's last occurrence: nothing of the operation is left to run
      match closeCtx1 s with
      | .error e => .error e
      | .ok s1 => closeCtxN fuel s1
    | _ => closeCtx1 s

def closeCtx (s : S) : Except String S := closeCtxN 32 s

def stepTok (own : Owner) (beh : Behaviour) (s : S) (t : Tok) : Except String S :=
  match t with
  | .bad x => .error s!"unparsable token {x}"
  | .enter h n slot fl =>
    match s.slots[slot]? with
    | none => .error s!"handler called for slot {slot}, which no bind created"
    | some (_, h') =>
      if h' ≠ h then .error s!"slot {slot} was bound to handler {h'} but handler {h} ran"
      else if s.invOf h ≠ n then .error "malformed log: invocation counter"
      else
        let s := s.bumpInv h
        let b := beh h n
        let destroying := fl / 4 % 2 = 1
        let frame := Frame.inv slot h n fl (if destroying then [] else b.acts) 0 b.ret
        -- a deferred destruction starts when the outermost emission has ended
        let sOrErr : Except String S :=
          match s.stack with
          | .occ _ _ pending _ claimed :: rest =>
            if destroying && s.pendingDestroy && !(rest.any Frame.isOcc) then
              match (if claimed then none else pending.find? s.isLive) with
              | some k => .error s!"fire_order: binding of slot {k} was live for the whole occurrence and never ran"
              | none => .ok { s with stack := .des (owedAtDestroy s) :: rest, pendingDestroy := false }
            else .ok s
          | _ => .ok s
        -- a pen operation may deliver several occurrences one after the other: a binding that already ran in the current
        -- one starts the next one, if one is due
        let sOrErr : Except String S :=
          match sOrErr with
          | .error e => .error e
          | .ok s =>
            match s.stack with
            | .occ _ _ pending ran _ :: .prog _ :: _ =>
              -- …and so does a binding put at the head of the chain during the current one (the walker is past it)
              let aheadOfWalker := match s.findLive slot with
                | some ab => ab.first && !pending.contains slot
                | none => false
              if !destroying && (ran.contains slot || aheadOfWalker) then
                match closeCtx1 s with
                | .error e => .error e
                | .ok s1 =>
                  let s2 := advance 64 s1
                  match s2.stack with
                  | .occ .. :: _ => .ok s2
                  | _ => .error s!"fire_order: slot {slot} ran again in one occurrence of the change event (no further occurrence is due)"
              else .ok s
            | .prog _ :: _ => .error s!"fire_order: slot {slot} ran although no occurrence of the change event is due (nothing changed)"
            | _ => .ok s
        match sOrErr with
        | .error e => .error e
        | .ok s =>
        match s.stack with
        | .occ ev wf pending ran claimed :: rest =>
          if claimed then .error s!"fire_order: slot {slot} ran after an earlier handler had claimed the event"
          else if ran.contains slot then .error s!"fire_order: slot {slot} ran twice in one occurrence"
          else match s.findLive slot with
            | none =>
              if s.consumed.contains slot then .error s!"oneshot_at_most_once: one-shot binding of slot {slot} ran again"
              else .error s!"no_fire_after_unbind: slot {slot} ran after it was unbound"
            | some ab =>
              if ab.ev ≠ ev then .error s!"slot {slot} is bound to event {ab.ev} but ran for event {ev}"
              else
                let before := pending.takeWhile (· != slot)
                let inSnap := pending.contains slot
                match (if inSnap then before.find? s.isLive else none) with
                | some k => .error s!"fire_order: slot {slot} ran before the live binding of slot {k} that precedes it"
                | none =>
                  if !inSnap && ab.first then
                    .error s!"fire_order: slot {slot}, bound FIRST during this occurrence, ran in it: the walker was already past the head of the chain"
                  else
                  let pending' := if inSnap then (pending.dropWhile (· != slot)).drop 1 else pending
                  if ab.flags.oneshot then
                    if fl ≠ 3 then .error s!"oneshot_at_most_once: one-shot binding of slot {slot} ran with flags {fl}, not FIRE|UNBIND, and stays bound"
                    else .ok { (s.removeLive slot) with
                               consumed := slot :: s.consumed,
                               stack := frame :: .occ ev wf pending' (slot :: ran) claimed :: rest }
                  else if fl ≠ 1 then .error s!"slot {slot} ran with flags {fl}, expected FIRE"
                  else .ok { s with stack := frame :: .occ ev wf pending' (slot :: ran) claimed :: rest }
        | .unb (some k) expect notified :: rest =>
          if k ≠ slot then .error s!"unbind of slot {k} called the handler of slot {slot}"
          else if !expect then .error s!"unbind_notify_once: slot {slot} did not ask for an unbind notification"
          else if notified then .error s!"unbind_notify_once: slot {slot} notified twice"
          else if fl ≠ 2 then .error s!"unbind notification of slot {slot} has flags {fl}"
          else .ok { s with stack := frame :: .unb (some k) expect true :: rest }
        | .unb none _ _ :: _ => .error s!"unbind_notify_once: an unbind request that matched no live binding notified slot {slot} (already unbound: notified again)"
        | .des (k :: owed) :: rest =>
          if k ≠ slot then .error s!"destroy_notifies: slot {slot} notified where slot {k} was due"
          else if fl ≠ 6 then .error s!"destroy notification of slot {slot} has flags {fl}"
          else .ok { (s.removeLive slot) with stack := frame :: .des owed :: rest }
        | .des [] :: _ => .error s!"destroy_notifies: slot {slot} notified but nothing (more) was owed"
        | .quiet what :: _ =>
          if s.isLive slot then
            .error s!"unbind_notify_once: the live binding of slot {slot} was called with flags {fl} during {what}: nobody asked for it to be unbound (or run)"
          else .error s!"handler of slot {slot}, which is not bound, called with flags {fl} during {what}"
        | _ => .error s!"handler of slot {slot} called where no call can come from"
  | .leave r =>
    match s.stack with
    | .inv slot _ _ _ acts next ret :: rest =>
      if next ≠ acts.length && !s.gone then .error "malformed log: handler returned before its actions were done"
      else if r ≠ ret then .error s!"malformed log: handler of slot {slot} returned {r}"
      else match rest with
        | .occ ev wf pending ran _ :: rest' =>
          .ok { s with stack := .occ ev wf pending ran (wf && r != 0) :: rest' }
        | _ => .ok { s with stack := rest }
    | _ => .error "malformed log: return without a running handler"
  | .abegin i =>
    match s.stack with
    | .inv slot h n fl acts next ret :: rest =>
      if i ≠ next then .error "malformed log: action index"
      else match acts[i]? with
        | none => .error "malformed log: action index out of range"
        | some a =>
          let s := { s with stack := .inv slot h n fl acts (next + 1) ret :: rest }
          match a with
          | .bind ev first flags h' => .ok { s with stack := .bindw ev first flags h' :: s.stack }
          | .unbind k => .ok (beginUnbindSlot s k)
          | .unbindSelf => .ok (beginUnbindSlot s slot)
          | .emit ev => .ok (beginEmit own s ev)
          | .pen op => .ok (beginPen s (progOf op))
          | .destroy =>
            -- inside an emission of an owner whose emitters hold a reference the destruction waits for the end of
            -- the outermost emission; otherwise it happens here and now
            if s.dropped then .ok { s with stack := .nop :: s.stack }
            else if own.holdsRef && s.stack.any Frame.isOcc then
              .ok { s with dropped := true, pendingDestroy := true, stack := .nop :: s.stack }
            else .ok (beginDestroy { s with dropped := true })
    | _ => .error "malformed log: action outside a handler"
  | .aend => closeCtx s
  | .ident id =>
    match s.stack with
    | .bindw ev first flags h :: rest =>
      if id ≤ 0 then .error s!"live_ids_unique: bind returned the identifier {id}"
      else if s.live.any (·.id == id) then .error s!"live_ids_unique: bind returned {id}, which a live binding already has"
      else
        let ab : ABind := ⟨s.slots.length, id, ev, flags, h, first⟩
        .ok { s with live := if first then ab :: s.live else s.live ++ [ab],
                     slots := s.slots ++ [(id, h)], stack := .nop :: rest }
    | _ => .error "malformed log: identifier without a bind"

def runToks (own : Owner) (beh : Behaviour) : S → List Tok → Except String S
  | s, [] => .ok s
  | s, t :: rest => match stepTok own beh s t with
    | .ok s' => runToks own beh s' rest
    | .error e => .error e

/-- One top-level operation checked against the implementation's observation tokens. -/
def checkOp (own : Owner) (beh : Behaviour) (s : S) (begin : S → S) (toks : List String) : Except String S :=
  match runToks own beh (begin { s with stack := [] }) (toks.map parseTok) with
  | .error e => .error e
  | .ok s' =>
    match closeCtx s' with
    | .error e => .error e
    | .ok s'' => if s''.stack.isEmpty then .ok s'' else .error "malformed log: unbalanced"

end Spec

/-! ### driver state -/

inductive Status
  | fresh | run | dead | broken (why : String)
  deriving Repr

structure DSt where
  kind : Nat := 0          -- 1 pen, 2 term, 3 twin (terminal with root windows coming and going), 4 win (root window)
  /-- twin: the root window on the terminal -/
  root : Option Root := none
  libKeys : List Nat := []
  behs : BehTable := []
  st : St := St.init
  status : Status := .fresh
  spec : Spec.S := {}
  specBroken : Bool := false
  /-- twin: the application has unbound a binding of the root window's (it handed `unbind` a stale identifier of its own that
      window.c had since been given): from here on the history is outside the assumption `Intact`; model and code are still
      compared, the specification is no longer evaluated -/
  outside : Bool := false

def ownerOf (k : Nat) : Owner :=
  if k = 1 then { Owner.pen with holdsRef := Gen.Bindings.penEmitterRef }
  else if k = 4 then Owner.win
  else { Owner.term with holdsRef := Gen.Bindings.termEmitterRef }

def FUEL : Nat := 1000000

def parseRootOp (ts : List String) : Option WOp :=
  match ts with
  | ["rootnew"] => some .rootNew
  | ["rootref"] => some .rootRef
  | ["rootunref"] => some .rootUnref
  | ["rootclose"] => some .rootClose
  | _ => none

def parseOp (ts : List String) : Option Op :=
  match ts with
  | ["bind", ev, fl, h] => do
    let ev ← ev.toInt?
    let fl ← fl.toNat?
    let h ← h.toNat?
    let (first, bf) := flagsOf fl
    some (.bind ev first bf h)
  | ["unbind", k] => k.toNat?.map .unbind
  | ["unbindid", id] => id.toInt?.map .unbindId
  | ["emit", ev] => ev.toInt?.map .emit
  | ["pen", code] => (parsePenOp code).map .pen
  | ["destroy"] => some .destroy
  | _ => none

def specBegin (own : Owner) (op : Op) (s : Spec.S) : Spec.S :=
  match op with
  | .bind ev first flags h => { s with stack := .bindw ev first flags h :: s.stack }
  | .unbind k => Spec.beginUnbindSlot s k
  | .unbindId id => Spec.beginUnbindId s id
  | .emit ev => Spec.beginEmit own s ev
  | .pen op => Spec.beginPen s (Spec.progOf op)
  | .destroy => Spec.beginDestroy s

def step (d : DSt) (ts : List String) (impl : String) : DSt × String × String :=
  match ts with
  | ["new", k] =>
    let kind := if k = "pen" then 1 else if k = "twin" then 3 else if k = "win" then 4 else 2
    ({ kind := kind, status := .run }, "ok", if impl = "ok" then "" else "harness could not create the owner")
  | "beh" :: h :: n :: ret :: acts =>
    match d.status, h.toNat?, n.toNat?, ret.toInt?, acts.mapM parseAction with
    | .fresh, _, _, _, _ => (d, "bad-op", "")
    | _, some h, some n, some ret, some as =>
      -- with a root window about, dropping the handlers' reference from inside a handler is not driven
      if h < 16 ∧ n < 12 ∧ as.length ≤ 8 ∧ (d.kind ≥ 3 → Action.destroy ∉ as) then
        let crashed := impl.startsWith "CRASH"
        ({ d with behs := ((h, n), ⟨as, ret⟩) :: d.behs }, "ok", if crashed then "no_ub: the implementation crashed earlier in this history" else "")
      else (d, "bad-op", "")
    | _, _, _, _, _ => (d, "bad-op", "")
  | _ =>
    match d.status with
    | .fresh => (d, "bad-op", "")
    | .dead => (d, "dead", if impl = "dead" then "" else "no_ub: the implementation crashed earlier in this history")
    | .broken _ => (d, "ub", "no_ub: the implementation crashed earlier in this history")
    | .run =>
      let wop? : Option WOp := match parseOp ts with
        | some op => some (.base op)
        | none => if d.kind = 3 then parseRootOp ts else if d.kind = 4 ∧ ts = ["rootclose"] then some .rootClose else none
      match wop? with
      | none => (d, "bad-op", "")
      | some wop =>
        let own := ownerOf d.kind
        let beh := behOf d.behs
        -- model
        let (d1, mobs) :=
          if d.kind = 3 then
            match execW genCfg own beh FUEL wop { st := d.st, root := d.root, libKeys := d.libKeys } with
            | .ok w' =>
              -- did an operation of the application's (not the root window's own) unbind one of the root window's bindings?
              let seg := w'.st.log.take (w'.st.log.length - d.st.log.length)
              let foreign := (match wop with | .base .destroy => false | .base _ => true | _ => false) &&
                seg.any (fun e => match e with | .unbindReq k => d.libKeys.contains k | _ => false)
              ({ d with st := w'.st, root := w'.root, libKeys := w'.libKeys, outside := d.outside || foreign,
                        status := if wop = .base .destroy || w'.st.dead then .dead else .run },
               "log" ++ showSegment w'.st.log d.st.log w'.libKeys)
            | .ub w => ({ d with status := .broken w }, "ub:" ++ w.replace " " "_")
            | .outOfFuel => ({ d with status := .broken "fuel" }, "out-of-fuel")
          else match wop with
          | .base op =>
            (match execOp genCfg own beh FUEL op d.st with
            | .ok st' =>
              ({ d with st := st', status := if op = Op.destroy || st'.dead then .dead else .run }, "log" ++ showSegment st'.log d.st.log)
            | .ub w => ({ d with status := .broken w }, "ub:" ++ w.replace " " "_")
            | .outOfFuel => ({ d with status := .broken "fuel" }, "out-of-fuel"))
          -- win: `tickit_window_close` of the owner only sets `is_closed` (a root window has no parent): its bindings stay
          | .rootClose => (d, "log")
          | _ => (d, "bad-op")
        -- specification, on the implementation's observation
        let begin : Spec.S → Spec.S := match wop with
          | .base op => specBegin own op
          -- a root window takes three slots of the harness's numbering (no handler of the application's behind them)
          | .rootNew => fun s =>
            let s := if s.rootRefs = 0 then { s with slots := s.slots ++ [(0, LIB_H), (0, LIB_H + 1), (0, LIB_H + 2)], rootRefs := 1 } else s
            { s with stack := .quiet "tickit_window_new_root" :: s.stack }
          | .rootRef => fun s =>
            { s with rootRefs := if s.rootRefs = 0 then 0 else s.rootRefs + 1, stack := .quiet "tickit_window_ref of the root window" :: s.stack }
          | .rootUnref => fun s =>
            { s with rootRefs := s.rootRefs - 1, stack := .quiet "tickit_window_unref of the root window" :: s.stack }
          | .rootClose => fun s => { s with stack := .quiet "tickit_window_close of the root window" :: s.stack }
        let itoks := toks impl
        let (spec', verdict) :=
          if d.specBroken || d.outside then (d.spec, "")
          else match itoks with
            | "log" :: rest =>
              match Spec.checkOp own beh d.spec begin rest with
              | .ok s' => (s', "")
              | .error e => (d.spec, e)
            | "CRASH" :: _ => (d.spec, "no_ub: the implementation crashed (sanitizer abort or signal) during this operation")
            | _ => (d.spec, "unexpected observation")
        ({ d1 with spec := spec', specBroken := d.specBroken || verdict ≠ "" }, mobs, verdict)

def engine : Engine := { σ := DSt, init := {}, step := step }

end Tickit.Driver.BindingsEngine
