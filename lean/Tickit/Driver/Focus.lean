import Tickit.Model.WinFocus
import Tickit.Proof.WinFocus
import Tickit.Proof.WinFocusReq
import Tickit.Driver.Common
import Tickit.Gen.WinFocusSrc
/-
  Engine `focus` (C15).  Operations and observation format: see harness/focus.c.
  The model observation is printed from the model state; the specification verdict is `cursorSpec` evaluated on the
  tree *parsed from the implementation's observation* and compared with the implementation's terminal cursor
  (after every `flush`; in the `newmock` configuration that is what the library's mock terminal reports), plus the order
  clauses on the implementation's focus-event log (after every `focus`), plus "the root window has the terminal's size"
  after every `termsize`.
-/
namespace Tickit.Driver.FocusEngine
open Tickit Tickit.Driver Tickit.WinTree Tickit.WinFocus

structure St where
  tree : Tree := {}
  term : TermCursor := {}
  live : Bool := false                    -- a history has begun
  origParent : Array (Option Id) := #[]   -- parent at creation (survives `close`, which clears `parent`)
  dead : Bool := false                    -- the model reached `ub`: the rest of the history is not modelled
  mock : Bool := false                    -- the history runs on the library's mock terminal (`newmock`)
  tl : Int := 0                           -- the terminal's size (`tickit_term_get_size`), which the root window follows
  tc : Int := 0
  prev : String := ""                     -- the implementation's previous observation line
  reqs : List (Change × Id) := []         -- the restacking requests made since the last flush, oldest first (from the operation lines)
deriving Inhabited

/-! ### printing -/

def showOptId : Option Id → String
  | none => "~"
  | some i => toString i

def b01 (b : Bool) : String := if b then "1" else "0"

def showEvent (e : Event) : String :=
  (match e.type with | .focusIn => "I" | .focusOut => "O") ++ toString e.target ++ ">" ++ toString e.win

def showEvents (es : List Event) : String :=
  if es.isEmpty then "~" else ",".intercalate (es.map showEvent)

def showCall : TermCall → String
  | .goto l c => s!"g{l}.{c}"
  | .vis v => s!"v{v}"
  | .shape s => s!"s{s}"
  | .blink b => s!"b{b}"

def showCalls (cs : List TermCall) : String :=
  if cs.isEmpty then "~" else ",".intercalate (cs.map showCall)

def showRects (rs : List Rect) : String :=
  if rs.isEmpty then "~" else ";".intercalate (rs.map fun r => s!"{r.top},{r.left},{r.lines},{r.cols}")

def dumpWin (id : Id) (w : Win) : String :=
  let kids := if w.children.isEmpty then "~" else ".".intercalate (w.children.map toString)
  s!"w{id}:{showOptId w.parent}:{b01 w.isVisible}{b01 w.isFocused}{b01 w.focusChildNotify}{b01 w.stealInput}:" ++
  s!"{w.rect.top},{w.rect.left},{w.rect.lines},{w.rect.cols}:" ++
  s!"{w.cursor.line},{w.cursor.col},{w.cursor.shape},{b01 w.cursor.visible},{w.cursor.blink}:" ++
  s!"{showOptId w.focusedChild}:{kids}"

def showTerm (c : TermCursor) : String := s!"C={c.vis},{c.line},{c.col},{c.shape},{c.blink}"

def showState (st : St) (evs : List Event) (exposed : List Rect) (calls : List TermCall) : String :=
  let ws := (List.range st.tree.wins.size).filterMap fun i =>
    match st.tree.wins[i]? with
    | some w => if w.freed then none else some (dumpWin i w)
    | none => none
  " ".intercalate ([s!"ok E={showEvents evs} X={showRects exposed} L={showCalls calls}", showTerm st.term] ++ ws)

/-! ### parsing the implementation's observation -/

def parseOptId (s : String) : Option (Option Id) :=
  if s = "~" then some none else s.toNat?.map some

def parseBit (c : Char) : Option Bool :=
  if c = '1' then some true else if c = '0' then some false else none

def parseWin (tok : String) : Option (Id × Win) := do
  guard (tok.startsWith "w")
  match (tok.drop 1).toString.splitOn ":" with
  | [ids, par, flags, rect, cur, fc, kids] =>
    let id ← ids.toNat?
    let parent ← parseOptId par
    let (v, f, n, s) ← match flags.toList with
      | [a, b, c, d] => do pure (← parseBit a, ← parseBit b, ← parseBit c, ← parseBit d)
      | _ => none
    let r ← ints? (rect.splitOn ",")
    let c ← ints? (cur.splitOn ",")
    let focusedChild ← parseOptId fc
    let children ← if kids = "~" then some [] else (kids.splitOn ".").mapM (·.toNat?)
    match r, c with
    | [t, l, ln, cl], [cline, ccol, shape, cvis, blink] =>
      pure (id, { parent := parent, children := children, focusedChild := focusedChild,
                  rect := ⟨t, l, ln, cl⟩,
                  cursor := { line := cline, col := ccol, shape := shape, visible := cvis ≠ 0, blink := blink },
                  isRoot := id = 0, isVisible := v, isFocused := f, focusChildNotify := n, stealInput := s })
    | _, _ => none
  | _ => none

structure ImplObs where
  events : String
  calls : String
  term : TermCursor
  tree : Tree

/-- Parse an implementation observation line into the observed tree (windows the dump does not list are freed
    slots) and the terminal cursor. -/
def parseImpl (line : String) : Option ImplObs := do
  let ts := toks line
  guard (ts.head? = some "ok")
  let ev ← (ts.find? (·.startsWith "E=")).map (fun s => (s.drop 2).toString)
  let lg ← (ts.find? (·.startsWith "L=")).map (fun s => (s.drop 2).toString)
  let cs ← ts.find? (·.startsWith "C=")
  let term ← match ints? ((cs.drop 2).toString.splitOn ",") with
    | some [v, l, c, s, b] => some ({ vis := v, line := l, col := c, shape := s, blink := b } : TermCursor)
    | _ => none
  let ws ← (ts.filter (·.startsWith "w")).mapM parseWin
  let size := ws.foldl (fun m (i, _) => max m (i + 1)) 0
  let blank : Win := { freed := true }
  let arr := ws.foldl (fun (a : Array Win) (i, w) => a.setIfInBounds i w) (Array.replicate size blank)
  pure { events := ev, calls := lg, term := term, tree := { wins := arr } }

def showSpecVal : Option (Int × Int × Int) → String
  | none => "hidden"
  | some (l, c, s) => s!"visible at {l},{c} shape {s}"

/-- First ancestor-or-self of `win` that is not visible. -/
def firstInvisible (t : Tree) : Nat → Id → Option Id
  | 0, _ => none
  | fuel + 1, win =>
    match t.wins[win]? with
    | some w => if !w.isVisible then some win else match w.parent with
      | some p => firstInvisible t fuel p
      | none => none
    | none => none

/-- Why the specification wants the cursor hidden. -/
def whyHidden (t : Tree) : String :=
  let e := chainEnd t (treeFuel t) 0
  match t.wins[e]? with
  | none => s!"no window {e}"
  | some w =>
    let (al, ac) := absCell t (treeFuel t) e w.cursor.line w.cursor.col
    if !w.isFocused then s!"window {e} at the end of the focus chain is not focused"
    else match firstInvisible t (treeFuel t) e with
      | some i => s!"window {i} is not visible"
      | none =>
        if !w.cursor.visible then s!"the cursor of window {e} is disabled"
        else if !insideAll t (treeFuel t) e w.cursor.line w.cursor.col then
          s!"the cursor cell of window {e} is outside the window or an ancestor"
        else s!"cell {al},{ac} belongs to window {showOptId (owner t al ac)}, not to {e}"

/-- The cursor clause, evaluated on the implementation's observation after a flush. -/
def specFlush (o : ImplObs) (calls : String) : String :=
  let want := cursorSpec o.tree
  if o.term.matches want then ""
  else
    let w := match want with
      | none => s!"hidden ({whyHidden o.tree})"
      | some (l, c, s) => s!"visible at {l},{c} shape {s} (window {chainEnd o.tree (treeFuel o.tree) 0})"
    let how := if calls = "~" then " (the flush made no terminal call)" else ""
    s!"cursor after flush is vis={o.term.vis} pos={o.term.line},{o.term.col} shape={o.term.shape}{how}; specification: {w}"

def showChange : Change → String
  | .raise => "raise"
  | .raiseFront => "raisefront"
  | .lower => "lower"
  | .lowerBack => "lowerback"
  | _ => "?"

def showKids (cs : List Id) : String := if cs.isEmpty then "~" else ".".intercalate (cs.map toString)

/-- The cursor clause over restacking requests, evaluated on the implementation's observations before and after a flush:
    the requests made since the last flush take effect in the order they were made, so "not covered by another window" is
    read on the observed tree stacked as the sibling lists found at the flush with the requests applied oldest first
    (`cursorSpecReq`).  Says which window ends up where when the terminal cursor disagrees. -/
def specFlushOrder (before after : ImplObs) (reqs : List (Change × Id)) : String :=
  if reqs.isEmpty then "" else
  let want := cursorSpecReq before.tree after.tree reqs
  if after.term.matches want then ""
  else
    let st := stackApplied before.tree reqs
    let t := withStacking after.tree st
    -- the first window whose sibling list is not what the requests in request order give
    let odd := (List.range after.tree.wins.size).find? fun i =>
      match after.tree.wins[i]?, st.wins[i]? with
      | some a, some b => !a.freed && a.children ≠ b.children
      | _, _ => false
    let stacking := match odd with
      | some i =>
        let a := match after.tree.wins[i]? with | some w => w.children | none => []
        let b := match st.wins[i]? with | some w => w.children | none => []
        let bb := match before.tree.wins[i]? with | some w => w.children | none => []
        s!"; children of window {i} were {showKids bb} at the flush, the requests in request order give {showKids b}, the flush left {showKids a}"
      | none => ""
    let w := match want with
      | none => s!"hidden ({whyHidden t})"
      | some (l, c, s) => s!"visible at {l},{c} shape {s} (window {chainEnd t (treeFuel t) 0})"
    let rs := ", ".intercalate (reqs.map fun (ch, i) => s!"{showChange ch} {i}")
    s!"cursor after flush is vis={after.term.vis} pos={after.term.line},{after.term.col} shape={after.term.shape}; " ++
    s!"specification with the requests [{rs}] applied in the order they were made: {w}{stacking}"

/-- Parse the focus-event log of an observation. -/
def parseEvents (s : String) : Option (List Event) :=
  if s = "~" then some [] else
  (s.splitOn ",").mapM fun e =>
    let ty := if e.startsWith "I" then some FocusType.focusIn else if e.startsWith "O" then some FocusType.focusOut else none
    match ty, (e.drop 1).toString.splitOn ">" with
    | some ty, [a, b] => do pure { target := ← a.toNat?, type := ty, win := ← b.toNat? }
    | _, _ => none

/-- The holder of the focus in a tree: the end of the focus chain, when it is focused. -/
def holder (t : Tree) : Option Id :=
  let e := chainEnd t (treeFuel t) 0
  match t.wins[e]? with
  | some w => if w.isFocused then some e else none
  | none => none

/-- The focus chain from the root as a list of windows (root first). -/
def chainList (t : Tree) : Nat → Id → List Id
  | 0, win => [win]
  | fuel + 1, win =>
    match t.wins[win]? with
    | some w => match w.focusedChild with
      | some c => win :: chainList t fuel c
      | none => [win]
    | none => [win]

/-- The event clause, on the implementation's observations before and after a `focus win`:
    every OUT precedes every IN; the gainer is told IN last; when the holder of the focus changes, the old holder is
    told OUT; windows that asked for child notifications and had / have the old / new holder below them on the
    chain are told OUT / IN. -/
def specFocus (before after : ImplObs) (win : Id) : String :=
  match parseEvents after.events with
  | none => "unparsable event log"
  | some evs =>
    let outs := evs.filter (·.type = .focusOut)
    let ins := evs.filter (·.type = .focusIn)
    -- "told" is truthful: a window told OUT about itself is not focused afterwards, the gainer is
    let focusedAfter (i : Id) : Bool := match after.tree.wins[i]? with | some w => w.isFocused | none => false
    let staleOut := outs.find? fun e => e.target = e.win && e.target ≠ win && focusedAfter e.target
    if evs ≠ outs ++ ins then "an OUT event is delivered after an IN event"
    else if evs.getLast? ≠ some ⟨win, .focusIn, win⟩ then s!"window {win} is not told IN last"
    else if !focusedAfter win then s!"window {win} was told IN but is not focused"
    else if let some e := staleOut then s!"window {e.target} was told OUT but is still focused"
    else
      let hb := holder before.tree
      let ha := holder after.tree
      match hb with
      | some b =>
        if ha ≠ some b ∧ !(outs.contains ⟨b, .focusOut, b⟩) then
          let rel := match ha with
            | some a =>
              if (ancestors before.tree (treeFuel before.tree) b).contains a then s!"its ancestor {a}"
              else if (ancestors after.tree (treeFuel after.tree) a).contains b then s!"its descendant {a}"
              else s!"window {a}"
            | none => "nowhere"
          s!"focus moved from window {b} to {rel} but window {b} was not told OUT"
        else
          if ha ≠ some b then
            -- notify-parents of the old holder that are no longer above the holder, or whose chain child changed
            let cb := chainList before.tree (treeFuel before.tree) 0
            let ca := chainList after.tree (treeFuel after.tree) 0
            let pairsB := cb.zip (cb.drop 1)
            let pairsA := ca.zip (ca.drop 1)
            let missOut := pairsB.find? fun (p, c) =>
              (match before.tree.wins[p]? with | some w => w.focusChildNotify | none => false) &&
              !(pairsA.contains (p, c)) && !(outs.contains ⟨p, .focusOut, c⟩)
            let missIn := pairsA.find? fun (p, c) =>
              (match after.tree.wins[p]? with | some w => w.focusChildNotify | none => false) &&
              !(pairsB.contains (p, c)) && !(ins.contains ⟨p, .focusIn, c⟩)
            match missOut, missIn with
            | some (p, c), _ =>
              (match pairsA.find? (fun (p', _) => p' = p) with
               | some (_, c') => s!"window {p} asked for child notifications; its focused child changed from {c} to {c'} but it was not told OUT for child {c}"
               | none =>
                 if ca.getLast? = some p then s!"window {p} asked for child notifications; it took the focus from its child {c} but was not told OUT for child {c}"
                 else s!"window {p} asked for child notifications but was not told OUT for child {c}")
            | _, some (p, c) => s!"window {p} asked for child notifications but was not told IN for child {c}"
            | _, _ => ""
          else ""
      | none => ""

/-- Operations that must not move the focus: the flush (it applies queued restacking, paints and restores), restacking
    requests, the cursor setters, the notification switch, expose and geometry changes.  (`take_focus` moves it and tells
    the windows; `show`, `hide`, `close`, `unref` relink the chain.)  Theorems: `ChainSame` for these operations in
    Proof/WinFocusReq.lean / WinFocusHist.lean. -/
def keepsFocus (op : String) : Bool :=
  ["flush", "raise", "raisefront", "lower", "lowerback", "curpos", "curvis", "curshape", "curblink", "notify", "expose",
   "exposer", "geom", "repos", "resize", "ref", "termsize"].contains op

/-- The focus did not move silently: the focus chain from the root and the `is_focused` flags along it are what they
    were.  Evaluated on the implementation's observations before and after the operation. -/
def specKeepsFocus (op : String) (before after : ImplObs) : String :=
  let cb := chainList before.tree (treeFuel before.tree) 0
  let ca := chainList after.tree (treeFuel after.tree) 0
  if cb ≠ ca then
    let shw (l : List Id) := "→".intercalate (l.map toString)
    s!"the focus moved during `{op}` without any focus event: focus chain {shw cb} before, {shw ca} after"
  else
    let foc (t : Tree) (i : Id) : Bool := match t.wins[i]? with | some w => w.isFocused | none => false
    match cb.find? (fun i => foc before.tree i ≠ foc after.tree i) with
    | some i => s!"window {i} on the focus chain changed is_focused during `{op}` without any focus event"
    | none => ""

/-- The end of the latent focus chain below (and including) `win`, following the observed `focused_child` links. -/
def latentEnd (t : Tree) : Nat → Id → Id
  | 0, win => win
  | fuel + 1, win =>
    match t.wins[win]? with
    | some w => match w.focusedChild with
      | some c => latentEnd t fuel c
      | none => win
    | none => win

/-- How `show`, `hide`, `close` and a freeing `unref` maintain the focus chain — the rules the property's "focus chain"
    rests on (anchors: tickit_window_show / tickit_window_hide, the REMOVE case of _do_hierarchy_change), evaluated on the
    implementation's observations before and after the operation:
    * no window's `is_focused` changes, and no link but the one of the parent of `win` changes;
    * `hide` / `close` / a freeing `unref` of the window the parent links to drops that link, and only that;
    * `show` relinks the parent to `win` exactly when the parent has no link and `win` carries a link or is focused —
      in particular when the branch below `win` ends in the focused window (then the cursor has to come back).
    This is what makes the chain a function of the history of take-focus / hide / show / close rather than of whatever
    the links happen to be. -/
def specRelink (op : String) (before after : ImplObs) (win : Id) : String :=
  match before.tree.wins[win]? with
  | none => ""
  | some wb =>
    if wb.freed then "" else
    let par := wb.parent
    let gone := match after.tree.wins[win]? with | some wa => wa.freed | none => true
    let lnk (t : Tree) (i : Id) : Option Id := match t.wins[i]? with | some w => if w.freed then none else w.focusedChild | none => none
    let foc (t : Tree) (i : Id) : Bool := match t.wins[i]? with | some w => !w.freed && w.isFocused | none => false
    let live (t : Tree) (i : Id) : Bool := match t.wins[i]? with | some w => !w.freed | none => false
    let ids := (List.range before.tree.wins.size).filter fun i => live before.tree i && live after.tree i
    match ids.find? (fun i => foc before.tree i ≠ foc after.tree i) with
    | some i => s!"`{op} {win}` changed is_focused of window {i} (no focus event is delivered by `{op}`)"
    | none =>
      match ids.find? (fun i => some i ≠ par && lnk before.tree i ≠ lnk after.tree i) with
      | some i => s!"`{op} {win}` changed the focus link of window {i}, which is not the parent of window {win}"
      | none =>
        match par with
        | none => ""
        | some p =>
          if !(live after.tree p) then "" else
          let lb := lnk before.tree p
          let la := lnk after.tree p
          if op = "show" then
            let want := if lb.isNone && ((lnk before.tree win).isSome || foc before.tree win) then some win else lb
            if la = want then ""
            else
              let e := latentEnd before.tree (treeFuel before.tree) win
              if lb.isNone && foc before.tree e then
                s!"`show {win}`: the branch below window {win} ends in the focused window {e} and window {p} has no focused child, " ++
                s!"but window {p} was not linked to window {win}: the focus chain from the root no longer reaches the focused window " ++
                s!"(focused child of window {p} is {showOptId la}, expected {win})"
              else s!"`show {win}`: focused child of window {p} is {showOptId la} afterwards, expected {showOptId want}"
          else if op == "hide" || op == "close" || (op == "unref" && gone) then
            let want := if lb = some win then none else lb
            if la = want then ""
            else s!"`{op} {win}`: focused child of window {p} is {showOptId la} afterwards, expected {showOptId want}"
          else if la = lb then "" else s!"`{op} {win}` changed the focus link of window {p}"

/-- The cursor setters store what they are given: after `curpos w l c` the cursor cell of window `w` is `(l, c)` (the
    property's "its cursor cell" is the cell last set, not whatever the record holds), after `curshape w s` its shape is
    `s`, after `curvis w 0/1` / `curblink w v` the switch reads accordingly; no other window's cursor record changes. -/
def specSetter (op : String) (before after : ImplObs) (win : Id) (args : List Int) : String :=
  let cur (t : Tree) (i : Id) : Option Cursor := match t.wins[i]? with | some w => if w.freed then none else some w.cursor | none => none
  match (List.range after.tree.wins.size).find? (fun i => i ≠ win && cur before.tree i ≠ cur after.tree i) with
  | some i => s!"`{op} {win}` changed the cursor record of window {i}"
  | none =>
    match cur before.tree win, cur after.tree win with
    | some b, some a =>
      match op, args with
      | "curpos", [l, c] =>
        if a = { b with line := l, col := c } then ""
        else s!"after `curpos {win} {l} {c}` the cursor cell of window {win} is {a.line},{a.col} (shape {a.shape}, enabled {a.visible}, blink {a.blink})"
      | "curshape", [v] =>
        if a = { b with shape := v } then "" else s!"after `curshape {win} {v}` the cursor shape of window {win} reads {a.shape}"
      | "curvis", [v] =>
        if v ≠ 0 ∧ v ≠ 1 then "" else
        if a = { b with visible := v = 1 } then "" else s!"after `curvis {win} {v}` the cursor of window {win} reads enabled={a.visible}"
      | "curblink", [v] =>
        if a = { b with blink := if v ≠ 0 then 1 else 0 } then "" else s!"after `curblink {win} {v}` the blink mode of window {win} reads {a.blink}"
      | _, _ => ""
    | _, _ => ""

/-! ### stepping the model -/

def detached (st : St) : Nat → Id → Bool
  | 0, _ => true
  | fuel + 1, id =>
    match st.tree.wins[id]? with
    | none => true
    | some w =>
      if w.isClosed then true
      else match st.origParent[id]? with
        | some (some p) => detached st fuel p
        | _ => false

def hasLiveChildren (st : St) (id : Id) : Bool :=
  (List.range st.tree.wins.size).any fun i =>
    i ≠ id && st.origParent[i]? == some (some id) &&
    (match st.tree.wins[i]? with | some w => !w.freed | none => false)

def liveId (st : St) (id : Id) : Bool :=
  match st.tree.wins[id]? with
  | some w => !w.freed
  | none => false

def changeOf : String → Option Change
  | "raise" => some .raise
  | "raisefront" => some .raiseFront
  | "lower" => some .lower
  | "lowerback" => some .lowerBack
  | _ => none

/-- Result of interpreting one operation on the model. -/
inductive Out where
  | bad
  | ub (what : String)
  | ok (st : St) (evs : List Event) (exposed : List Rect) (calls : List TermCall)

def ofRes (st : St) (r : Res Tree) : Out :=
  match r with
  | .ok t => .ok { st with tree := t } [] [] []
  | .ub w => .ub w

/-- The repairs present in the working tree, as read from the source by the extractor. -/
def fx : Fixes := Tickit.Gen.WinFocusSrc.fixes

def modelOp (st : St) (ts : List String) : Out :=
  let fuel := treeFuel st.tree
  match ts with
  | ["flush"] =>
    if !liveId st 0 then .bad else
    match flush fx st.tree with
    | .ok o =>
      if st.mock then
        -- the mock terminal logs only the goto (clamped to its screen); control changes are read back from its state
        let cs := o.calls.map (TermCall.onMock st.tl st.tc)
        .ok { st with tree := o.tree, term := st.term.applyAll cs } [] o.exposed
          (cs.filter fun c => match c with | .goto _ _ => true | _ => false)
      else .ok { st with tree := o.tree, term := st.term.applyAll o.calls } [] o.exposed o.calls
    | .ub w => .ub w
  | ["termsize", ls, cs] =>
    match ls.toInt?, cs.toInt? with
    | some l, some c =>
      if l < 1 ∨ c < 1 ∨ l > 200 ∨ c > 200 ∨ !liveId st 0 then .bad
      else
        -- `tickit_term_set_size` fires the resize event only when the size changes; `tickit_mockterm_resize` clamps its
        -- cursor position in any case
        let term := if st.mock then st.term.mockResize l c else st.term
        if l = st.tl ∧ c = st.tc then .ok { st with term := term } [] [] []
        else match termResize fx st.tree l c with
          | .ok t => .ok { st with tree := t, term := term, tl := l, tc := c } [] [] []
          | .ub w => .ub w
    | _, _ => .bad
  | "win" :: rest =>
    match ints? rest with
    | some [id, par, t, l, n, c, flags] =>
      let id := id.toNat
      let par' := par.toNat
      if id ≠ st.tree.wins.size ∨ id ≥ 64 ∨ par < 0 ∨ !liveId st par' ∨ detached st fuel par' then .bad
      else
        let f := flags.toNat
        match newWindow st.tree fuel par' ⟨t, l, n, c⟩ (f / 4 % 2 = 1) (f % 2 = 1) (f / 2 % 2 = 1) (f / 8 % 2 = 1) with
        | .ok (tr, nid) =>
          let p := match tr.wins[nid]? with | some w => w.parent | none => none
          .ok { st with tree := tr, origParent := st.origParent.push p } [] [] []
        | .ub w => .ub w
    | _ => .bad
  | op :: ids :: args =>
    match ids.toInt?, ints? args with
    | some idi, some args =>
      let id := idi.toNat
      if idi < 0 ∨ !liveId st id then .bad
      else if op = "unref" ∧ args = [] then
        match st.tree.wins[id]? with
        | some w =>
          if w.refcount = 1 ∧ hasLiveChildren st id then .bad
          else ofRes st (unrefWin fx st.tree id)
        | none => .bad
      else if op = "ref" ∧ args = [] then ofRes st (ref st.tree id)
      else if detached st fuel id then .bad
      else match op, args with
        | "close", [] =>
          if id = 0 then .bad else ofRes st (closeWin fx st.tree id)
        | "show", [] => ofRes st (showWin fx st.tree id)
        | "hide", [] => ofRes st (hideWin fx st.tree id)
        | "expose", [] => ofRes st (expose st.tree fuel id none)
        | "focus", [] =>
          match takeFocus fx st.tree id with
          | .ok (t, evs) => .ok { st with tree := t } evs [] []
          | .ub w => .ub w
        | "curvis", [v] => ofRes st (setCursorVisible st.tree id v)
        | "curshape", [v] => ofRes st (setCursorShape st.tree id v)
        | "curblink", [v] => ofRes st (setCursorBlink st.tree id v)
        | "notify", [v] => ofRes st (setFocusChildNotify st.tree id v)
        | "curpos", [a, b] => ofRes st (setCursorPosition st.tree id a b)
        | "repos", [a, b] => ofRes st (reposition st.tree id a b)
        | "resize", [a, b] => ofRes st (resize st.tree id a b)
        | "geom", [t, l, n, c] =>
          match setGeometry st.tree id ⟨t, l, n, c⟩ with
          | .ok (tr, _) => .ok { st with tree := tr } [] [] []
          | .ub w => .ub w
        | "exposer", [t, l, n, c] => ofRes st (expose st.tree fuel id (some ⟨t, l, n, c⟩))
        | _, [] =>
          match changeOf op with
          | some ch =>
            match requestHierarchyChange st.tree fuel ch id with
            | .ok t => .ok { st with tree := t } [] [] []
            | .ub w => .ub w
          | none => .bad
        | _, _ => .bad
    | _, _ => .bad
  | _ => .bad

/-- Every operation but the two that begin a history. -/
def stepOp (st : St) (ts : List String) (impl : String) : St × String × String :=
  if !st.live then (st, "bad-op", "")
  else if st.dead then (st, "UB (earlier in this history)", "")
  else
    match modelOp st ts with
    | .bad => (st, "bad-op", "")
    | .ub w => ({ st with dead := true }, "UB " ++ w, "")
    | .ok st' evs exposed calls =>
      let m := showState st' evs exposed calls
      let sv :=
        match ts with
        | ["flush"] =>
          (match parseImpl impl with
           | some o =>
             let v := specFlush o o.calls
             if v ≠ "" then v else
             (match parseImpl st.prev with
              | some b => specFlushOrder b o st.reqs
              | none => "")
           | none => if impl.startsWith "ok" then "unparsable implementation observation" else "")
        | ["focus", ids] =>
          (match parseImpl st.prev, parseImpl impl, ids.toNat? with
           | some b, some a, some id => specFocus b a id
           | _, _, _ => if impl.startsWith "ok" then "unparsable implementation observation" else "")
        | ["termsize", ls, cs] =>
          -- the root window follows the terminal (absolute positions are terminal positions only then)
          (match parseImpl impl, ls.toInt?, cs.toInt? with
           | some o, some l, some c =>
             (match o.tree.wins[0]? with
              | some r =>
                if r.rect = ⟨0, 0, l, c⟩ then ""
                else s!"the terminal is {l} x {c} but the root window is {r.rect.lines} x {r.rect.cols} at {r.rect.top},{r.rect.left}"
              | none => "no root window")
           | _, _, _ => if impl.startsWith "ok" then "unparsable implementation observation" else "")
        | _ => ""
      let sv := if sv ≠ "" then sv else
        match ts with
        | [op, ids] =>
          if ["show", "hide", "close", "unref"].contains op then
            (match parseImpl st.prev, parseImpl impl, ids.toNat? with
             | some b, some a, some id => specRelink op b a id
             | _, _, _ => "")
          else ""
        | _ => ""
      let sv := if sv ≠ "" then sv else
        match ts with
        | op :: ids :: args =>
          if ["curpos", "curshape", "curvis", "curblink"].contains op then
            (match parseImpl st.prev, parseImpl impl, ids.toNat?, ints? args with
             | some b, some a, some id, some as => specSetter op b a id as
             | _, _, _, _ => "")
          else ""
        | _ => ""
      let sv := if sv ≠ "" then sv else
        match ts with
        | op :: _ =>
          if keepsFocus op then
            (match parseImpl st.prev, parseImpl impl with
             | some b, some a => specKeepsFocus op b a
             | _, _ => "")
          else ""
        | [] => ""
      -- the hypothesis of the theorems, evaluated on every tree the real library is observed in
      let sv := if sv ≠ "" then sv else
        match parseImpl impl with
        | some o =>
          if !wfB o.tree then "the observed tree violates the store invariant wfB (parent/children consistency, chain_visible)"
          else if !good15B o.tree then "the observed tree violates the structural invariants of Good15 (child lists, root window)"
          else ""
        | none => ""
      -- the requests outstanding at the next flush
      let reqs := match ts with
        | ["flush"] => []
        | [op, ids] => (match changeOf op, ids.toNat? with
          | some ch, some id => st.reqs ++ [(ch, id)]
          | _, _ => st.reqs)
        | _ => st.reqs
      ({ st' with prev := impl, reqs := reqs }, m, sv)

def step (st : St) (ts : List String) (impl : String) : St × String × String :=
  match ts with
  | nw :: rest =>
    if nw = "new" ∨ nw = "newmock" then
      match rest with
      | [ls, cs] =>
        match ls.toInt?, cs.toInt? with
        | some l, some c =>
          if l < 1 ∨ c < 1 ∨ l > 200 ∨ c > 200 then ({}, "bad-op", "")
          else
            let st : St := { tree := newRoot l c, live := true, origParent := #[none], tl := l, tc := c,
                             mock := nw = "newmock", term := if nw = "newmock" then TermCursor.mockInit else {} }
            ({ st with prev := impl }, showState st [] [] [], "")
        | _, _ => ({}, "bad-op", "")
      | _ => ({}, "bad-op", "")
    else stepOp st ts impl
  | [] => stepOp st ts impl

def engine : Engine := { σ := St, init := {}, step := step }

end Tickit.Driver.FocusEngine
