import Tickit.Model.TermBuf
import Tickit.Driver.Common
/-
  Engine `termbuf` (C11).  Operations and observation syntax: see harness/termbuf.c.

  The harness drives two real terminals with the same calls: `main` (buffer size n) and `ref` (never buffered).
  Model observation = what the model predicts for both.  Executable specification (evaluated on the
  *implementation's* observation only — it never looks at the model):

    S1  no `!pipe` / `!null` flag: what write(2) was given is what arrived, and NULL comes only with length 0
    S2  every data chunk of `main` goes to the output function if there is one, else to the descriptor
    S3  concat(all chunks of main so far) is a prefix of concat(all chunks of ref so far)
        — the unbuffered stream; nothing lost, duplicated or reordered
    S4  with a buffer of n > 0 bytes in force, no chunk of `main` is longer than n
    S5  the bytes accepted but not delivered (|ref stream| - |main stream|) number < n  (= 0 when n = 0)
    S6  after flush, pause, teardown, destroy (and after the driver's start-up, which ends with a flush)
        main stream = ref stream: nothing remains pending
  The property fixes the buffer size "while output is pending": a `setbuf` issued while S5's difference is
  non-zero puts the rest of that history outside the property (`excluded`); model and implementation are
  still compared.
-/
namespace Tickit.Driver.TermBufEngine
open Tickit Tickit.Driver Tickit.TermBuf

structure St where
  alive   : Bool := false
  main    : State := {}
  ref     : State := {}
  -- specification state, fed from the implementation's observations only
  useFunc : Bool := false
  useFd   : Bool := false
  n       : Nat := 0
  pend    : Bytes := []     -- unbuffered stream (ref) minus what main has delivered: the bytes that must be pending
  broken  : Bool := false   -- S3 failed earlier in this history: `pend` is meaningless from then on
  excluded : Bool := false

def showChunk : Chunk → String
  | .data .func b => "f:" ++ bytesHex b
  | .data .fd b => "d:" ++ bytesHex b
  | .fin => "f:end"

def showSide (cs : List Chunk) : String :=
  if cs.isEmpty then "." else " ".intercalate (cs.map showChunk)

/-- One side of an implementation observation: chunks and whether a `!` flag was present. -/
def parseSide (ts : List String) : Option (List Chunk × Bool) :=
  ts.foldlM (init := ([], false)) fun (acc : List Chunk × Bool) t =>
    if t = "." then some acc
    else if t = "!pipe" ∨ t = "!null" then some (acc.1, true)
    else if t = "f:end" then some (acc.1 ++ [Chunk.fin], acc.2)
    else if t.startsWith "f:" then (hexBytes? (t.drop 2).toString).map fun b => (acc.1 ++ [Chunk.data .func b], acc.2)
    else if t.startsWith "d:" then (hexBytes? (t.drop 2).toString).map fun b => (acc.1 ++ [Chunk.data .fd b], acc.2)
    else none

def parseObs (line : String) : Option ((List Chunk × Bool) × (List Chunk × Bool)) :=
  match line.splitOn " | " with
  | [a, b] => do
    let x ← parseSide (toks a)
    let y ← parseSide (toks b)
    pure (x, y)
  | _ => none

def dataOf (cs : List Chunk) : List (Dest × Bytes) :=
  cs.filterMap fun c => match c with
    | .data d b => some (d, b)
    | .fin => none

def concatData (cs : List Chunk) : Bytes := (dataOf cs).flatMap (·.2)

inductive Kind where
  | newLate | newEarly | drains | setbuf (m : Nat) | other

/-- `stripPrefix p l = some r` iff `l = p ++ r`. -/
def stripPrefix : Bytes → Bytes → Option Bytes
  | [], l => some l
  | _ :: _, [] => none
  | a :: as, b :: bs => if a == b then stripPrefix as bs else none

/-- The executable specification.  `nDuring` = buffer size in force while the operation ran. -/
def spec (s : St) (kind : Kind) (impl : String) : St × String :=
  if s.excluded then (s, "") else
  if s.broken then (s, "S3: (the delivered stream departed from the unbuffered stream earlier in this history)") else
  match parseObs impl with
  | none => (s, "unparsable implementation observation")
  | some ((mc, mflag), (rc, rflag)) =>
    let pendingBefore := s.pend.length
    let nDuring : Nat := match kind with
      | .newLate => 0
      | _ => s.n
    let nAfter : Nat := match kind with
      | .setbuf m => m
      | _ => s.n
    let checkDest : Bool := match kind with
      | .newLate => false
      | .newEarly => false
      | _ => true
    let wantDest := if s.useFunc then Dest.func else Dest.fd
    let avail := s.pend ++ concatData rc
    match stripPrefix (concatData mc) avail with
    | none =>
      ({ s with broken := true, n := nAfter },
       s!"S3: the bytes delivered by this operation ({(concatData mc).length}) are not the next bytes of the unbuffered stream ({avail.length} outstanding): lost, duplicated or reordered")
    | some pend =>
    let s' := { s with pend := pend, n := nAfter }
    match kind with
    | .setbuf _ =>
      if pendingBefore ≠ 0 then ({ s' with excluded := true }, "")
      else if !(dataOf mc).isEmpty then (s', "S3: set_output_buffer delivered output although nothing was pending")
      else (s', "")
    | _ =>
    if mflag || rflag then (s', "S1: bytes handed to write(2) did not arrive unchanged, or NULL with a length")
    else if checkDest && (dataOf mc).any (fun c => c.1 != wantDest) then (s', "S2: chunk delivered to the wrong output method")
    else if decide (nDuring > 0) && (dataOf mc).any (fun c => decide (c.2.length > nDuring)) then
      (s', s!"S4: a delivered chunk is larger than the buffer ({((dataOf mc).map (·.2.length)).foldl max 0} > {nDuring})")
    else if decide (nAfter = 0) && decide (pend.length ≠ 0) then (s', s!"S5: {pend.length} bytes pending without a buffer")
    else if decide (nAfter > 0) && decide (pend.length ≥ nAfter) then (s', s!"S5: fill level {pend.length} not below the buffer size {nAfter}")
    else match kind with
      | .other => (s', "")
      | .newLate => (s', "")
      | _ => if pend.length ≠ 0 then (s', s!"S6: {pend.length} bytes still pending after a flush point") else (s', "")

def outcomeObs : Outcome → Option State
  | .ok st => some st
  | _ => none

def showOutcome : Outcome → String
  | .ok _ => "ok"
  | .ub w => "ub:" ++ w.replace " " "_"
  | .outOfFuel => "out-of-fuel"

/-- Apply one model operation to both terminals (`setbuf` only to main); observation = new chunks. -/
def both (s : St) (o : Op) (onlyMain : Bool := false) : St × String :=
  let rm := TermBuf.step { s.main with out := [] } o
  let rr := if onlyMain then Outcome.ok { s.ref with out := [] } else TermBuf.step { s.ref with out := [] } o
  match rm, rr with
  | .ok m, .ok r => ({ s with main := m, ref := r }, showSide m.out ++ " | " ++ showSide r.out)
  | _, _ => (s, "model:" ++ showOutcome rm ++ "/" ++ showOutcome rr)

def parseOp (ts : List String) : Option Op :=
  match ts with
  | ["write", h, l] => do
    let b ← hexBytes? h
    let n ← l.toNat?
    if n > b.length then none else pure (.printn (b ++ [0]) n)
  | ["print", h] => (hexBytes? h).map fun b => .print (b ++ [0])
  | ["printf", h, d] => do
    let b ← hexBytes? h
    let i ← int? d
    pure (.printf (b ++ [0]) i)
  | ["title", h] => (hexBytes? h).map fun b => .title (b ++ [0])
  | ["goto", l, c] => do
    let l ← int? l
    let c ← int? c
    pure (.goto l c)
  | ["ctl", "altscreen", v] => (int? v).map fun v => .ctl .altscreen (v ≠ 0)
  | ["ctl", "cursorvis", v] => (int? v).map fun v => .ctl .cursorvis (v ≠ 0)
  | ["flush"] => some .flush
  | ["pause"] => some .pause
  | ["resume"] => some .resume
  | ["teardown"] => some .teardown
  | ["setbuf", n] => n.toNat?.map .setbuf
  | ["destroy"] => some .destroy
  | _ => none

def step (s : St) (ts : List String) (impl : String) : St × String × String :=
  match ts with
  | "new" :: n :: how :: order :: fds =>
    -- descriptor numbers of main and ref; without them: "what pipe(2) returned", some number that is not -1
    let fdnums : Option (Int × Int) := match fds with
      | [] => some (3, 3)
      | [a, b] => match a.toNat?, b.toNat? with
        | some a, some b => if a = b ∨ a ≥ 600 ∨ b ≥ 600 then none else some ((a : Int), (b : Int))
        | _, _ => none
      | _ => none
    match fdnums with
    | none => ({}, "bad-op", "")
    | some (fdm, fdr) =>
    match n.toNat?, (how ∈ ["func", "fd", "both", "none"] : Bool), (order ∈ ["late", "early"] : Bool) with
    | some n, true, true =>
      let f := how = "func" ∨ how = "both"
      let d := how = "fd" ∨ how = "both"
      let early := order = "early"
      match TermBuf.run TermBuf.init (buildOps n f d early fdm), TermBuf.run TermBuf.init (buildOps 0 f d early fdr) with
      | .ok m, .ok r =>
        let s0 : St := { alive := true, main := m, ref := r, useFunc := f, useFd := d, n := n }
        let (s1, v) := spec s0 (if early then .newEarly else .newLate) impl
        (s1, showSide m.out ++ " | " ++ showSide r.out, v)
      | a, b => ({}, "model:" ++ showOutcome a ++ "/" ++ showOutcome b, "")
    | _, _, _ => ({}, "bad-op", "")
  | _ =>
    if !s.alive then (s, "dead", "") else
    match parseOp ts with
    | none => (s, "bad-op", "")
    | some o =>
      let onlyMain := match o with
        | .setbuf _ => true
        | _ => false
      let (s1, m) := both s o onlyMain
      let kind := match o with
        | .flush => Kind.drains
        | .teardown => Kind.drains
        | .pause => Kind.drains
        | .destroy => Kind.drains
        | .setbuf k => Kind.setbuf k
        | _ => Kind.other
      let (s2, v) := spec s1 kind impl
      let s3 := match o with
        | .destroy => { s2 with alive := false }
        | _ => s2
      (s3, m, v)

def engine : Engine := { σ := St, init := {}, step := step }

end Tickit.Driver.TermBufEngine
