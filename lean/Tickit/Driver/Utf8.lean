import Tickit.Model.Utf8
import Tickit.Driver.Common
/-
  Engine `utf8` (C07).  Operations and observations: see harness/utf8.c.
  The model side runs `Tickit.Utf8` (the transcription of utf8.c); the SPEC side evaluates
  `Utf8.specRun` over the characters found by the strict reference decoder `Utf8.refScan` with the
  search-free width `Width.wcwidthSpec`, and compares that with the *implementation's* observation.
-/
namespace Tickit.Driver.Utf8Engine
open Tickit Tickit.Driver Tickit.Utf8

def two64 : Nat := 2 ^ 64

/-- a `size_t` written as a signed decimal -/
def sizeOfInt (i : Int) : Nat := if i < 0 then (two64 - (-i).toNat) else i.toNat

def parseQuad (s : String) : Option (Int × Int × Int × Int) :=
  match (s.splitOn ",").mapM int? with
  | some [b, c, g, col] => some (b, c, g, col)
  | _ => none

def limitOf (q : Int × Int × Int × Int) : Limit :=
  ⟨if q.1 = -1 then none else some (sizeOfInt q.1), q.2.1, q.2.2.1, q.2.2.2⟩

def posOf (q : Int × Int × Int × Int) : Pos := ⟨sizeOfInt q.1, q.2.1, q.2.2.1, q.2.2.2⟩

/-- `-` = NULL -/
def parseLimit (s : String) : Option (Option Limit) :=
  if s = "-" then some none else (parseQuad s).map (fun q => some (limitOf q))

def parseFrom (s : String) : Option (Option Pos) :=
  if s = "-" then some none else (parseQuad s).map (fun q => some (posOf q))

def parseMode (s : String) : Option (Option Nat) :=
  if s = "nul" then some none
  else if s.startsWith "len=" then
    match (s.drop 4).toString.toNat? with
    | some n => some (if n = two64 - 1 then none else some n)
    | none => none
  else none

def memOf (a : Array UInt8) : Mem := memOfArray a

def showSize (n : Nat) : String := if n ≥ 2 ^ 63 then toString ((n : Int) - two64) else toString n

def showPos (p : Pos) : String := s!"{showSize p.bytes} {p.codepoints} {p.graphemes} {p.columns}"

def showOutcome (size : Nat) : Outcome → String
  | .outOfFuel => "out-of-fuel"
  | .ret r p hi => if hi > size then "segv" else s!"{r} {showPos p}"

def natOfTok (s : String) : Option Nat :=
  if s.startsWith "0x" then
    (s.drop 2).toString.toList.foldlM (fun acc c => (hexDigit? c).map (fun d => acc * 16 + d)) 0
  else s.toNat?

/-! ### the executable specification -/

/-- The part of the buffer the call is allowed to look at (`Utf8.effectiveOf`, proved sound in
    `Props.C07.oracle_input`). -/
def effective (a : Array UInt8) (len : Option Nat) (start : Nat) : Option (List Nat) := effectiveOf a len start

def specCount (a : Array UInt8) (len : Option Nat) (limit : Option Limit) (start : Pos) : Option (Res × String) :=
  match effective a len start.bytes with
  | none => none
  | some bs =>
    match refScan Width.wcwidthSpec (bs.length + 1) bs with
    | (cs, t, why) => some (specRun limit (clusters cs) t start, why)

def parseRes (ts : List String) : Option (Int × Pos) :=
  match ts.mapM int? with
  | some [r, b, c, g, col] => some (r, posOf (b, c, g, col))
  | _ => none

/-- Compare one observed `(ret, pos)` with the specification. -/
def judge (what : String) (a : Array UInt8) (len : Option Nat) (limit : Option Limit) (start : Pos) (obs : List String) : String :=
  match specCount a len limit start with
  | none => ""      -- precondition of the call violated: nothing is promised
  | some (want, why) =>
    if obs = ["segv"] then s!"{what}: read past the end of the input"
    else match parseRes obs with
    | none => s!"{what}: unparsable observation"
    | some (r, p) =>
      if want.err ∧ r ≠ -1 then s!"{what}: {why} within the scanned part is not reported (returned {r})"
      else if ¬ want.err ∧ r = -1 then s!"{what}: error value returned but nothing in the scanned part is a control, DEL, invalid lead or truncated sequence"
      else if want.err then ""    -- on an error return only the return value is part of the property
      else if p ≠ want.pos then s!"{what}: position {showPos p}, specification {showPos want.pos}"
      else if r ≠ want.ret start.bytes then s!"{what}: returned {r}, specification {want.ret start.bytes}"
      else ""

def limLe (a b : Option Limit) : Bool :=
  match a, b with
  | _, none => true
  | none, some l => l.bytes.isNone && l.codepoints == -1 && l.graphemes == -1 && l.columns == -1
  | some x, some y =>
    (match x.bytes, y.bytes with | _, none => true | none, some _ => false | some p, some q => decide (p ≤ q)) &&
    (y.codepoints == -1 || (x.codepoints != -1 && decide (x.codepoints ≤ y.codepoints))) &&
    (y.graphemes == -1 || (x.graphemes != -1 && decide (x.graphemes ≤ y.graphemes))) &&
    (y.columns == -1 || (x.columns != -1 && decide (x.columns ≤ y.columns)))

def splitBar (ts : List String) : List (List String) :=
  ts.foldr (fun t acc => if t = "|" then [] :: acc else match acc with | g :: gs => (t :: g) :: gs | [] => [[t]]) [[]]

/-- Encoding by arithmetic (specification of `tickit_utf8_put` / `tickit_utf8_seqlen`). -/
def seqlenSpec (cp : Nat) : Nat :=
  if cp < 2 ^ 7 then 1 else if cp < 2 ^ 11 then 2 else if cp < 2 ^ 16 then 3 else if cp < 2 ^ 21 then 4
  else if cp < 2 ^ 26 then 5 else 6

def encodeSpec (cp : Nat) : List Nat :=
  let n := seqlenSpec cp
  if n = 1 then [cp]
  else
    let marker := [0, 0, 0xc0, 0xe0, 0xf0, 0xf8, 0xfc].getD n 0
    let payload := [0, 0, 32, 16, 8, 4, 2].getD n 1
    (marker + (cp / 64 ^ (n - 1)) % payload) :: ((List.range (n - 1)).reverse.map fun k => 128 + (cp / 64 ^ k) % 64)

def isControl (cp : Nat) : Bool := cp < 0x20 || (0x7f ≤ cp && cp < 0xa0)

/-- What `count(put cp)` must give. -/
def roundtripSpec (cp : Nat) : Int × Pos :=
  if cp = 0 then (0, Pos.zero)
  else if isControl cp || cp ≥ 0x200000 then (-1, Pos.zero)
  else
    let w := Width.wcwidthSpec cp
    ((seqlenSpec cp : Nat), ⟨seqlenSpec cp, 1, if w > 0 then 1 else 0, w⟩)

def fnv (h : UInt64) (v : Nat) : UInt64 := (h ^^^ UInt64.ofNat v) * 1099511628211

def hex16 (h : UInt64) : String :=
  String.join ((List.range 8).reverse.map fun i => hexOfNat2 ((h.toNat / 256 ^ i) % 256))

/-- `count` of the NUL-terminated buffer holding `bs`. -/
def countBytes (bs : List Nat) : Outcome :=
  let a : Array UInt8 := (bs.map UInt8.ofNat ++ [0]).toArray
  count (memOf a) (a.size + 2) none

/-- Run-length summary over `[lo, hi)`, either by the model or by the specification. -/
def sweep (useSpec : Bool) (lo hi : Nat) : String := Id.run do
  let mut out := ""
  let mut h : UInt64 := 14695981039346656037
  let mut prev : List Int := []
  let mut run : Nat := 0
  for cp in [lo:hi] do
    let bytes := if useSpec then encodeSpec cp else (put false 7 cp).2
    for b in bytes do h := fnv h b
    let cur : List Int :=
      if useSpec then
        let (r, p) := roundtripSpec cp
        [Width.wcwidthSpec cp, (seqlenSpec cp : Nat), (seqlenSpec cp : Nat), r, p.bytes, p.codepoints, p.graphemes, p.columns]
      else
        match countBytes bytes with
        | .ret r p _ => [Width.wcwidth cp, (seqlen cp : Nat), (put false 7 cp).1, r, p.bytes, p.codepoints, p.graphemes, p.columns]
        | .outOfFuel => [-99]
    if run > 0 ∧ cur ≠ prev then
      out := out ++ s!"{run}x" ++ ",".intercalate (prev.map toString) ++ " "
      run := 0
    prev := cur
    run := run + 1
  if run > 0 then
    out := out ++ s!"{run}x" ++ ",".intercalate (prev.map toString) ++ " "
  return out ++ "h=" ++ hex16 h

def showTable (t : Width.Table) : String :=
  let hx (n : Nat) : String := String.ofList (Nat.toDigits 16 n)
  " ".intercalate (toString t.size :: t.toList.map fun e => s!"{hx e.1}-{hx e.2}")

/-- On an error return the position is not part of the property: the specification only fixes it as the
    start of the last grapheme, which is what the man page calls "the progress so far". -/
def step (_ : Unit) (ts : List String) (impl : String) : Unit × String × String :=
  let io := toks impl
  match ts with
  | ["new"] => ((), "ok", "")
  | ["count", hex, mode, lim, frm] =>
    match hexBytes? hex, parseMode mode, parseLimit lim, parseFrom frm with
    | some bs, some len, some limit, some from? =>
      let a := bs.toArray
      let start := from?.getD Pos.zero
      let o := ncountmore (memOf a) (a.size + 2) len start limit
      ((), showOutcome a.size o, judge "count" a len limit start io)
    | _, _, _, _ => ((), "bad-op", "")
  | ["split", hex, mode, lim1, lim2] =>
    match hexBytes? hex, parseMode mode, parseLimit lim1, parseLimit lim2 with
    | some bs, some len, some l1, some l2 =>
      let a := bs.toArray
      let m := memOf a
      let f := a.size + 2
      let o1 := ncount m f len l1
      let o3 := ncount m f len l2
      let mobs :=
        match o1 with
        | .ret _ p1 hi1 =>
          if hi1 > a.size then "segv" else
          let o2 := ncountmore m f len p1 l2
          (match o2, o3 with
           | .ret _ _ h2, .ret _ _ h3 =>
             if h2 > a.size ∨ h3 > a.size then "segv"
             else s!"{showOutcome a.size o1} | {showOutcome a.size o2} | {showOutcome a.size o3}"
           | _, _ => "out-of-fuel")
        | .outOfFuel => "out-of-fuel"
      let sv :=
        if io = ["segv"] then (if (effective a len 0).isSome then "split: read past the end of the input" else "")
        else match splitBar io with
        | [g1, g2, g3] =>
          let v1 := judge "count(lim1)" a len l1 Pos.zero g1
          let v3 := judge "count(lim2)" a len l2 Pos.zero g3
          if v1 ≠ "" then v1 else if v3 ≠ "" then v3 else
          match parseRes g1, parseRes g2, parseRes g3 with
          | some (_, p1), some (r2, p2), some (r3, p3) =>
            let v2 := judge "countmore(lim2) from count(lim1)" a len l2 p1 g2
            if v2 ≠ "" then v2
            else if (effective a len 0).isSome ∧ limLe l1 l2 ∧ ((r2 = -1) ≠ (r3 = -1) ∨ p2 ≠ p3) then
              s!"resumption: count(lim1) then countmore(lim2) gives {r2} {showPos p2}, count(lim2) gives {r3} {showPos p3}"
            else ""
          | _, _, _ => "split: unparsable observation"
        | _ => "split: unparsable observation"
      ((), mobs, sv)
    | _, _, _, _ => ((), "bad-op", "")
  | ["put", cps, bl] =>
    match natOfTok cps with
    | some cp =>
      if bl = "null" then
        ((), s!"{(put true 0 cp).1} -", if io = [toString (seqlenSpec cp), "-"] then "" else "put(NULL): wrong length")
      else match bl.toNat? with
      | some buflen =>
        let (r, bytes) := put false buflen cp
        let mobs := s!"{r} {if r = -1 then "-" else bytesHex (bytes.map UInt8.ofNat)}"
        let want := if buflen < seqlenSpec cp then "-1 -" else s!"{seqlenSpec cp} {bytesHex ((encodeSpec cp).map UInt8.ofNat)}"
        ((), mobs, if impl.trimAscii.toString = want then "" else s!"put: specification {want}")
      | none => ((), "bad-op", "")
    | none => ((), "bad-op", "")
  | ["seqlen", cps] =>
    match natOfTok cps with
    | some cp => ((), toString (seqlen cp), if io = [toString (seqlenSpec cp)] then "" else s!"seqlen: specification {seqlenSpec cp}")
    | none => ((), "bad-op", "")
  | ["width", cps] =>
    match natOfTok cps with
    | some cp => ((), toString (Width.wcwidth cp), if io = [toString (Width.wcwidthSpec cp)] then "" else s!"width: tables say {Width.wcwidthSpec cp}")
    | none => ((), "bad-op", "")
  | ["cp", cps] =>
    match natOfTok cps with
    | some cp =>
      let (pr, bytes) := put false 7 cp
      let mobs := match countBytes bytes with
        | .ret r p hi => if hi > bytes.length + 1 then "segv" else s!"{seqlen cp} {pr} {bytesHex (bytes.map UInt8.ofNat)} {r} {showPos p}"
        | .outOfFuel => "out-of-fuel"
      let (wr, wp) := roundtripSpec cp
      let want := s!"{seqlenSpec cp} {seqlenSpec cp} {bytesHex ((encodeSpec cp).map UInt8.ofNat)} {wr} {showPos wp}"
      -- on an error return only the return value is specified
      let ok := if wr = -1 then io.take 4 = (toks want).take 4 else impl.trimAscii.toString = want
      ((), mobs, if ok then "" else s!"round trip: specification {want}")
    | none => ((), "bad-op", "")
  | "mbs" :: hex :: rest =>
    match hexBytes? hex with
    | some bs =>
      let a := bs.toArray
      let limit : Option Limit := none
      let o := count (memOf a) (a.size + 2) limit
      let mobs := match o with
        | .ret _ p hi => if hi > a.size then "segv" else toString p.columns
        | .outOfFuel => "out-of-fuel"
      let sv := match specCount a none limit Pos.zero with
        | none => ""
        | some (want, _) =>
          if rest ≠ [] then "bad-op"
          else if want.err then ""     -- the wrappers drop the error value; nothing is promised for such input
          else if io = [toString want.pos.columns] then "" else s!"mbswidth: specification {want.pos.columns}"
      ((), mobs, sv)
    | none => ((), "bad-op", "")
  | [op, hex, arg] =>
    if op = "b2c" ∨ op = "c2b" then
      match hexBytes? hex, int? arg with
      | some bs, some v =>
        let a := bs.toArray
        let limit : Option Limit := some (if op = "b2c" then ⟨if v = -1 then none else some (sizeOfInt v), -1, -1, -1⟩ else ⟨none, -1, -1, v⟩)
        let o := count (memOf a) (a.size + 2) limit
        let pick (p : Pos) : String := if op = "b2c" then toString p.columns else showSize p.bytes
        let mobs := match o with
          | .ret _ p hi => if hi > a.size then "segv" else pick p
          | .outOfFuel => "out-of-fuel"
        let sv := match specCount a none limit Pos.zero with
          | none => ""
          | some (want, _) => if want.err ∨ io = [pick want.pos] then "" else s!"{op}: specification {pick want.pos}"
        ((), mobs, sv)
      | _, _ => ((), "bad-op", "")
    else if op = "sweep" then
      match natOfTok hex, natOfTok arg with
      | some lo, some hi =>
        if hi < lo ∨ hi - lo > 65536 then ((), "bad-op", "") else
        ((), sweep false lo hi, if impl.trimAscii.toString = sweep true lo hi then "" else "sweep: differs from the specification summary " ++ sweep true lo hi)
      | _, _ => ((), "bad-op", "")
    else ((), "bad-op", "")
  | ["table", name] =>
    let t? : Option Width.Table := if name = "combining" then some Gen.Width.combining else if name = "fullwidth" then some Gen.Width.fullwidth else none
    match t? with
    | some t => ((), showTable t, if Width.chainOk t.toList then "" else s!"table {name} is not sorted / non-overlapping")
    | none => ((), "bad-op", "")
  | _ => ((), "bad-op", "")

def engine : Engine := { σ := Unit, init := (), step := step }

end Tickit.Driver.Utf8Engine
