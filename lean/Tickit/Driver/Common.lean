/-
  Line-protocol driver: shared vocabulary.  One operation per line in `ops`, one
  observation per line in the implementation's `obs`; the driver answers every line with
  `M <model observation>` and `S ok` / `S fail <why>` (the executable specification evaluated
  on the *implementation's* observation).
-/
namespace Tickit.Driver

/-- An engine: model + specification state, stepped by one operation line. -/
structure Engine where
  σ : Type
  init : σ
  /-- `step st tokens implObs = (st', modelObs, specVerdict)`; verdict `""` = ok. -/
  step : σ → List String → String → σ × String × String

def toks (line : String) : List String :=
  (line.trimAscii.toString.splitOn " ").filter (· ≠ "")

def int? (s : String) : Option Int := s.toInt?

def ints? (l : List String) : Option (List Int) := l.mapM int?

def showInts (l : List Int) : String := " ".intercalate (l.map toString)

def hexDigit? (c : Char) : Option Nat :=
  if '0' ≤ c ∧ c ≤ '9' then some (c.toNat - '0'.toNat)
  else if 'a' ≤ c ∧ c ≤ 'f' then some (c.toNat - 'a'.toNat + 10)
  else if 'A' ≤ c ∧ c ≤ 'F' then some (c.toNat - 'A'.toNat + 10)
  else none

/-- Hex string (`-` = empty) to bytes. -/
def hexBytes? (s : String) : Option (List UInt8) :=
  if s = "-" then some [] else
  let rec go : List Char → List UInt8 → Option (List UInt8)
    | [], acc => some acc.reverse
    | [_], _ => none
    | a :: b :: rest, acc => do
      let x ← hexDigit? a
      let y ← hexDigit? b
      go rest (UInt8.ofNat (x * 16 + y) :: acc)
  go s.toList []

def hexOfNat2 (n : Nat) : String :=
  let d (k : Nat) : Char := if k < 10 then Char.ofNat (48 + k) else Char.ofNat (87 + k)
  String.ofList [d (n / 16 % 16), d (n % 16)]

def bytesHex (bs : List UInt8) : String :=
  if bs.isEmpty then "-" else String.join (bs.map (fun b => hexOfNat2 b.toNat))

end Tickit.Driver
