import Tickit.Driver.Common
/-
  The generic driver loop.  Every engine gets its own executable `tickit_model_<engine>` (generated
  root `Exe/<Engine>.lean`), so that a change to the C source that breaks what one engine's
  extractor plugin generates cannot take the other engines' drivers down with it.
      tickit_model_<engine> [<engine>] <ops-file> <impl-obs-file>
  For every operation line prints `M <model obs>` and `S ok` | `S fail <why>`.
-/
namespace Tickit.Driver

def runEngine (e : Engine) (ops impl : Array String) : IO Unit := do
  let out ← IO.getStdout
  let mut st := e.init
  let mut j := 0
  for line in ops do
    if line.isEmpty || line.startsWith "#" then continue
    let io := if h : j < impl.size then impl[j] else "<missing>"
    j := j + 1
    let (st', m, s) := e.step st (toks line) io
    st := st'
    out.putStrLn ("M " ++ m)
    out.putStrLn (if s.isEmpty then "S ok" else "S fail " ++ s)
  out.flush

def engineMain (e : Engine) (args : List String) : IO UInt32 := do
  let files := match args with
    | [_, o, i] => some (o, i)
    | [o, i] => some (o, i)
    | _ => none
  match files with
  | some (opsF, implF) =>
    let ops := (← IO.FS.lines opsF)
    let impl := (← IO.FS.lines implF)
    runEngine e ops impl
    return 0
  | none => IO.eprintln "usage: tickit_model_<engine> [<engine>] <ops> <impl-obs>"; return 2

end Tickit.Driver
