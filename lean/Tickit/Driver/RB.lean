import Tickit.Model.RB
import Tickit.Model.RBSpan
import Tickit.Model.RBAbs
import Tickit.Driver.Common
/-
  Engine `rb` (C03).  Operations and observation format: see harness/rb.c.
  The model observation is the same one-line dump the hook `tickit_renderbuffer_verif_dump` prints.
-/
namespace Tickit.Driver.RBEngine
open Tickit Tickit.RB Tickit.Driver

/-- The indeterminate content of a fresh allocation under ASan (`malloc_fill_byte = 0xbe`), as an `int`. -/
def garbage : Int := -1094795586

/-! ### Printing (must agree byte for byte with harness/rb.c and the hook) -/

def hex2 (n : Nat) : String := hexOfNat2 (n % 256)

def showColour (name : String) (c : Option Colour) : List String :=
  match c with
  | none => []
  | some c =>
    [name ++ "=" ++ toString c.idx ++ (match c.rgb with
      | none => ""
      | some v => "#" ++ hex2 v.r ++ hex2 v.g ++ hex2 v.b)]

def showBoolA (name : String) (b : Option Bool) : List String :=
  match b with
  | none => []
  | some v => [name ++ "=" ++ (if v then "1" else "0")]

def showIntA (name : String) (b : Option Int) : List String :=
  match b with
  | none => []
  | some v => [name ++ "=" ++ toString v]

def showPenBody (p : Pen) : String :=
  ",".intercalate (showColour "fg" p.fg ++ showColour "bg" p.bg ++ showBoolA "b" p.bold ++ showIntA "u" p.under ++
    showBoolA "i" p.italic ++ showBoolA "rv" p.reverse ++ showBoolA "strike" p.strike ++ showIntA "af" p.altfont ++
    showBoolA "blink" p.blink ++ showIntA "sizepos" p.sizepos)

def showPen (p : Pen) : String := "{" ++ showPenBody p ++ "}"

def showCell (c : Cell) : String :=
  let m := "m" ++ toString c.maskdepth
  match c.state with
  | .skip => "S" ++ toString c.cols ++ m
  | .cont => "C" ++ toString c.cols ++ m
  | .text => "T" ++ toString c.cols ++ m ++ showPen c.pen ++ bytesHex c.text ++ "+" ++ toString c.offs
  | .erase => "E" ++ toString c.cols ++ m ++ showPen c.pen
  | .line => "L" ++ toString c.cols ++ m ++ showPen c.pen ++ "x" ++ toString c.lmask
  | .char => "H" ++ toString c.cols ++ m ++ showPen c.pen ++ "u" ++ toString c.cp

def showFrame (f : Frame) : String :=
  if f.penOnly then "P" ++ showPen f.pen
  else s!"F{f.vcLine},{f.vcCol},{f.xlLine},{f.xlCol},{f.clip.top},{f.clip.left},{f.clip.lines},{f.clip.cols}" ++ showPen f.pen

def showRB (rb : RB) : String :=
  if rb.aborted then "ABORT"
  else if rb.fuelOut then "OUT-OF-FUEL"
  else
    let rows := (List.range rb.lines.toNat).map fun (l : Nat) =>
      " ".intercalate ((List.range rb.cols.toNat).map fun (c : Nat) => showCell (rb.cell (l : Int) (c : Int)))
    s!"sz={rb.lines},{rb.cols} vc={if rb.vcSet then 1 else 0},{rb.vcLine},{rb.vcCol} xl={rb.xlLine},{rb.xlCol} " ++
    s!"clip={rb.clip.top},{rb.clip.left},{rb.clip.lines},{rb.clip.cols} pen=" ++ showPen rb.pen ++
    s!" depth={rb.depth} stack=[" ++ ";".intercalate (rb.stack.map showFrame) ++ "] cells=" ++ "/".intercalate rows

/-! ### Parsing -/

def parseRgb (s : String) : Option RGB :=
  match hexBytes? s with
  | some [r, g, b] => some ⟨r.toNat, g.toNat, b.toNat⟩
  | _ => none

def parseColour (v : String) : Option Colour :=
  match v.splitOn "#" with
  | [i] => (int? i).map fun n => ⟨n, none⟩
  | [i, h] => match int? i, parseRgb h with
    | some n, some c => some ⟨n, some c⟩
    | _, _ => none
  | _ => none

def parseBool (v : String) : Option Bool := (int? v).map (· ≠ 0)

def penSet (p : Pen) (name val : String) : Option Pen :=
  match name with
  | "fg" => (parseColour val).map fun c => { p with fg := some c }
  | "bg" => (parseColour val).map fun c => { p with bg := some c }
  | "b" => (parseBool val).map fun c => { p with bold := some c }
  | "u" => (int? val).map fun c => { p with under := some c }
  | "i" => (parseBool val).map fun c => { p with italic := some c }
  | "rv" => (parseBool val).map fun c => { p with reverse := some c }
  | "strike" => (parseBool val).map fun c => { p with strike := some c }
  | "af" => (int? val).map fun c => { p with altfont := some c }
  | "blink" => (parseBool val).map fun c => { p with blink := some c }
  | "sizepos" => (int? val).map fun c => { p with sizepos := some c }
  | _ => none

/-- `-` = empty pen; otherwise `name=value,...`. -/
def parsePenBody (s : String) : Option Pen :=
  if s = "-" || s = "" then some Pen.empty
  else (s.splitOn ",").foldlM (fun p item =>
    match item.splitOn "=" with
    | [n, v] => penSet p n v
    | _ => none) Pen.empty

/-! ### Parsing the implementation's dump back into a concrete buffer -/

/-- Split `s` at the first occurrence of `sep`. -/
def splitFirst (s sep : String) : Option (String × String) :=
  match s.splitOn sep with
  | [] => none
  | [_] => none
  | a :: rest => some (a, sep.intercalate rest)

def ints4? (s : String) : Option (Int × Int × Int × Int) :=
  match ints? (s.splitOn ",") with
  | some [a, b, c, d] => some (a, b, c, d)
  | _ => none

/-- `{...}` prefix of `s` → pen and the rest. -/
def parseBracedPen (s : String) : Option (Pen × String) :=
  if !s.startsWith "{" then none else
  match splitFirst (s.drop 1).toString "}" with
  | none => none
  | some (body, rest) => (parsePenBody body).map fun p => (p, rest)

def parseCellTok (t : String) : Option Cell :=
  match t.toList with
  | [] => none
  | st :: _ =>
    let body := (t.drop 1).toString
    match splitFirst body "m" with
    | none => none
    | some (colsS, rest) =>
      match int? colsS with
      | none => none
      | some cols =>
        -- mask depth: up to `{` or the end
        let mdS := (rest.takeWhile (· ≠ '{')).toString
        let after := (rest.drop mdS.length).toString
        match int? mdS with
        | none => none
        | some md =>
          let base : Cell := { cols := cols, maskdepth := md }
          match st with
          | 'S' => if after = "" then some { base with state := .skip } else none
          | 'C' => if after = "" then some { base with state := .cont } else none
          | 'E' => match parseBracedPen after with
            | some (p, "") => some { base with state := .erase, pen := p }
            | _ => none
          | 'T' => match parseBracedPen after with
            | some (p, r) => match r.splitOn "+" with
              | [h, o] => match hexBytes? h, int? o with
                | some bs, some offs => some { base with state := .text, pen := p, text := bs, offs := offs }
                | _, _ => none
              | _ => none
            | none => none
          | 'L' => match parseBracedPen after with
            | some (p, r) => if r.startsWith "x" then (int? (r.drop 1).toString).map fun m => { base with state := .line, pen := p, lmask := m.toNat } else none
            | none => none
          | 'H' => match parseBracedPen after with
            | some (p, r) => if r.startsWith "u" then (int? (r.drop 1).toString).map fun cp => { base with state := .char, pen := p, cp := cp } else none
            | none => none
          | _ => none

def parseFrame (t : String) : Option Frame :=
  if t.startsWith "P" then
    match parseBracedPen (t.drop 1).toString with
    | some (p, "") => some { penOnly := true, pen := p }
    | _ => none
  else if t.startsWith "F" then
    let body := (t.drop 1).toString
    let nums := (body.takeWhile (· ≠ '{')).toString
    match ints? (nums.splitOn ","), parseBracedPen (body.drop nums.length).toString with
    | some [a, b, c, d, e, f, g, h], some (p, "") =>
      some { penOnly := false, vcLine := a, vcCol := b, xlLine := c, xlCol := d, clip := ⟨e, f, g, h⟩, pen := p }
    | _, _ => none
  else none

def kv? (key tok : String) : Option String :=
  if tok.startsWith (key ++ "=") then some (tok.drop (key.length + 1)).toString else none

/-- `r=<...> sz=.. vc=.. xl=.. clip=.. pen={..} depth=.. stack=[..] cells=<rows>` → (`r` part, buffer). -/
def parseObs (line : String) : Option (String × RB) := do
  let (hd, cellsS) ← splitFirst line " cells="
  match hd.splitOn " " with
  | [r, sz, vc, xl, clipS, penS, depthS, stackS] =>
    let r ← kv? "r" r
    let szv ← ints? ((← kv? "sz" sz).splitOn ",")
    let vcv ← ints? ((← kv? "vc" vc).splitOn ",")
    let xlv ← ints? ((← kv? "xl" xl).splitOn ",")
    let (ct, cl, cn, cc) ← ints4? (← kv? "clip" clipS)
    let (pen, rest) ← parseBracedPen (← kv? "pen" penS)
    if rest ≠ "" then none
    let depth ← int? (← kv? "depth" depthS)
    let stS ← kv? "stack" stackS
    if !(stS.startsWith "[" && stS.endsWith "]") then none
    let inner := ((stS.drop 1).dropEnd 1).toString
    let frames ← if inner = "" then some [] else (inner.splitOn ";").mapM parseFrame
    match szv, vcv, xlv with
    | [nl, nc], [vs, vl, vcc], [xa, xb] =>
      let rows ← (if cellsS = "" then some [] else (cellsS.splitOn "/").mapM fun row => (row.splitOn " ").mapM parseCellTok)
      let tab : Array (Array Cell) := (rows.map List.toArray).toArray
      if tab.size ≠ nl.toNat || tab.any (fun row => row.size ≠ nc.toNat) then none
      let cells : Int → Row := fun l =>
        if 0 ≤ l then
          match tab[l.toNat]? with
          | some row => ⟨fun c => if 0 ≤ c then (row[c.toNat]?).getD default else default⟩
          | none => ⟨fun _ => default⟩
        else ⟨fun _ => default⟩
      some (r, { lines := nl, cols := nc, cells := cells, vcSet := vs ≠ 0, vcLine := vl, vcCol := vcc, xlLine := xa, xlCol := xb,
                 clip := ⟨ct, cl, cn, cc⟩, pen := pen, depth := depth, stack := frames })
    | _, _, _ => none
  | _ => none

/-! ### The executable specification (SPEC verdict) -/

open Tickit.RBAbs in
def showContent : Content → String
  | .skip => "skip"
  | .text p s k => s!"text{showPen p}{bytesHex s}@{k}"
  | .erase p => "erase" ++ showPen p
  | .line p m => s!"line{showPen p}x{m}"
  | .char p cp => s!"char{showPen p}u{cp}"

/-- The probe area: the buffer and one cell around it. -/
def probe (lines cols : Int) : List (Int × Int) :=
  let ls := (List.range (lines.toNat + 2)).map fun (i : Nat) => (i : Int) - 1
  let cs := (List.range (cols.toNat + 2)).map fun (i : Nat) => (i : Int) - 1
  ls.flatMap fun l => cs.map fun c => (l, c)

/-- The concrete well-formedness of a dumped buffer: runs tile every line, CONT cells point at their start,
    LINE/CHAR cells are one column wide, mask depths lie in [-1, depth]. -/
def wfCheck (rb : RB) : String :=
  let bad := (probe rb.lines rb.cols).find? fun (l, c) =>
    if 0 ≤ l ∧ l < rb.lines ∧ 0 ≤ c ∧ c < rb.cols then
      let x := rb.cell l c
      let okMask := decide (-1 ≤ x.maskdepth ∧ x.maskdepth ≤ rb.depth)
      let okShape :=
        if x.state = .cont then
          decide (0 ≤ x.cols ∧ x.cols < c) && (rb.cell l x.cols).state ≠ .cont && decide (c < x.cols + (rb.cell l x.cols).cols)
        else
          decide (1 ≤ x.cols ∧ c + x.cols ≤ rb.cols) &&
          (if x.state = .line ∨ x.state = .char then decide (x.cols = 1) else true) &&
          (List.range (x.cols - 1).toNat).all fun (j : Nat) =>
            let y := rb.cell l (c + 1 + j)
            y.state = .cont && decide (y.cols = c)
      !(okMask && okShape)
    else false
  match bad with
  | some (l, c) => s!"cell ({l},{c}) breaks the run structure: {showCell (rb.cell l c)}"
  | none =>
    if rb.depth ≠ rb.stack.length then s!"depth {rb.depth} but {rb.stack.length} frames"
    else ""

open Tickit.RBAbs in
/-- A cell that shows the given content (to reuse `get_span_text` for the text of an abstract cell). -/
def contentCell : Content → Cell
  | .skip => { state := .skip, cols := 1 }
  | .text p s k => { state := .text, cols := 1, pen := p, text := s, offs := k }
  | .erase p => { state := .erase, cols := 1, pen := p }
  | .line p m => { state := .line, cols := 1, pen := p, lmask := m }
  | .char p cp => { state := .char, cols := 1, pen := p, cp := cp }

open Tickit.RBAbs Tickit.Gen.RBWidth in
/-- What the public cell queries must answer for user coordinates `(l, c)`, in the harness' format. -/
def specCellQuery (a : AState) (l c : Int) : String :=
  let L := l + a.xlLine
  let C := c + a.xlCol
  if !a.clip L C then "-1{NULL}0.0.0.0:-1:x"
  else
    let ct := a.content L C
    let active := match ct with | .skip => "0" | _ => "1"
    let pen := match ct with
      | .skip => "{NULL}"
      | .text p _ _ | .erase p | .line p _ | .char p _ => showPen p
    let lm := match ct with
      | .line _ m => s!"{(m >>> c_NORTH_SHIFT) % 4}.{(m >>> c_SOUTH_SHIFT) % 4}.{(m >>> c_EAST_SHIFT) % 4}.{(m >>> c_WEST_SHIFT) % 4}"
      | _ => "0.0.0.0"
    let t := getSpanText1 ⟨contentCell ct, 0⟩ 255
    active ++ pen ++ lm ++ s!":{t.1}:" ++ (if t.1 ≥ 0 then bytesHex t.2 else "x")

open Tickit.RBAbs in
def specCells (a : AState) : String :=
  ";".intercalate ((probe a.lines a.cols).map fun (l, c) => specCellQuery a l c)

open Tickit.RBAbs in
/-- Compare the abstract state the specification predicts with the implementation's dumped buffer. -/
def specCompare (a : AState) (rb : RB) : String :=
  if a.lines ≠ rb.lines ∨ a.cols ≠ rb.cols then "size differs"
  else
    let cells := probe rb.lines rb.cols
    match cells.find? (fun (l, c) => absContent rb l c ≠ a.content l c) with
    | some (l, c) => s!"cell ({l},{c}) holds {showContent (absContent rb l c)}, specification says {showContent (a.content l c)}"
    | none =>
    match cells.find? (fun (l, c) => absMasked rb l c ≠ a.masked l c) with
    | some (l, c) => s!"cell ({l},{c}) masked={absMasked rb l c}, specification says {a.masked l c}"
    | none =>
    match cells.find? (fun (l, c) => absClipRect rb.clip l c ≠ a.clip l c) with
    | some (l, c) => s!"cell ({l},{c}) inside clip={absClipRect rb.clip l c}, specification says {a.clip l c}"
    | none =>
    if getCursor rb ≠ a.vc then s!"virtual cursor is {getCursor rb}, specification says {a.vc}"
    else if rb.xlLine ≠ a.xlLine ∨ rb.xlCol ≠ a.xlCol then s!"translation is ({rb.xlLine},{rb.xlCol}), specification says ({a.xlLine},{a.xlCol})"
    else if rb.pen ≠ a.pen then s!"pen is {showPen rb.pen}, specification says {showPen a.pen}"
    else if rb.stack.length ≠ a.stack.length then s!"{rb.stack.length} saved frames, specification says {a.stack.length}"
    else
      match (rb.stack.zip a.stack).find? (fun (f, g) =>
          f.penOnly ≠ g.penOnly || f.pen ≠ g.pen ||
          (!f.penOnly && (f.xlLine ≠ g.xlLine || f.xlCol ≠ g.xlCol || cells.any (fun (l, c) => absClipRect f.clip l c ≠ g.clip l c)))) with
      | some (f, _) => s!"saved frame {showFrame f} differs from the specification's"
      | none => ""

/-- Re-tabulate a function on the probe area (the buffer and one cell around it); `dflt` elsewhere.  For the
    states the specification reaches this is the identity (nothing outside the buffer is ever written, masked
    or inside the clip); execution speed only. -/
def mkTab {α : Type} (lines cols : Int) (f : Int → Int → α) : Array (Array α) :=
  Array.ofFn (n := lines.toNat + 2) fun l => Array.ofFn (n := cols.toNat + 2) fun c => f ((l.val : Int) - 1) ((c.val : Int) - 1)

def tabLookup {α : Type} (tab : Array (Array α)) (dflt : α) (L C : Int) : α :=
  if -1 ≤ L ∧ -1 ≤ C then
    match tab[(L + 1).toNat]? with
    | some row => (row[(C + 1).toNat]?).getD dflt
    | none => dflt
  else dflt

open Tickit.RBAbs in
def compactAbs (a : AState) : AState :=
  -- the tables are built here, once (not inside the closures)
  let t1 := mkTab a.lines a.cols a.content
  let t2 := mkTab a.lines a.cols a.masked
  let t3 := mkTab a.lines a.cols a.clip
  { a with content := tabLookup t1 .skip, masked := tabLookup t2 false, clip := tabLookup t3 false }

structure St where
  rb : Option RB := none
  abs : Option RBAbs.AState := none
  /-- `rb->tmpsize`: the size of the scratch area the formatted-text functions use -/
  tmpsize : Nat := 0

def showRet (r : Option Int) : String :=
  match r with
  | none => "r=-"
  | some v => "r=" ++ toString v

def showCellQuery (rb : RB) (l c : Int) : String :=
  let a := getCellActive rb l c
  let pen := match getCellPen rb l c with
    | none => "{NULL}"
    | some p => showPen p
  let lm := getCellLinemask rb l c
  let t := getCellText rb l c 255
  toString a ++ pen ++ s!"{lm.1}.{lm.2.1}.{lm.2.2.1}.{lm.2.2.2}:{t.1}:" ++ (if t.1 ≥ 0 then bytesHex t.2 else "x")

def showCells (rb : RB) : String :=
  ";".intercalate ((probe rb.lines rb.cols).map fun (l, c) => showCellQuery rb l c)


/-! ### The single-cell and span queries -/

def filler : UInt8 := 0x55

/-- All bytes of the query buffer afterwards (`x`: NULL buffer): what was stored, the terminator, the 0x55 preset. -/
def showBuffer (buf : Option Nat) (bytes : List UInt8) (term : Bool) : String :=
  match buf with
  | none => "x"
  | some len =>
    let w := bytes ++ (if term then [0] else [])
    bytesHex (w ++ List.replicate (len - w.length) filler)

def showLinemask (lm : Nat × Nat × Nat × Nat) : String := s!"{lm.1}.{lm.2.1}.{lm.2.2.1}.{lm.2.2.2}"

/-- `getcell l c LEN` (LEN = −1: NULL buffer). -/
def showGetcell (rb : RB) (l c len : Int) : String :=
  let pen := match getCellPen rb l c with
    | none => "{NULL}"
    | some p => showPen p
  let buf : Option Nat := if len < 0 then none else some len.toNat
  let t := getCellTextQ rb l c buf
  toString (getCellActive rb l c) ++ pen ++ showLinemask (getCellLinemask rb l c) ++ s!":{t.ret}:" ++ showBuffer buf t.bytes t.term

/-- The pen the harness presets `info->pen` with. -/
def prefillPen : Pen := { fg := some ⟨9, none⟩, bold := some true }

structure SpanArgs where
  len : Nat
  info : Bool
  infoPen : Bool
  buf : Bool

def spanArgs (len mode : Nat) : SpanArgs := ⟨len, mode % 2 = 1, (mode / 2) % 2 = 1, (mode / 4) % 2 = 1⟩

/-- The harness' line for a `getspan`: `ret,is_active,n_columns,info.len,info.text,{pen},buffer`; fields the call did
    not store keep the harness' presets (1, −77, 7777, U, the preset pen). -/
def showSpanFields (g : SpanArgs) (ret : Int) (act : Option Bool) (nc il : Option Int) (textSet : Bool) (pen : Option Pen)
    (bytes : List UInt8) (term : Bool) : String :=
  let a := match act with | some false => "0" | _ => "1"
  let tf := if textSet then (if g.buf then "B" else "N") else "U"
  let p := if g.infoPen then showPen (pen.getD prefillPen) else "{NULL}"
  s!"{ret},{a},{nc.getD (-77)},{il.getD 7777},{tf}," ++ p ++ "," ++ showBuffer (if g.buf then some g.len else none) bytes term

def showGetspan (rb : RB) (l c : Int) (g : SpanArgs) : String :=
  let o := getSpanQ spanCfg rb l c g.info g.infoPen g.buf g.len
  showSpanFields g o.ret o.isActive o.nColumns o.len o.textSet o.pen o.bytes o.term

open Tickit.RBAbs Tickit.Gen.RBWidth in
/-- What `getcell` must answer, from the abstract state. -/
def specGetcell (a : AState) (l c len : Int) : String :=
  let L := l + a.xlLine
  let C := c + a.xlCol
  let buf : Option Nat := if len < 0 then none else some len.toNat
  if !a.clip L C then "-1{NULL}0.0.0.0:-1:" ++ showBuffer buf [] false
  else
    let ct := a.content L C
    let active := match ct with | .skip => "0" | _ => "1"
    let pen := match contentPen ct with
      | none => "{NULL}"
      | some p => showPen p
    let lm : Nat × Nat × Nat × Nat := match ct with
      | .line _ m => ((m >>> c_NORTH_SHIFT) % 4, (m >>> c_SOUTH_SHIFT) % 4, (m >>> c_EAST_SHIFT) % 4, (m >>> c_WEST_SHIFT) % 4)
      | _ => (0, 0, 0, 0)
    -- one grapheme at the cell's column: the text of the cell (`contentText`, `Props.C03.get_cell_text_spec`)
    let t := getSpanText ⟨true, true⟩ ⟨contentCell ct, 0⟩ true buf
    active ++ pen ++ showLinemask lm ++ s!":{t.ret}:" ++ showBuffer buf t.bytes t.term

/-- `ret,act,nc,il,tf,{pen},buffer` → the seven fields. -/
def parseSpanFields (r : String) : Option (String × String × String × String × String × String × String) :=
  match splitFirst r ",{" with
  | none => none
  | some (hd, rest) =>
    match hd.splitOn ",", splitFirst rest "}," with
    | [ret, act, nc, il, tf], some (pen, buffer) => some (ret, act, nc, il, tf, "{" ++ pen ++ "}", buffer)
    | _, _ => none

/-- SPEC verdict for `getspan`.  `tickit_renderbuffer_get_span` is an observation API no clause of C03 speaks about:
    there is *no* verdict on what it answers (the model-vs-implementation comparison still sees every change of it;
    `Props.C03.get_span_spec` / `get_span_found_counterexample` record how the answer relates to the abstract
    content).  What the property's harness does demand of every call: the buffer stays well-formed and unchanged
    (`specQuery`), the call returns (a sanitizer abort is an unparsable observation), and the caller's buffer is
    reported back with exactly the length given (the harness allocates exactly `len` bytes, so a write beyond them
    is an ASan abort). -/
def specGetspan (g : SpanArgs) (r : String) : String :=
  match parseSpanFields r with
  | none => "unparsable get_span observation"
  | some (_, _, _, _, _, _, buffer) =>
    if g.buf then
      (if buffer.length = (if g.len = 0 then 1 else 2 * g.len) then "" else s!"get_span: the {g.len}-byte buffer comes back as {buffer}")
    else (if buffer = "x" then "" else s!"get_span without a buffer reports {buffer}")

/-! ### Execution speed on wide buffers

  `hlineAt`/`vlineAt` draw one cell after the other, each through `make_span`; on the function representation of
  a row every cell adds a layer of closures.  Here the grid is re-tabulated every few cells (`RB.compact` is the
  identity on the grid); the calls of `linecell` are those of `Tickit.RB.hlineAt` (same device as Driver/RBFlush). -/

def lineLoopC (cellAt : Int → Int × Int) (bits : Nat) (rb : RB) (from_ : Int) : Nat → RB
  | 0 => rb
  | n + 1 =>
    let rb' := linecell rb (cellAt from_).1 (cellAt from_).2 bits
    lineLoopC cellAt bits (if n % 8 = 0 then rb'.compact else rb') (from_ + 1) n

open Tickit.Gen.RBWidth in
def hlineAtC (rb : RB) (line startcol endcol : Int) (style caps : Nat) : RB :=
  let east := style <<< c_EAST_SHIFT
  let west := style <<< c_WEST_SHIFT
  let rb := linecell rb line startcol (east ||| (if caps &&& c_TICKIT_LINECAP_START ≠ 0 then west else 0))
  let rb := lineLoopC (fun col => (line, col)) (east ||| west) rb (startcol + 1) (endcol - 1 - startcol).toNat
  linecell rb line endcol ((if caps &&& c_TICKIT_LINECAP_END ≠ 0 then east else 0) ||| west)

open Tickit.Gen.RBWidth in
def vlineAtC (rb : RB) (startline endline col : Int) (style caps : Nat) : RB :=
  let north := style <<< c_NORTH_SHIFT
  let south := style <<< c_SOUTH_SHIFT
  let rb := linecell rb startline col (south ||| (if caps &&& c_TICKIT_LINECAP_START ≠ 0 then north else 0))
  let rb := lineLoopC (fun line => (line, col)) (south ||| north) rb (startline + 1) (endline - 1 - startline).toNat
  linecell rb endline col ((if caps &&& c_TICKIT_LINECAP_END ≠ 0 then south else 0) ||| north)

/-- `RB.step` with the grid re-tabulated inside the long loops. -/
def stepC (rb : RB) : Op → RB
  | .hlineAt l c1 c2 st caps => hlineAtC rb l c1 c2 st caps
  | .vlineAt l1 l2 c st caps => vlineAtC rb l1 l2 c st caps
  | o => RB.step rb o

/-- `put_text(…, text, len)`: `len = -1` is `strlen(text)`, otherwise the first `len` bytes (the harness refuses
    a `len` beyond the bytes given). -/
def textnBytes (n : Int) (bs : List UInt8) : Option (List UInt8) :=
  if n = -1 then some (bs.takeWhile (· ≠ 0))
  else if 0 ≤ n ∧ n.toNat ≤ bs.length then some (bs.take n.toNat)
  else none

/-- The formatted-text entry points (`textf_at`, `vtextf_at`: format "%s"; `textfd_at`: "%s%d"; the same without
    `_at` at the virtual cursor): where, and the formatted result (what libc's `vsnprintf` produces). -/
def parseFmt (op : String) (args : List String) : Option (Option (Int × Int) × List UInt8) :=
  let cstr (h : String) : Option (List UInt8) := (hexBytes? h).map fun b => b.takeWhile (· ≠ 0)
  let dec (n : String) : Option (List UInt8) := (int? n).map fun v => (toString v).toUTF8.toList
  match op, args with
  | "textf_at", [l, c, h] => do pure (some (← int? l, ← int? c), ← cstr h)
  | "vtextf_at", [l, c, h] => do pure (some (← int? l, ← int? c), ← cstr h)
  | "textfd_at", [l, c, h, n] => do pure (some (← int? l, ← int? c), (← cstr h) ++ (← dec n))
  | "textf", [h] => do pure (none, ← cstr h)
  | "vtextf", [h] => do pure (none, ← cstr h)
  | "textfd", [h, n] => do pure (none, (← cstr h) ++ (← dec n))
  | _, _ => none

/-- A protocol line as an operation of the model (`none`: a query or not an operation). -/
def parseOp (op : String) (args : List String) : Option Op :=
  let ia := ints? args
  match op, args, ia with
  | "text_at", [l, c, h], _ => do pure (.textAt (← int? l) (← int? c) (← hexBytes? h))
  -- (`textf_at`/`textf` with "%s": kept here for the drivers of C04/C13, which reuse this parser; this engine's own
  --  `step` sends the formatted entry points through `parseFmt` and the `put_vtextf` model first)
  | "textf_at", [l, c, h], _ => do pure (.textAt (← int? l) (← int? c) ((← hexBytes? h).takeWhile (· ≠ 0)))   -- "%s" stops at NUL
  | "textf", [h], _ => do pure (.text ((← hexBytes? h).takeWhile (· ≠ 0)))
  | "textz_at", [l, c, h], _ => do pure (.textAt (← int? l) (← int? c) ((← hexBytes? h).takeWhile (· ≠ 0)))   -- strlen
  | "textn_at", [l, c, n, h], _ => do pure (.textAt (← int? l) (← int? c) (← textnBytes (← int? n) (← hexBytes? h)))
  | "text", [h], _ => do pure (.text (← hexBytes? h))
  | "textz", [h], _ => do pure (.text ((← hexBytes? h).takeWhile (· ≠ 0)))
  | "textn", [n, h], _ => do pure (.text (← textnBytes (← int? n) (← hexBytes? h)))
  | "erase_at", _, some [l, c, n] => some (.eraseAt l c n)
  | "erase", _, some [n] => some (.erase n)
  | "erase_to", _, some [c] => some (.eraseTo c)
  | "skip_at", _, some [l, c, n] => some (.skipAt l c n)
  | "skip", _, some [n] => some (.skip n)
  | "skip_to", _, some [c] => some (.skipTo c)
  | "char_at", _, some [l, c, cp] => some (.charAt l c cp)
  | "char", _, some [cp] => some (.char cp)
  | "hline", _, some [l, c1, c2, st, caps] => some (.hlineAt l c1 c2 st.toNat caps.toNat)
  | "vline", _, some [l1, l2, c, st, caps] => some (.vlineAt l1 l2 c st.toNat caps.toNat)
  | "clear", [], _ => some .clear
  | "eraserect", _, some [t, l, n, c] => some (.eraserect ⟨t, l, n, c⟩)
  | "skiprect", _, some [t, l, n, c] => some (.skiprect ⟨t, l, n, c⟩)
  | "goto", _, some [l, c] => some (.goto l c)
  | "ungoto", [], _ => some .ungoto
  | "xl", _, some [d, r] => some (.translate d r)
  | "clip", _, some [t, l, n, c] => some (.clip ⟨t, l, n, c⟩)
  | "mask", _, some [t, l, n, c] => some (.mask ⟨t, l, n, c⟩)
  | "setpen", ["NULL"], _ => some (.setpen none)
  | "setpen", [p], _ => (parsePenBody p).map fun pen => .setpen (some pen)
  | "save", [], _ => some .save
  | "savepen", [], _ => some .savepen
  | "restore", [], _ => some .restore
  | "reset", [], _ => some .reset
  | _, _, _ => none

/-- The `r=` part the model predicts for an operation. -/
def modelRet (rb : RB) : Op → String
  | .textAt _ _ s => showRet (some (putStringRet s))
  | .text s => showRet (some (textRet rb s))
  | _ => "r=-"

open Tickit.RBAbs in
/-- The `r=` part the specification demands (`none`: the property is silent). -/
def specRet (a : AState) : Op → Option String
  | .textAt _ _ s => match Utf8.stringColumns s with
    | some n => some (toString n)
    | none => none
  | .text s => match a.vc, Utf8.stringColumns s with
    | some _, some n => some (toString n)
    | none, _ => some "-1"
    | _, _ => none
  | _ => some "-"

open Tickit.RBAbs in
/-- SPEC verdict for a state-changing operation: the abstract state after the operation against the dump. -/
def specVerdict (a' : AState) (wantRet : Option String) (impl : String) : String :=
  match parseObs impl with
  | none => "unparsable implementation observation"
  | some (r, irb) =>
    let w := wfCheck irb
    if w ≠ "" then w
    else
      let c := specCompare a' irb
      if c ≠ "" then c
      else match wantRet with
        | some v => if r = v then "" else s!"returned {r}, specification says {v}"
        | none => ""

open Tickit.RBAbs in
/-- SPEC verdict of a query: the state must be unchanged, and `check` judges the `r=` part (given the dump). -/
def specQuery (a : AState) (impl : String) (check : String → RB → String) : String :=
  match parseObs impl with
  | none => "unparsable implementation observation"
  | some (r, irb) =>
    let w := wfCheck irb
    if w ≠ "" then w
    else
      let c := specCompare a irb
      if c ≠ "" then c else check r irb

open Tickit.RBAbs in
/-- One state-changing operation: `o` is what the code executes, `oSpec` what the specification is asked. -/
def stepOp (st : St) (rb : RB) (a : AState) (o oSpec : Op) (tmpsize : Nat) (impl : String) : St × String × String :=
  let rb' := (stepC rb o).compact
  -- the abstract state is re-tabulated too (execution speed only)
  let a' := compactAbs (RBAbs.step a oSpec)
  -- where the property is silent (cursor after a rejected text) the specification follows the implementation
  ({ rb := some rb', abs := some a', tmpsize := tmpsize }, modelRet rb o ++ " " ++ showRB rb', specVerdict a' (specRet a oSpec) impl)

open Tickit.RBAbs in
def step (st : St) (ts : List String) (impl : String) : St × String × String :=
  match ts with
  | ["new", l, c] =>
    match int? l, int? c with
    | some l, some c =>
      let rb := (RB.new l c garbage garbage).compact
      let a := AState.new l c
      ({ rb := some rb, abs := some a, tmpsize := Gen.RBSpan.c_TMPSIZE_INIT }, "r=- " ++ showRB rb, specVerdict a (some "-") impl)
    | _, _ => (st, "bad-op", "")
  | op :: args =>
    match st.rb, st.abs with
    | some rb, some a =>
      match op, args, ints? args with
      | "getcur", [], _ =>
        let r := match getCursor rb with
          | some (l, c) => s!"r=1,{l},{c}"
          | none => "r=0,-77,-77"
        let want := match a.vc with
          | some (l, c) => s!"1,{l},{c}"
          | none => "0,-77,-77"
        (st, r ++ " " ++ showRB rb, specVerdict a (some want) impl)
      | "getcells", [], _ =>
        (st, "r=" ++ showCells rb ++ " " ++ showRB rb, specVerdict a (some (specCells a)) impl)
      | "getcell", _, some [l, c, len] =>
        if len < -1 ∨ len > 65536 then (st, "bad-op", "") else
        (st, "r=" ++ showGetcell rb l c len ++ " " ++ showRB rb, specVerdict a (some (specGetcell a l c len)) impl)
      | "getspan", _, some [l, c, len, mode] =>
        if len < 0 ∨ len > 65536 ∨ mode < 0 ∨ mode > 7 then (st, "bad-op", "") else
        let g := spanArgs len.toNat mode.toNat
        (st, "r=" ++ showGetspan rb l c g ++ " " ++ showRB rb, specQuery a impl fun r _ => specGetspan g r)
      | _, _, _ =>
        match parseFmt op args with
        | some (pos, s) =>
          -- the specification is asked about the formatted result; the code goes through `put_vtextf`
          let oSpec : Op := match pos with
            | some (l, c) => .textAt l c s
            | none => .text s
          if pos.isNone ∧ !rb.vcSet then stepOp st rb a oSpec oSpec st.tmpsize impl     -- `vtextf` returns before formatting
          else
            match vtextf st.tmpsize s with
            | none => ({ st with rb := none, abs := none }, "CRASH put_text reads past the scratch area", "")
            | some (s', tmpsize) =>
              let o : Op := match pos with
                | some (l, c) => .textAt l c s'
                | none => .text s'
              stepOp st rb a o oSpec tmpsize impl
        | none =>
          match parseOp op args with
          | none => (st, "bad-op", "")
          | some o => stepOp st rb a o o st.tmpsize impl
    | _, _ => (st, "bad-op", "")
  | [] => (st, "bad-op", "")

def engine : Engine := { σ := St, init := {}, step := step }

end Tickit.Driver.RBEngine
