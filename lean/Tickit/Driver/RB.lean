import Tickit.Model.RB
import Tickit.Driver.Common
/-
  Engine `rb` (C03).  Operations and observation format: see harness/rb.c.
  The model observation is the same one-line dump the hook `tickit_renderbuffer_verif_dump` prints.
-/
namespace Tickit.Driver.RBEngine
open Tickit Tickit.RB Tickit.Driver

/-- The indeterminate content of a fresh allocation under ASan (`malloc_fill_byte = 0xbe`), as an `int`. -/
def garbage : Int := -1094795586

/-! ### Printing (must agree byte for byte with harness/rb.c and the hook) -/

def hex2 (n : Nat) : String := hexOfNat2 (n % 256)

def showColour (name : String) (c : Option Colour) : List String :=
  match c with
  | none => []
  | some c =>
    [name ++ "=" ++ toString c.idx ++ (match c.rgb with
      | none => ""
      | some v => "#" ++ hex2 v.r ++ hex2 v.g ++ hex2 v.b)]

def showBoolA (name : String) (b : Option Bool) : List String :=
  match b with
  | none => []
  | some v => [name ++ "=" ++ (if v then "1" else "0")]

def showIntA (name : String) (b : Option Int) : List String :=
  match b with
  | none => []
  | some v => [name ++ "=" ++ toString v]

def showPenBody (p : Pen) : String :=
  ",".intercalate (showColour "fg" p.fg ++ showColour "bg" p.bg ++ showBoolA "b" p.bold ++ showIntA "u" p.under ++
    showBoolA "i" p.italic ++ showBoolA "rv" p.reverse ++ showBoolA "strike" p.strike ++ showIntA "af" p.altfont ++
    showBoolA "blink" p.blink ++ showIntA "sizepos" p.sizepos)

def showPen (p : Pen) : String := "{" ++ showPenBody p ++ "}"

def showCell (c : Cell) : String :=
  let m := "m" ++ toString c.maskdepth
  match c.state with
  | .skip => "S" ++ toString c.cols ++ m
  | .cont => "C" ++ toString c.cols ++ m
  | .text => "T" ++ toString c.cols ++ m ++ showPen c.pen ++ bytesHex c.text ++ "+" ++ toString c.offs
  | .erase => "E" ++ toString c.cols ++ m ++ showPen c.pen
  | .line => "L" ++ toString c.cols ++ m ++ showPen c.pen ++ "x" ++ toString c.lmask
  | .char => "H" ++ toString c.cols ++ m ++ showPen c.pen ++ "u" ++ toString c.cp

def showFrame (f : Frame) : String :=
  if f.penOnly then "P" ++ showPen f.pen
  else s!"F{f.vcLine},{f.vcCol},{f.xlLine},{f.xlCol},{f.clip.top},{f.clip.left},{f.clip.lines},{f.clip.cols}" ++ showPen f.pen

def showRB (rb : RB) : String :=
  if rb.aborted then "ABORT"
  else if rb.fuelOut then "OUT-OF-FUEL"
  else
    let rows := (List.range rb.lines.toNat).map fun (l : Nat) =>
      " ".intercalate ((List.range rb.cols.toNat).map fun (c : Nat) => showCell (rb.cell (l : Int) (c : Int)))
    s!"sz={rb.lines},{rb.cols} vc={if rb.vcSet then 1 else 0},{rb.vcLine},{rb.vcCol} xl={rb.xlLine},{rb.xlCol} " ++
    s!"clip={rb.clip.top},{rb.clip.left},{rb.clip.lines},{rb.clip.cols} pen=" ++ showPen rb.pen ++
    s!" depth={rb.depth} stack=[" ++ ";".intercalate (rb.stack.map showFrame) ++ "] cells=" ++ "/".intercalate rows

/-! ### Parsing -/

def parseRgb (s : String) : Option RGB :=
  match hexBytes? s with
  | some [r, g, b] => some ⟨r.toNat, g.toNat, b.toNat⟩
  | _ => none

def parseColour (v : String) : Option Colour :=
  match v.splitOn "#" with
  | [i] => (int? i).map fun n => ⟨n, none⟩
  | [i, h] => match int? i, parseRgb h with
    | some n, some c => some ⟨n, some c⟩
    | _, _ => none
  | _ => none

def parseBool (v : String) : Option Bool := (int? v).map (· ≠ 0)

def penSet (p : Pen) (name val : String) : Option Pen :=
  match name with
  | "fg" => (parseColour val).map fun c => { p with fg := some c }
  | "bg" => (parseColour val).map fun c => { p with bg := some c }
  | "b" => (parseBool val).map fun c => { p with bold := some c }
  | "u" => (int? val).map fun c => { p with under := some c }
  | "i" => (parseBool val).map fun c => { p with italic := some c }
  | "rv" => (parseBool val).map fun c => { p with reverse := some c }
  | "strike" => (parseBool val).map fun c => { p with strike := some c }
  | "af" => (int? val).map fun c => { p with altfont := some c }
  | "blink" => (parseBool val).map fun c => { p with blink := some c }
  | "sizepos" => (int? val).map fun c => { p with sizepos := some c }
  | _ => none

/-- `-` = empty pen; otherwise `name=value,...`. -/
def parsePenBody (s : String) : Option Pen :=
  if s = "-" || s = "" then some Pen.empty
  else (s.splitOn ",").foldlM (fun p item =>
    match item.splitOn "=" with
    | [n, v] => penSet p n v
    | _ => none) Pen.empty

/-! ### One step -/

structure St where
  rb : Option RB := none

def showRet (r : Option Int) : String :=
  match r with
  | none => "r=-"
  | some v => "r=" ++ toString v

def showCellQuery (rb : RB) (l c : Int) : String :=
  let a := getCellActive rb l c
  let pen := match getCellPen rb l c with
    | none => "{NULL}"
    | some p => showPen p
  let lm := getCellLinemask rb l c
  let t := getCellText rb l c 255
  toString a ++ pen ++ s!"{lm.1}.{lm.2.1}.{lm.2.2.1}.{lm.2.2.2}:{t.1}:" ++ (if t.1 ≥ 0 then bytesHex t.2 else "x")

def showCells (rb : RB) : String :=
  let ls := (List.range (rb.lines.toNat + 2)).map fun (i : Nat) => (i : Int) - 1
  let cs := (List.range (rb.cols.toNat + 2)).map fun (i : Nat) => (i : Int) - 1
  ";".intercalate (ls.flatMap fun l => cs.map fun c => showCellQuery rb l c)

/-- The model side of one operation: new buffer and the `r=` part. -/
def modelOp (rb : RB) (op : String) (args : List String) : Option (RB × String) :=
  let ia := ints? args
  match op, args, ia with
  | "text_at", [_, _, h], _ => do
      let l ← int? args[0]!; let c ← int? args[1]!; let bs ← hexBytes? h
      pure (textAt rb l c bs, showRet (some (putStringRet bs)))
  | "textf_at", [_, _, h], _ => do
      let l ← int? args[0]!; let c ← int? args[1]!; let bs ← hexBytes? h
      -- `"%s"` formatting stops at the first NUL
      let bs := bs.takeWhile (· ≠ 0)
      pure (textAt rb l c bs, showRet (some (putStringRet bs)))
  | "text", [h], _ => do
      let bs ← hexBytes? h
      pure (text rb bs, showRet (some (textRet rb bs)))
  | "textf", [h], _ => do
      let bs ← hexBytes? h
      let bs := bs.takeWhile (· ≠ 0)
      pure (text rb bs, showRet (some (textRet rb bs)))
  | "erase_at", _, some [l, c, n] => some (eraseAt rb l c n, "r=-")
  | "erase", _, some [n] => some (erase rb n, "r=-")
  | "erase_to", _, some [c] => some (eraseTo rb c, "r=-")
  | "skip_at", _, some [l, c, n] => some (skipAt rb l c n, "r=-")
  | "skip", _, some [n] => some (skip rb n, "r=-")
  | "skip_to", _, some [c] => some (skipTo rb c, "r=-")
  | "char_at", _, some [l, c, cp] => some (charAt rb l c cp, "r=-")
  | "char", _, some [cp] => some (char rb cp, "r=-")
  | "hline", _, some [l, c1, c2, st, caps] => some (hlineAt rb l c1 c2 st.toNat caps.toNat, "r=-")
  | "vline", _, some [l1, l2, c, st, caps] => some (vlineAt rb l1 l2 c st.toNat caps.toNat, "r=-")
  | "clear", [], _ => some (clear rb, "r=-")
  | "eraserect", _, some [t, l, n, c] => some (eraserect rb ⟨t, l, n, c⟩, "r=-")
  | "skiprect", _, some [t, l, n, c] => some (skiprect rb ⟨t, l, n, c⟩, "r=-")
  | "goto", _, some [l, c] => some (goto rb l c, "r=-")
  | "ungoto", [], _ => some (ungoto rb, "r=-")
  | "xl", _, some [d, r] => some (translate rb d r, "r=-")
  | "clip", _, some [t, l, n, c] => some (clip rb ⟨t, l, n, c⟩, "r=-")
  | "mask", _, some [t, l, n, c] => some (mask rb ⟨t, l, n, c⟩, "r=-")
  | "setpen", ["NULL"], _ => some (setpen rb none, "r=-")
  | "setpen", [p], _ => (parsePenBody p).map fun pen => (setpen rb (some pen), "r=-")
  | "save", [], _ => some (save rb, "r=-")
  | "savepen", [], _ => some (savepen rb, "r=-")
  | "restore", [], _ => some (restore rb, "r=-")
  | "reset", [], _ => some (reset rb, "r=-")
  | "getcur", [], _ =>
    let r := match getCursor rb with
      | some (l, c) => s!"r=1,{l},{c}"
      | none => "r=0,-77,-77"
    some (rb, r)
  | "getcells", [], _ => some (rb, "r=" ++ showCells rb)
  | _, _, _ => none

def step (st : St) (ts : List String) (_impl : String) : St × String × String :=
  match ts with
  | ["new", l, c] =>
    match int? l, int? c with
    | some l, some c =>
      let rb := (RB.new l c garbage garbage).compact
      ({ rb := some rb }, "r=- " ++ showRB rb, "")
    | _, _ => (st, "bad-op", "")
  | op :: args =>
    match st.rb with
    | none => (st, "bad-op", "")
    | some rb =>
      match modelOp rb op args with
      | none => (st, "bad-op", "")
      | some (rb', r) =>
        let rb' := rb'.compact
        ({ rb := some rb' }, r ++ " " ++ showRB rb', "")
  | [] => (st, "bad-op", "")

def engine : Engine := { σ := St, init := {}, step := step }

end Tickit.Driver.RBEngine
