import Tickit.Model.Life
/-
  Property C08, a copy-out call of the window layer: `tickit_window_get_children(win, children, n)` (src/window.c)

      size_t ret = 0;
      for(TickitWindow *child = win->first_child; ret < n && child; child = child->next)
        children[ret++] = child;
      return ret;

  The caller's array is `n` slots it owns; what lies behind them is not the callee's ("calls that copy out to a caller's
  buffer never write beyond the length given"): a store at an index that is not below the length of the array is an
  explicit failure here.
-/
namespace Tickit
namespace Life
open WinTree (Id)

/-- `children[i] = child` on an array of `buf.length` slots. -/
def kidsStore (buf : List (Option Id)) (i : Nat) (c : Id) : Out (List (Option Id)) :=
  if i < buf.length then .ok (buf.set i (some c))
  else .ub .mem s!"tickit_window_get_children: children[{i}] stored behind an array of {buf.length}"

/-- The loop, over the sibling list from `first_child` on. -/
def getChildrenLoop (n : Nat) : List Id → List (Option Id) → Nat → Out (List (Option Id) × Nat)
  | [], buf, ret => .ok (buf, ret)
  | c :: rest, buf, ret =>
    if ret < n then
      match kidsStore buf ret c with
      | .ok buf => getChildrenLoop n rest buf (ret + 1)
      | .ub k w => .ub k w
      | .fuel => .fuel
    else .ok (buf, ret)

/-- `tickit_window_get_children(win, children, n)` on an array of exactly `n` slots (`none` = not stored to). -/
def getChildren (st : St) (w : Id) (n : Nat) : Out (List (Option Id) × Nat) :=
  match st.tree.wins[w]? with
  | none => .ub .mem s!"tickit_window_get_children: no window {w}"
  | some x =>
    if x.freed then .ub .mem s!"tickit_window_get_children: freed window {w}"
    else getChildrenLoop n x.children (List.replicate n none) 0

/-- `tickit_window_children(win)`. -/
def countChildren (st : St) (w : Id) : Nat :=
  match st.tree.wins[w]? with
  | none => 0
  | some x => x.children.length

/-- What the harness reports of `kids <w> <n>`: the return value, the slots (window index or `-` for a slot left alone),
    the count `tickit_window_children` gives. -/
def kidsText (st : St) (w : Id) (n : Nat) : Option String :=
  if !usableW st w then some "skip"
  else match getChildren st w n with
    | .ok (buf, ret) =>
      let slots := buf.map (fun s => match s with
        | some c => toString c
        | none => "-")
      some s!"ret={ret} count={countChildren st w} slots={if slots.isEmpty then "-" else ",".intercalate slots} behind=untouched"
    | _ => none

end Life
end Tickit
