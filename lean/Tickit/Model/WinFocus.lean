import Tickit.Model.WinTree
/-
  Model of the focus / cursor part of /repo/src/window.c, on top of the shared window-tree store:
  `tickit_window_take_focus`, `_focus_gained`, `_focus_lost`, the cursor setters and `tickit_window_setctl_int`,
  `tickit_window_reposition`, `_request_restore`, `_cell_visible`, `_do_restore` and the part of
  `tickit_window_flush` that matters for the cursor (queued restacking, the damage hand-over, the two flags).

  Focus handlers are loggers here (the engine's harness binds handlers that only record): an operation returns
  the list of `TICKIT_WINDOW_ON_FOCUS` invocations it makes, in order.  The terminal is the list of calls the
  window layer makes on it (`goto`, CURSORVIS, CURSORSHAPE, CURSORBLINK), applied to a four-field cursor record.

  The specification `cursorSpec` (what the property says the terminal cursor must be) is at the end.
-/
namespace Tickit
namespace WinFocus
open WinTree

/-- `TickitFocusEventType`. -/
inductive FocusType where
  | focusIn | focusOut
deriving Repr, DecidableEq, Inhabited

/-- One invocation of the `TICKIT_WINDOW_ON_FOCUS` handlers of window `target` with `info.type`, `info.win`. -/
structure Event where
  target : Id
  type : FocusType
  win : Id
deriving Repr, DecidableEq, Inhabited

/-- A call made on the terminal (`tickit_term_goto`, `tickit_term_setctl_int` with the three cursor controls). -/
inductive TermCall where
  | goto (line col : Int)
  | vis (v : Int)
  | shape (s : Int)
  | blink (b : Int)
deriving Repr, DecidableEq, Inhabited

/-- What the harness terminal remembers about its cursor (`-1` = never told). -/
structure TermCursor where
  vis : Int := -1
  line : Int := -1
  col : Int := -1
  shape : Int := -1
  blink : Int := -1
deriving Repr, DecidableEq, Inhabited

def TermCursor.apply (c : TermCursor) : TermCall → TermCursor
  | .goto l k => { c with line := l, col := k }
  | .vis v => { c with vis := v }
  | .shape s => { c with shape := s }
  | .blink b => { c with blink := b }

def TermCursor.applyAll (c : TermCursor) (calls : List TermCall) : TermCursor := calls.foldl TermCursor.apply c

/-! ### the library's own mock terminal (src/mockterm.c), as far as the cursor goes

The engine's second configuration runs the window layer on `tickit_mockterm_new` and reads the cursor back through
`tickit_term_getctl_int` and `tickit_mockterm_get_position`.  `mtd_goto_abs` clamps the position to the screen,
`mtd_setctl_int` stores `!!value` for CURSORVIS and CURSORBLINK and the raw value for CURSORSHAPE. -/

/-- `BOUND(var, min, max)`: `if(var < min) var = min; if(var > max) var = max`. -/
def bound (v lo hi : Int) : Int :=
  if (if v < lo then lo else v) > hi then hi else (if v < lo then lo else v)

/-- `!!value`. -/
def notNot (v : Int) : Int := if v ≠ 0 then 1 else 0

/-- The cursor record of a fresh mock terminal (`tickit_mockterm_new`). -/
def TermCursor.mockInit : TermCursor := { vis := 0, line := -1, col := -1, shape := 0, blink := 0 }

/-- A call as the mock terminal of `lines × cols` cells executes (and logs) it. -/
def TermCall.onMock (lines cols : Int) : TermCall → TermCall
  | .goto l k => .goto (bound l 0 (lines - 1)) (bound k 0 (cols - 1))
  | .vis v => .vis (notNot v)
  | .shape s => .shape s
  | .blink b => .blink (notNot b)

/-- The mock terminal's cursor after a list of calls. -/
def TermCursor.applyAllMock (lines cols : Int) (c : TermCursor) (calls : List TermCall) : TermCursor :=
  c.applyAll (calls.map (TermCall.onMock lines cols))

/-- `tickit_mockterm_resize` as far as the cursor goes: the position is clamped to the new screen. -/
def TermCursor.mockResize (lines cols : Int) (c : TermCursor) : TermCursor :=
  { c with line := bound c.line 0 (lines - 1), col := bound c.col 0 (cols - 1) }

/-- Which of the three repairs proposed for the defects found by this engine (`fixes/C15_*.patch`) the source carries.
    The extractor reads this off the working tree (`Gen/WinFocusSrc.lean`); the unchanged tree is `Fixes.none`.
    * `hiddenRoot`   — `_do_restore` also requires the window the walk stopped at to be visible, and hiding the
                       root window requests a restore;
    * `chainRestore` — `show` / `hide` / REMOVE request a restore when they change a `focused_child` link;
    * `focusEvents`  — `_focus_gained` tells the old branch OUT also when the window itself takes the focus, tells a
                       window that held the focus itself OUT when a descendant takes it, and tells the window whose
                       `focused_child` link changes OUT for the old child when it asked for notifications. -/
structure Fixes where
  hiddenRoot : Bool := false
  chainRestore : Bool := false
  focusEvents : Bool := false
  /-- (C01, not ours) `tickit_window_flush` hands no damage to a hidden root window -/
  flushSkipsHiddenRoot : Bool := false
  /-- (C02, not ours) `tickit_window_flush` intersects every damage rectangle with the root window's current area -/
  flushClipsDamage : Bool := false
  /-- `on_term_resize` requests a restore after it has resized the root window (fixes/C15_resize_restore.patch) -/
  resizeRestore : Bool := false
deriving Repr, DecidableEq, Inhabited

def Fixes.none : Fixes := {}
def Fixes.all : Fixes :=
  { hiddenRoot := true, chainRestore := true, focusEvents := true, flushSkipsHiddenRoot := true, flushClipsDamage := true,
    resizeRestore := true }

/-- Enough fuel for any walk along `parent` or `focused_child` in a tree without cycles. -/
def treeFuel (t : Tree) : Nat := t.wins.size + 1

/-- `_request_restore(root)` (the root record is unique in the model). -/
def requestRestore (t : Tree) : Tree :=
  { t with root := { t.root with needsRestore := true, needsLater := true } }

/-- `_request_restore(_get_root(win))`: `_get_root` aborts on an orphaned window. -/
def requestRestoreOf (t : Tree) (win : Id) : Res Tree := do
  let _ ← getRoot t (treeFuel t) win
  pure (requestRestore t)

/-! ### focus transfer -/

/- Style note: every `do` block below binds plain variables only and branches only in tail position; a C block that
   branches in the middle of a function is a helper function of its own.  (Pattern-matching `let`s and non-tail
   `match`/`if` make the elaborated term duplicate its continuation, which the proofs cannot follow.) -/

/-- First half of `_focus_lost(win)`: `if(win->focused_child) { _focus_lost(win->focused_child); if(win->focus_child_notify) OUT }`.
    `rec` is the recursive call. -/
def focusLostChild (rec : Tree → Id → Res (Tree × List Event)) (t : Tree) (win : Id) : Res (Tree × List Event) := do
  let w ← get t win
  match w.focusedChild with
  | none => pure (t, [])
  | some c => do
    let r ← rec t c
    let w' ← get r.1 win
    pure (r.1, r.2 ++ (if w'.focusChildNotify then [(⟨win, .focusOut, c⟩ : Event)] else []))

/-- Second half of `_focus_lost(win)`: `if(win->is_focused) { win->is_focused = false; OUT }`. -/
def focusLostSelf (t : Tree) (win : Id) (evs : List Event) : Res (Tree × List Event) := do
  let w ← get t win
  if w.isFocused then
    pure (set t win { w with isFocused := false }, evs ++ [⟨win, .focusOut, win⟩])
  else pure (t, evs)

/-- `_focus_lost(win)`. -/
def focusLost : Nat → Tree → Id → Res (Tree × List Event)
  | 0, _, _ => .ub "focus chain too long"
  | fuel + 1, t, win => do
    let r ← focusLostChild (focusLost fuel) t win
    focusLostSelf r.1 win r.2

/-- First block of `_focus_gained(win, child)`:
    unchanged: `if(win->focused_child && child && win->focused_child != child) _focus_lost(win->focused_child);`
    repaired:  `if(win->focused_child && win->focused_child != child) { _focus_lost(old); if(notify) OUT(old) }`. -/
def gainLoseOld (fx : Fixes) (t : Tree) (win : Id) (child : Option Id) : Res (Tree × List Event) := do
  let w ← get t win
  match w.focusedChild with
  | none => pure (t, [])
  | some fc =>
    if (child.isSome || fx.focusEvents) && some fc ≠ child then do
      let r ← focusLost (treeFuel t) t fc
      let w' ← get r.1 win
      pure (r.1, r.2 ++ (if fx.focusEvents && w'.focusChildNotify then [(⟨win, .focusOut, fc⟩ : Event)] else []))
    else pure (t, [])

/-- Repaired only: `if(child && win->is_focused) { win->is_focused = false; OUT(win) }`. -/
def gainSelfOut (fx : Fixes) (t : Tree) (win : Id) (child : Option Id) (evs : List Event) : Res (Tree × List Event) := do
  let w ← get t win
  if fx.focusEvents && child.isSome && w.isFocused then
    pure (set t win { w with isFocused := false }, evs ++ [⟨win, .focusOut, win⟩])
  else pure (t, evs)

/-- `if(win->parent) { if(win->is_visible) _focus_gained(win->parent, win); } else _request_restore(_get_root(win));` -/
def gainClimb (rec : Tree → Id → Option Id → Res (Tree × List Event)) (t : Tree) (win : Id) : Res (Tree × List Event) := do
  let w ← get t win
  match w.parent with
  | some p => if w.isVisible then rec t p (some win) else pure (t, [])
  | none => do
    let t' ← requestRestoreOf t win
    pure (t', [])

/-- The tail of `_focus_gained`: own IN event or the notification, then `win->focused_child = child`. -/
def gainSelfIn (t : Tree) (win : Id) (child : Option Id) (evs : List Event) : Res (Tree × List Event) := do
  let w ← get t win
  match child with
  | none => pure (set t win { w with isFocused := true, focusedChild := none }, evs ++ [⟨win, .focusIn, win⟩])
  | some c =>
    pure (set t win { w with focusedChild := some c },
          evs ++ (if w.focusChildNotify then [(⟨win, .focusIn, c⟩ : Event)] else []))

/-- `_focus_gained(win, child)`; `child = none` is the C `NULL` (the window itself takes the focus). -/
def focusGained (fx : Fixes) : Nat → Tree → Id → Option Id → Res (Tree × List Event)
  | 0, _, _, _ => .ub "parent chain too long"
  | fuel + 1, t, win, child => do
    let r1 ← gainLoseOld fx t win child
    let r2 ← gainSelfOut fx r1.1 win child r1.2
    let r3 ← gainClimb (focusGained fx fuel) r2.1 win
    gainSelfIn r3.1 win child (r2.2 ++ r3.2)

/-- `tickit_window_take_focus`. -/
def takeFocus (fx : Fixes) (t : Tree) (win : Id) : Res (Tree × List Event) :=
  focusGained fx (treeFuel t) t win none

/-! ### cursor setters -/

/-- The `restore:` tail of `tickit_window_setctl_int` and of the position setters. -/
def restoreIfFocused (t : Tree) (win : Id) : Res Tree := do
  let w ← get t win
  if w.isFocused then requestRestoreOf t win else pure t

/-- `tickit_window_set_cursor_position`. -/
def setCursorPosition (t : Tree) (win : Id) (line col : Int) : Res Tree := do
  let t ← modify t win (fun w => { w with cursor := { w.cursor with line := line, col := col } })
  restoreIfFocused t win

/-- Storing an `int` into an `unsigned int : 1` bit-field keeps its lowest bit. -/
def bit1 (v : Int) : Bool := v % 2 ≠ 0

/-- `tickit_window_setctl_int(win, TICKIT_WINCTL_CURSORVIS, value)`: `cursor.visible` is one bit wide. -/
def setCursorVisible (t : Tree) (win : Id) (value : Int) : Res Tree := do
  let t ← modify t win (fun w => { w with cursor := { w.cursor with visible := bit1 value } })
  restoreIfFocused t win

/-- `… TICKIT_WINCTL_CURSORSHAPE`. -/
def setCursorShape (t : Tree) (win : Id) (value : Int) : Res Tree := do
  let t ← modify t win (fun w => { w with cursor := { w.cursor with shape := value } })
  restoreIfFocused t win

/-- `… TICKIT_WINCTL_CURSORBLINK`: `value ? 1 : 0`. -/
def setCursorBlink (t : Tree) (win : Id) (value : Int) : Res Tree := do
  let t ← modify t win (fun w => { w with cursor := { w.cursor with blink := if value ≠ 0 then 1 else 0 } })
  restoreIfFocused t win

/-- `… TICKIT_WINCTL_FOCUS_CHILD_NOTIFY` (one bit, no restore request). -/
def setFocusChildNotify (t : Tree) (win : Id) (value : Int) : Res Tree :=
  modify t win (fun w => { w with focusChildNotify := bit1 value })

/-- `tickit_window_reposition`: `set_geometry` and then the restore request when the window is focused. -/
def reposition (t : Tree) (win : Id) (top left : Int) : Res Tree := do
  let w ← get t win
  let (t, _) ← setGeometry t win { w.rect with top := top, left := left }
  restoreIfFocused t win

/-- `tickit_window_resize`. -/
def resize (t : Tree) (win : Id) (lines cols : Int) : Res Tree := do
  let w ← get t win
  let (t, _) ← setGeometry t win { w.rect with lines := lines, cols := cols }
  pure t

/-! ### the terminal's resize event -/

/-- `if(info->lines > oldlines) tickit_window_expose(win, &(TickitRect){ oldlines, 0, info->lines - oldlines, info->cols })`. -/
def resizeExposeLines (t : Tree) (oldlines lines cols : Int) : Res Tree :=
  if lines > oldlines then expose t (treeFuel t) 0 (some ⟨oldlines, 0, lines - oldlines, cols⟩) else pure t

/-- `if(info->cols > oldcols) tickit_window_expose(win, &(TickitRect){ 0, oldcols, oldlines, info->cols - oldcols })`
    (`oldlines`, as in the source). -/
def resizeExposeCols (t : Tree) (oldlines oldcols cols : Int) : Res Tree :=
  if cols > oldcols then expose t (treeFuel t) 0 (some ⟨0, oldcols, oldlines, cols - oldcols⟩) else pure t

/-- `on_term_resize`, the root window's handler of `TICKIT_TERM_ON_RESIZE` (fired by `tickit_term_set_size` when the
    size changes): the root window is resized and the area gained is exposed; nothing is done about an area lost.
    Repaired (`resizeRestore`): `_request_restore(root)` at the end. -/
def termResize (fx : Fixes) (t : Tree) (lines cols : Int) : Res Tree := do
  let w ← get t 0
  let t1 ← resize t 0 lines cols
  let t2 ← resizeExposeLines t1 w.rect.lines lines cols
  let t3 ← resizeExposeCols t2 w.rect.lines w.rect.cols cols
  pure (if fx.resizeRestore then requestRestore t3 else t3)

/-! ### show / hide / close: the shared tree operations, plus the repair `chainRestore` -/

/-- `_request_restore_above(win)` of the proposed repair: walk to the top of the parent chain; request a restore
    when that is a root window (an already detached subtree has none). -/
def requestRestoreAbove (t : Tree) (win : Id) : Tree :=
  match getRoot t (treeFuel t) win with
  | .ok _ => requestRestore t
  | .ub _ => t

/-- After an operation of the shared model on `win` whose parent was `parent`: with the repair, a changed
    `focused_child` link of the parent requests a restore. -/
def chainRestoreAfter (fx : Fixes) (before after : Tree) (parent : Option Id) : Tree :=
  match parent with
  | none => after
  | some p =>
    match before.wins[p]?, after.wins[p]? with
    | some b, some a => if fx.chainRestore && b.focusedChild ≠ a.focusedChild then requestRestoreAbove after p else after
    | _, _ => after

/-- `tickit_window_show`. -/
def showWin (fx : Fixes) (t : Tree) (win : Id) : Res Tree := do
  let w ← get t win
  let t' ← WinTree.show t (treeFuel t) win
  pure (chainRestoreAfter fx t t' w.parent)

/-- `tickit_window_hide`. -/
def hideWin (fx : Fixes) (t : Tree) (win : Id) : Res Tree := do
  let w ← get t win
  let t' ← WinTree.hide t (treeFuel t) win
  -- repaired (`hiddenRoot`): else if(win->is_root) _request_restore(root)
  if fx.hiddenRoot && w.parent.isNone && w.isRoot then pure (requestRestore t')
  else pure (chainRestoreAfter fx t t' w.parent)

/-- `tickit_window_close`. -/
def closeWin (fx : Fixes) (t : Tree) (win : Id) : Res Tree := do
  let w ← get t win
  let t' ← WinTree.close t (treeFuel t) win
  pure (chainRestoreAfter fx t t' w.parent)

/-- `tickit_window_unref` of a window without live children (no DESTROY handlers that act). -/
def unrefWin (fx : Fixes) (t : Tree) (win : Id) : Res Tree := do
  let w ← get t win
  let t' ← WinTree.unref (fun t _ => pure t) (treeFuel t + 2) t win
  pure (chainRestoreAfter fx t t' w.parent)

/-! ### restoring the cursor -/

/-- The `while(win)` walk of `_do_restore`: down the `focused_child` links, stopping at an invisible window. -/
def chainWalk : Nat → Tree → Id → Res Id
  | 0, _, _ => .ub "focus chain too long"
  | fuel + 1, t, win => do
    let w ← get t win
    if !w.isVisible then pure win
    else match w.focusedChild with
      | none => pure win
      | some c => chainWalk fuel t c

/-- Does the rectangle of a (visible) child cover the cell?  The two `continue` tests of `_cell_visible`. -/
def rectCovers (r : Rect) (line col : Int) : Bool :=
  !(decide (line < r.top) || decide (line ≥ r.bottom)) && !(decide (col < r.left) || decide (col ≥ r.right))

/-- The inner `for` of `_cell_visible`: children of the window in front of `prev` (all of them when `prev` is
    `none`); `true` = some visible one covers the cell. -/
def coveredBy (t : Tree) (prev : Option Id) (line col : Int) : List Id → Res Bool
  | [] => pure false
  | ch :: rest =>
    if prev = some ch then pure false
    else do
      let cw ← get t ch
      if cw.isVisible && rectCovers cw.rect line col then pure true
      else coveredBy t prev line col rest

/-- `_cell_visible(win, line, col)`; `prev` is the window the walk came from. -/
def cellVisible : Nat → Tree → Id → Option Id → Int → Int → Res Bool
  | 0, _, _, _, _, _ => .ub "parent chain too long"
  | fuel + 1, t, win, prev, line, col => do
    let w ← get t win
    if line < 0 ∨ line ≥ w.rect.lines ∨ col < 0 ∨ col ≥ w.rect.cols then pure false
    else do
      let cov ← coveredBy t prev line col w.children
      if cov then pure false
      else match w.parent with
        | none => pure true
        | some p => cellVisible fuel t p (some win) (line + w.rect.top) (col + w.rect.left)

/-- The condition of `_do_restore` (repaired: `win->is_visible &&` in front). -/
def restoreShown (fx : Fixes) (t : Tree) (win : Id) : Res Bool := do
  let w ← get t win
  if (!fx.hiddenRoot || w.isVisible) && w.isFocused && w.cursor.visible then
    cellVisible (treeFuel t) t win none w.cursor.line w.cursor.col
  else pure false

/-- The calls `_do_restore` makes when it shows the cursor of `win`. -/
def restoreCalls (t : Tree) (win : Id) : Res (List TermCall) := do
  let w ← get t win
  let abs ← absGeometry t (treeFuel t) win
  pure ([.goto (w.cursor.line + abs.top) (w.cursor.col + abs.left), .shape w.cursor.shape]
        ++ (if w.cursor.blink ≠ -1 then [.blink w.cursor.blink] else [])
        ++ [.vis 1])

/-- `_do_restore`: the calls made on the terminal. -/
def doRestore (fx : Fixes) (t : Tree) : Res (List TermCall) := do
  let win ← chainWalk (treeFuel t) t 0
  let shown ← restoreShown fx t win
  if shown then restoreCalls t win else pure [.vis 0]

/-- The queue loop of `tickit_window_flush`. -/
def applyChanges (t : Tree) : List Req → Res Tree
  | [] => pure t
  | r :: rest => do
    let t ← doHierarchyChange t (treeFuel t) r.change r.parent r.win
    applyChanges t rest

/-- What one `tickit_window_flush(root)` does that the engine can see. -/
structure FlushOut where
  tree : Tree
  exposed : List Rect := []        -- the rectangles handed to the root's expose handlers, in order
  calls : List TermCall := []
deriving Repr, Inhabited

/-- The `if(root->needs_expose)` block of `tickit_window_flush`: the damage is handed to the expose handlers and
    cleared, the cursor is hidden, `needs_restore` is set. -/
def flushExpose (t : Tree) : Tree :=
  if t.root.needsExpose then
    { t with root := { t.root with needsExpose := false, damage := [], needsRestore := true } }
  else t

/-- The `if(root->needs_restore)` block of `tickit_window_flush`. -/
def flushRestore (fx : Fixes) (t : Tree) (exposed : List Rect) (c1 : List TermCall) : Res FlushOut :=
  if t.root.needsRestore then do
    let c2 ← doRestore fx { t with root := { t.root with needsRestore := false } }
    pure { tree := { t with root := { t.root with needsRestore := false } }, exposed := exposed, calls := c1 ++ c2 }
  else pure { tree := t, exposed := exposed, calls := c1 }

/-- The rectangles `tickit_window_flush` hands to the root window's expose handlers: the stored damage; repaired:
    nothing for a hidden root, and each rectangle intersected with the root's current area. -/
def flushExposed (fx : Fixes) (t : Tree) : List Rect :=
  if !t.root.needsExpose then []
  else match t.wins[0]? with
    | none => t.root.damage
    | some r =>
      if fx.flushSkipsHiddenRoot && !r.isVisible then []
      else if fx.flushClipsDamage then
        t.root.damage.filterMap (fun d => Rect.intersect d ⟨0, 0, r.rect.lines, r.rect.cols⟩)
      else t.root.damage

/-- `tickit_window_flush(root)`.  Rendering is not modelled: the harness binds no handler that draws, so the
    render buffer stays empty and `flush_to_term` makes no call on the terminal. -/
def flush (fx : Fixes) (t : Tree) : Res FlushOut :=
  if !t.root.needsLater then pure { tree := t }
  else do
    let t1 ← applyChanges { t with root := { t.root with needsLater := false } } t.root.changes
    flushRestore fx (flushExpose { t1 with root := { t1.root with changes := [] } })
      (flushExposed fx t1)
      (if t1.root.needsExpose then [TermCall.vis 0] else [])

/-! ### specification -/

/-- The end of the focus chain: follow `focused_child` from the root as far as it goes. -/
def chainEnd (t : Tree) : Nat → Id → Id
  | 0, win => win
  | fuel + 1, win =>
    match t.wins[win]? with
    | some w => match w.focusedChild with
      | some c => chainEnd t fuel c
      | none => win
    | none => win

/-- A window and all its ancestors are visible. -/
def allVisible (t : Tree) : Nat → Id → Bool
  | 0, _ => false
  | fuel + 1, win =>
    match t.wins[win]? with
    | some w => w.isVisible && !w.freed && (match w.parent with
      | some p => allVisible t fuel p
      | none => w.isRoot)
    | none => false

/-- Absolute position of cell `(line, col)` of window `win`: translated by the window and every ancestor. -/
def absCell (t : Tree) : Nat → Id → Int → Int → Int × Int
  | 0, _, line, col => (line, col)
  | fuel + 1, win, line, col =>
    match t.wins[win]? with
    | some w => match w.parent with
      | some p => absCell t fuel p (line + w.rect.top) (col + w.rect.left)
      | none => (line + w.rect.top, col + w.rect.left)
    | none => (line, col)

/-- The cell `(line, col)` of `win` lies inside `win` and, translated, inside every ancestor. -/
def insideAll (t : Tree) : Nat → Id → Int → Int → Bool
  | 0, _, _, _ => false
  | fuel + 1, win, line, col =>
    match t.wins[win]? with
    | some w =>
      decide (0 ≤ line) && decide (line < w.rect.lines) && decide (0 ≤ col) && decide (col < w.rect.cols) &&
      (match w.parent with
       | some p => insideAll t fuel p (line + w.rect.top) (col + w.rect.left)
       | none => true)
    | none => false

/-- What the terminal cursor must be after a flush: `none` = hidden, `some (line, col, shape)` = visible there. -/
def cursorSpec (t : Tree) : Option (Int × Int × Int) :=
  match t.wins[chainEnd t (treeFuel t) 0]? with
  | none => none
  | some w =>
    if w.isFocused && allVisible t (treeFuel t) (chainEnd t (treeFuel t) 0) && w.cursor.visible &&
       insideAll t (treeFuel t) (chainEnd t (treeFuel t) 0) w.cursor.line w.cursor.col &&
       (owner t (absCell t (treeFuel t) (chainEnd t (treeFuel t) 0) w.cursor.line w.cursor.col).1
                (absCell t (treeFuel t) (chainEnd t (treeFuel t) 0) w.cursor.line w.cursor.col).2
          == some (chainEnd t (treeFuel t) 0)) then
      some ((absCell t (treeFuel t) (chainEnd t (treeFuel t) 0) w.cursor.line w.cursor.col).1,
            (absCell t (treeFuel t) (chainEnd t (treeFuel t) 0) w.cursor.line w.cursor.col).2, w.cursor.shape)
    else none

/-- The terminal cursor agrees with a specification value. -/
def TermCursor.matches (c : TermCursor) : Option (Int × Int × Int) → Bool
  | none => c.vis == 0
  | some (l, k, s) => c.vis == 1 && c.line == l && c.col == k && c.shape == s

/-! ### specification of restacking

  `raise` / `raise_to_front` / `lower` / `lower_to_back` are requests: they take effect at the next flush, *in the order
  they were made*.  "Not covered by another window" in the cursor clause is therefore read on the tree whose sibling
  lists are the ones found at the flush with the requests applied to them one after the other, oldest first. -/

/-- `w` one place towards the front (no effect on the front-most window or on a window that is not in the list). -/
def swapPrev : List Id → Id → List Id
  | x :: y :: rest, w =>
    if x = w then x :: y :: rest
    else if y = w then y :: x :: rest
    else x :: swapPrev (y :: rest) w
  | cs, _ => cs

/-- `w` one place towards the back (no effect on the rear-most window or on a window that is not in the list). -/
def swapNext : List Id → Id → List Id
  | x :: y :: rest, w =>
    if x = w then y :: x :: rest
    else x :: swapNext (y :: rest) w
  | cs, _ => cs

/-- The sibling list (front-most first) one restacking request asks for. -/
def stackSpec (ch : Change) (cs : List Id) (w : Id) : List Id :=
  if !cs.contains w then cs
  else match ch with
    | .raise => swapPrev cs w
    | .raiseFront => w :: cs.erase w
    | .lower => swapNext cs w
    | .lowerBack => cs.erase w ++ [w]
    | _ => cs

/-- One request applied to the tree: only the sibling list of the window's parent changes (a window without a parent —
    the root, a closed or freed window — has no siblings to be restacked among). -/
def applyStackReq (t : Tree) (r : Change × Id) : Tree :=
  match t.wins[r.2]? with
  | none => t
  | some w =>
    match w.parent with
    | none => t
    | some p =>
      match t.wins[p]? with
      | none => t
      | some pw => { t with wins := t.wins.setIfInBounds p { pw with children := stackSpec r.1 pw.children r.2 } }

/-- The requests applied in the order they were made (oldest first). -/
def stackApplied (t : Tree) (reqs : List (Change × Id)) : Tree := reqs.foldl applyStackReq t

/-- The sibling lists of `t` replaced by those of `s` (everything else — geometry, flags, cursor records, focus links —
    is `t`'s). -/
def withStacking (t s : Tree) : Tree :=
  { t with wins := t.wins.mapIdx fun i w =>
      match s.wins[i]? with
      | some w' => { w with children := w'.children }
      | none => w }

/-- What the terminal cursor must be after a flush that found the tree `before` with the requests `reqs` (oldest first)
    outstanding and left the tree `after`: the cursor clause on `after` stacked as the requests, applied in request order,
    say. -/
def cursorSpecReq (before after : Tree) (reqs : List (Change × Id)) : Option (Int × Int × Int) :=
  cursorSpec (withStacking after (stackApplied before reqs))

end WinFocus
end Tickit
