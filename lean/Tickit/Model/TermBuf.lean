import Tickit.Gen.TermBuf
/-
  Model of the output buffer of /repo/src/term.c and of the callers that feed it, statement by statement:

    write_str, tickit_term_flush, tickit_term_set_output_buffer, tickit_term_set_output_fd/_func,
    get_tmpbuffer, write_vstrf (two-pass formatting), tickit_term_print/printn/vprintf,
    tickit_term_teardown/pause/resume/destroy,
  and the pieces of src/termdriver-xterm.c those reach: print, goto_abs, setctl_int(ALTSCREEN|CURSORVIS),
  setctl_str(TITLE_TEXT), start, teardown (= stop = pause), resume.

  `size_t` is `Nat`; a C string argument is the list of bytes found at the pointer (`mem`), up to and including
  whatever terminator the caller supplied; reading past `mem` is an explicit `ub` outcome.  libc's `vsnprintf`
  is modelled by `vsnprintfStore`: the fully formatted result `s` is a parameter, the call stores
  `min(|s|, size-1)` bytes plus a NUL and returns `|s|` (C99).  `malloc` never fails.  A short `write(2)` is
  not modelled (DESIGN.md §7 C11: the property speaks of chunks *delivered*).

  All byte strings and format strings of the xterm driver, and the size of write_vstrf's stack buffer, come
  from `Tickit.Gen.TermBuf`, regenerated from the C source on every run.
  No Mathlib import: this file is linked into the driver executable.
-/
namespace Tickit.TermBuf
open Tickit.Gen.TermBuf

abbrev Bytes := List UInt8

/-- Where a chunk went: the output function or `write(2)` on the output descriptor. -/
inductive Dest where
  | func
  | fd
deriving DecidableEq, Repr

/-- One call of the output function / one `write(2)`.  `fin` is the call `(*outfunc)(tt, NULL, 0, user)`. -/
inductive Chunk where
  | data (d : Dest) (b : Bytes)
  | fin
deriving DecidableEq, Repr

/-- The part of the terminal/driver state that decides *which bytes are requested* (never how they are
    chunked): `tt->state != UNSTARTED`, `xd->mode.altscreen`, `xd->mode.cursorvis`. -/
structure Mode where
  started   : Bool := false
  altscreen : Bool := false
  cursorvis : Bool := true
deriving DecidableEq, Repr

structure State where
  hasFunc : Bool := false          -- tt->outfunc != NULL
  outfd   : Int := outfd_initial   -- tt->outfd, the descriptor NUMBER; tickit_term_build sets -1 = none
  bufLen  : Nat := 0               -- tt->outbuffer_len; tt->outbuffer != NULL iff bufLen != 0
  buf     : Bytes := []            -- tt->outbuffer[0 .. outbuffer_cur); outbuffer_cur = buf.length
  out     : List Chunk := []       -- every chunk delivered so far, in order (ghost)
  tmpLen  : Nat := 0               -- tt->tmpbuffer_len
  mode    : Mode := {}
deriving DecidableEq, Repr

inductive Outcome where
  | ok (st : State)
  | ub (why : String)
  | outOfFuel
deriving DecidableEq, Repr

def Outcome.bind (o : Outcome) (f : State → Outcome) : Outcome :=
  match o with
  | .ok st => f st
  | .ub w => .ub w
  | .outOfFuel => .outOfFuel

/-! ### term.c: the output buffer -/

/-- The two-armed tail found in `tickit_term_flush` and in the unbuffered `write_str`:
    `if(tt->outfunc) (*tt->outfunc)(…) else if(<test of tt->outfd>) write(tt->outfd, …)`.
    The test `guard` is the C condition of that place, translated by the extractor (`flush_fd_guard`,
    `write_str_fd_guard`: both `tt->outfd != -1` in the unchanged source). -/
def deliverWith (guard : Int → Bool) (st : State) (b : Bytes) : State :=
  if st.hasFunc then { st with out := st.out ++ [.data .func b] }
  else if guard st.outfd then { st with out := st.out ++ [.data .fd b] }
  else st

/-- The tail of `tickit_term_flush`. -/
def deliver (st : State) (b : Bytes) : State := deliverWith flush_fd_guard st b

/-- `tickit_term_flush`. -/
def flush (st : State) : State :=
  if st.buf.length = 0 then st
  else { deliver st st.buf with buf := [] }

/-- `strlen`: number of bytes before the first NUL of `mem`. -/
def cstr (mem : Bytes) : Bytes := mem.takeWhile (· != 0)
def cstrlen (mem : Bytes) : Nat := (cstr mem).length

/-- The `while(len > 0)` loop of `write_str` (`tt->outbuffer != NULL`); `str` is what remains to be copied. -/
def writeLoop : Nat → State → Bytes → Outcome
  | 0, _, _ => .outOfFuel
  | fuel + 1, st, str =>
    if str.length = 0 then .ok st
    else if st.bufLen < st.buf.length then
      .ub "write_str: outbuffer_cur > outbuffer_len, `space` wraps around and memcpy overruns the buffer"
    else
      let space0 := st.bufLen - st.buf.length
      let space := if str.length < space0 then str.length else space0
      let st1 := { st with buf := st.buf ++ str.take space }
      let st2 := if st1.buf.length ≥ st1.bufLen then flush st1 else st1
      writeLoop fuel st2 (str.drop space)

/-- `write_str(tt, str, len)`; `mem` = the bytes readable at `str`. -/
def writeStr (st : State) (mem : Bytes) (len : Nat) : Outcome :=
  if len = 0 ∧ !(mem.contains 0) then .ub "write_str: strlen runs past the end of str"
  else
    let len := if len = 0 then cstrlen mem else len
    if mem.length < len then .ub "write_str: len exceeds the bytes readable at str"
    else
      let str := mem.take len
      if st.bufLen ≠ 0 then writeLoop (2 * len + 2) st str
      else .ok (deliverWith write_str_fd_guard st str)

/-- What a `write_str(tt, str, len)` request means in bytes: the `len == 0 ⇒ strlen` quirk included. -/
def effective (mem : Bytes) (len : Nat) : Bytes :=
  if len = 0 then cstr mem else mem.take len

/-- `tickit_term_set_output_buffer`: the old buffer is freed and the fill level reset — pending bytes are dropped. -/
def setOutputBuffer (st : State) (len : Nat) : State :=
  { st with bufLen := len, buf := [] }

/-- `get_tmpbuffer`. -/
def getTmpbuffer (st : State) (len : Nat) : State :=
  if st.tmpLen < len then { st with tmpLen := len } else st

/-- What `vsnprintf(buf, size, fmt, …)` stores at `buf` when the complete result is `s` (it returns `s.length`). -/
def vsnprintfStore (size : Nat) (s : Bytes) : Bytes :=
  if size = 0 then [] else s.take (size - 1) ++ [0]

/-- `write_vstrf`: `s` is the complete formatted result (both passes format the same arguments). -/
def writeVstrf (st : State) (s : Bytes) : Outcome :=
  let buffer := vsnprintfStore strf_stack_buffer s
  let len := s.length
  if len < strf_stack_buffer then writeStr st buffer len
  else
    let st1 := getTmpbuffer st (len + 1)
    let morebuffer := vsnprintfStore (len + 1) s
    writeStr st1 morebuffer len

/-! ### printf formatting as far as the callers need it (libc, modelled) -/

def decimal (i : Int) : Bytes := (toString i).toList.map (fun c => UInt8.ofNat c.toNat)

/-- `%d` consumes the next int, `%s` the next C string. A missing argument renders as nothing
    (undefined in C; no modelled caller does it). -/
def render : List Piece → List Int → List Bytes → Bytes
  | [], _, _ => []
  | .lit b :: r, is, ss => b ++ render r is ss
  | .int :: r, i :: is, ss => decimal i ++ render r is ss
  | .int :: r, [], ss => render r [] ss
  | .str :: r, is, s :: ss => cstr s ++ render r is ss
  | .str :: r, is, [] => render r is []

/-- `tickit_termdrv_write_strf`. -/
def writeStrf (st : State) (fmt : List Piece) (ints : List Int) (strs : List Bytes) : Outcome :=
  writeVstrf st (render fmt ints strs)

/-- A string literal: its bytes and the implicit NUL. -/
def literal (b : Bytes) : Bytes := b ++ [0]

/-! ### termdriver-xterm.c -/

/-- `print` (vtable): a bare `tickit_termdrv_write_str`. -/
def drvPrint (st : State) (mem : Bytes) (len : Nat) : Outcome := writeStr st mem len

/-- `goto_abs`. -/
def drvGoto (st : State) (line col : Int) : Outcome :=
  if line ≠ -1 ∧ col > 0 then writeStrf st goto_fmt_line_col [line + 1, col + 1] []
  else if line ≠ -1 ∧ col = 0 then writeStrf st goto_fmt_line_col0 [line + 1] []
  else if line ≠ -1 then writeStrf st goto_fmt_line [line + 1] []
  else if col > 0 then writeStrf st goto_fmt_col [col + 1] []
  else if col ≠ -1 then writeStr st (literal goto_col0) goto_col0_len
  else .ok st

inductive Ctl where
  | altscreen
  | cursorvis
deriving DecidableEq, Repr

/-- `setctl_int` for ALTSCREEN and CURSORVIS (`value` already reduced to `!!value`). -/
def drvSetctl (st : State) (c : Ctl) (v : Bool) : Outcome :=
  match c with
  | .altscreen =>
    if st.mode.altscreen = v then .ok st
    else (writeStr st (literal (if v then altscreen_on else altscreen_off)) altscreen_setctl_len).bind fun st =>
      .ok { st with mode := { st.mode with altscreen := v } }
  | .cursorvis =>
    if st.mode.cursorvis = v then .ok st
    else (writeStr st (literal (if v then cursorvis_on else cursorvis_off)) cursorvis_setctl_len).bind fun st =>
      .ok { st with mode := { st.mode with cursorvis := v } }

/-- `setctl_str(TICKIT_TERMCTL_TITLE_TEXT, value)`. -/
def drvTitle (st : State) (value : Bytes) : Outcome := writeStrf st title_fmt [] [value]

def writeFmts (st : State) : List (List Piece) → Outcome
  | [] => .ok st
  | f :: r => (writeStrf st f [] []).bind fun st => writeFmts st r

/-- `start`: the probing strings, then `tickit_term_flush`. -/
def drvStart (st : State) : Outcome :=
  (writeFmts st start_fmts).bind fun st => .ok (if start_ends_with_flush then flush st else st)

/-- `teardown` (vtable `.stop` and `.pause`); mouse and keypad modes are never set by the modelled calls. -/
def drvTeardown (st : State) : Outcome :=
  (if !st.mode.cursorvis then writeStr st (literal teardown_cursorvis) teardown_cursorvis_len else .ok st).bind fun st =>
  (if st.mode.altscreen then writeStr st (literal teardown_altscreen) teardown_altscreen_len else .ok st).bind fun st =>
  (writeStr st (literal teardown_pen_reset) teardown_pen_reset_len).bind fun st =>
  .ok (if driver_teardown_flushes then flush st else st)

/-- `resume` (vtable). -/
def drvResume (st : State) : Outcome :=
  (if st.mode.altscreen then writeStr st (literal resume_altscreen) resume_altscreen_len else .ok st).bind fun st =>
  (if !st.mode.cursorvis then writeStr st (literal resume_cursorvis) resume_cursorvis_len else .ok st).bind fun st =>
  .ok (if driver_resume_flushes then flush st else st)

/-! ### term.c: the public calls -/

/-- The common tail of `tickit_term_set_output_fd` / `_func`: start the driver on the first output method. -/
def startIfUnstarted (st : State) : Outcome :=
  if st.mode.started then .ok st
  else (drvStart st).bind fun st => .ok { st with mode := { st.mode with started := true } }

/-- `tickit_term_set_output_fd(tt, fd)`: `tt->outfd = fd` (a pipe: `TIOCGWINSZ` fails, the size is left alone),
    then the driver is started if it was not.  `postFd` is the state after the assignment. -/
def postFd (st : State) (fd : Int) : State := { st with outfd := if set_output_fd_stores then fd else st.outfd }

def setOutputFd (st : State) (fd : Int) : Outcome := startIfUnstarted (postFd st fd)

/-- `tickit_term_set_output_func`: the previous function, if any, is told `(NULL, 0)`. -/
def setOutputFunc (st : State) : Outcome :=
  let st := if st.hasFunc then { st with out := st.out ++ [.fin] } else st
  startIfUnstarted { st with hasFunc := true }

/-- `tickit_term_print`: `strlen`, then the driver's print. -/
def termPrint (st : State) (mem : Bytes) : Outcome :=
  if !(mem.contains 0) then .ub "tickit_term_print: strlen runs past the end of str"
  else drvPrint st mem (cstrlen mem)

/-- `tickit_term_printn`: since 6b09beb a zero length returns at once (`printn_zero_len_returns`, read from the
    source), so the `0 ⇒ strlen` convention of `write_str` is no longer reachable from this call. -/
def termPrintn (st : State) (mem : Bytes) (len : Nat) : Outcome :=
  if printn_zero_len_returns = true ∧ len = 0 then .ok st else drvPrint st mem len

/-- What `tickit_term_printn(tt, mem, len)` asks to be output. -/
def printnBytes (mem : Bytes) (len : Nat) : Bytes :=
  if printn_zero_len_returns = true ∧ len = 0 then [] else effective mem len

/-- `tickit_term_vprintf`: size pass with `vsnprintf(NULL, 0, …)`, then the tmpbuffer. -/
def termVprintf (st : State) (s : Bytes) : Outcome :=
  let len := s.length
  let st1 := getTmpbuffer st (len + 1)
  let buf := vsnprintfStore (len + 1) s
  drvPrint st1 buf len

/-- `tickit_term_teardown` (no termkey instance: there is no input descriptor). -/
def termTeardown (st : State) : Outcome :=
  (if st.mode.started then
      (if stop_is_teardown then drvTeardown st else .ok st).bind fun st =>
        .ok { st with mode := { st.mode with started := false } }
    else .ok st).bind fun st =>
  .ok (if term_teardown_flushes then flush st else st)

/-- `tickit_term_pause`. -/
def termPause (st : State) : Outcome :=
  (if pause_is_teardown then drvTeardown st else .ok st).bind fun st =>
  .ok (if term_pause_flushes then flush st else st)

/-- `tickit_term_resume`.  Since 10b95e5 it ends with `chpen(driver, tt->pen, tt->pen)` (`term_resume_resends_pen`);
    no modelled call sets the terminal pen, so the cached pen is empty, xterm's `chpen` finds no attribute
    (`pindex == 0`) and writes nothing: a no-op for the byte stream. -/
def termResume (st : State) : Outcome :=
  (drvResume st).bind fun st => .ok (if term_resume_flushes then flush st else st)

/-- `tickit_term_destroy` as far as output goes: teardown, flush, `(NULL, 0)` to the output function. -/
def termDestroy (st : State) : Outcome :=
  (termTeardown st).bind fun st =>
  let st := flush st
  .ok (if st.hasFunc then { st with out := st.out ++ [.fin] } else st)

/-! ### operations of the engine -/

inductive Op where
  | printn (mem : Bytes) (len : Nat)
  | print (mem : Bytes)
  | printf (mem : Bytes) (d : Int)          -- tickit_term_printf(tt, "%s|%d", mem, d)
  | title (mem : Bytes)
  | goto (line col : Int)
  | ctl (c : Ctl) (v : Bool)
  | flush
  | pause
  | resume
  | teardown
  | setbuf (n : Nat)
  | setFd (fd : Int)                        -- tickit_term_set_output_fd(tt, fd)
  | setFunc
  | destroy
deriving DecidableEq, Repr

/-- The format of the engine's `printf` operation: `"%s|%d"`. -/
def printfFmt : List Piece := [.str, .lit [124], .int]

def step (st : State) : Op → Outcome
  | .printn mem len => termPrintn st mem len
  | .print mem => termPrint st mem
  | .printf mem d =>
    if !(mem.contains 0) then .ub "printf %s: strlen runs past the end of the argument"
    else termVprintf st (render printfFmt [d] [mem])
  | .title mem =>
    if !(mem.contains 0) then .ub "setctl_str: %s runs past the end of the argument"
    else drvTitle st mem
  | .goto l c => drvGoto st l c
  | .ctl c v => drvSetctl st c v
  | .flush => .ok (flush st)
  | .pause => termPause st
  | .resume => termResume st
  | .teardown => termTeardown st
  | .setbuf n => .ok (setOutputBuffer st n)
  | .setFd fd => setOutputFd st fd
  | .setFunc => setOutputFunc st
  | .destroy => termDestroy st

def run (st : State) : List Op → Outcome
  | [] => .ok st
  | o :: os => (step st o).bind fun st => run st os

/-- How the harness builds a terminal (`new <n> <func|fd|both|none> <late|early> [<fd> …]`):
    late  = `tickit_term_build` with the output method(s) and `.output_buffersize = n`
            (fd, then function, then — only `if(builder.output_buffersize)` — the buffer);
    early = built without output, `set_output_buffer(n)`, then fd, then function.
    `fd` is the descriptor number (`TICKIT_OPEN_FDS` hands `builder.output_fd` to `tickit_term_set_output_fd`
    only `if(fd_out != -1)`; the harness never passes -1). -/
def buildOps (n : Nat) (useFunc useFd early : Bool) (fd : Int := 3) : List Op :=
  let attach := (if useFd then [Op.setFd fd] else []) ++ (if useFunc then [Op.setFunc] else [])
  if early then Op.setbuf n :: attach
  else attach ++ (if n ≠ 0 then [Op.setbuf n] else [])

def init : State := {}

end Tickit.TermBuf
