/-
  Model of /repo/src/rect.c (TickitRect operations), statement by statement.
  C `int` is modelled as unbounded `Int` (DESIGN.md §3).
  No Mathlib import: this file is linked into the driver executable.
-/
namespace Tickit

structure Rect where
  top   : Int
  left  : Int
  lines : Int
  cols  : Int
deriving DecidableEq, Repr, Inhabited

namespace Rect

/-- `tickit_rect_bottom` (include/tickit.h, static inline). -/
@[inline] def bottom (r : Rect) : Int := r.top + r.lines
/-- `tickit_rect_right`. -/
@[inline] def right (r : Rect) : Int := r.left + r.cols

/-- `tickit_rect_init_bounded`. -/
def initBounded (top left bottom right : Int) : Rect :=
  { top := top, left := left, lines := bottom - top, cols := right - left }

/-- `tickit_rect_translate`. -/
def translate (r : Rect) (downward rightward : Int) : Rect :=
  { r with top := r.top + downward, left := r.left + rightward }

/-- `tickit_rect_intersect`: `none` is the `false` return (dst untouched). -/
def intersect (a b : Rect) : Option Rect :=
  let top    := max a.top b.top
  let bottom := min a.bottom b.bottom
  if top ≥ bottom then none
  else
    let left  := max a.left b.left
    let right := min a.right b.right
    if left ≥ right then none
    else some (initBounded top left bottom right)

/-- `tickit_rect_intersects`. -/
def intersects (a b : Rect) : Bool :=
  a.top < b.bottom && b.top < a.bottom && a.left < b.right && b.left < a.right

/-- `tickit_rect_contains(large, small)`. -/
def contains (large small : Rect) : Bool :=
  small.top ≥ large.top && small.bottom ≤ large.bottom &&
  small.left ≥ large.left && small.right ≤ large.right

/-- The three compare-exchanges on `rows[4]` of `tickit_rect_add`
    (`if(x > y) swap(x, y)` leaves `(min x y, max x y)`). -/
def sortRows (r0 r1 r2 r3 : Int) : Int × Int × Int × Int :=
  let s0 := min r0 r1
  let s1 := max r0 r1
  let s2 := min r2 r3
  let s3 := max r2 r3
  (s0, min s1 s2, max s1 s2, s3)

/-- `has_a` / `has_b` of the band loop. -/
def bandHas (r : Rect) (thisTop thisBottom : Int) : Bool :=
  decide (thisTop ≥ r.top) && decide (thisBottom ≤ r.bottom)

/-- `this_left`. -/
def bandLeft (a b : Rect) (t t' : Int) : Int :=
  if bandHas a t t' && bandHas b t t' then min a.left b.left
  else if bandHas a t t' then a.left else b.left

/-- `this_right`. -/
def bandRight (a b : Rect) (t t' : Int) : Int :=
  if bandHas a t t' && bandHas b t t' then max a.right b.right
  else if bandHas a t t' then a.right else b.right

/-- The tail of the loop body: extend `ret[rects-1]` or append a new rectangle.
    `acc` is `ret[0..rects)` stored newest first (head = `ret[rects-1]`). -/
def pushBand (acc : List Rect) (thisTop thisBottom thisLeft thisRight : Int) : List Rect :=
  match acc with
  | last :: rest =>
    if last.left = thisLeft ∧ last.cols = thisRight - thisLeft then
      { last with lines := thisBottom - last.top } :: rest
    else
      initBounded thisTop thisLeft thisBottom thisRight :: acc
  | [] => [initBounded thisTop thisLeft thisBottom thisRight]

/-- One iteration of the band loop of `tickit_rect_add`. -/
def addBand (a b : Rect) (acc : List Rect) (thisTop thisBottom : Int) : List Rect :=
  if thisTop = thisBottom then acc
  else pushBand acc thisTop thisBottom (bandLeft a b thisTop thisBottom) (bandRight a b thisTop thisBottom)

/-- `tickit_rect_add`: the list is `ret[0..n)` in order. -/
def add (a b : Rect) : List Rect :=
  if a.left > b.right ∨ b.left > a.right ∨ a.top > b.bottom ∨ b.top > a.bottom then
    [a, b]
  else
    let (r0, r1, r2, r3) := sortRows a.top b.top a.bottom b.bottom
    let acc := addBand a b [] r0 r1
    let acc := addBand a b acc r1 r2
    let acc := addBand a b acc r2 r3
    acc.reverse

/-- `tickit_rect_subtract(ret, orig, hole)`. -/
def subtract (orig hole : Rect) : List Rect :=
  if contains hole orig then []
  else if !intersects hole orig then [orig]
  else
    let midTop    := max orig.top hole.top
    let midBottom := min orig.bottom hole.bottom
    (if orig.top < hole.top then [initBounded orig.top orig.left hole.top orig.right] else []) ++
    (if orig.left < hole.left then [initBounded midTop orig.left midBottom hole.left] else []) ++
    (if orig.right > hole.right then [initBounded midTop hole.right midBottom orig.right] else []) ++
    (if orig.bottom > hole.bottom then [initBounded hole.bottom orig.left orig.bottom orig.right] else [])

/-! ### Specification vocabulary -/

/-- A rectangle with positive extent. -/
def Nonempty (r : Rect) : Prop := 0 < r.lines ∧ 0 < r.cols

instance (r : Rect) : Decidable r.Nonempty := by unfold Nonempty; exact inferInstance

/-- Cell `(l, c)` belongs to `r`. -/
def Mem (r : Rect) (l c : Int) : Prop :=
  r.top ≤ l ∧ l < r.bottom ∧ r.left ≤ c ∧ c < r.right

instance (r : Rect) (l c : Int) : Decidable (r.Mem l c) := by unfold Mem; exact inferInstance

/-- Two rectangles share no cell. -/
def Disjoint (a b : Rect) : Prop := ∀ l c, ¬ (a.Mem l c ∧ b.Mem l c)

/-- Executable membership (for the runtime oracle). -/
def memb (r : Rect) (l c : Int) : Bool :=
  decide (r.top ≤ l) && decide (l < r.bottom) && decide (r.left ≤ c) && decide (c < r.right)

end Rect

/-- Cell covered by some rectangle of a list. -/
def Covered (rs : List Rect) (l c : Int) : Prop := ∃ r ∈ rs, r.Mem l c

def coveredb (rs : List Rect) (l c : Int) : Bool := rs.any (fun r => r.memb l c)

end Tickit
