import Tickit.Model.LifeRB
/-
  Property C08, third part of the model: the operation language of the `life` engine (what the application
  does), one step of a history, the final release of everything the application holds, and what "well-formed"
  means for an operation.
-/
namespace Tickit
namespace Life
open WinTree (Id Win Req Change Tree)

inductive Op where
  | newTerm (lines cols : Int) (mock : Bool)                  -- terminal + root window (window 0)
  | win (parent : Id) (r : Rect) (flags : Nat)               -- tickit_window_new
  | act (a : Act)                                            -- unref/ref/close/restack/hide/show/flush
  | geom (w : Id) (r : Rect)
  | focus (w : Id)
  | expose (w : Id)
  | bind (w : Id) (ev : Ev) (ret : Bool) (acts : List Act)
  | unbind (w : Id) (id : Int)
  | key
  | mouse (m : Mouse)
  | pen | pref (k : Nat) | punref (k : Nat) | pset (k : Nat) (val : Int)
  | pdesc (k : Nat) (desc : List UInt8) | pcopy (d s : Nat) (overwrite : Bool) | pcopyattr (d s : Nat)
  | pbind (k : Nat) (acts : List PAct) | punbind (k : Nat) (id : Int)
  | setpen (w : Id) (p : Option Nat)
  | tref | tunref
  | str (bytes : List UInt8) | sref (k : Nat) | sunref (k : Nat) | sget (k : Nat)
  | rb (lines cols : Int) | bref (k : Nat) | bunref (k : Nat)
  | btext (k : Nat) (line col : Int) (bytes : List UInt8)
  | berase (k : Nat) (line col cols : Int)
  | bskip (k : Nat) (line col cols : Int)
  | bchar (k : Nat) (line col cp : Int)
  | bhline (k : Nat) (line c1 c2 : Int)
  | bclear (k : Nat) | breset (k : Nat) | bsave (k : Nat) | bsavepen (k : Nat) | brestore (k : Nat)
  | bsetpen (k : Nat) (p : Option Nat)
  | bflush (k : Nat)
  | bcell (k : Nat) (line col : Int) (len : Int)             -- get_cell_text; len < 0 = NULL buffer
  | bspan (k : Nat) (line col : Int) (len : Int)             -- get_span
  | mdisp (len : Int) (line col width : Int)                 -- tickit_mockterm_get_display_text
  | «end»
deriving Repr, Inhabited

/-- Operations that run no event handler and do not draw into a render buffer (the ones `no_ub` covers;
    `end` is covered by `all_released`). -/
def Op.plain : Op → Bool
  | .focus _ | .key | .mouse _ | .mdisp .. | .«end» => false
  | .pset .. | .pdesc .. | .pcopy .. | .pcopyattr .. | .pbind .. | .punbind .. => false
  | .btext .. | .berase .. | .bskip .. | .bchar .. | .bhline .. | .bclear _ => false
  | _ => true

/-- The pen operations with reference traffic inside the library: change events (whose handlers take and drop
    references to pens), `freeze`/`thaw`, the source kept alive by `tickit_pen_copy`. -/
def Op.penEvent : Op → Bool
  | .pset .. | .pdesc .. | .pcopy .. | .pcopyattr .. | .pbind .. | .punbind .. => true
  | _ => false

/-- What a handler may do without freeing anything: every action except `tickit_window_unref`. -/
def Act.keeps : Act → Bool
  | .unref _ => false
  | _ => true

/-- Every handler bound in this state frees nothing. -/
def KeepingHandlers (st : St) : Prop :=
  ∀ (i : Nat) (b : Bind), b ∈ (getX st i).binds → ∀ a ∈ b.acts, a.keeps = true

/-! ## observation text (must equal what harness/life.c prints) -/

def showIds (l : List Id) : String := ",".intercalate (l.map toString)

def dumpWin (st : St) (i : Nat) (w : Win) : String :=
  if w.freed then s!" {i}:x"
  else
    let p := match w.parent with | none => "-" | some p => toString p
    let b (x : Bool) := if x then "1" else "0"
    let _ := st
    s!" {i}:p{p}:c{showIds w.children}:v{b w.isVisible}:f{b w.isFocused}"

def bits {α : Type} (l : List α) (alive : α → Bool) : String :=
  if l.isEmpty then "-" else String.join (l.map (fun x => if alive x then "1" else "0"))

def dump (st : St) : String :=
  let ws := String.join ((List.range st.tree.wins.size).map (fun i => dumpWin st i (st.tree.wins[i]?.getD {})))
  s!" | W{ws} | P {bits st.pens.toList (fun p => !p.freed)} | S {bits st.strs.toList (fun s => !s.freed)} | B {bits st.rbs.toList (fun b => !b.freed)} | T {if st.term.freed then 0 else 1}"

def hex2 (n : Nat) : String :=
  let d (k : Nat) : Char := if k < 10 then Char.ofNat (48 + k) else Char.ofNat (87 + k)
  String.ofList [d (n / 16 % 16), d (n % 16)]

def hexBytes (bs : List UInt8) : String := if bs.isEmpty then "-" else String.join (bs.map (fun b => hex2 b.toNat))

/-- What the harness prints for the caller's buffer after a copy-out call: the buffer has exactly
    `len` bytes (one spare canary byte when `len = 0`), all `0x55` before the call.  `none` = a store beyond
    the buffer (and beyond the spare byte): AddressSanitizer aborts. -/
def showBuffer (len : Int) (c : CopyOut) : Option String :=
  if len < 0 then some "null"
  else
    let n := len.toNat
    if c.extent > max n 1 then none
    else if n = 0 then some (if c.extent > 0 then "canary-overwritten" else "-")
    else some (hexBytes (applyStores (List.replicate n 0x55) c.stores))

/-! ## one step -/

def flagBit (f : Nat) (k : Nat) : Bool := (f >>> k) % 2 = 1

def skipR (st : St) : Out (St × String) := pure (st, "skip")
def okR (r : Out St) : Out (St × String) := do let st ← r; pure (st, "ok")

def rbUpd (st : St) (k : Nat) (f : RBObj → Out RBObj) : Out (St × String) :=
  if !heldB st k then skipR st
  else do
    let b ← f (st.rbs[k]?.getD {})
    pure ({ st with rbs := st.rbs.setIfInBounds k b }, "ok")

/-- `tickit_mockterm_get_display_text(buffer of exactly len bytes, len, …)` over the cells it walks. -/
def mdispResult (st : St) (len : Int) (cells : List (List UInt8)) : Out (St × String) :=
  let c := displayText (len ≥ 0) len.toNat cells
  match showBuffer len c with
  | none => .ub .mem "tickit_mockterm_get_display_text: store beyond the caller's buffer"
  | some s => pure (st, s!"ret={c.ret} buf={s}")

/-- Drop every reference the application still holds (the harness's `drop_all`): windows from the highest
    handle to the root, then pens, strings, buffers, the terminal last. -/
def dropAll (cfg : Cfg) (st : St) : Out St := do
  let rec dropW : Nat → St → Id → Out St
    | 0, st, _ => pure st
    | n + 1, st, i =>
      if heldW st i then do
        let st ← unrefW cfg (setX st i { getX st i with appRefs := (getX st i).appRefs - 1 }) i
        dropW n st i
      else pure st
  let rec dropP : Nat → St → Nat → Out St
    | 0, st, _ => pure st
    | n + 1, st, k =>
      if heldP st k then do
        let p := st.pens[k]?.getD {}
        let st ← penUnref { st with pens := st.pens.setIfInBounds k { p with appRefs := p.appRefs - 1 } } k
        dropP n st k
      else pure st
  let rec dropS : Nat → St → Nat → Out St
    | 0, st, _ => pure st
    | n + 1, st, k =>
      if heldS st k then do
        let s := st.strs[k]?.getD {}
        let st ← strUnref { st with strs := st.strs.setIfInBounds k { s with appRefs := s.appRefs - 1 } } k
        dropS n st k
      else pure st
  let rec dropB : Nat → St → Nat → Out St
    | 0, st, _ => pure st
    | n + 1, st, k =>
      if heldB st k then do
        let b := st.rbs[k]?.getD {}
        let st ← rbUnref { st with rbs := st.rbs.setIfInBounds k { b with appRefs := b.appRefs - 1 } } k
        dropB n st k
      else pure st
  let rec dropT : Nat → St → Out St
    | 0, st => pure st
    | n + 1, st =>
      if heldT st then do
        let st ← termUnref { st with term := { st.term with appRefs := st.term.appRefs - 1 } }
        dropT n st
      else pure st
  let st ← (List.range st.tree.wins.size).reverse.foldlM (fun st i => dropW ((getX st i).appRefs + 1) st i) st
  let st ← (List.range st.pens.size).reverse.foldlM (fun st k => dropP ((st.pens[k]?.getD {}).appRefs + 1) st k) st
  let st ← (List.range st.strs.size).reverse.foldlM (fun st k => dropS ((st.strs[k]?.getD {}).appRefs + 1) st k) st
  let st ← (List.range st.rbs.size).reverse.foldlM (fun st k => dropB ((st.rbs[k]?.getD {}).appRefs + 1) st k) st
  dropT (st.term.appRefs + 1) st

/-- Is anything still allocated? (what LeakSanitizer reports once the application has forgotten its handles) -/
def anythingLeft (st : St) : Bool :=
  st.tree.wins.any (fun w => !w.freed) || st.pens.any (fun p => !p.freed) || st.strs.any (fun s => !s.freed) ||
  st.rbs.any (fun b => !b.freed) || !st.term.freed || !st.tree.root.changes.isEmpty

/-- One operation of the application.  The string is the result part of the observation. -/
def step (cfg : Cfg) (st : St) : Op → Out (St × String)
  | .newTerm lines cols _ =>
    -- tickit_term_build + tickit_term_set_size + tickit_window_new_root: the root holds a terminal reference
    let root : Win := { rect := ⟨0, 0, lines, cols⟩, isRoot := true }
    pure ({ tree := { wins := #[root], root := {} }, wx := #[{}], term := { refcount := 2 } }, "ok")
  | .win p r f =>
    if !usableW st p then skipR st
    else do
      let (st, _) ← newWin st p r (flagBit f 0) (flagBit f 1) (flagBit f 2) (flagBit f 3)
      pure (st, "ok")
  | .act a =>
    match simpleOp cfg st a none with
    | none => skipR st
    | some r => okR r
  | .geom w r => if !usableW st w then skipR st else okR (liftT st (setGeomT st.tree w r))
  | .focus w => if !usableW st w then skipR st else okR (liftT st (takeFocusT st.tree w))
  | .expose w => if !usableW st w then skipR st else okR (do exposeWalk st.tree (chainFuel st.tree) w none; pure st)
  | .bind w ev ret acts =>
    if !usableW st w then skipR st
    else do
      let (st, id) ← bindEvent st w ev ret acts
      pure (st, s!"id={id}")
  | .unbind w id => if !usableW st w then skipR st else okR (unbindEvent st w id)
  | .key => if !heldT st then skipR st else okR (emitKey cfg st)
  | .mouse m => if !heldT st then skipR st else okR (emitMouse cfg st m)
  | .pen => pure ({ st with pens := st.pens.push {}, penx := (st.penx ++ Array.replicate (st.pens.size - st.penx.size) ({} : PenX)).push {} }, "ok")
  | .pref k =>
    if !heldP st k then skipR st
    else
      let p := st.pens[k]?.getD {}
      okR (penRef { st with pens := st.pens.setIfInBounds k { p with appRefs := p.appRefs + 1 } } k)
  | .punref k =>
    if !heldP st k then skipR st
    else
      let p := st.pens[k]?.getD {}
      okR (penUnref { st with pens := st.pens.setIfInBounds k { p with appRefs := p.appRefs - 1 } } k)
  | .pset k val => if !heldP st k then skipR st else okR (penSetColour st k val)
  | .pdesc k desc =>
    if !heldP st k then skipR st
    else match penSetDesc st k desc with
      | none => pure (st, "unsupported-desc")
      | some r => do
        let (st, acc) ← r
        pure (st, if acc then "ret=1" else "ret=0")
  | .pcopy d s ow => if !heldP st d || !heldP st s then skipR st else okR (penCopy cfg.penCopyKeepsSrc st d s ow)
  | .pcopyattr d s => if !heldP st d || !heldP st s then skipR st else okR (penCopyAttr st d s)
  | .pbind k acts =>
    if !heldP st k then skipR st
    else
      let x := getPX st k
      let id := x.binds.foldl (fun m b => if b.id > m then b.id else m) (0 : Int) + 1
      pure (setPX st k { x with binds := x.binds ++ [{ id := id, acts := acts }] }, s!"id={id}")
  | .punbind k id =>
    if !heldP st k then skipR st
    else pure (setPX st k { getPX st k with binds := (getPX st k).binds.filter (fun b => b.id ≠ id) }, "ok")
  | .setpen w p =>
    if !usableW st w then skipR st
    else match p with
      | some k => if !heldP st k then skipR st else okR (setPen st w (some k))
      | none => okR (setPen st w none)
  | .tref => if !heldT st then skipR st else
      pure ({ st with term := { st.term with appRefs := st.term.appRefs + 1, refcount := st.term.refcount + 1 } }, "ok")
  | .tunref => if !heldT st then skipR st else
      okR (termUnref { st with term := { st.term with appRefs := st.term.appRefs - 1 } })
  | .str bytes => pure (strNew st bytes, "ok")
  | .sref k =>
    if !heldS st k then skipR st
    else
      let s := st.strs[k]?.getD {}
      okR (strRef { st with strs := st.strs.setIfInBounds k { s with appRefs := s.appRefs + 1 } } k)
  | .sunref k =>
    if !heldS st k then skipR st
    else
      let s := st.strs[k]?.getD {}
      okR (strUnref { st with strs := st.strs.setIfInBounds k { s with appRefs := s.appRefs - 1 } } k)
  | .sget k =>
    if !heldS st k then skipR st
    else
      let s := st.strs[k]?.getD {}
      pure (st, s!"len={s.bytes.length} bytes={hexBytes s.bytes} nul=1")
  | .rb lines cols => pure (rbNew st lines cols, "ok")
  | .bref k =>
    if !heldB st k then skipR st
    else
      let b := st.rbs[k]?.getD {}
      okR (rbRef { st with rbs := st.rbs.setIfInBounds k { b with appRefs := b.appRefs + 1 } } k)
  | .bunref k =>
    if !heldB st k then skipR st
    else
      let b := st.rbs[k]?.getD {}
      okR (rbUnref { st with rbs := st.rbs.setIfInBounds k { b with appRefs := b.appRefs - 1 } } k)
  | .btext k line col bytes =>
    if !heldB st k then skipR st
    else match splitChars bytes with
      | none =>
        -- `put_text`: the string is created, `put_string` returns -1 before drawing, the string is released
        if rejectedText bytes then pure (st, "ret=-1") else pure (st, "unsupported-text")
      | some chars => do
        let cols : Int := chars.length
        let b ← putSpan (st.rbs[k]?.getD {}) line col cols
          (fun c startcol => { c with state := .text, text := bytes, offs := startcol })
        pure ({ st with rbs := st.rbs.setIfInBounds k b }, s!"ret={cols}")
  | .berase k line col cols => rbUpd st k (fun b => putSpan b line col cols (fun c _ => { c with state := .erase }))
  | .bskip k line col cols => rbUpd st k (fun b => putSpan b line col cols (fun c _ => { c with state := .skip }))
  | .bchar k line col cp => rbUpd st k (fun b => putSpan b line col 1 (fun c _ => { c with state := .char, cp := cp }))
  | .bhline k line c1 c2 => rbUpd st k (fun b => do
      -- TICKIT_LINE_SINGLE, no caps: east = 1<<2, west = 1<<6
      let b ← lineCell b line c1 4
      let b ← (List.range (c2 - 1 - c1).toNat).foldlM (fun b (i : Nat) => lineCell b line (c1 + 1 + (i : Int)) 68) b
      lineCell b line c2 64)
  | .bclear k => rbUpd st k (fun b =>
      (List.range b.lines.toNat).foldlM (fun b (l : Nat) => putSpan b (l : Int) 0 b.cols (fun c _ => { c with state := .erase })) b)
  | .breset k => rbUpd st k (fun b => pure (rbReset b))
  | .bsave k | .bsavepen k | .brestore k => rbUpd st k pure
  | .bsetpen k p =>
    if !heldB st k then skipR st
    else match p with
      | some q => if !heldP st q then skipR st else pure (st, "ok")
      | none => pure (st, "ok")
  | .bflush k =>
    if !heldB st k then skipR st
    else if !heldT st then skipR st
    else rbUpd st k (fun b => pure (rbReset b))
  | .bcell k line col len =>
    if !heldB st k then skipR st
    else
      let b := st.rbs[k]?.getD {}
      let hasBuf := len ≥ 0
      let c? : Option CopyOut := match getSpanCell b line col with
        | none => some ⟨-1, []⟩
        | some (span, offset) =>
          if span.state = .cont then some ⟨-1, []⟩
          else getSpanText cfg.spanExactFit span offset true hasBuf len.toNat
      match c? with
      | none => pure (st, "unsupported-text")
      | some c =>
        match showBuffer len c with
        | none => .ub .mem "get_cell_text: store beyond the caller's buffer"
        | some s => pure (st, s!"ret={c.ret} buf={s}")
  | .bspan k line col len =>
    if !heldB st k then skipR st
    else
      let b := st.rbs[k]?.getD {}
      let hasBuf := len ≥ 0
      let ulen : Int := if len ≥ 0 then len else 0
      match getSpanCell b line col with
      | none => pure (st, s!"ret=-1 buf={(showBuffer len ⟨-1, []⟩).getD ""}")
      | some (span, offset) =>
        if span.state = .cont then pure (st, s!"ret=-1 buf={(showBuffer len ⟨-1, []⟩).getD ""}")
        else
          let ncols := span.cols - offset
          if span.state = .skip then
            pure (st, s!"active=0 cols={ncols} infolen=-2 ret=0 buf={(showBuffer len ⟨0, []⟩).getD ""}")
          else match getSpanText cfg.spanExactFit span offset false hasBuf len.toNat with
            | none => pure (st, "unsupported-text")
            | some c =>
              match showBuffer len c with
              | none => .ub .mem "get_span: store beyond the caller's buffer"
              | some s => pure (st, s!"active=1 cols={ncols} infolen={c.ret} ret={ulen} buf={s}")
  | .mdisp len _line _col width =>
    if !heldT st then skipR st
    else mdispResult st len (List.replicate width.toNat [0x20])     -- a screen nothing was printed on
  | .«end» => do
    let st ← dropAll cfg st
    pure (st, "end")

/-- A history: the operations one after the other; the first failure ends it. -/
def runOps (cfg : Cfg) : St → List Op → Out St
  | st, [] => .ok st
  | st, op :: rest =>
    match step cfg st op with
    | .ok (st', _) => runOps cfg st' rest
    | .ub k w => .ub k w
    | .fuel => .fuel

end Life
end Tickit
