import Tickit.Gen.Palette
import Tickit.Gen.Sgr
import Tickit.Model.Sgr
/-
  Model/TermPen.lean — C10, the implementation side.

  * a minimal pen value (what `src/pen.c`'s getters return): attribute → optional value, a colour is an
    index plus an optional RGB8 secondary;
  * `src/term.c`: `convert_colour`, `tickit_term_setpen`, `tickit_term_chpen` — the delta against the
    cached pen, statement by statement (the loop over the attributes touches, in iteration `attr`,
    only `attr` of the cache and of the delta, so it is written attribute by attribute);
  * `src/termdriver-xterm.c`: `chpen` — the parameter vector with its sub-parameter marks, the
    capacity of `params[]`, the early return, the empty-SGR shortcut and the rendering, byte-exact.

  Integers: colour indices are `Int` (−1 = default); the pen's bit-fields can hold −256…255, so
  `xterm256[index]` is always inside the table when `index ≥ colors ≥ 0` (C19 is about the bit-fields).
  `under` is modelled for values ≥ 0 (a negative value would also set the sub-parameter mark).
  Core Lean only.
-/
namespace Tickit.TermPen
open Tickit.Sgr (Byte)

structure RGB where
  r : Nat
  g : Nat
  b : Nat
deriving DecidableEq, Repr, Inhabited

structure Colour where
  idx : Int
  rgb : Option RGB := none
deriving DecidableEq, Repr, Inhabited

/-- `struct TickitPen` as seen through its getters: `none` = the validity bit is clear. -/
structure Pen where
  fg : Option Colour := none
  bg : Option Colour := none
  bold : Option Bool := none
  under : Option Int := none
  italic : Option Bool := none
  reverse : Option Bool := none
  strike : Option Bool := none
  altfont : Option Int := none
  blink : Option Bool := none
  sizepos : Option Int := none
deriving DecidableEq, Repr, Inhabited

/-! ### pen.c getters -/

/-- `tickit_pen_get_bool_attr` -/
def getBool (o : Option Bool) : Bool := o.getD false
/-- `tickit_pen_get_int_attr` -/
def getInt (o : Option Int) : Int := o.getD 0
/-- `tickit_pen_get_colour_attr` (`COLOUR_DEFAULT` when absent) -/
def getColour (o : Option Colour) : Int :=
  match o with
  | none => -1
  | some c => c.idx
/-- `tickit_pen_has_colour_attr_rgb8` -/
def hasRgb (o : Option Colour) : Bool :=
  match o with
  | some c => c.rgb.isSome
  | none => false
/-- `tickit_pen_get_colour_attr_rgb8` -/
def getRgb (o : Option Colour) : RGB :=
  match o with
  | some c => c.rgb.getD ⟨0, 0, 0⟩
  | none => ⟨0, 0, 0⟩

/-- `tickit_pen_equiv_attr`, colour case -/
def equivColour (a b : Option Colour) : Bool :=
  if getColour a ≠ getColour b then false
  else if !hasRgb a && !hasRgb b then true
  else if !hasRgb a || !hasRgb b then false
  else (getRgb a).r == (getRgb b).r && (getRgb a).g == (getRgb b).g && (getRgb a).b == (getRgb b).b

/-- `tickit_pen_copy_attr`, colour case: what the destination holds afterwards. -/
def copyColour (src : Option Colour) : Colour :=
  { idx := getColour src, rgb := if hasRgb src then some (getRgb src) else none }

/-- `tickit_pen_is_nondefault` -/
def isNondefault (p : Pen) : Bool :=
  (p.fg.isSome && getColour p.fg != -1) || (p.bg.isSome && getColour p.bg != -1) ||
  getBool p.bold || (p.under.isSome && getInt p.under > 0) || getBool p.italic || getBool p.reverse ||
  getBool p.strike || (p.altfont.isSome && getInt p.altfont > 0) || getBool p.blink ||
  (p.sizepos.isSome && getInt p.sizepos > 0)

/-! ### term.c -/

/-- `convert_colour` -/
def convertColour (index colours : Int) : Int :=
  if colours ≥ 16 then (Tickit.Gen.Palette.as16.getD index.toNat 0 : Nat)
  else (Tickit.Gen.Palette.as8.getD index.toNat 0 : Nat)

/-- One iteration of the loop of `tickit_term_setpen` (`set = true`) / `tickit_term_chpen` for a
    boolean attribute: `(cached value afterwards, value put into delta)`. -/
def stepBool (set : Bool) (cache pen : Option Bool) : Option Bool × Option Bool :=
  if !set && pen.isNone then (cache, none)
  else if cache.isSome && getBool cache == getBool pen then (cache, none)
  else (some (getBool pen), some (getBool pen))

def stepInt (set : Bool) (cache pen : Option Int) : Option Int × Option Int :=
  if !set && pen.isNone then (cache, none)
  else if cache.isSome && getInt cache == getInt pen then (cache, none)
  else (some (getInt pen), some (getInt pen))

def stepColour (set : Bool) (colors : Int) (cache pen : Option Colour) : Option Colour × Option Colour :=
  if !set && pen.isNone then (cache, none)
  else if cache.isSome && equivColour cache pen then (cache, none)
  else if getColour pen ≥ colors then
    let c : Colour := { idx := convertColour (getColour pen) colors, rgb := none }
    -- "compare what will be stored, not what was asked for"
    if cache.isSome && getColour cache == c.idx && !hasRgb cache then (cache, none)
    else (some c, some c)
  else (some (copyColour pen), some (copyColour pen))

/-- `tickit_term_setpen` / `tickit_term_chpen` up to the call of the driver: the new cached pen. -/
def termCache (set : Bool) (colors : Int) (cache pen : Pen) : Pen :=
  { fg := (stepColour set colors cache.fg pen.fg).1
    bg := (stepColour set colors cache.bg pen.bg).1
    bold := (stepBool set cache.bold pen.bold).1
    under := (stepInt set cache.under pen.under).1
    italic := (stepBool set cache.italic pen.italic).1
    reverse := (stepBool set cache.reverse pen.reverse).1
    strike := (stepBool set cache.strike pen.strike).1
    altfont := (stepInt set cache.altfont pen.altfont).1
    blink := (stepBool set cache.blink pen.blink).1
    sizepos := (stepInt set cache.sizepos pen.sizepos).1 }

/-- … and the delta handed to the driver. -/
def termDelta (set : Bool) (colors : Int) (cache pen : Pen) : Pen :=
  { fg := (stepColour set colors cache.fg pen.fg).2
    bg := (stepColour set colors cache.bg pen.bg).2
    bold := (stepBool set cache.bold pen.bold).2
    under := (stepInt set cache.under pen.under).2
    italic := (stepBool set cache.italic pen.italic).2
    reverse := (stepBool set cache.reverse pen.reverse).2
    strike := (stepBool set cache.strike pen.strike).2
    altfont := (stepInt set cache.altfont pen.altfont).2
    blink := (stepBool set cache.blink pen.blink).2
    sizepos := (stepInt set cache.sizepos pen.sizepos).2 }

/-! ### termdriver-xterm.c: chpen -/

structure Caps where
  rgb8 : Bool
  colon : Bool
deriving DecidableEq, Repr, Inhabited

open Tickit.Gen.Sgr (sgrOn sgrOff)

/-- One SGR parameter together with its sub-parameters: in `params[]` every element but the last
    carries `CSI_MORE_SUBPARAM`. -/
abbrev Comp := List Nat

def colourComps (attr : Nat) (rgb8 : Bool) (o : Option Colour) : List Comp :=
  match o with
  | none => []
  | some c =>
    if c.idx < 0 then [[sgrOff attr]]
    else if rgb8 && c.rgb.isSome then
      [[sgrOn attr + 8, 2, (getRgb o).r, (getRgb o).g, (getRgb o).b]]
    else if c.idx < 8 then [[sgrOn attr + c.idx.toNat]]
    else if c.idx < 16 then [[sgrOn attr + 60 + c.idx.toNat - 8]]
    else [[sgrOn attr + 8, 5, c.idx.toNat]]

def boolComps (attr : Nat) (o : Option Bool) : List Comp :=
  match o with
  | none => []
  | some v => [[if v then sgrOn attr else sgrOff attr]]

def underComps (colon : Bool) (o : Option Int) : List Comp :=
  match o with
  | none => []
  | some v =>
    if v = 0 then [[sgrOff 4]]
    else if v = 1 then [[sgrOn 4]]
    else if !colon then
      -- without `:` sub-parameters: SGR 21 for double, a plain single underline for every other style
      [[if v = Tickit.Gen.Sgr.underDouble then 21 else sgrOn 4]]
    else [[sgrOn 4, v.toNat]]

def altfontComps (o : Option Int) : List Comp :=
  match o with
  | none => []
  | some v => if v < 0 ∨ v ≥ 10 then [[sgrOff 8]] else [[sgrOn 8 + v.toNat]]

def sizeposComps (o : Option Int) : List Comp :=
  match o with
  | none => []
  | some v =>
    if v = 0 then [[sgrOff 10]]
    else if v = Tickit.Gen.Sgr.sizeposSuperscript then [[73]]
    else if v = Tickit.Gen.Sgr.sizeposSubscript then [[74]]
    else []

/-- The loop of `chpen` over the attributes of `delta`, in the order of `TickitPenAttr`. -/
def comps (caps : Caps) (d : Pen) : List Comp :=
  colourComps 1 caps.rgb8 d.fg ++ colourComps 2 caps.rgb8 d.bg ++ boolComps 3 d.bold ++ underComps caps.colon d.under ++
  boolComps 5 d.italic ++ boolComps 6 d.reverse ++ boolComps 7 d.strike ++ altfontComps d.altfont ++
  boolComps 9 d.blink ++ sizeposComps d.sizepos

/-- An element of `params[]`: `CSI_PARAM(x)` and `CSI_NEXT_SUB(x)`. -/
structure Param where
  val : Nat
  more : Bool
deriving DecidableEq, Repr, Inhabited

def flattenComp : Comp → List Param
  | [] => []
  | [v] => [⟨v, false⟩]
  | v :: w :: rest => ⟨v, true⟩ :: flattenComp (w :: rest)

def flatten : List Comp → List Param
  | [] => []
  | c :: cs => flattenComp c ++ flatten cs

/-- `%d` of a non-negative int; `fuel` bounds the number of digits. -/
def digitsRev : Nat → Nat → List Nat
  | 0, _ => []
  | f + 1, n => if n < 10 then [n] else (n % 10) :: digitsRev f (n / 10)

def showNat (n : Nat) : List Byte := (digitsRev (n + 1) n).reverse.map (· + 48)

/-- The two `sprintf` loops of `chpen` between `ESC [` and `m`. -/
def renderBody (colon : Bool) : List Param → List Byte
  | [] => []
  | [p] => showNat p.val
  | p :: q :: rest => showNat p.val ++ [if p.more && colon then 58 else 59] ++ renderBody colon (q :: rest)

def renderSgr (colon : Bool) (ps : List Param) : List Byte := [27, 91] ++ renderBody colon ps ++ [109]

inductive Out where
  | bytes (bs : List Byte)
  /-- `params[pindex++]` written past the end of `int params[cap]` -/
  | overflow (needed : Nat)
deriving DecidableEq, Repr, Inhabited

/-- The xterm driver's `chpen(delta, final)` with `int params[cap]`. -/
def xtermChpen (caps : Caps) (cap : Nat) (delta final : Pen) : Out :=
  let ps := flatten (comps caps delta)
  if ps.length > cap then .overflow ps.length
  else if ps.length = 0 then .bytes []
  else if !isNondefault final then .bytes (renderSgr caps.colon [])
  else .bytes (renderSgr caps.colon ps)

/-! ### a terminal: configuration, state, histories -/

structure Cfg where
  /-- `tt->colors` -/
  colors : Int
  caps : Caps
  /-- capacity of `params[]` -/
  cap : Nat
deriving DecidableEq, Repr, Inhabited

inductive Op where
  | set (p : Pen)
  | ch (p : Pen)
deriving DecidableEq, Repr, Inhabited

def Op.isSet : Op → Bool
  | .set _ => true
  | .ch _ => false

def Op.pen : Op → Pen
  | .set p => p
  | .ch p => p

/-- The library's state (cached pen) together with the terminal that reads its bytes. -/
structure TState where
  cache : Pen := {}
  vt : Tickit.Sgr.VT := {}
deriving DecidableEq, Repr, Inhabited

/-- The bytes one request emits (or the overflow). -/
def emit (cfg : Cfg) (cache : Pen) (op : Op) : Out :=
  xtermChpen cfg.caps cfg.cap (termDelta op.isSet cfg.colors cache op.pen) (termCache op.isSet cfg.colors cache op.pen)

/-- One request: `none` = undefined behaviour (parameter array overflow). -/
def step (cfg : Cfg) (st : TState) (op : Op) : Option TState :=
  match emit cfg st.cache op with
  | .overflow _ => none
  | .bytes bs => some { cache := termCache op.isSet cfg.colors st.cache op.pen, vt := Tickit.Sgr.run bs st.vt }

def runOps (cfg : Cfg) : List Op → TState → Option TState
  | [], st => some st
  | op :: ops, st =>
    match step cfg st op with
    | none => none
    | some st' => runOps cfg ops st'

/-- What the xterm driver's `start` writes:
    `ESC[?69h ESC[?69$p ESC[?25$p ESC[?12$p ESC P $q SP q ESC\\ ESC[38;5;255m ESC[38:2:0:1:2m ESC P $qm ESC\\ ESC[m ESC[G ESC[K`
    (DECSLRM enable and probes, the two colour probes, `CSI m`, clear line). -/
def xtermStart : List Byte :=
  [27, 91, 63, 54, 57, 104, 27, 91, 63, 54, 57, 36, 112, 27, 91, 63, 50, 53, 36, 112, 27, 91, 63, 49,
   50, 36, 112, 27, 80, 36, 113, 32, 113, 27, 92, 27, 91, 51, 56, 59, 53, 59, 50, 53, 53, 109, 27, 91,
   51, 56, 58, 50, 58, 48, 58, 49, 58, 50, 109, 27, 80, 36, 113, 109, 27, 92, 27, 91, 109, 27, 91, 71,
   27, 91, 75]

/-! ### specification: the logical pen and the rendering attributes it asks for -/

/-- `b` overlaid with `a`. -/
def ov {α : Type} (a b : Option α) : Option α :=
  match a with
  | some x => some x
  | none => b

/-- "change-pen overlays only the attributes present in its argument" -/
def overlay (base p : Pen) : Pen :=
  { fg := ov p.fg base.fg, bg := ov p.bg base.bg, bold := ov p.bold base.bold, under := ov p.under base.under,
    italic := ov p.italic base.italic, reverse := ov p.reverse base.reverse, strike := ov p.strike base.strike,
    altfont := ov p.altfont base.altfont, blink := ov p.blink base.blink, sizepos := ov p.sizepos base.sizepos }

/-- "set-pen makes them exactly the given pen with everything else default" -/
def total (p : Pen) : Pen :=
  { fg := some (p.fg.getD ⟨-1, none⟩), bg := some (p.bg.getD ⟨-1, none⟩), bold := some (getBool p.bold),
    under := some (getInt p.under), italic := some (getBool p.italic), reverse := some (getBool p.reverse),
    strike := some (getBool p.strike), altfont := some (getInt p.altfont), blink := some (getBool p.blink),
    sizepos := some (getInt p.sizepos) }

/-- The logical pen after a request. -/
def logicalStep (l : Pen) (op : Op) : Pen :=
  match op with
  | .set p => total p
  | .ch p => overlay l p

def logical (ops : List Op) : Pen := ops.foldl logicalStep {}

/-- "Colours beyond the terminal's palette are replaced by their 8/16-colour approximation". -/
def convColour (colors : Int) (c : Colour) : Colour :=
  if c.idx ≥ colors then { idx := convertColour c.idx colors, rgb := none } else c

def convPen (colors : Int) (p : Pen) : Pen :=
  { p with fg := p.fg.map (convColour colors), bg := p.bg.map (convColour colors) }

open Tickit.Sgr (Colr SizePos Attrs)

/-- "RGB is used only when the terminal supports it". -/
def expectColour (rgb8 : Bool) (o : Option Colour) : Colr :=
  match o with
  | none => .dflt
  | some c =>
    if c.idx < 0 then .dflt
    else match rgb8, c.rgb with
      | true, some x => .rgb x.r x.g x.b
      | _, _ => .idx c.idx.toNat

def expectFont (v : Int) : Nat := if 1 ≤ v ∧ v ≤ 9 then v.toNat else 0

def expectSizepos (v : Int) : SizePos :=
  if v = Tickit.Gen.Sgr.sizeposSuperscript then .super
  else if v = Tickit.Gen.Sgr.sizeposSubscript then .sub
  else if v = Tickit.Gen.Sgr.sizeposSmall then .small
  else .normal

/-- The rendering attributes a (palette-converted) pen asks for; an absent attribute asks for the default. -/
def expectAttrs (caps : Caps) (p : Pen) : Attrs :=
  { fg := expectColour caps.rgb8 p.fg
    bg := expectColour caps.rgb8 p.bg
    bold := getBool p.bold
    faint := false
    italic := getBool p.italic
    under := (getInt p.under).toNat
    blink := getBool p.blink
    reverse := getBool p.reverse
    strike := getBool p.strike
    font := expectFont (getInt p.altfont)
    sizepos := expectSizepos (getInt p.sizepos)
    junk := 0 }

/-- What the terminal must render with when the logical pen is `l`. -/
def expected (cfg : Cfg) (l : Pen) : Attrs := expectAttrs cfg.caps (convPen cfg.colors l)

end Tickit.TermPen
