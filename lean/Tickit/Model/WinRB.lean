import Tickit.Model.Rect
import Tickit.Model.Width
/-
  The *abstract* render buffer the window layer needs (properties C01, C02).

  `src/renderbuffer.c` stores each line as spans; what `src/window.c` relies on is only the cell-wise
  behaviour: a grid of optional cells (`none` = SKIP: nothing is sent to the terminal for that cell), a
  translation, a clip rectangle, a set of masked cells scoped by the save/restore depth, the current pen and
  a stack of saved frames.  Property C03 (another engine) proves that the span-based buffer refines a grid of
  exactly this kind; spans are deliberately not modelled here.

  Coordinates: `cells`, `clip` and the mask holes are in *buffer* (absolute) coordinates; drawing operations
  take coordinates relative to the current translation, as in C.
-/
namespace Tickit
namespace WinRB

/-- The attributes of `TickitPen` the window engines use: colours and bold.  `none` = attribute not set. -/
structure Pen where
  fg : Option Int := none
  bg : Option Int := none
  b  : Option Bool := none
deriving DecidableEq, Repr, Inhabited

/-- `tickit_pen_copy(dst, src, overwrite)`: attribute by attribute, `src` wins where both have it iff
    `overwrite` (an equal value is "copied" either way). -/
def Pen.copy (dst src : Pen) (overwrite : Bool) : Pen :=
  if overwrite then
    { fg := src.fg.orElse (fun _ => dst.fg), bg := src.bg.orElse (fun _ => dst.bg), b := src.b.orElse (fun _ => dst.b) }
  else
    { fg := dst.fg.orElse (fun _ => src.fg), bg := dst.bg.orElse (fun _ => src.bg), b := dst.b.orElse (fun _ => src.b) }

/-- What reaches the terminal for one cell: a glyph (32 = blank) and the pen as `tickit_term_setpen` establishes it
    (absent colour = -1, absent bold = off). -/
structure Cell where
  glyph : Nat
  fg : Int
  bg : Int
  b : Bool
deriving DecidableEq, Repr, Inhabited

def Cell.ofPen (p : Pen) (glyph : Nat) : Cell :=
  { glyph := glyph, fg := p.fg.getD (-1), bg := p.bg.getD (-1), b := p.b.getD false }

/-- A blank in pen `p` (an ERASE cell, or the fill of a scrolled-in area). -/
def Cell.blank (p : Pen) : Cell := Cell.ofPen p 32

/-- The cell of a terminal position nothing was ever written to. -/
def Cell.never : Cell := ⟨32, -1, -1, false⟩

/-- What a buffer cell holds.  A cell of an erase, a character or a text of single-column characters is `plain`: what
    reaches the terminal is known when it is written.  A cell of a text with double-width or combining characters
    (`text`) remembers which write it belongs to (`id`, unique per `put_string` call), the text and its own column `k`
    in it: whether a double-width character can be shown is only known at flush time — both its columns must still
    belong to that write (a run cut inside the character by a clip, mask or window edge, or by a later overwrite, shows a
    blank in the text's pen: `src/renderbuffer.c` flush_to_term after the fix e59d9fc, `Model/RBFlush.lean` `wantOf`). -/
inductive CellV where
  | plain (c : Cell)
  | text (id : Nat) (pen : Pen) (s : List Nat) (k : Int)
deriving Repr, Inhabited

/-- Columns of a text: for every grapheme (a code point of positive width with the zero-width code points that
    follow it) its first code point, first column and width.  (`tickit_utf8_ncount` with the library's width tables.) -/
def layoutFrom : List Nat → Int → List (Nat × Int × Int)
  | [], _ => []
  | cp :: rest, col =>
    let w := Width.wcwidth cp
    if w > 0 then (cp, col, w) :: layoutFrom rest (col + w) else layoutFrom rest col

def layout (s : List Nat) : List (Nat × Int × Int) := layoutFrom s 0

/-- Total columns of a text (`endpos.columns` of `put_string`). -/
def textCols (s : List Nat) : Int := (layout s).foldl (fun acc g => acc + g.2.2) 0

/-- Every code point is one column wide (then no run can be cut inside a character). -/
def narrowText (s : List Nat) : Bool := s.all (fun cp => Width.wcwidth cp == 1)

/-- The grapheme covering column `k`. -/
def colGlyph (s : List Nat) (k : Int) : Option (Nat × Int × Int) :=
  (layout s).find? (fun g => decide (g.2.1 ≤ k) && decide (k < g.2.1 + g.2.2))

/-- `RBStack`: a frame pushed by `save` (`penOnly = false`) or `savepen`. -/
structure Frame where
  xl : Int
  xc : Int
  clip : Rect
  pen : Pen
  penOnly : Bool
deriving Repr, Inhabited

structure RB where
  lines : Int
  cols : Int
  cells : Int → Int → Option CellV
  xl : Int
  xc : Int
  /-- `clip.lines = 0` is the C marker for "nothing can be drawn". -/
  clip : Rect
  pen : Pen
  /-- `tickit_renderbuffer_mask` holes (translated) with the depth they were made at.  A cell is masked iff
      some hole covers it: C keeps the depth of the first hole in the cell and `restore` un-masks cells whose
      depth exceeds the new depth, which is the same thing because depths only grow between restores. -/
  masks : List (Rect × Nat)
  stack : List Frame
  /-- identity of the next text write -/
  nextId : Nat := 0
deriving Inhabited

/-- `tickit_renderbuffer_new`. -/
def RB.new (lines cols : Int) : RB :=
  { lines := lines, cols := cols, cells := fun _ _ => none, xl := 0, xc := 0,
    clip := ⟨0, 0, lines, cols⟩, pen := {}, masks := [], stack := [] }

def RB.depth (rb : RB) : Nat := rb.stack.length

/-- The buffer's own bounds. -/
def RB.bounds (rb : RB) : Rect := ⟨0, 0, rb.lines, rb.cols⟩

/-- Cell `(L, C)` (buffer coordinates) passes `xlate_and_clip`. -/
def RB.inClip (rb : RB) (L C : Int) : Bool :=
  rb.clip.lines != 0 && rb.clip.memb L C

def RB.masked (rb : RB) (L C : Int) : Bool :=
  rb.masks.any (fun m => m.1.memb L C)

/-- The cells the buffer lets a drawing operation touch right now. -/
def RB.writable (rb : RB) (L C : Int) : Bool :=
  rb.inClip L C && !rb.masked L C

/-- `tickit_renderbuffer_translate`. -/
def RB.translate (rb : RB) (d r : Int) : RB := { rb with xl := rb.xl + d, xc := rb.xc + r }

/-- `tickit_renderbuffer_clip`. -/
def RB.clipTo (rb : RB) (rect : Rect) : RB :=
  match Rect.intersect rb.clip (rect.translate rb.xl rb.xc) with
  | some c => { rb with clip := c }
  | none => { rb with clip := { rb.clip with lines := 0 } }

/-- `tickit_renderbuffer_mask`. -/
def RB.mask (rb : RB) (rect : Rect) : RB :=
  { rb with masks := (rect.translate rb.xl rb.xc, rb.depth) :: rb.masks }

/-- `tickit_renderbuffer_setpen`: the new pen over the pen saved in the top frame. -/
def RB.setpen (rb : RB) (pen : Option Pen) : RB :=
  let new : Pen := match pen with | some p => Pen.copy {} p true | none => {}
  let new := match rb.stack with | f :: _ => Pen.copy new f.pen false | [] => new
  { rb with pen := new }

/-- `tickit_renderbuffer_save`. -/
def RB.save (rb : RB) : RB :=
  { rb with stack := { xl := rb.xl, xc := rb.xc, clip := rb.clip, pen := rb.pen, penOnly := false } :: rb.stack }

/-- `tickit_renderbuffer_savepen`. -/
def RB.savepen (rb : RB) : RB :=
  { rb with stack := { xl := rb.xl, xc := rb.xc, clip := rb.clip, pen := rb.pen, penOnly := true } :: rb.stack }

/-- `tickit_renderbuffer_restore`. -/
def RB.restore (rb : RB) : RB :=
  match rb.stack with
  | [] => rb
  | f :: rest =>
    let rb1 := if f.penOnly then rb else { rb with xl := f.xl, xc := f.xc, clip := f.clip }
    { rb1 with pen := f.pen, stack := rest, masks := rb.masks.filter (fun m => m.2 ≤ rest.length) }

/-- One run of cells `[col, col + n)` on line `line` (coordinates relative to the translation) receives `f k` for the
    `k`-th cell of the run, wherever the buffer lets it (`put_string` / `erase` / `skip` / `put_char`). -/
def RB.putRun (rb : RB) (line col n : Int) (f : Int → Option CellV) : RB :=
  let L := line + rb.xl
  let C0 := col + rb.xc
  { rb with cells := fun l c =>
      if l = L ∧ C0 ≤ c ∧ c < C0 + n ∧ rb.writable l c then f (c - C0) else rb.cells l c }

/-- The same for a rectangle of cells (the `for(line …)` loop of `eraserect` / `skiprect`). -/
def RB.putRect (rb : RB) (rect : Rect) (v : Option CellV) : RB :=
  let R := rect.translate rb.xl rb.xc
  { rb with cells := fun l c => if R.memb l c ∧ rb.writable l c then v else rb.cells l c }

/-- `tickit_renderbuffer_eraserect`. -/
def RB.eraseRect (rb : RB) (rect : Rect) : RB := rb.putRect rect (some (.plain (Cell.blank rb.pen)))

/-- `tickit_renderbuffer_skiprect`. -/
def RB.skipRect (rb : RB) (rect : Rect) : RB := rb.putRect rect none

/-- `tickit_renderbuffer_textn_at` (`s`: the code points of a valid text without control characters). -/
def RB.textAt (rb : RB) (line col : Int) (s : List Nat) : RB :=
  if narrowText s then
    rb.putRun line col s.length (fun k => some (.plain (Cell.ofPen rb.pen (s.getD k.toNat 32))))
  else
    { rb.putRun line col (textCols s) (fun k => some (.text rb.nextId rb.pen s k)) with nextId := rb.nextId + 1 }

/-- `tickit_renderbuffer_char_at`. -/
def RB.charAt (rb : RB) (line col : Int) (cp : Nat) : RB :=
  rb.putRun line col 1 (fun _ => some (.plain (Cell.ofPen rb.pen cp)))

/-- `tickit_renderbuffer_clear`: `erase(rb, line, 0, rb->cols)` for every line, through the translation. -/
def RB.clear (rb : RB) : RB := rb.eraseRect ⟨0, 0, rb.lines, rb.cols⟩

/-- What a handler's drawing program may contain. -/
inductive DrawOp where
  | eraseRect (r : Rect)
  | skipRect (r : Rect)
  | textAt (line col : Int) (s : List Nat)
  | charAt (line col : Int) (cp : Nat)
  | clear
  | setPen (p : Pen)
  | translate (d r : Int)
  | clip (r : Rect)
deriving Repr, Inhabited

def RB.draw (rb : RB) : DrawOp → RB
  | .eraseRect r => rb.eraseRect r
  | .skipRect r => rb.skipRect r
  | .textAt l c s => rb.textAt l c s
  | .charAt l c cp => rb.charAt l c cp
  | .clear => rb.clear
  | .setPen p => rb.setpen (some p)
  | .translate d r => rb.translate d r
  | .clip r => rb.clipTo r

def RB.run (rb : RB) (prog : List DrawOp) : RB := prog.foldl RB.draw rb

/-- Does cell `(l, c)` hold column `k` of text write `id`? -/
def RB.holds (rb : RB) (l c : Int) (id : Nat) (k : Int) : Bool :=
  match rb.cells l c with
  | some (.text id' _ _ k') => id' == id && k' == k
  | _ => false

/-- What the flush sends to the terminal for cell `(l, c)`; `none` = nothing (SKIP). -/
def RB.resolve (rb : RB) (l c : Int) : Option Cell :=
  match rb.cells l c with
  | none => none
  | some (.plain x) => some x
  | some (.text id pen s k) =>
    match colGlyph s k with
    | none => some (Cell.blank pen)
    | some (cp, k0, w) =>
      -- every column of the character must still belong to this write
      if (List.range w.toNat).all (fun j => rb.holds l (c - k + k0 + (j : Int)) id (k0 + (j : Int))) then
        some (Cell.ofPen pen (if k = k0 then cp else 0))
      else some (Cell.blank pen)

/-- `tickit_renderbuffer_flush_to_term` onto a grid terminal: every non-SKIP cell replaces the grid's cell. -/
def RB.flushToGrid (rb : RB) (grid : Int → Int → Cell) : Int → Int → Cell :=
  fun l c => match rb.resolve l c with
    | some x => x
    | none => grid l c

end WinRB
end Tickit
