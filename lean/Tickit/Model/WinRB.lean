import Tickit.Model.Rect
import Tickit.Model.Width
import Tickit.Gen.LineChars
/-
  The *abstract* render buffer the window layer needs (properties C01, C02).

  `src/renderbuffer.c` stores each line as spans; what `src/window.c` relies on is only the cell-wise
  behaviour: a grid of optional cells (`none` = SKIP: nothing is sent to the terminal for that cell), a
  translation, a clip rectangle, a set of masked cells scoped by the save/restore depth, the current pen and
  a stack of saved frames.  Property C03 (another engine) proves that the span-based buffer refines a grid of
  exactly this kind; spans are deliberately not modelled here.

  Coordinates: `cells`, `clip` and the mask holes are in *buffer* (absolute) coordinates; drawing operations
  take coordinates relative to the current translation, as in C.
-/
namespace Tickit
namespace WinRB

/-- The attributes of `TickitPen` the window engines use: colours, bold and reverse video.  `none` = attribute not
    set. -/
structure Pen where
  fg : Option Int := none
  bg : Option Int := none
  b  : Option Bool := none
  rv : Option Bool := none
deriving DecidableEq, Repr, Inhabited

/-- `tickit_pen_copy(dst, src, overwrite)`: attribute by attribute, `src` wins where both have it iff
    `overwrite` (an equal value is "copied" either way). -/
def Pen.copy (dst src : Pen) (overwrite : Bool) : Pen :=
  if overwrite then
    { fg := src.fg.orElse (fun _ => dst.fg), bg := src.bg.orElse (fun _ => dst.bg), b := src.b.orElse (fun _ => dst.b),
      rv := src.rv.orElse (fun _ => dst.rv) }
  else
    { fg := dst.fg.orElse (fun _ => src.fg), bg := dst.bg.orElse (fun _ => src.bg), b := dst.b.orElse (fun _ => src.b),
      rv := dst.rv.orElse (fun _ => src.rv) }

/-- What reaches the terminal for one cell: a glyph (32 = blank) and the pen as `tickit_term_setpen` establishes it
    (absent colour = -1, absent bold / reverse video = off). -/
structure Cell where
  glyph : Nat
  fg : Int
  bg : Int
  b : Bool
  rv : Bool := false
deriving DecidableEq, Repr, Inhabited

def Cell.ofPen (p : Pen) (glyph : Nat) : Cell :=
  { glyph := glyph, fg := p.fg.getD (-1), bg := p.bg.getD (-1), b := p.b.getD false, rv := p.rv.getD false }

/-- `tickit_pen_equiv`: attribute by attribute the *values* agree, an absent attribute counting as its default. -/
def Pen.equiv (p q : Pen) : Bool := decide (Cell.ofPen p 0 = Cell.ofPen q 0)

/-- The pen `copyrect` draws a copied cell with: `savepen; setpen(cell->pen)` — the source cell's pen, the attributes
    it lacks completed from the buffer's current pen (the pen of the frame just pushed). -/
def Pen.complete (p cur : Pen) : Pen := Pen.copy (Pen.copy {} p true) cur false

/-- A blank in pen `p` (an ERASE cell, or the fill of a scrolled-in area). -/
def Cell.blank (p : Pen) : Cell := Cell.ofPen p 32

/-- The cell of a terminal position nothing was ever written to. -/
def Cell.never : Cell := ⟨32, -1, -1, false, false⟩

/-- What a buffer cell holds.  A cell of an erase, a character or a text of single-column characters is `plain`: what
    reaches the terminal is known when it is written.  A cell of a text with double-width or combining characters
    (`text`) remembers which write it belongs to (`id`, unique per `put_string` call), the text and its own column `k`
    in it: whether a double-width character can be shown is only known at flush time — both its columns must still
    belong to that write (a run cut inside the character by a clip, mask or window edge, or by a later overwrite, shows a
    blank in the text's pen: `src/renderbuffer.c` flush_to_term after the fix e59d9fc, `Model/RBFlush.lean` `wantOf`). -/
inductive CellV where
  | plain (c : Cell)
  | text (id : Nat) (pen : Pen) (s : List Nat) (k : Int)
  /-- a LINE cell: the pen and the mask of line segments (two bits per direction) accumulated so far -/
  | line (pen : Pen) (mask : Nat)
deriving Repr, Inhabited

/-- Columns of a text: for every grapheme (a code point of positive width with the zero-width code points that
    follow it) its first code point, first column and width.  (`tickit_utf8_ncount` with the library's width tables.) -/
def layoutFrom : List Nat → Int → List (Nat × Int × Int)
  | [], _ => []
  | cp :: rest, col =>
    let w := Width.wcwidth cp
    if w > 0 then (cp, col, w) :: layoutFrom rest (col + w) else layoutFrom rest col

def layout (s : List Nat) : List (Nat × Int × Int) := layoutFrom s 0

/-- Total columns of a text (`endpos.columns` of `put_string`). -/
def textCols (s : List Nat) : Int := (layout s).foldl (fun acc g => acc + g.2.2) 0

/-- Every code point is one column wide (then no run can be cut inside a character). -/
def narrowText (s : List Nat) : Bool := s.all (fun cp => Width.wcwidth cp == 1)

/-- The grapheme covering column `k`. -/
def colGlyph (s : List Nat) (k : Int) : Option (Nat × Int × Int) :=
  (layout s).find? (fun g => decide (g.2.1 ≤ k) && decide (k < g.2.1 + g.2.2))

/-- `RBStack`: a frame pushed by `save` (`penOnly = false`) or `savepen`. -/
structure Frame where
  xl : Int
  xc : Int
  clip : Rect
  pen : Pen
  penOnly : Bool
deriving Repr, Inhabited

structure RB where
  lines : Int
  cols : Int
  cells : Int → Int → Option CellV
  xl : Int
  xc : Int
  /-- `clip.lines = 0` is the C marker for "nothing can be drawn". -/
  clip : Rect
  pen : Pen
  /-- `tickit_renderbuffer_mask` holes (translated) with the depth they were made at.  A cell is masked iff
      some hole covers it: C keeps the depth of the first hole in the cell and `restore` un-masks cells whose
      depth exceeds the new depth, which is the same thing because depths only grow between restores. -/
  masks : List (Rect × Nat)
  stack : List Frame
  /-- identity of the next text write -/
  nextId : Nat := 0
  /-- The pen every cell was last written with, with its *absent* attributes (a `plain` cell only keeps what reaches the
      terminal): what `copyrect` completes from the current pen when it copies the cell. -/
  cpen : Int → Int → Pen := fun _ _ => {}
deriving Inhabited

/-- `tickit_renderbuffer_new`. -/
def RB.new (lines cols : Int) : RB :=
  { lines := lines, cols := cols, cells := fun _ _ => none, xl := 0, xc := 0,
    clip := ⟨0, 0, lines, cols⟩, pen := {}, masks := [], stack := [] }

def RB.depth (rb : RB) : Nat := rb.stack.length

/-- The buffer's own bounds. -/
def RB.bounds (rb : RB) : Rect := ⟨0, 0, rb.lines, rb.cols⟩

/-- Cell `(L, C)` (buffer coordinates) passes `xlate_and_clip`. -/
def RB.inClip (rb : RB) (L C : Int) : Bool :=
  rb.clip.lines != 0 && rb.clip.memb L C

def RB.masked (rb : RB) (L C : Int) : Bool :=
  rb.masks.any (fun m => m.1.memb L C)

/-- The cells the buffer lets a drawing operation touch right now. -/
def RB.writable (rb : RB) (L C : Int) : Bool :=
  rb.inClip L C && !rb.masked L C

/-- `tickit_renderbuffer_translate`. -/
def RB.translate (rb : RB) (d r : Int) : RB := { rb with xl := rb.xl + d, xc := rb.xc + r }

/-- `tickit_renderbuffer_clip`. -/
def RB.clipTo (rb : RB) (rect : Rect) : RB :=
  match Rect.intersect rb.clip (rect.translate rb.xl rb.xc) with
  | some c => { rb with clip := c }
  | none => { rb with clip := { rb.clip with lines := 0 } }

/-- `tickit_renderbuffer_mask`. -/
def RB.mask (rb : RB) (rect : Rect) : RB :=
  { rb with masks := (rect.translate rb.xl rb.xc, rb.depth) :: rb.masks }

/-- `tickit_renderbuffer_setpen`: the new pen over the pen saved in the top frame. -/
def RB.setpen (rb : RB) (pen : Option Pen) : RB :=
  let new : Pen := match pen with | some p => Pen.copy {} p true | none => {}
  let new := match rb.stack with | f :: _ => Pen.copy new f.pen false | [] => new
  { rb with pen := new }

/-- `tickit_renderbuffer_save`. -/
def RB.save (rb : RB) : RB :=
  { rb with stack := { xl := rb.xl, xc := rb.xc, clip := rb.clip, pen := rb.pen, penOnly := false } :: rb.stack }

/-- `tickit_renderbuffer_savepen`. -/
def RB.savepen (rb : RB) : RB :=
  { rb with stack := { xl := rb.xl, xc := rb.xc, clip := rb.clip, pen := rb.pen, penOnly := true } :: rb.stack }

/-- `tickit_renderbuffer_restore`. -/
def RB.restore (rb : RB) : RB :=
  match rb.stack with
  | [] => rb
  | f :: rest =>
    let rb1 := if f.penOnly then rb else { rb with xl := f.xl, xc := f.xc, clip := f.clip }
    { rb1 with pen := f.pen, stack := rest, masks := rb.masks.filter (fun m => m.2 ≤ rest.length) }

/-- One run of cells `[col, col + n)` on line `line` (coordinates relative to the translation) receives `f k` for the
    `k`-th cell of the run, wherever the buffer lets it (`put_string` / `erase` / `skip` / `put_char`). -/
def RB.putRun (rb : RB) (line col n : Int) (f : Int → Option CellV) : RB :=
  let L := line + rb.xl
  let C0 := col + rb.xc
  { rb with cells := fun l c =>
      if l = L ∧ C0 ≤ c ∧ c < C0 + n ∧ rb.writable l c then f (c - C0) else rb.cells l c,
            cpen := fun l c =>
      if l = L ∧ C0 ≤ c ∧ c < C0 + n ∧ rb.writable l c then rb.pen else rb.cpen l c }

/-- The same for a rectangle of cells (the `for(line …)` loop of `eraserect` / `skiprect`). -/
def RB.putRect (rb : RB) (rect : Rect) (v : Option CellV) : RB :=
  let R := rect.translate rb.xl rb.xc
  { rb with cells := fun l c => if R.memb l c ∧ rb.writable l c then v else rb.cells l c,
            cpen := fun l c => if R.memb l c ∧ rb.writable l c then rb.pen else rb.cpen l c }

/-- `tickit_renderbuffer_eraserect`. -/
def RB.eraseRect (rb : RB) (rect : Rect) : RB := rb.putRect rect (some (.plain (Cell.blank rb.pen)))

/-- `tickit_renderbuffer_skiprect`. -/
def RB.skipRect (rb : RB) (rect : Rect) : RB := rb.putRect rect none

/-- `tickit_renderbuffer_textn_at` (`s`: the code points of a valid text without control characters). -/
def RB.textAt (rb : RB) (line col : Int) (s : List Nat) : RB :=
  if narrowText s then
    rb.putRun line col s.length (fun k => some (.plain (Cell.ofPen rb.pen (s.getD k.toNat 32))))
  else
    { rb.putRun line col (textCols s) (fun k => some (.text rb.nextId rb.pen s k)) with nextId := rb.nextId + 1 }

/-- `tickit_renderbuffer_char_at`. -/
def RB.charAt (rb : RB) (line col : Int) (cp : Nat) : RB :=
  rb.putRun line col 1 (fun _ => some (.plain (Cell.ofPen rb.pen cp)))

/-- `tickit_renderbuffer_clear`: `erase(rb, line, 0, rb->cols)` for every line, through the translation. -/
def RB.clear (rb : RB) : RB := rb.eraseRect ⟨0, 0, rb.lines, rb.cols⟩

/-! ### line segments (`linecell`, `tickit_renderbuffer_hline_at`, `tickit_renderbuffer_vline_at`) -/

/-- `linecell(rb, line, col, bits)`: where the buffer lets it, the cell becomes a LINE cell; segments merge into a LINE
    cell already there (whose pen is replaced unless equivalent to the current one). -/
def RB.linecell (rb : RB) (line col : Int) (bits : Nat) : RB :=
  let L := line + rb.xl
  let C := col + rb.xc
  if rb.writable L C then
    let v : CellV := match rb.cells L C with
      | some (.line p m) => .line (if Pen.equiv p rb.pen then p else rb.pen) (m ||| bits)
      | _ => .line rb.pen bits
    { rb with cells := fun l c => if l = L ∧ c = C then some v else rb.cells l c,
              cpen := fun l c => if l = L ∧ c = C then rb.pen else rb.cpen l c }
  else rb

/-- The `linecell` calls of `hline_at` / `vline_at`, in order: position along the line and bits.  `fwd`, `back`: the
    bits towards the end and towards the start (`east`, `west` / `south`, `north`). -/
def lineCalls (start stop : Int) (fwd back : Nat) (caps : Nat) : List (Int × Nat) :=
  (start, fwd ||| (if caps &&& 1 ≠ 0 then back else 0)) ::
    ((List.range (stop - 1 - start).toNat).map fun (i : Nat) => (start + 1 + (i : Int), fwd ||| back)) ++
    [(stop, (if caps &&& 2 ≠ 0 then fwd else 0) ||| back)]

/-- `tickit_renderbuffer_hline_at(rb, line, startcol, endcol, style, caps)`. -/
def RB.hlineAt (rb : RB) (line startcol endcol : Int) (style caps : Nat) : RB :=
  (lineCalls startcol endcol (style <<< Gen.LineChars.shiftEast) (style <<< Gen.LineChars.shiftWest) caps).foldl
    (fun rb x => rb.linecell line x.1 x.2) rb

/-- `tickit_renderbuffer_vline_at(rb, startline, endline, col, style, caps)`. -/
def RB.vlineAt (rb : RB) (startline endline col : Int) (style caps : Nat) : RB :=
  (lineCalls startline endline (style <<< Gen.LineChars.shiftSouth) (style <<< Gen.LineChars.shiftNorth) caps).foldl
    (fun rb x => rb.linecell x.1 col x.2) rb

/-! ### `tickit_renderbuffer_copyrect` / `tickit_renderbuffer_moverect`

  `copyrect(dst, src, dstrect, srcrect, copy_skip)` of src/renderbuffer.c reads the source rectangle in *buffer*
  coordinates (`src->cells[line][col]`: the translation is not applied, nothing is checked against the buffer's size) and
  draws every run at `(line + lineoffs, col + coloffs)` through the destination's translation, clip and masks.  It walks
  the lines bottom-up when `lineoffs > 0` and the columns right-to-left when `lineoffs = 0 ∧ coloffs > 0`, so that, in a
  buffer without translation, a cell is never read after the copy itself has overwritten it: the effect is that of a
  simultaneous copy of the rectangle as it was before the call (property C13).  The direction is chosen from the
  *untranslated* offsets; under a translation the real displacement `(lineoffs + xl, coloffs + xc)` can point the other way,
  and then what is copied depends on the run structure of the line (the `TODO` at the head of `copyrect`).  `CopyDomain`
  says when the call is the simultaneous copy: the source rectangle lies inside the buffer (otherwise C reads outside the
  cell arrays) and the direction walked is safe for the real displacement (or the two rectangles do not overlap).  The
  handler programs of the window engines keep to this domain (the harness skips a call outside it, as does `copyRect`
  below): an assumption, listed in engines.d/C02.json. -/

/-- The walk of `copyrect` never reads a cell it has already written (`lo`, `co`: `lineoffs`, `coloffs`). -/
def safeDirection (src : Rect) (lo co dl dc : Int) : Bool :=
  decide ((dl.natAbs : Int) ≥ src.lines) || decide ((dc.natAbs : Int) ≥ src.cols) ||
  (decide (dl > 0) && decide (lo > 0)) || (decide (dl < 0) && decide (lo ≤ 0)) ||
  (decide (dl = 0) &&
    ((decide (dc > 0) && decide (lo = 0) && decide (co > 0)) ||
     (decide (dc < 0) && !(decide (lo = 0) && decide (co > 0))) || decide (dc = 0)))

def RB.copyDomain (rb : RB) (dest src : Rect) : Bool :=
  decide (0 ≤ src.top) && decide (src.bottom ≤ rb.lines) && decide (0 ≤ src.left) && decide (src.right ≤ rb.cols) &&
  decide (0 < src.lines) && decide (0 < src.cols) &&
  safeDirection src (dest.top - src.top) (dest.left - src.left) (dest.top - src.top + rb.xl) (dest.left - src.left + rb.xc)

/-- What a destination cell holding `old` receives from a source cell holding `v` (written with pen `sp`); text writes
    are renamed by `off` (the pieces of one copy form runs of their own: a double-width character is shown only if both
    its columns arrived in the same call).  Returns the cell and the pen it was drawn with. -/
def RB.transfer (rb : RB) (off : Nat) (v : Option CellV) (sp : Pen) (old : Option CellV) : Option CellV × Pen :=
  match v with
  | none => (none, rb.pen)                                   -- `skip(dst, …)`: `copy_skip` is true for both entry points
  | some (.plain x) => (some (.plain (Cell.ofPen (Pen.complete sp rb.pen) x.glyph)), Pen.complete sp rb.pen)
  | some (.text id pen s k) => (some (.text (off + id) (Pen.complete pen rb.pen) s k), Pen.complete pen rb.pen)
  | some (.line pen m) =>
    let p := Pen.complete pen rb.pen
    match old with
    | some (.line p0 m0) => (some (.line (if Pen.equiv p0 p then p0 else p) (m0 ||| m)), p)
    | _ => (some (.line p m), p)

/-- `tickit_renderbuffer_copyrect(rb, dest, src)` (only `dest`'s position is read). -/
def RB.copyRect (rb : RB) (dest src : Rect) : RB :=
  let lo := dest.top - src.top
  let co := dest.left - src.left
  if lo = 0 ∧ co = 0 then rb                                 -- `if(samerb && lineoffs == 0 && coloffs == 0) return;`
  else if !rb.copyDomain dest src then rb
  else
    let dl := lo + rb.xl
    let dc := co + rb.xc
    { rb with
      cells := fun L C =>
        if src.memb (L - dl) (C - dc) ∧ rb.writable L C then
          (rb.transfer rb.nextId (rb.cells (L - dl) (C - dc)) (rb.cpen (L - dl) (C - dc)) (rb.cells L C)).1
        else rb.cells L C
      cpen := fun L C =>
        if src.memb (L - dl) (C - dc) ∧ rb.writable L C then
          (rb.transfer rb.nextId (rb.cells (L - dl) (C - dc)) (rb.cpen (L - dl) (C - dc)) (rb.cells L C)).2
        else rb.cpen L C
      nextId := 2 * rb.nextId }

/-- `tickit_renderbuffer_moverect(rb, dest, src)`: the copy, then `skiprect` of every rectangle of
    `{src} − {dest.top, dest.left, src.lines, src.cols}` (through the translation, unlike the source of the copy). -/
def RB.moveRect (rb : RB) (dest src : Rect) : RB :=
  if dest.top = src.top ∧ dest.left = src.left then rb       -- nothing copied, nothing vacated
  else if !rb.copyDomain dest src then rb
  else
    let rb1 := rb.copyRect dest src
    let gone : Rect := ⟨dest.top, dest.left, src.lines, src.cols⟩
    { rb1 with
      cells := fun L C =>
        if src.memb (L - rb1.xl) (C - rb1.xc) ∧ !gone.memb (L - rb1.xl) (C - rb1.xc) ∧ rb1.writable L C then none
        else rb1.cells L C
      cpen := fun L C =>
        if src.memb (L - rb1.xl) (C - rb1.xc) ∧ !gone.memb (L - rb1.xl) (C - rb1.xc) ∧ rb1.writable L C then rb1.pen
        else rb1.cpen L C }

/-- What a handler's drawing program may contain. -/
inductive DrawOp where
  | eraseRect (r : Rect)
  | skipRect (r : Rect)
  | textAt (line col : Int) (s : List Nat)
  | charAt (line col : Int) (cp : Nat)
  | clear
  | setPen (p : Pen)
  | translate (d r : Int)
  | clip (r : Rect)
  | hline (line startcol endcol : Int) (style caps : Nat)
  | vline (startline endline col : Int) (style caps : Nat)
  | copyRect (dest src : Rect)
  | moveRect (dest src : Rect)
  /-- `tickit_renderbuffer_save` / `savepen` / `restore` -/
  | save
  | savepen
  | restore
deriving Repr, Inhabited

def RB.draw (rb : RB) : DrawOp → RB
  | .eraseRect r => rb.eraseRect r
  | .skipRect r => rb.skipRect r
  | .textAt l c s => rb.textAt l c s
  | .charAt l c cp => rb.charAt l c cp
  | .clear => rb.clear
  | .setPen p => rb.setpen (some p)
  | .translate d r => rb.translate d r
  | .clip r => rb.clipTo r
  | .hline l c0 c1 st caps => rb.hlineAt l c0 c1 st caps
  | .vline l0 l1 c st caps => rb.vlineAt l0 l1 c st caps
  | .copyRect d s => rb.copyRect d s
  | .moveRect d s => rb.moveRect d s
  | .save => rb.save
  | .savepen => rb.savepen
  | .restore => rb.restore

/-- Pop the `n` frames a handler left on the stack. -/
def RB.unwind : Nat → RB → RB
  | 0, rb => rb
  | n + 1, rb => RB.unwind n rb.restore

/-- A handler's program.  "Expose handlers ... do not pop render-buffer frames they did not push" (the standing
    assumption of C01/C02): `n` counts the frames the handler has pushed and not yet popped; a `restore` with none of its
    own on the stack is not executed, and the frames it leaves behind are popped when it returns. -/
def RB.runAux : Nat → RB → List DrawOp → RB
  | n, rb, [] => RB.unwind n rb
  | n, rb, .restore :: rest =>
    match n with
    | 0 => RB.runAux 0 rb rest
    | n + 1 => RB.runAux n rb.restore rest
  | n, rb, .save :: rest => RB.runAux (n + 1) rb.save rest
  | n, rb, .savepen :: rest => RB.runAux (n + 1) rb.savepen rest
  | n, rb, op :: rest => RB.runAux n (rb.draw op) rest

def RB.run (rb : RB) (prog : List DrawOp) : RB := RB.runAux 0 rb prog

/-- Does cell `(l, c)` hold column `k` of text write `id`? -/
def RB.holds (rb : RB) (l c : Int) (id : Nat) (k : Int) : Bool :=
  match rb.cells l c with
  | some (.text id' _ _ k') => id' == id && k' == k
  | _ => false

/-- What the flush sends to the terminal for cell `(l, c)`; `none` = nothing (SKIP). -/
def RB.resolve (rb : RB) (l c : Int) : Option Cell :=
  match rb.cells l c with
  | none => none
  | some (.plain x) => some x
  | some (.line pen m) => some (Cell.ofPen pen (Gen.LineChars.linemaskToChar.getD m 0))
  | some (.text id pen s k) =>
    match colGlyph s k with
    | none => some (Cell.blank pen)
    | some (cp, k0, w) =>
      -- every column of the character must still belong to this write
      if (List.range w.toNat).all (fun j => rb.holds l (c - k + k0 + (j : Int)) id (k0 + (j : Int))) then
        some (Cell.ofPen pen (if k = k0 then cp else 0))
      else some (Cell.blank pen)

/-- `tickit_renderbuffer_flush_to_term` onto a grid terminal: every non-SKIP cell replaces the grid's cell. -/
def RB.flushToGrid (rb : RB) (grid : Int → Int → Cell) : Int → Int → Cell :=
  fun l c => match rb.resolve l c with
    | some x => x
    | none => grid l c

end WinRB
end Tickit
