import Tickit.Model.EvLoop
/-
  Several toplevel instances (`Tickit *`) in one process, all on the default event loop.

  `Tickit.EvLoop.St` describes *one* instance (its `struct Tickit` and `EventLoopData`) together with
  everything that is process wide: the heap of watches, the kernel's signal state (blocked / handled /
  pending), errno, the virtual clock, the harness's tables.  A `World` keeps the per-instance part of
  the instances that are not being operated on (`Inst`) and the one thing of evloop-default.c that is
  shared between instances: the file-scope pointer `signal_observer`
  (`static EventLoopData *signal_observer;`, set by the first `evloop_init` that finds it NULL, cleared
  by `evloop_destroy` of the loop it points at).  The handler `sighandler` records a signal in
  `signal_observer->pending_signals` — whichever loop happens to be waiting.

  An operation on instance `i` loads `i`'s part into the `St`, with `St.observer` telling whether
  `signal_observer` is this loop, another one (whose `pending_signals` travels along as
  `St.otherPending`) or NULL; `Tickit.EvLoop.applyOp` does the rest; `sync` writes the results back.
  Callbacks act on the instance they are invoked for (the `t` they are given).

  Core Lean only.
-/
namespace Tickit.EvLoop

/-- Instances the harness can hold at once. -/
def NINST : Nat := 3

/-- The per-instance part of `St`. -/
structure Inst where
  alive : Bool := false
  iow : List Nat := []
  timers : List Nat := []
  laters : List Nat := []
  signals : List Nat := []
  procs : List Nat := []
  sigchldwatch : Option Nat := none
  pfd : List PollSlot := []
  signums : List Int := []
  watched : List Int := []
  pendingSig : List Int := []
  stillRunning : Bool := false
deriving DecidableEq, Repr, Inhabited

def St.inst (st : St) : Inst :=
  { alive := st.alive, iow := st.iow, timers := st.timers, laters := st.laters, signals := st.signals, procs := st.procs,
    sigchldwatch := st.sigchldwatch, pfd := st.pfd, signums := st.signums, watched := st.watched,
    pendingSig := st.pendingSig, stillRunning := st.stillRunning }

def St.withInst (st : St) (i : Inst) : St :=
  { st with alive := i.alive, iow := i.iow, timers := i.timers, laters := i.laters, signals := i.signals, procs := i.procs,
            sigchldwatch := i.sigchldwatch, pfd := i.pfd, signums := i.signums, watched := i.watched,
            pendingSig := i.pendingSig, stillRunning := i.stillRunning }

/-- `signal_observer` as instance `i` sees it. -/
def relObserver (o : Option Nat) (i : Nat) : Observer :=
  match o with
  | none => .none
  | some j => if j = i then .self else .other

/-- … and back: what the pointer is after an operation on instance `cur` left `St.observer = r`. -/
def absObserver (cur : Nat) (old : Option Nat) (r : Observer) : Option Nat :=
  match r with
  | .self => some cur
  | .other => old
  | .none => none

structure World where
  /-- process-wide state, and the fields of instance `cur` -/
  st : St
  cur : Nat := 0
  /-- the instances by index (the entry of `cur` is as of the end of the last operation) -/
  saved : List Inst := List.replicate NINST {}
  /-- `signal_observer` of evloop-default.c: index of the instance whose loop it points at -/
  observer : Option Nat := none
deriving Repr, Inhabited

namespace World

/-- Write the current instance — and the observer's `pending_signals` when the observer is another
    instance — back into the table. -/
def store (w : World) : World :=
  { w with saved :=
      match w.st.observer, w.observer with
      | .other, some o =>
        (w.saved.set w.cur w.st.inst).set o { (w.saved.set w.cur w.st.inst).getD o {} with pendingSig := w.st.otherPending }
      | _, _ => w.saved.set w.cur w.st.inst }

/-- Make instance `i` the one operated on. -/
def load (w : World) (i : Nat) : World :=
  { w with
    cur := i,
    st := { w.st.withInst (w.saved.getD i {}) with
            observer := relObserver w.observer i,
            otherPending := match w.observer with
              | some o => if o = i then [] else (w.saved.getD o {}).pendingSig
              | none => [] } }

/-- The result `st'` of an operation on the current instance becomes the world's state. -/
def sync (w : World) (st' : St) : World :=
  store { w with st := st', observer := absObserver w.cur w.observer st'.observer }

end World

/-- `evloop_init` and the head of `tickit_build` on the process state `st` (no instance loaded):
    a fresh `struct Tickit`/`EventLoopData`; `if(!signal_observer) signal_observer = evdata;`. -/
def build0On (st : St) : St :=
  { st with alive := true, iow := [], timers := [], laters := [], signals := [], procs := [], sigchldwatch := none,
            pfd := [], signums := [], watched := [], stillRunning := false,
            pendingSig := if st.cfg.pendingInit then [] else (signalRange.filter fillSigMember),
            observer := if st.observer = .none then .self else st.observer }

/-- `tickit_build` of a further instance on a headless terminal: the terminal's input watch
    (descriptor -1) and the SIGWINCH watch, as `build` does for the first. -/
def buildOn (st : St) : St :=
  { (watchSignal (watchIo (build0On st) (-1) IO_IN 0 (-1)).1 SIGWINCH 0 (-2)).1 with log := [] }

/-- Operations of the harness: those of one instance, and the two that name an instance. -/
inductive WOp
  | inst (i : Nat)       -- make instance `i` current; build it when it does not exist
  | use (i : Nat)        -- make instance `i` current
  | op (o : Op)
deriving DecidableEq, Repr, Inhabited

namespace World

/-- `new`: a process with one instance, number 0, which `evloop_init` made the signal observer. -/
def init (cfg : Config) : World := store { st := build cfg, cur := 0, observer := some 0 }

def step (w : World) (op : WOp) : World :=
  match op with
  | .use i =>
    if !w.st.isOk || i ≥ NINST then { w with st := { w.st with log := [] } }
    else { (w.load i) with st := { (w.load i).st with log := [] } }
  | .inst i =>
    if !w.st.isOk || i ≥ NINST then { w with st := { w.st with log := [] } }
    else if (w.load i).st.alive then { (w.load i) with st := { (w.load i).st with log := [] } }
    else (w.load i).sync (buildOn { (w.load i).st with log := [] })
  | .op o => w.sync (applyOp w.st o)

def run (cfg : Config) (ops : List WOp) : World := ops.foldl step (init cfg)

/-- Blocks LeakSanitizer would report: allocated, not freed, and reachable from no live instance. -/
def leaked (w : World) : List Nat :=
  let insts := w.saved.filter (·.alive)
  let roots := insts.flatMap fun i => i.iow ++ i.timers ++ i.laters ++ i.signals ++ i.procs
  let carried := roots.filterMap fun a =>
    let x := w.st.getW a
    if x.type = .later && x.slot = -4 then some x.puser else none
  (List.range w.st.heap.length).filter fun a => w.st.live a && !roots.contains a && !carried.contains a

end World

end Tickit.EvLoop
