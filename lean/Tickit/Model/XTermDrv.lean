import Tickit.Model.Rect
import Tickit.Model.VT
import Tickit.Model.Utf8
/-
  Byte-exact model of the drawing requests of /repo/src/termdriver-xterm.c (`print`, `goto_abs`, `move_rel`,
  `scrollrect`, `erasech`, `clear`) as reached through the `tickit_term_*` entry points of /repo/src/term.c,
  statement by statement, producing the bytes handed to the output function.  `showInt` is our `%d`.
  Of `chpen` / `tickit_term_setpen` / `tickit_term_chpen` only what C09 needs is modelled: pens that carry a
  background index and/or reverse video (the full pen encoder belongs to C10).
  Then: the *specification* of each request as a function on VT screens (`Spec`), which is what the theorems of
  Props/C09.lean and the runtime oracle of Driver/XTerm.lean compare the interpreted bytes with.
  Core Lean only: this file is linked into the driver executable.
-/
namespace Tickit.XTermDrv
open Tickit

/-! ### `%d` -/

/-- Decimal digits of a natural number, most significant first (`%u`); `fuel` bounds the number of digits. -/
def showNatF : Nat → Nat → List UInt8
  | 0, _ => []
  | fuel + 1, n => if n < 10 then [UInt8.ofNat (48 + n)] else showNatF fuel (n / 10) ++ [UInt8.ofNat (48 + n % 10)]

def showNat (n : Nat) : List UInt8 := showNatF (n + 1) n

/-- `%d`. -/
def showInt (i : Int) : List UInt8 :=
  if i < 0 then 0x2d :: showNat (-i).toNat else showNat i.toNat

/-- Reading `%d` output back (`strtol`-like: optional `-`, then digits only). -/
def readInt (bs : List UInt8) : Option Int :=
  match bs with
  | [] => none
  | b :: rest =>
    if b = 0x2d then
      match VT.readNat rest with
      | some n => some (-(Int.ofNat n))
      | none => none
    else
      match VT.readNat (b :: rest) with
      | some n => some (Int.ofNat n)
      | none => none

/-- `ESC [` + body. -/
def csi (body : List UInt8) : List UInt8 := 0x1b :: 0x5b :: body

/-! ### Capabilities and the driver-visible state -/

structure Caps where
  slrm : Bool
  colon : Bool
  rgb8 : Bool
deriving DecidableEq, Repr, Inhabited

/-- Which of the repairs proposed in `fixes/` the working tree contains (read from the source by
    `bin/extract.d/30_xterm.py` into `Gen.XTermFacts`); the model mirrors either version of the code. -/
structure Fixes where
  /-- `scrollrect` returns `false` when a needed DECSTBM / DECSLRM margin would be degenerate
      (`fixes/C09_scroll_one_column.patch`). -/
  scrollGuard : Bool
  /-- the reverse-video erase loop counts down a copy, so `move_rel` gets the full `count`
      (`fixes/C09_rv_erase_over_64.patch`). -/
  eraseKeepsCount : Bool
  /-- `tickit_term_printn` returns at once for `len == 0` instead of letting `write_str` take it for "use
      `strlen`" (`fixes/C09_printn_zero_len.patch`). -/
  printnGuard : Bool
  /-- `tickit_term_resume` ends with `chpen(driver, tt->pen, tt->pen)`: the cached pen is sent again after the
      `CSI m` of `tickit_term_pause` (`fixes/C12_pause_pen.patch`, found by the C12 engine). -/
  resumeResendsPen : Bool
  /-- the one-line ICH/DCH path of `scrollrect` returns `false` when the right margin it needs would be column 1
      (`if(right < term_cols && right < 2) return false;`, `fixes/C09_scroll_one_cell.patch`): `CSI ;1 s` would be
      ignored and ICH/DCH would shift the whole line. -/
  scrollCellGuard : Bool
deriving DecidableEq, Repr, Inhabited

/-- The code as found in the unchanged tree. -/
def Fixes.none : Fixes := ⟨false, false, false, false, false⟩

/-- `printf` restricted to `%d`: the format strings of the source, instantiated. -/
def fmt : List UInt8 → List Int → List UInt8
  | [], _ => []
  | [b], _ => [b]
  | a :: b :: rest, args =>
    if a = 0x25 ∧ b = 0x64 then
      match args with
      | x :: more => showInt x ++ fmt rest more
      | [] => fmt rest []
    else a :: fmt (b :: rest) args

/-- `TickitMaybeBool`. -/
inductive MoveEnd | no | yes | maybe
deriving DecidableEq, Repr, Inhabited

def MoveEnd.ofInt (i : Int) : MoveEnd := if i = 0 then .no else if i = 1 then .yes else .maybe

/-! ### `print` (through `write_str`, whose `len == 0` means `strlen`) -/

def print (fx : Fixes) (str : List UInt8) (len : Nat) : List UInt8 :=
  if len = 0 then (if fx.printnGuard then [] else str.takeWhile (· ≠ 0)) else str.take len

/-! ### `goto_abs` -/

def gotoAbs (line col : Int) : List UInt8 :=
  if line ≠ -1 ∧ col > 0 then csi (showInt (line + 1) ++ [0x3b] ++ showInt (col + 1) ++ [0x48])
  else if line ≠ -1 ∧ col = 0 then csi (showInt (line + 1) ++ [0x48])
  else if line ≠ -1 then csi (showInt (line + 1) ++ [0x64])
  else if col > 0 then csi (showInt (col + 1) ++ [0x47])
  else if col ≠ -1 then csi [0x47]
  else []

/-! ### `move_rel` -/

/-- The `n > 1 → CSI n X`, `n == 1 → CSI X`, `n == -1 → CSI Y`, `n < -1 → CSI -n Y` ladder that recurs in the
    driver (`pos`/`neg` are the final bytes, `inter` an optional intermediate). -/
def signedSeq (n : Int) (inter : List UInt8) (pos neg : UInt8) : List UInt8 :=
  if n > 1 then csi (showInt n ++ inter ++ [pos])
  else if n = 1 then csi (inter ++ [pos])
  else if n = -1 then csi (inter ++ [neg])
  else if n < -1 then csi (showInt (-n) ++ inter ++ [neg])
  else []

def moveRel (downward rightward : Int) : List UInt8 :=
  signedSeq downward [] 0x42 0x41 ++ signedSeq rightward [] 0x43 0x44

/-! ### `scrollrect` -/

/-- Body of the per-line loop of the ICH/DCH strategy. -/
def scrollLine (line left rightward : Int) : List UInt8 :=
  gotoAbs line left ++ signedSeq rightward [] 0x50 0x40

/-- `scrollrect`: `(return value, bytes)`. -/
def scrollrect (fx : Fixes) (caps : Caps) (termCols : Int) (rect : Rect) (downward rightward : Int) : Bool × List UInt8 :=
  if downward = 0 ∧ rightward = 0 then (true, [])
  else
    let right := rect.right
    if ((caps.slrm ∧ rect.lines = 1) ∨ right = termCols) ∧ downward = 0 then
      if fx.scrollCellGuard ∧ right < termCols ∧ right < 2 then (false, [])
      else
      (true,
        (if right < termCols then csi ([0x3b] ++ showInt right ++ [0x73]) else []) ++
        ((List.range rect.lines.toNat).flatMap fun (i : Nat) => scrollLine (rect.top + (i : Int)) rect.left rightward) ++
        (if right < termCols then csi [0x73] else []))
    else if caps.slrm ∨ (rect.left = 0 ∧ rect.cols = termCols ∧ rightward = 0) then
      if fx.scrollGuard ∧ (rect.lines < 2 ∨ ((rect.left > 0 ∨ right < termCols) ∧ rect.cols < 2)) then (false, [])
      else
      (true,
        csi (showInt (rect.top + 1) ++ [0x3b] ++ showInt rect.bottom ++ [0x72]) ++
        (if rect.left > 0 ∨ right < termCols then csi (showInt (rect.left + 1) ++ [0x3b] ++ showInt right ++ [0x73]) else []) ++
        gotoAbs rect.top rect.left ++
        signedSeq downward [] 0x4d 0x4c ++
        signedSeq rightward [0x27] 0x7e 0x7d ++
        csi [0x72] ++
        (if rect.left > 0 ∨ right < termCols then csi [0x73] else []))
    else (false, [])

/-! ### `erasech` -/

/-- Value of the C variable `count` after `while(count > 64) { write 64 spaces; count -= 64; }` (for `count ≥ 1`):
    the loop *modifies* `count`, and the `move_rel(0, -count)` that follows uses what is left of it. -/
def eraseRemainder (count : Int) : Int := count - 64 * ((count - 1) / 64)

/-- `rv` is `tickit_pen_get_bool_attr(current pen, TICKIT_PEN_REVERSE)`.  The 64-byte chunk loop of the
    reverse-video branch emits `count` spaces in all (`64 * k` in the loop, the remainder after it). -/
def erasech (fx : Fixes) (rv : Bool) (count : Int) (moveend : MoveEnd) : List UInt8 :=
  if count < 1 then []
  else if !rv then
    (if count = 1 then csi [0x58] else csi (showInt count ++ [0x58])) ++
    (if moveend = .yes then moveRel 0 count else [])
  else
    List.replicate count.toNat 0x20 ++
    (if moveend = .no then moveRel 0 (-(if fx.eraseKeepsCount then count else eraseRemainder count)) else [])

/-! ### `clear` -/

def clear : List UInt8 := csi [0x32, 0x4a]

/-! ### The pen: `tickit_term_setpen` / `tickit_term_chpen` + `chpen`, for pens with `bg` and `rv` only -/

/-- The terminal's cached pen `tt->pen`, as far as this engine can influence it: `others` says that the eight
    attributes this engine never sets are present (with their default values, after a `setpen`). -/
structure PenCache where
  others : Bool
  bg : Option Int
  rv : Option Bool
deriving DecidableEq, Repr, Inhabited

def PenCache.empty : PenCache := ⟨false, none, none⟩

/-- A pen handed to setpen/chpen. -/
structure PenReq where
  bg : Option Int
  rv : Option Bool
deriving DecidableEq, Repr, Inhabited

/-- `tickit_pen_get_bool_attr(pen, TICKIT_PEN_REVERSE)` of the cached pen. -/
def PenCache.reverse (p : PenCache) : Bool := p.rv.getD false

/-- `tickit_pen_is_nondefault` of the cached pen. -/
def PenCache.nondefault (p : PenCache) : Bool :=
  (match p.bg with | some v => v ≠ -1 | none => false) || p.rv.getD false

/-- One SGR parameter: value and the `CSI_MORE_SUBPARAM` mark. -/
structure SgrParam where
  val : Int
  more : Bool
deriving DecidableEq, Repr

def bgParams (v : Int) : List SgrParam :=
  if v < 0 then [⟨49, false⟩]
  else if v < 8 then [⟨40 + v, false⟩]
  else if v < 16 then [⟨40 + 60 + v - 8, false⟩]
  else [⟨48, true⟩, ⟨5, true⟩, ⟨v, false⟩]

/-- Rendering of `params[0 .. pindex)` into `ESC [ … m`. -/
def renderSgr (colon : Bool) : List SgrParam → List UInt8
  | [] => [0x6d]
  | [p] => showInt p.val ++ [0x6d]
  | p :: q :: rest => showInt p.val ++ [if p.more ∧ colon then 0x3a else 0x3b] ++ renderSgr colon (q :: rest)

/-- `chpen` of the driver given the delta's parameter list and the final (cached) pen. -/
def chpenBytes (colon : Bool) (params : List SgrParam) (final : PenCache) : List UInt8 :=
  if params = [] then []
  else if !final.nondefault then csi [0x6d]
  else csi (renderSgr colon params)

/-- The parameters `chpen` collects for the delta of a `setpen`: `o` = the eight attributes this engine never sets
    were absent from the cache (they are all in the delta, with their default values), in attribute order. -/
def setpenParams (o bgChanged rvChanged : Bool) (bgv : Int) (rvv : Bool) : List SgrParam :=
  (if o then [⟨39, false⟩] else []) ++                   -- fg
  (if bgChanged then bgParams bgv else []) ++             -- bg
  (if o then [⟨22, false⟩, ⟨24, false⟩, ⟨23, false⟩] else []) ++   -- bold, under, italic
  (if rvChanged then [⟨if rvv then 7 else 27, false⟩] else []) ++  -- reverse
  (if o then [⟨29, false⟩, ⟨10, false⟩, ⟨25, false⟩, ⟨75, false⟩] else [])  -- strike, altfont, blink, sizepos

/-- `tickit_term_setpen` followed by the driver's `chpen`: `(new cache, bytes)`. -/
def setpen (caps : Caps) (cache : PenCache) (pen : PenReq) : PenCache × List UInt8 :=
  let bgv := pen.bg.getD (-1)
  let rvv := pen.rv.getD false
  let bgChanged : Bool := decide (cache.bg ≠ some bgv)
  let rvChanged : Bool := decide (cache.rv ≠ some rvv)
  let cache' : PenCache := ⟨true, some bgv, some rvv⟩
  (cache', chpenBytes caps.colon (setpenParams (!cache.others) bgChanged rvChanged bgv rvv) cache')

/-- `tickit_term_chpen` copies an attribute the pen has unless the cache has it with an equal value. -/
def changedBy {α : Type} [DecidableEq α] (cache pen : Option α) : Bool :=
  match pen with
  | some v => decide (cache ≠ some v)
  | none => false

/-- `tickit_term_chpen` followed by the driver's `chpen`. -/
def chpen (caps : Caps) (cache : PenCache) (pen : PenReq) : PenCache × List UInt8 :=
  let bgChanged : Bool := changedBy cache.bg pen.bg
  let rvChanged : Bool := changedBy cache.rv pen.rv
  let cache' : PenCache :=
    ⟨cache.others, if bgChanged then pen.bg else cache.bg, if rvChanged then pen.rv else cache.rv⟩
  (cache', chpenBytes caps.colon
    (setpenParams false bgChanged rvChanged (pen.bg.getD (-1)) (pen.rv.getD false)) cache')

/-! ### `tickit_term_pause` / `tickit_term_resume` (term.c) and the driver's `teardown` / `resume` -/

/-- What `tickit_term_pause` makes the driver write: xterm's `teardown()` with the modes this engine never touches
    (mouse off, cursor visible, main screen, numeric keypad) sends only the pen reset `CSI m` (the same literal as
    `Gen.TermBuf.teardown_pen_reset`, regenerated from the source: Props `pauseBytes_from_source`).  Nothing is sent
    about DECLRMM: the mode `start()` switched on stays on. -/
def pauseBytes : List UInt8 := csi [0x6d]

/-- What `tickit_term_resume` makes the driver write: xterm's `resume()` sends nothing for those modes (and nothing
    about DECLRMM), then — in a tree with `fixes/C12_pause_pen.patch` — `chpen(driver, tt->pen, tt->pen)`: the cached
    pen is both the delta and the final pen, so every attribute the cache holds is sent again. -/
def resumeBytes (fx : Fixes) (caps : Caps) (cache : PenCache) : List UInt8 :=
  if fx.resumeResendsPen then
    chpenBytes caps.colon
      (setpenParams cache.others cache.bg.isSome cache.rv.isSome (cache.bg.getD (-1)) (cache.rv.getD false)) cache
  else []

/-- `tickit_term_pause` immediately followed by `tickit_term_resume`. -/
def suspendBytes (fx : Fixes) (caps : Caps) (cache : PenCache) : List UInt8 := pauseBytes ++ resumeBytes fx caps cache

/-- The cached background, if any, is the default or a palette index (true of every cache built from `Spec.PenOK`
    pens: `cacheOK_setpen`, `cacheOK_chpen`). -/
def CacheOK (cache : PenCache) : Prop := ∀ v, cache.bg = some v → -1 ≤ v ∧ v ≤ 255

/-! ### `start`: the probe string sent when the output method is set -/

def strBytes (s : String) : List UInt8 := s.toUTF8.toList

def startBytes : List UInt8 :=
  strBytes "\x1b[?69h" ++ strBytes "\x1b[?69$p" ++ strBytes "\x1b[?25$p\x1b[?12$p\x1bP$q q\x1b\\" ++
  strBytes "\x1b[38;5;255m\x1b[38:2:0:1:2m\x1bP$qm\x1b\\\x1b[m" ++ strBytes "\x1b[G\x1b[K"

/-! ### The start-up probe: `on_modereport` for DEC mode 69 -/

/-- `xd->cap.slrm` after the DECRPM reply `CSI ? 69 ; v $ y`: `accept` lists the values the `if` of
    `on_modereport` case 69 takes for support (read from the source into `Gen.XTermFacts.slrmAccept`; the unchanged
    tree has `value == 1 || value == 2`). -/
def slrmCap (accept : List Nat) (v : Nat) : Bool := accept.contains v

/-- The probe is truthful for reply `v`: a claimed DECSLRM capability means that DECLRMM is set (`Spec.CapsOK` for
    the screen the reply describes). -/
def ProbeTruthful (accept : List Nat) (v : Nat) : Prop := slrmCap accept v = true → VT.declrmmOfReply v = true

/-- `xd->mode.cursorvis` / `xd->mode.cursorblink` after the replies for modes 25 and 12 (`new()` starts with
    cursorvis = 1, cursorblink = 0; a reply of 1 sets the flag, nothing clears it). -/
def cursorvisOfReply (_v : Nat) : Bool := true
def cursorblinkOfReply (v : Nat) : Bool := v = 1

/-! ### Requests -/

inductive Request
  | goto (line col : Int)
  | move (downward rightward : Int)
  | print (str : List UInt8) (len : Nat)
  | erasech (count : Int) (moveend : MoveEnd)
  | clear
  | scroll (rect : Rect) (downward rightward : Int)
deriving Repr

/-- The driver-side state a request depends on. -/
structure Drv where
  caps : Caps
  lines : Int
  cols : Int
  pen : PenCache
deriving Repr, Inhabited

/-- Bytes and return value of a drawing request. -/
def request (fx : Fixes) (d : Drv) : Request → Bool × List UInt8
  | .goto l c => (true, gotoAbs l c)
  | .move dn rt => (true, moveRel dn rt)
  | .print s n => (true, print fx s n)
  | .erasech n me => (true, erasech fx d.pen.reverse n me)
  | .clear => (true, clear)
  | .scroll r dn rt => scrollrect fx d.caps d.cols r dn rt

/-! ### Specification: what each request asks of the screen -/

namespace Spec
open VT

/-- The requested cursor position becomes the cursor; nothing else changes (`-1` keeps a coordinate). -/
def goto (line col : Int) (vt : VTState) : VTState :=
  if line = -1 ∧ col = -1 then vt
  else { vt with row := if line = -1 then vt.row else line, col := if col = -1 then vt.col else col, pendingWrap := false }

def move (downward rightward : Int) (vt : VTState) : VTState :=
  if downward = 0 ∧ rightward = 0 then vt
  else { vt with row := vt.row + downward, col := vt.col + rightward, pendingWrap := false }

/-- Grid after erasing `count` cells from the cursor: blank glyph, current background, current reverse state. -/
def eraseGrid (count : Int) (vt : VTState) : Int → Int → Cell := fun l c =>
  if l = vt.row ∧ vt.col ≤ c ∧ c < vt.col + count then ⟨32, vt.bg, vt.rv⟩ else vt.grid l c

/-- Grid after `clear`: the whole screen blank with the current background. -/
def clearGrid (vt : VTState) : Int → Int → Cell := fun l c =>
  if vt.inScreen l c then Cell.blank vt.bg else vt.grid l c

/-- Grid after a successful scroll: inside the rectangle every cell shows the old cell at offset
    `(downward, rightward)` or a blank (current background) if that falls outside the rectangle; every cell
    outside the rectangle is unchanged. -/
def scrollGrid (rect : Rect) (downward rightward : Int) (vt : VTState) : Int → Int → Cell := fun l c =>
  if rect.top ≤ l ∧ l < rect.bottom ∧ rect.left ≤ c ∧ c < rect.right then
    (if rect.top ≤ l + downward ∧ l + downward < rect.bottom ∧ rect.left ≤ c + rightward ∧ c + rightward < rect.right
     then vt.grid (l + downward) (c + rightward) else Cell.blank vt.bg)
  else vt.grid l c

/-- Grid after printing width-1 code points `cps` from the cursor. -/
def printGrid (cps : List Nat) (vt : VTState) : Int → Int → Cell := fun l c =>
  if l = vt.row ∧ vt.col ≤ c ∧ c < vt.col + cps.length then ⟨cps.getD (c - vt.col).toNat 32, vt.bg, vt.rv⟩
  else vt.grid l c

/-- The screen states the requests are specified on: tokenizer in the ground state, cursor on the screen,
    no margins set. -/
structure WF (vt : VTState) : Prop where
  ground : vt.ps = .ground
  row_lo : 0 ≤ vt.row
  row_hi : vt.row < vt.lines
  col_lo : 0 ≤ vt.col
  col_hi : vt.col < vt.cols
  mtop : vt.top = 0
  mbot : vt.bottom = vt.lines - 1
  mleft : vt.left = 0
  mright : vt.right = vt.cols - 1

/-- The probed DECSLRM capability is truthful: a terminal that answered the DECRQM probe positively has DECLRMM
    set (start-up sends `CSI ? 69 h` before asking). -/
def CapsOK (caps : Caps) (vt : VTState) : Prop := caps.slrm = true → vt.declrmm = true

/-- Everything except grid, cursor and pending wrap is as before (size, margins, DECLRMM, rendering attributes,
    tokenizer state). -/
def sameModes (vt vt' : VTState) : Prop :=
  vt'.lines = vt.lines ∧ vt'.cols = vt.cols ∧ vt'.top = vt.top ∧ vt'.bottom = vt.bottom ∧ vt'.left = vt.left ∧
  vt'.right = vt.right ∧ vt'.declrmm = vt.declrmm ∧ vt'.bg = vt.bg ∧ vt'.rv = vt.rv ∧ vt'.ps = vt.ps

/-- `erasech count moveend` took the screen from `vt` to `vt'`: exactly `count` cells from the cursor are blank with
    the current background, nothing else changed, and the cursor is where `moveend` demands (`YES` ending exactly at
    the right edge asks for a column that is not on the screen: the cursor is then on the last column). -/
def EraseOK (count : Int) (me : MoveEnd) (vt vt' : VTState) : Prop :=
  sameModes vt vt' ∧ vt'.grid = eraseGrid count vt ∧ vt'.row = vt.row ∧
  (me = .no → vt'.col = vt.col ∧ vt'.pendingWrap = false) ∧
  (me = .yes → (vt.col + count < vt.cols → vt'.col = vt.col + count ∧ vt'.pendingWrap = false) ∧
               (vt.col + count = vt.cols → vt'.col = vt.cols - 1)) ∧
  (0 ≤ vt'.col ∧ vt'.col < vt.cols)

/-- A successful `scrollrect` took the screen from `vt` to `vt'`: the cells of the rectangle moved by the offsets,
    vacated cells blank, nothing outside touched, margins (and everything else) as before; the cursor is somewhere
    on the screen. -/
def ScrollOK (rect : Rect) (downward rightward : Int) (vt vt' : VTState) : Prop :=
  sameModes vt vt' ∧ vt'.grid = scrollGrid rect downward rightward vt ∧
  0 ≤ vt'.row ∧ vt'.row < vt.lines ∧ 0 ≤ vt'.col ∧ vt'.col < vt.cols

/-- The library's own UTF-8 encoding (`tickit_utf8_put`, Model/Utf8.lean) of a text given as code points. -/
def utf8 (cps : List Nat) : List UInt8 := cps.flatMap fun cp => (Utf8.putBytes cp).map UInt8.ofNat

/-- A code point a text may contain: not a C0/C1 control or DEL, inside the Unicode range. -/
def Printable (cp : Nat) : Prop := 0x20 ≤ cp ∧ ¬ (0x7f ≤ cp ∧ cp < 0xa0) ∧ cp < 0x110000
instance (cp : Nat) : Decidable (Printable cp) := by unfold Printable; exact inferInstance

/-- The cells one character occupies: nothing for a zero-width (combining) one, its glyph for a width-1 one,
    glyph + continuation cell `0` for a double-width one. -/
def cellsOf (cp : Nat) : List Nat :=
  match VT.width cp with
  | 0 => []
  | 1 => [cp]
  | _ => [cp, 0]

/-- The cells a text occupies; its length is the sum of the widths. -/
def textCells (cps : List Nat) : List Nat := cps.flatMap cellsOf

/-- Grid after writing `cells` from the cursor with the current attributes. -/
def cellsGrid (cells : List Nat) (vt : VTState) : Int → Int → Cell := fun l c =>
  if l = vt.row ∧ vt.col ≤ c ∧ c < vt.col + cells.length then ⟨cells.getD (c - vt.col).toNat 32, vt.bg, vt.rv⟩
  else vt.grid l c

/-- Screen after writing `cells` (at least one, all fitting in the row) from a cursor with no wrap pending: the
    cursor advances by their number, or stays on the last column with the wrap pending when they end at the edge. -/
def placeCells (cells : List Nat) (vt : VTState) : VTState :=
  { vt with grid := cellsGrid cells vt,
            col := if vt.col + cells.length < vt.cols then vt.col + cells.length else vt.cols - 1,
            pendingWrap := decide (vt.col + cells.length = vt.cols) }

/-- The terminal's rendering state agrees with the driver's cached pen: reverse video as `erasech` reads it, and the
    background whenever the cache knows it. -/
def PenInv (cache : PenCache) (vt : VTState) : Prop :=
  vt.rv = cache.reverse ∧ (∀ v, cache.bg = some v → vt.bg = v)

/-- A pen whose background, if any, is the default or a palette index. -/
def PenOK (pen : PenReq) : Prop := ∀ v, pen.bg = some v → -1 ≤ v ∧ v ≤ 255

/-- Margins are the full screen. -/
def marginsReset (vt : VTState) : Prop :=
  vt.top = 0 ∧ vt.bottom = vt.lines - 1 ∧ vt.left = 0 ∧ vt.right = vt.cols - 1
instance (vt : VTState) : Decidable (marginsReset vt) := by unfold marginsReset; exact inferInstance

end Spec

/-- The in-range contract of a scroll request on screen `vt` (DESIGN.md Appendix C). -/
structure ScrollInRange (vt : VT.VTState) (rect : Rect) (downward rightward : Int) : Prop where
  lines_pos : 1 ≤ rect.lines
  cols_pos : 1 ≤ rect.cols
  top : 0 ≤ rect.top
  bottom : rect.bottom ≤ vt.lines
  left : 0 ≤ rect.left
  right : rect.right ≤ vt.cols
  down : -rect.lines < downward ∧ downward < rect.lines
  rightw : -rect.cols < rightward ∧ rightward < rect.cols

/-- A non-empty rectangle on the screen `vt`: all a scroll request needs for the repaired source, where the offsets may
    be of any size (Props `scroll_any_offset_of_guards`). -/
structure RectOnScreen (vt : VT.VTState) (rect : Rect) : Prop where
  lines_pos : 1 ≤ rect.lines
  cols_pos : 1 ≤ rect.cols
  top : 0 ≤ rect.top
  bottom : rect.bottom ≤ vt.lines
  left : 0 ≤ rect.left
  right : rect.right ≤ vt.cols

/-- The trigger of the defect `scroll_one_column_counterexample`: a one-column rectangle that does not span the
    terminal, scrolled vertically, with DECSLRM available. -/
def OneColumnTrigger (caps : Caps) (termCols : Int) (rect : Rect) (downward : Int) : Prop :=
  caps.slrm = true ∧ rect.cols = 1 ∧ downward ≠ 0 ∧ (rect.left > 0 ∨ rect.right < termCols)

instance (caps : Caps) (termCols : Int) (rect : Rect) (downward : Int) :
    Decidable (OneColumnTrigger caps termCols rect downward) := by unfold OneColumnTrigger; exact inferInstance


/-! ### Sequences of requests -/

/-- The in-range contract of one request on screen `vt` (DESIGN.md Appendix C), together with the side conditions
    that exclude the defects of the unchanged tree (each proved necessary by a counterexample theorem in
    Props/C09.lean).  `d` is the driver-side state: probed capabilities, terminal size, cached pen. -/
def InContract (fx : Fixes) (d : Drv) (vt : VT.VTState) : Request → Prop
  | .goto line col => (line = -1 ∨ (0 ≤ line ∧ line < vt.lines)) ∧ (col = -1 ∨ (0 ≤ col ∧ col < vt.cols))
  | .move dn rt => (0 ≤ vt.row + dn ∧ vt.row + dn < vt.lines) ∧ (0 ≤ vt.col + rt ∧ vt.col + rt < vt.cols)
  | .print s n => vt.pendingWrap = false ∧ n = s.length ∧
      ∃ cps : List Nat, s = Spec.utf8 cps ∧ (∀ cp ∈ cps, Spec.Printable cp) ∧
        vt.col + (Spec.textCells cps).length ≤ vt.cols
  | .erasech n me => vt.pendingWrap = false ∧ 1 ≤ n ∧ vt.col + n ≤ vt.cols ∧
      (fx.eraseKeepsCount = false → d.pen.reverse = true → me = .no → n ≤ 64) ∧
      (d.pen.reverse = true → me = .no → vt.col + n = vt.cols → vt.col = 0)
  | .clear => True
  | .scroll r dn rt =>
      -- a non-empty rectangle on the screen; the offsets are bounded by the rectangle's size only where the source
      -- lacks the guard that makes `scrollrect` refuse what it cannot do (Props `scroll_effect_general`): with both
      -- guards (`fixes/C09_scroll_one_column.patch`, `fixes/C09_scroll_one_cell.patch`) offsets of ANY size are in range
      RectOnScreen vt r ∧
      (fx.scrollGuard = false → (-r.lines < dn ∧ dn < r.lines) ∧ ¬ OneColumnTrigger d.caps vt.cols r dn) ∧
      (fx.scrollGuard = false ∨ fx.scrollCellGuard = false → -r.cols < rt ∧ rt < r.cols)

/-- What one request must have done to the screen. -/
def StepOK (fx : Fixes) (d : Drv) (vt vt' : VT.VTState) : Request → Prop
  | .goto line col => vt' = Spec.goto line col vt
  | .move dn rt => vt' = Spec.move dn rt vt
  | .print s _ => ∀ cps : List Nat, s = Spec.utf8 cps → (∀ cp ∈ cps, Spec.Printable cp) →
      vt.col + (Spec.textCells cps).length ≤ vt.cols → vt' = Spec.placeCells (Spec.textCells cps) vt
  | .erasech n me => Spec.EraseOK n me vt vt'
  | .clear => vt' = { vt with grid := Spec.clearGrid vt }
  | .scroll r dn rt =>
    if (scrollrect fx d.caps d.cols r dn rt).1 = true then Spec.ScrollOK r dn rt vt vt' else vt' = vt

/-- Every request of the sequence is in range on the screen it meets. -/
def AllInContract (fx : Fixes) (d : Drv) : VT.VTState → List Request → Prop
  | _, [] => True
  | vt, q :: qs => InContract fx d vt q ∧ AllInContract fx d (VT.run (request fx d q).2 vt) qs

/-- Every request of the sequence had exactly its effect. -/
def AllStepsOK (fx : Fixes) (d : Drv) : VT.VTState → List Request → Prop
  | _, [] => True
  | vt, q :: qs => StepOK fx d vt (VT.run (request fx d q).2 vt) q ∧ AllStepsOK fx d (VT.run (request fx d q).2 vt) qs

/-- Screen after a sequence of requests. -/
def runRequests (fx : Fixes) (d : Drv) : VT.VTState → List Request → VT.VTState
  | vt, [] => vt
  | vt, q :: qs => runRequests fx d (VT.run (request fx d q).2 vt) qs

/-! ### Histories: drawing requests interleaved with pen changes -/

inductive Op
  | req (q : Request)
  | setpen (p : PenReq)
  | chpen (p : PenReq)
  /-- `tickit_term_set_size` after the emulator's window changed to `lines` x `cols` -/
  | resize (lines cols : Int)
  /-- `tickit_term_pause` immediately followed by `tickit_term_resume` (the process was stopped in between; the
      terminal is assumed to come back as it was left) -/
  | suspend
deriving Repr

/-- What the reference terminal shows in the cells a resize adds (any content would do: the theorems hold for every
    screen content; distinct glyphs make a misplaced cell visible to the runtime oracle). -/
def freshGrid (cols : Int) : Int → Int → VT.Cell := fun l c => ⟨0x140000 + (l * cols + c).toNat, -1, false⟩

/-- One operation on (driver-side state, screen). -/
def stepOp (fx : Fixes) (s : Drv × VT.VTState) : Op → Drv × VT.VTState
  | .req q => (s.1, VT.run (request fx s.1 q).2 s.2)
  | .setpen p => ({ s.1 with pen := (setpen s.1.caps s.1.pen p).1 }, VT.run (setpen s.1.caps s.1.pen p).2 s.2)
  | .chpen p => ({ s.1 with pen := (chpen s.1.caps s.1.pen p).1 }, VT.run (chpen s.1.caps s.1.pen p).2 s.2)
  | .resize l c => ({ s.1 with lines := l, cols := c }, s.2.resize l c (freshGrid c))   -- the driver sends nothing
  | .suspend => (s.1, VT.run (suspendBytes fx s.1.caps s.1.pen) s.2)

def OpInContract (fx : Fixes) (s : Drv × VT.VTState) : Op → Prop
  | .req q => InContract fx s.1 s.2 q
  | .setpen p => Spec.PenOK p
  | .chpen p => Spec.PenOK p
  | .resize l c => 1 ≤ l ∧ 1 ≤ c
  | .suspend => fx.resumeResendsPen = true ∧ CacheOK s.1.pen

/-- A request had exactly its effect; a pen change touched nothing but the rendering attributes. -/
def OpOK (fx : Fixes) (s s' : Drv × VT.VTState) : Op → Prop
  | .req q => StepOK fx s.1 s.2 s'.2 q
  | .setpen _ => s'.2 = { s.2 with bg := s'.2.bg, rv := s'.2.rv }
  | .chpen _ => s'.2 = { s.2 with bg := s'.2.bg, rv := s'.2.rv }
  | .resize l c => s'.2 = s.2.resize l c (freshGrid c) ∧ s'.1.lines = l ∧ s'.1.cols = c ∧ s'.1.caps = s.1.caps ∧
      s'.1.pen = s.1.pen
  | .suspend => s'.2 = { s.2 with bg := s'.2.bg, rv := s'.2.rv } ∧ s'.1 = s.1

def AllOpsInContract (fx : Fixes) : Drv × VT.VTState → List Op → Prop
  | _, [] => True
  | s, o :: os => OpInContract fx s o ∧ AllOpsInContract fx (stepOp fx s o) os

def AllOpsOK (fx : Fixes) : Drv × VT.VTState → List Op → Prop
  | _, [] => True
  | s, o :: os => OpOK fx s (stepOp fx s o) o ∧ AllOpsOK fx (stepOp fx s o) os

def runOps (fx : Fixes) : Drv × VT.VTState → List Op → Drv × VT.VTState
  | s, [] => s
  | s, o :: os => runOps fx (stepOp fx s o) os

end Tickit.XTermDrv
